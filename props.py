# Per-property configuration of the ./check driver and source of MANIFEST.json (tools/gen_manifest.py).
# One JSON file per property under props.d/: kind (gotest|blackbox), pkg, test, files (relative to overlay/),
# race (bool or {tier: bool}), shards {tier: n}, timeout {tier: seconds}, level, technique, level_text, level_note,
# optional: env, gomaxprocs, ulimit_v_kb, needs_ollama, race_is_violation, race_filter, registered (false = not in MANIFEST).
import glob, json, os
_d = os.path.join(os.path.dirname(os.path.abspath(__file__)), "props.d")
PROPS = {}
for _f in sorted(glob.glob(os.path.join(_d, "*.json"))):
    PROPS[os.path.basename(_f)[:-5]] = json.load(open(_f))
NOT_APPLICABLE = {}
