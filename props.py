# Per-property configuration of the ./check driver and source of MANIFEST.json (tools/gen_manifest.py).
NOT_APPLICABLE = {}

PROPS = {
    "C05": dict(kind="gotest", pkg="fs/ggml", test="TestVerifC05", files=["fs/ggml/c05_test.go"], race=False,
                shards={"quick": 4, "thorough": 16}, timeout={"quick": 600, "thorough": 3000}, level="exploration",
                technique="runtime differential monitor: real WriteGGUF -> real Decode + independent header reader over PRNG-generated KV/tensor sets (byte-exact tensor readback, alignment, end offset)",
                level_text="Exploration: 4k (quick) / 400k (thorough) generated files per run, each written by the real writer and read back by the real decoder and by an independent 100-line reader; every tensor's bytes carry a unique PRNG stream so any misplacement is observed. Held-on-what-was-generated, not a proof.",
                level_note="Trusts the kit's independent reader and the generator's size arithmetic (Tensor.Size of the code under test is used to size the data; an error there that is consistent between writer and decoder is not visible)."),
}
