package main

// C12: if the server process dies at any point during a pull, create, copy or delete, then after
// restart every name that still resolves to a readable manifest has all layers intact, models not
// involved are unchanged, and repeating the operation succeeds and leaves the store as an
// uninterrupted run would have. Crash points: SIGKILL injected by strace before the N-th
// file-mutating syscall of a thread (per syscall class), by the fake registry at request r / after
// b body bytes, and by the client after progress line m.

import (
	"bytes"
	"encoding/json"
	"fmt"
	"os"
	"os/exec"
	"path/filepath"
	"regexp"
	"sort"
	"strings"
	"sync"
	"syscall"
	"time"

	kit "verifkit"
)

type c12Crash struct {
	Kind    string `json:"kind"`          // mutation | strace | reg-request | reg-body | progress
	Ord     int    `json:"ord,omitempty"` // mutation: ordinal of the case among the scenario's mutation cases; N = 1 + (Ord*stride + 5*seed) mod M is resolved at run time (M = mutations of an uninterrupted run)
	Of      int    `json:"of,omitempty"`
	Class   string `json:"class,omitempty"`
	N       int    `json:"n,omitempty"`
	ReqKind string `json:"req_kind,omitempty"`
	Bytes   int    `json:"bytes,omitempty"`
}

type c12Case struct {
	Index    int      `json:"index"`
	Scenario string   `json:"scenario"`
	Crash    c12Crash `json:"crash"`
	Procs    int      `json:"gomaxprocs"`
	NoPrune  bool     `json:"noprune_restart"`
	Killed   bool     `json:"killed"`
	KilledAt string   `json:"killed_at,omitempty"`
}

var c12Scenarios = []string{"pull-new", "pull-update", "create-files", "create-from-replace", "copy", "delete-shared", "delete-many-layers", "pull-update-backup", "create-replace-backup", "pull-resume-parts"}

// c12Target: the manifest (path suffix) the scenario's operation is about; every other manifest of the prior
// state belongs to a model that is not involved and must come through unchanged.
func c12Target(sc string) string {
	switch {
	case strings.HasPrefix(sc, "pull"):
		return "/ns/pm/latest"
	case sc == "create-files":
		return "library/newm/latest"
	case strings.HasPrefix(sc, "create"):
		return "library/victim/latest"
	case sc == "copy":
		return "library/cp/latest"
	}
	return "library/del/latest"
}

var c12Classes = []string{"renameat,renameat2,rename", "unlinkat,unlink", "openat", "write,pwrite64", "ftruncate", "mkdirat,mkdir", "fchmodat,chmod,fchmod"}

type c12World struct {
	bin      string
	seed     uint64
	work     string
	pool     [][]byte
	mu       sync.Mutex
	tmpl     map[string]string     // scenario -> template home dir (prior state)
	control  map[string]storeState // scenario -> tree after an uninterrupted run
	mutSeq   map[string][]string   // scenario -> store mutations (syscall:path class) of an uninterrupted run, in order
	regs     map[string]*FakeReg   // scenario -> registry serving its content (shared; hooks are per case via plan)
	hostOf   map[string]string
	setupErr map[string]string
}

// c12Env: the resume scenario is about a server that runs without start-up pruning throughout (with pruning the
// first start removes every left-over of an interrupted download and the scenario equals pull-new)
func c12Env(sc string) []string {
	if sc == "pull-resume-parts" {
		return []string{"OLLAMA_NOPRUNE=1"}
	}
	return nil
}

func c12Template(extra string) []byte {
	return []byte("{{ .Prompt }} " + extra + strings.Repeat("x", 5000))
}

// c12WriteParts leaves the state of an earlier pull that had fetched every part of a blob and died before it
// finished the layer: the data file complete, one part file per part, all marked complete.
func c12WriteParts(models string, data []byte, parts int) {
	base := filepath.Join(models, "blobs", blobFile(sha(data)))
	os.MkdirAll(filepath.Dir(base), 0o755)
	off, ps := 0, len(data)/parts
	for i := 0; i < parts; i++ {
		sz := ps
		if i == parts-1 {
			sz = len(data) - off
		}
		pj, _ := json.Marshal(map[string]any{"N": i, "Offset": off, "Size": sz, "Completed": sz})
		os.WriteFile(fmt.Sprintf("%s-partial-%d", base, i), append(pj, '\n'), 0o644)
		off += sz
	}
	os.WriteFile(base+"-partial", data, 0o644)
}

func c12Publish(reg *FakeReg, pool [][]byte, repoTag string, blob int, extra string) {
	var m manifestDoc
	m.SchemaVersion, m.MediaType = 2, "application/vnd.docker.distribution.manifest.v2+json"
	m.Layers = append(m.Layers, layerRef{"application/vnd.ollama.image.model", reg.AddBlob(pool[blob]), int64(len(pool[blob]))})
	tb := c12Template(extra)
	m.Layers = append(m.Layers, layerRef{"application/vnd.ollama.image.template", reg.AddBlob(tb), int64(len(tb))})
	cb, _ := json.Marshal(map[string]any{"model_format": "gguf", "model_family": "llama", "model_type": "1B", "file_type": "F16", "x": extra})
	m.Config = layerRef{"application/vnd.docker.container.image.v1+json", reg.AddBlob(cb), int64(len(cb))}
	b, _ := json.Marshal(m)
	reg.SetManifest(repoTag, b)
}

// c12Op runs the scenario's operation against srv. retry=true: the operation is being repeated after a crash.
func (w *c12World) op(sc string, srv *Srv, reg *FakeReg, onLine func(int, map[string]any), retry bool) apiResult {
	switch sc {
	case "pull-new", "pull-update", "pull-update-backup", "pull-resume-parts":
		return srv.Pull(reg.RegHost+"/ns/pm:latest", true, onLine)
	case "create-files":
		d := sha(w.pool[1])
		if st, body := srv.UploadBlob(d, w.pool[1]); st != 201 && st != 200 {
			return apiResult{Status: st, Err: "blob upload: " + body}
		}
		return srv.Create(map[string]any{"model": "newm", "files": map[string]string{"m.gguf": d}, "template": "{{ .Prompt }} new", "system": "sys new"}, onLine)
	case "create-from-replace", "create-replace-backup":
		return srv.Create(map[string]any{"model": "victim", "from": "keep", "system": "sys two", "parameters": map[string]any{"temperature": 0.5}}, onLine)
	case "copy":
		return srv.Copy("keep", "cp")
	case "delete-shared", "delete-many-layers":
		r := srv.Delete("del")
		if retry && r.Status == 404 {
			return apiResult{Status: 200} // it had already taken effect
		}
		return r
	}
	return apiResult{Err: "unknown scenario"}
}

// setup builds the prior state and the control tree of a scenario once per process.
func (w *c12World) setup(sc string) (string, *FakeReg, storeState, string) {
	w.mu.Lock()
	defer w.mu.Unlock()
	if e, ok := w.setupErr[sc]; ok {
		return "", nil, storeState{}, e
	}
	if t, ok := w.tmpl[sc]; ok {
		return t, w.regs[sc], w.control[sc], ""
	}
	fail := func(e string) (string, *FakeReg, storeState, string) {
		w.setupErr[sc] = e
		return "", nil, storeState{}, e
	}
	reg := NewFakeReg()
	home := filepath.Join(w.work, "tmpl-"+sc)
	srv, err := StartSrv(w.bin, home, nil)
	if err != nil {
		return fail("setup server: " + err.Error())
	}
	d0 := sha(w.pool[0])
	srv.UploadBlob(d0, w.pool[0])
	if r := srv.Create(map[string]any{"model": "keep", "files": map[string]string{"m.gguf": d0}, "template": "{{ .Prompt }} t0"}, nil); !r.OK() {
		srv.Kill()
		return fail("setup create keep: " + r.Err)
	}
	switch sc {
	case "pull-new", "pull-resume-parts":
		c12Publish(reg, w.pool, "ns/pm:latest", 0, "v1")
	case "pull-update", "pull-update-backup":
		c12Publish(reg, w.pool, "ns/pm:latest", 0, "v1")
		if r := srv.Pull(reg.RegHost+"/ns/pm:latest", true, nil); !r.OK() {
			srv.Kill()
			return fail("setup pull v1: " + r.Err)
		}
		// "-backup": the user kept a copy of the old version under another name before updating
		if sc == "pull-update-backup" {
			if r := srv.Copy(reg.RegHost+"/ns/pm:latest", "pmbackup"); !r.OK() {
				srv.Kill()
				return fail("setup copy pmbackup: " + r.Err)
			}
		}
		c12Publish(reg, w.pool, "ns/pm:latest", 0, "v2")
	case "create-from-replace", "create-replace-backup":
		if r := srv.Create(map[string]any{"model": "victim", "files": map[string]string{"m.gguf": d0}, "template": "{{ .Prompt }} t1", "system": "sys one"}, nil); !r.OK() {
			srv.Kill()
			return fail("setup create victim: " + r.Err)
		}
		if sc == "create-replace-backup" {
			if r := srv.Copy("victim", "victimbackup"); !r.OK() {
				srv.Kill()
				return fail("setup copy victimbackup: " + r.Err)
			}
		}
	case "delete-shared":
		if r := srv.Create(map[string]any{"model": "del", "from": "keep", "system": "sys del"}, nil); !r.OK() {
			srv.Kill()
			return fail("setup create del: " + r.Err)
		}
	case "delete-many-layers":
		// 24 license layers of its own + the model and template layers it shares with "keep": a long delete
		var lic []string
		for i := 0; i < 24; i++ {
			lic = append(lic, fmt.Sprintf("license text number %d", i))
		}
		if r := srv.Create(map[string]any{"model": "del", "from": "keep", "system": "sys del", "license": lic}, nil); !r.OK() {
			srv.Kill()
			return fail("setup create del: " + r.Err)
		}
	}
	// other tags of the model the operation is about, sorting before and after the target's tag, each with a layer of
	// its own: they are not involved in the operation
	tm := strings.TrimSuffix(strings.TrimPrefix(c12Target(sc), "/"), "/latest")
	if strings.HasPrefix(sc, "pull") {
		tm = reg.RegHost + "/" + tm
	} else {
		tm = strings.TrimPrefix(tm, "library/")
	}
	for _, tag := range []string{"aa", "zz"} {
		if r := srv.Create(map[string]any{"model": tm + ":" + tag, "from": "keep", "system": "another tag of the same model: " + tag}, nil); !r.OK() {
			srv.Kill()
			return fail("setup create sibling tag " + tag + ": " + r.Err)
		}
	}
	srv.Stop()
	if sc == "pull-resume-parts" {
		// an earlier pull of the same model had fetched all five parts of the template layer and was interrupted
		// before it finished that layer
		c12WriteParts(filepath.Join(home, "models"), c12Template("v1"), 5)
	}
	// control run on a copy
	ch := filepath.Join(w.work, "control-"+sc)
	if out, err := exec.Command("cp", "-a", home, ch).CombinedOutput(); err != nil {
		return fail("cp: " + string(out))
	}
	cs, err := StartSrv(w.bin, ch, nil, c12Env(sc)...)
	if err != nil {
		return fail("control server: " + err.Error())
	}
	tr, terr := startMutTracer(cs.cmd.Process.Pid, filepath.Join(ch, "models"), 0, nil)
	if terr != nil {
		cs.Kill()
		return fail("control tracer: " + terr.Error())
	}
	if r := w.op(sc, cs, reg, nil, false); !r.OK() {
		tr.Finish(true)
		cs.Kill()
		return fail("control run of the operation failed: " + r.Err)
	}
	w.mutSeq[sc] = tr.Finish(true)
	if len(w.mutSeq[sc]) == 0 {
		cs.Kill()
		return fail("control run: the tracer saw no mutation of the store")
	}
	cs.Stop()
	// the control tree is taken after a pruning restart, like the crash runs
	cs2, err := StartSrv(w.bin, ch, nil)
	if err != nil {
		return fail("control restart: " + err.Error())
	}
	cs2.Stop()
	w.tmpl[sc], w.regs[sc], w.control[sc] = home, reg, readStore(filepath.Join(ch, "models"), true)
	os.RemoveAll(ch)
	return home, reg, w.control[sc], ""
}

func c12Gen(r *kit.Rand, idx int) c12Case {
	c := c12Case{Index: idx, Scenario: c12Scenarios[idx%len(c12Scenarios)], Procs: kit.Pick(r, []int{1, 1, 4}), NoPrune: r.Chance(1, 4)}
	pull := strings.HasPrefix(c.Scenario, "pull")
	k := r.Intn(10)
	// 9 of every 20 cases of a scenario die after the N-th mutation of the store, counted over all threads; their
	// ordinals are consecutive, so that M consecutive ones visit every point of an M-mutation operation once
	if round := idx / len(c12Scenarios); round%20 < 9 {
		c.Crash = c12Crash{Kind: "mutation", Ord: round/20*9 + round%20}
		c.NoPrune = c.NoPrune || c.Scenario == "pull-resume-parts"
		return c
	}
	c.NoPrune = c.NoPrune || c.Scenario == "pull-resume-parts"
	switch {
	case pull && k < 2:
		c.Crash = c12Crash{Kind: "reg-request", ReqKind: kit.Pick(r, []string{"manifest", "head", "blobget", "cdn"}), N: r.Range(1, 3)}
	case pull && k < 5:
		c.Crash = c12Crash{Kind: "reg-body", N: r.Range(1, 3), Bytes: kit.Pick(r, []int{0, 1, 100, 4000, 5013, r.Intn(5100)})}
	case k < 6 && c.Scenario != "copy" && !strings.HasPrefix(c.Scenario, "delete"):
		c.Crash = c12Crash{Kind: "progress", N: r.Range(1, 8)}
	default:
		// when=N counts per thread: small N are the ones that are reached
		c.Crash = c12Crash{Kind: "strace", Class: kit.Pick(r, c12Classes), N: kit.Pick(r, []int{1, 1, 1, 1, 2, 2, 2, 3, 3, 4, 5, 6})}
		if (strings.HasPrefix(c.Crash.Class, "openat") || strings.HasPrefix(c.Crash.Class, "write")) && r.Chance(1, 3) {
			c.Crash.N = r.Range(4, 14)
		}
		if c.Scenario == "pull-resume-parts" && r.Chance(2, 3) {
			// finishing the layer removes the part files one by one: die between two of them
			c.Crash.Class = "unlinkat,unlink"
			c.Crash.N = r.Range(1, 6)
		}
		if c.Scenario == "delete-many-layers" && r.Chance(1, 2) {
			c.Crash.Class = "unlinkat,unlink"
			c.Crash.N = r.Range(1, 20)
		}
	}
	return c
}

var c12KilledRE = regexp.MustCompile(`(?m)^\d+\s+(\w+)\((.*)$`)
var c12BlobRE = regexp.MustCompile(`/blobs/sha256-[0-9a-f]{64}"`)

// straceAttach attaches strace to a running server so that the N-th matching syscall of a thread is preceded by SIGKILL.
func straceAttach(pid int, class string, n int, tracePath string) (*exec.Cmd, error) {
	first := strings.Split(class, ",")
	args := []string{"-f", "-p", fmt.Sprint(pid), "-o", tracePath, "-e", "trace=" + class}
	for _, sc := range first {
		args = append(args, "-e", fmt.Sprintf("inject=%s:signal=SIGKILL:when=%d", sc, n))
	}
	cmd := exec.Command("strace", args...)
	var errb bytes.Buffer
	cmd.Stderr = &errb
	if err := cmd.Start(); err != nil {
		return nil, err
	}
	deadline := time.Now().Add(5 * time.Second)
	for time.Now().Before(deadline) {
		if strings.Contains(errb.String(), "attached") {
			time.Sleep(30 * time.Millisecond) // remaining threads
			return cmd, nil
		}
		time.Sleep(5 * time.Millisecond)
	}
	cmd.Process.Kill()
	return nil, fmt.Errorf("strace did not attach: %s", errb.String())
}

type c12Viol struct{ Sig, What string }

// c12Check: every manifest that parses is complete; the uninvolved model "keep" is byte-identical.
func c12Check(models string, prior storeState, phase, scenario string) (vs []c12Viol) {
	st := readStore(models, true)
	for p, raw := range st.Manifests {
		_, problems, parsed := checkManifest(models, raw)
		if parsed && len(problems) > 0 {
			vs = append(vs, c12Viol{"resolvable-model-broken:" + phase, fmt.Sprintf("%s: manifest %s is readable but %s", phase, p, strings.Join(problems, "; "))})
		}
	}
	for p, raw := range prior.Manifests {
		if strings.HasSuffix(filepath.ToSlash(p), c12Target(scenario)) {
			continue
		}
		now, ok := st.Manifests[p]
		if !ok || !bytes.Equal(now, raw) {
			vs = append(vs, c12Viol{"uninvolved-model-changed:" + phase, fmt.Sprintf("%s: manifest %s of a model that is not involved in the operation changed or disappeared", phase, p)})
			continue
		}
		if _, problems, _ := checkManifest(models, raw); len(problems) > 0 {
			vs = append(vs, c12Viol{"uninvolved-model-damaged:" + phase, fmt.Sprintf("%s: uninvolved model %s: %s", phase, p, strings.Join(problems, "; "))})
		}
	}
	return vs
}

func c12SameTree(got, want storeState, prune bool) string {
	var diffs []string
	for p, raw := range want.Manifests {
		g, ok := got.Manifests[p]
		if !ok {
			diffs = append(diffs, "manifest "+p+" missing")
			continue
		}
		var a, b manifestDoc
		if json.Unmarshal(g, &a) != nil || json.Unmarshal(raw, &b) != nil || !sameManifest(a, b) {
			diffs = append(diffs, "manifest "+p+" differs")
		}
	}
	for p := range got.Manifests {
		if _, ok := want.Manifests[p]; !ok {
			diffs = append(diffs, "extra manifest "+p)
		}
	}
	for bf, h := range want.Blobs {
		if got.Blobs[bf] != h {
			diffs = append(diffs, "blob "+short(bf)+" missing or different")
		}
	}
	if prune {
		for bf := range got.Blobs {
			if _, ok := want.Blobs[bf]; !ok {
				diffs = append(diffs, "stray file "+bf)
			}
		}
	}
	sort.Strings(diffs)
	return strings.Join(diffs, "; ")
}

func (w *c12World) run(c *c12Case, rep *kit.Report) (vs []c12Viol, inconclusive string) {
	tmpl, reg0, control, serr := w.setup(c.Scenario)
	if serr != "" {
		return nil, "setup: " + serr
	}
	home := filepath.Join(w.work, fmt.Sprintf("case-%d", c.Index))
	os.RemoveAll(home)
	defer func() {
		if os.Getenv("VERIF_KEEP") != "" && len(vs) > 0 {
			exec.Command("cp", "-a", home, os.Getenv("VERIF_KEEP")).Run()
		}
		os.RemoveAll(home)
	}()
	if out, err := exec.Command("cp", "-a", tmpl, home).CombinedOutput(); err != nil {
		return nil, "cp: " + string(out)
	}
	// the registry of a pull scenario is re-created per case (hooks are per case) with the same content
	reg := reg0
	pull := strings.HasPrefix(c.Scenario, "pull")
	if pull {
		reg = NewFakeReg()
		defer reg.Close()
		v := "v1"
		if strings.HasPrefix(c.Scenario, "pull-update") {
			v = "v2"
		}
		c12Publish(reg, w.pool, "ns/pm:latest", 0, v)
		// the manifest directory of the prior state names the old registry host: move it to the new one
		old := filepath.Join(home, "models", "manifests", reg0.RegHost)
		if _, err := os.Stat(old); err == nil {
			os.Rename(old, filepath.Join(home, "models", "manifests", reg.RegHost))
		}
		ctl := storeState{Manifests: map[string][]byte{}, Blobs: control.Blobs, BlobSizes: control.BlobSizes}
		for p, raw := range control.Manifests {
			ctl.Manifests[strings.Replace(p, reg0.RegHost, reg.RegHost, 1)] = raw
		}
		control = ctl
	}
	prior := readStore(filepath.Join(home, "models"), true)
	srv, err := StartSrv(w.bin, home, nil, append(c12Env(c.Scenario), fmt.Sprintf("GOMAXPROCS=%d", c.Procs))...)
	if err != nil {
		return nil, "server start: " + err.Error()
	}
	defer func() { srv.Kill() }()
	var onLine func(int, map[string]any)
	var tracer *exec.Cmd
	var mtr *mutTracer
	trace := filepath.Join(home, "strace.out")
	kill := func() { syscall.Kill(-srv.cmd.Process.Pid, syscall.SIGKILL) }
	switch c.Crash.Kind {
	case "mutation":
		w.mu.Lock()
		m := len(w.mutSeq[c.Scenario])
		w.mu.Unlock()
		stride := 7
		for _, p := range []int{7, 11, 13, 17, 19} {
			if m%p != 0 {
				stride = p
				break
			}
		}
		c.Crash.Of = m
		c.Crash.N = 1 + (c.Crash.Ord*stride+5*int(w.seed%1000))%m
		mtr, err = startMutTracer(srv.cmd.Process.Pid, filepath.Join(home, "models"), c.Crash.N, kill)
		if err != nil {
			return nil, err.Error()
		}
	case "strace":
		tracer, err = straceAttach(srv.cmd.Process.Pid, c.Crash.Class, c.Crash.N, trace)
		if err != nil {
			return nil, err.Error()
		}
	case "reg-request":
		reg.OnRequest = func(kind string, n int) {
			if kind == c.Crash.ReqKind && n == c.Crash.N {
				kill()
				time.Sleep(20 * time.Millisecond)
			}
		}
	case "reg-body":
		reg.Cut = kill
		reg.OnBody = func(kind string, n int, total int) int {
			if n == c.Crash.N {
				return min(c.Crash.Bytes, total)
			}
			return -1
		}
	case "progress":
		onLine = func(n int, _ map[string]any) {
			if n == c.Crash.N {
				kill()
			}
		}
	}
	done := make(chan apiResult, 1)
	go func() { done <- w.op(c.Scenario, srv, reg, onLine, false) }()
	var res apiResult
	select {
	case res = <-done:
	case <-time.After(90 * time.Second):
		return nil, "operation neither finished nor was the server killed within 90 s"
	}
	time.Sleep(10 * time.Millisecond)
	c.Killed = srv.WaitExit(300 * time.Millisecond)
	if mtr != nil {
		seq := mtr.Finish(!c.Killed)
		if c.Killed && len(seq) >= c.Crash.N {
			c.KilledAt = "after-" + seq[c.Crash.N-1]
		} else if c.Killed {
			if cr := srv.Crashed(); cr != "" {
				return []c12Viol{{"c12:" + c.Scenario + ":server-died", fmt.Sprintf("the server died by itself after %d store mutations (kill planned after %d)\n%s", len(seq), c.Crash.N, tail(cr, 1500))}}, ""
			}
			return nil, fmt.Sprintf("the server died after %d mutations although the kill was planned after %d", len(seq), c.Crash.N)
		}
		rep.Count(fmt.Sprintf("mutations_seen_%s_%d", c.Scenario, len(seq)), 1)
	}
	if tracer != nil {
		if !c.Killed {
			tracer.Process.Signal(syscall.SIGINT) // detach
		}
		tracer.Wait()
		if b, err := os.ReadFile(trace); err == nil {
			// the killed syscall itself is never logged (the signal lands on entry); what the trace shows is
			// the last matching syscall that completed before it: the kill landed right after that one
			lines := strings.Split(strings.TrimSpace(string(b)), "\n")
			for i := len(lines) - 1; i >= 0; i-- {
				m := c12KilledRE.FindStringSubmatch(lines[i])
				if m == nil || strings.Contains(lines[i], "+++") || strings.Contains(lines[i], "---") {
					continue
				}
				arg := m[2]
				cls := "other"
				switch {
				case strings.Contains(arg, "/manifests/"):
					cls = "manifest"
				case strings.Contains(arg, "-partial-"):
					cls = "part-file"
				case strings.Contains(arg, "-partial"):
					cls = "partial"
				case c12BlobRE.MatchString(arg):
					cls = "blob"
				case strings.Contains(arg, "/blobs/"):
					cls = "blob-temp"
				}
				c.KilledAt = "after-" + m[1] + ":" + cls
				break
			}
			if c.KilledAt == "" {
				c.KilledAt = "first-matching-syscall"
			}
		}
	}
	models := filepath.Join(home, "models")
	tag := fmt.Sprintf("%s:%s", c.Scenario, c.Crash.Kind)
	add := func(v c12Viol) {
		vs = append(vs, c12Viol{"c12:" + c.Scenario + ":" + v.Sig, v.What + fmt.Sprintf(" [crash %+v, killed=%v at %s]", c.Crash, c.Killed, c.KilledAt)})
	}
	_ = tag
	if c.Killed {
		rep.Count("killed_"+c.Crash.Kind, 1)
		for _, v := range c12Check(models, prior, "after-kill", c.Scenario) {
			add(v)
		}
	} else {
		rep.Count("survived_"+c.Crash.Kind, 1)
		if !res.OK() {
			// not killed, yet the operation failed: the injected event did not kill (e.g. strace point never reached)
			rep.Count("survived_but_op_failed", 1)
		}
		srv.Stop()
	}
	// restart: the real start-up repair sequence runs
	env := []string{}
	if c.NoPrune {
		env = append(env, "OLLAMA_NOPRUNE=1")
	}
	reg.OnRequest, reg.OnBody, reg.Cut = nil, nil, nil
	s2, err := StartSrv(w.bin, home, nil, env...)
	if err != nil {
		if envFailure(err) {
			return nil, "restart: " + err.Error()
		}
		add(c12Viol{"restart-failed", "the server does not start on the store a crash left behind: " + err.Error()})
		return vs, ""
	}
	srv = s2
	for _, v := range c12Check(models, prior, "after-restart", c.Scenario) {
		add(v)
	}
	if names, tr := srv.Tags(); tr.OK() {
		for _, n := range names {
			if r := srv.Show(n); !r.OK() {
				add(c12Viol{"listed-model-cannot-be-shown:after-restart", fmt.Sprintf("after restart the listed model %q cannot be shown: %s", n, r.Err)})
			}
		}
	}
	if len(vs) > 0 {
		return vs, ""
	}
	// repeat the operation
	r2 := w.op(c.Scenario, srv, reg, nil, true)
	if !r2.OK() {
		add(c12Viol{"retry-failed", "repeating the interrupted operation failed: " + r2.Err})
		return vs, ""
	}
	for _, v := range c12Check(models, prior, "after-retry", c.Scenario) {
		add(v)
	}
	// final tree vs control (after one more pruning restart unless this case runs without pruning)
	srv.Stop()
	s3, err := StartSrv(w.bin, home, nil, env...)
	if err != nil {
		if envFailure(err) {
			return nil, "second restart: " + err.Error()
		}
		add(c12Viol{"restart-failed", "second restart failed: " + err.Error()})
		return vs, ""
	}
	srv = s3
	if d := c12SameTree(readStore(models, true), control, !c.NoPrune); d != "" {
		add(c12Viol{"final-tree-differs", "after crash, restart and retry the store differs from an uninterrupted run: " + d})
	}
	return vs, ""
}

func runC12() {
	rep := kit.NewReport("C12")
	cfg := rep.Cfg()
	defer rep.Flush()
	rep.Set("rule", "case i = PRNG(seed,'C12',i): scenario i mod 10 of {pull new, pull new on top of the complete multi-part resume files (data file + five part files, all marked complete) of an earlier interrupted pull of the same layer (server run with OLLAMA_NOPRUNE throughout, otherwise the first start removes the left-overs), pull update of a tag (shared layer), create from uploaded file, re-create an existing model from another (prunes replaced layers), copy, delete a model that shares layers, delete a model with 24 layers of its own, pull update / re-create of a model of which a copy under another name was made before} on a prepared store that also holds uninvolved models, among them two other tags of the operation's model that sort before and after the target tag and have a layer of their own (every manifest of the prior state other than the operation's target must come through byte-identical with intact layers); crash = SIGKILL of the real server at one point: strace-injected before the N-th syscall of a thread in one class of {rename*, unlink*, openat, write/pwrite64, ftruncate, mkdir*, chmod*} (N 1-14, GOMAXPROCS 1 or 4), or by the fake registry on arrival of the r-th manifest/HEAD/blob/CDN request or after b bytes of the r-th CDN body, or by the client after progress line m. Then: store inspected, real restart (start-up repair; 1/4 with OLLAMA_NOPRUNE), inspected again, operation repeated, inspected, restart, tree compared with the control run's. Non-trivial & distinct = distinct (scenario, crash kind, class or request kind, N / byte bucket, syscall+path class actually killed) among runs in which the server really was killed")
	rep.Set("assumptions", []string{"crash model = process death (SIGKILL): completed syscalls persist (page cache survives); power loss / missing fsync is outside the statement", "strace's when=N counts per thread, so not every global ordinal is reachable; the points actually hit are listed in coverage.killed_points"})
	w := &c12World{bin: os.Getenv("VERIF_OLLAMA_BIN"), pool: c04Pool(nil), tmpl: map[string]string{}, control: map[string]storeState{}, regs: map[string]*FakeReg{}, setupErr: map[string]string{}, mutSeq: map[string][]string{}}
	var err error
	w.seed = cfg.Seed
	w.work, err = os.MkdirTemp("", "verif-c12-")
	if err != nil {
		panic(err)
	}
	defer os.RemoveAll(w.work)
	n := cfg.N(300, 12000)
	replayIdx := -1
	if cfg.Replay != "" {
		var rc struct {
			Index int `json:"index"`
		}
		if err := kit.LoadReplay(cfg.Replay, &rc); err == nil {
			replayIdx = rc.Index
		}
	}
	var wg sync.WaitGroup
	var pmu sync.Mutex
	points := map[string]int{}
	sem := make(chan struct{}, 3)
	for i := 0; i < n; i++ {
		if replayIdx >= 0 && i != replayIdx {
			continue
		}
		if replayIdx < 0 && (!cfg.Mine(i) || rep.Enough() || rep.OverBudget()) {
			continue
		}
		wg.Add(1)
		sem <- struct{}{}
		go func(i int) {
			defer wg.Done()
			defer func() { <-sem }()
			c := c12Gen(kit.NewRand(cfg.Seed, "C12", i), i)
			if only := os.Getenv("VERIF_C12_SCENARIO"); only != "" && c.Scenario != only { // debugging aid
				return
			}
			vs, inc := w.run(&c, rep)
			rep.Eval(1)
			if inc != "" {
				rep.Inconclusive(fmt.Sprintf("case %d: %s", i, inc))
				return
			}
			for _, v := range vs {
				rep.Violate(v.Sig, v.What, c, nil)
				if replayIdx >= 0 {
					fmt.Printf("replay: %s: %s\n", v.Sig, v.What)
				}
			}
			if c.Killed {
				bucket := c.Crash.Bytes / 1000
				key := fmt.Sprint(c.Scenario, c.Crash.Kind, c.Crash.Class, c.Crash.ReqKind, c.Crash.N, bucket, c.KilledAt)
				rep.Distinct(key)
				pmu.Lock()
				if c.Crash.Kind == "mutation" {
					points[fmt.Sprintf("%s|mutation|%03d of %d|%s", c.Scenario, c.Crash.N, c.Crash.Of, c.KilledAt)]++
				} else {
					points[fmt.Sprintf("%s|%s|%s%s|%s", c.Scenario, c.Crash.Kind, c.Crash.Class, c.Crash.ReqKind, c.KilledAt)]++
				}
				pmu.Unlock()
			}
			if rep.NeedSample() && c.Killed {
				rep.Sample(c)
			}
		}(i)
	}
	wg.Wait()
	rep.Set("killed_points", points)
	seqs := map[string]string{}
	w.mu.Lock()
	for sc, q := range w.mutSeq {
		seqs[sc] = fmt.Sprintf("%d: %s", len(q), strings.Join(q, " "))
	}
	w.mu.Unlock()
	rep.Set("store_mutations_of_an_uninterrupted_run", seqs)
}
