package main

// Process-wide crash points at the granularity of file-system mutations.
//
// strace is attached to the running server (-f -y). Every syscall that can change the store is traced and its
// return to the caller is delayed by a few milliseconds (inject=...:delay_exit). strace writes the line of a
// syscall when the syscall has finished, i.e. before that delay starts, into a pipe the harness reads. The harness
// counts, over all threads, the syscalls that succeeded on a path below the models directory and, on the N-th one,
// SIGKILLs the server while the calling thread is still held in the delay: the process dies after exactly N
// mutations of the store, whichever threads made them. Delays only widen schedules the program can have anyway.
// With n == 0 nothing is delayed or killed: the tracer just records the mutation sequence (control runs).

import (
	"bufio"
	"bytes"
	"fmt"
	"os"
	"os/exec"
	"regexp"
	"strings"
	"sync"
	"syscall"
	"time"
)

const mutSyscalls = "openat,open,creat,write,pwrite64,writev,pwritev,renameat,renameat2,rename,unlinkat,unlink,rmdir,ftruncate,truncate,mkdirat,mkdir,fchmodat,chmod,fchmod,linkat,link,symlinkat,symlink,fallocate,copy_file_range,sendfile"

type mutTracer struct {
	onLine func(name, rest string) // called for every finished traced syscall, before it is counted
	cmd    *exec.Cmd
	rd     *os.File
	models string
	n      int
	kill   func()
	mu     sync.Mutex
	seq    []string // one entry per counted mutation: "<syscall>:<path class>"
	killed bool
	done   chan struct{}
}

var (
	mutLineRE    = regexp.MustCompile(`^(\d+)\s+(\w+)\((.*)$`)
	mutResumedRE = regexp.MustCompile(`^(\d+)\s+<\.\.\. (\w+) resumed>(.*)$`)
	mutRetRE     = regexp.MustCompile(`\)\s+= (-?\d+)`)
	mutBlobRE    = regexp.MustCompile(`/blobs/sha256-[0-9a-f]{64}\b`)
)

var mutAttachedRE = regexp.MustCompile(`attached with (\d+) threads`)

// startMutTracer attaches; a thread the server starts while strace is attaching would stay untraced (and with it
// every thread it starts later), so the number of threads strace reports is compared with the number the process
// has afterwards and the attach is repeated when they differ.
func startMutTracer(pid int, models string, n int, kill func()) (t *mutTracer, err error) {
	return startTracer(pid, models, n, kill, "", 0, nil)
}

// startPauseTracer holds the caller of every finished syscall of the given set for delayUs microseconds and tells
// onLine about it first: the harness can act inside the pause (C03: pull another model right after a blob was renamed
// into place, before the thread that renamed it goes on).
func startPauseTracer(pid int, models, syscalls string, delayUs int, onLine func(name, rest string)) (*mutTracer, error) {
	return startTracer(pid, models, 0, nil, syscalls, delayUs, onLine)
}

func startTracer(pid int, models string, n int, kill func(), syscalls string, delayUs int, onLine func(name, rest string)) (t *mutTracer, err error) {
	for try := 0; try < 4; try++ {
		var all bool
		t, all, err = startMutTracerOnce(pid, models, n, kill, syscalls, delayUs, onLine)
		if err != nil || all {
			return t, err
		}
		t.Finish(true)
	}
	return nil, fmt.Errorf("strace could not attach to every thread of the server")
}

func startMutTracerOnce(pid int, models string, n int, kill func(), syscalls string, delayUs int, onLine func(name, rest string)) (*mutTracer, bool, error) {
	pr, pw, err := os.Pipe()
	if err != nil {
		return nil, false, err
	}
	if syscalls == "" {
		syscalls = mutSyscalls
	}
	args := []string{"-f", "-y", "-p", fmt.Sprint(pid), "-o", "/dev/fd/3", "-e", "trace=" + syscalls}
	if n > 0 {
		args = append(args, "-e", "inject="+syscalls+":delay_exit=6000")
	} else if delayUs > 0 {
		args = append(args, "-e", fmt.Sprintf("inject=%s:delay_exit=%d", syscalls, delayUs))
	}
	cmd := exec.Command("strace", args...)
	cmd.ExtraFiles = []*os.File{pw}
	var errb syncBuf
	cmd.Stderr = &errb
	if err := cmd.Start(); err != nil {
		pr.Close()
		pw.Close()
		return nil, false, err
	}
	pw.Close()
	t := &mutTracer{cmd: cmd, rd: pr, models: models, n: n, kill: kill, onLine: onLine, done: make(chan struct{})}
	go t.read()
	deadline := time.Now().Add(5 * time.Second)
	for time.Now().Before(deadline) {
		if e := errb.String(); strings.Contains(e, "attached") {
			// strace reports once, when all threads it found are attached
			want := 1
			if m := mutAttachedRE.FindStringSubmatch(e); m != nil {
				fmt.Sscan(m[1], &want)
			}
			tasks, _ := os.ReadDir(fmt.Sprintf("/proc/%d/task", pid))
			return t, len(tasks) == want, nil
		}
		time.Sleep(5 * time.Millisecond)
	}
	cmd.Process.Kill()
	cmd.Wait()
	return nil, false, fmt.Errorf("strace did not attach: %s", errb.String())
}

func (t *mutTracer) read() {
	defer close(t.done)
	defer t.rd.Close()
	pending := map[string]string{} // pid -> text of an unfinished syscall
	sc := bufio.NewScanner(t.rd)
	sc.Buffer(make([]byte, 1<<20), 1<<20)
	for sc.Scan() {
		line := sc.Text()
		if rawLog != nil {
			fmt.Fprintln(rawLog, line)
		}
		var name, rest string
		if m := mutResumedRE.FindStringSubmatch(line); m != nil {
			name, rest = m[2], pending[m[1]]+m[3]
			delete(pending, m[1])
		} else if m := mutLineRE.FindStringSubmatch(line); m != nil {
			if i := strings.Index(m[3], " <unfinished ...>"); i >= 0 {
				pending[m[1]] = m[3][:i]
				continue
			}
			name, rest = m[2], m[3]
		} else {
			continue
		}
		if t.onLine != nil {
			t.onLine(name, rest)
		}
		if cls, ok := t.mutation(name, rest); ok {
			t.mu.Lock()
			t.seq = append(t.seq, name+":"+cls)
			hit := t.n > 0 && len(t.seq) == t.n && !t.killed
			if hit {
				t.killed = true
			}
			t.mu.Unlock()
			if hit {
				t.kill()
			}
		}
	}
}

// mutation says whether a finished syscall changed something below the models directory, and what kind of path it was.
func (t *mutTracer) mutation(name, rest string) (string, bool) {
	if !strings.Contains(rest, t.models) {
		return "", false
	}
	m := mutRetRE.FindAllStringSubmatch(rest, -1)
	if len(m) == 0 || strings.HasPrefix(m[len(m)-1][1], "-") {
		return "", false // failed: nothing changed
	}
	switch name {
	case "openat", "open":
		if !strings.Contains(rest, "O_CREAT") && !strings.Contains(rest, "O_TRUNC") {
			return "", false
		}
	case "write", "pwrite64", "writev", "pwritev", "sendfile", "copy_file_range":
		// the descriptor written to must be a file of the store (the source of a copy may be one without any change)
		first := rest
		if name == "copy_file_range" || name == "sendfile" {
			// sendfile(out, in, ...) / copy_file_range(in, off, out, ...)
			parts := strings.SplitN(rest, ", ", 4)
			if name == "copy_file_range" && len(parts) >= 3 {
				first = parts[2]
			} else {
				first = parts[0]
			}
		} else if i := strings.Index(rest, ","); i >= 0 {
			first = rest[:i]
		}
		if !strings.Contains(first, t.models) {
			return "", false
		}
	}
	cls := "other"
	switch {
	case strings.Contains(rest, "/manifests/"):
		cls = "manifest"
	case strings.Contains(rest, "-partial-"):
		cls = "part-file"
	case strings.Contains(rest, "-partial"):
		cls = "partial"
	case mutBlobRE.MatchString(rest):
		cls = "blob"
	case strings.Contains(rest, "/blobs/"):
		cls = "blob-temp"
	case strings.Contains(rest, "/blobs"):
		cls = "blobs-dir"
	}
	return cls, true
}

// Finish detaches (if the server is still alive) and returns the counted mutation sequence.
func (t *mutTracer) Finish(alive bool) []string {
	if alive {
		t.cmd.Process.Signal(syscall.SIGINT)
	}
	select {
	case <-t.done:
	case <-time.After(5 * time.Second):
		t.cmd.Process.Kill()
		<-t.done
	}
	t.cmd.Wait()
	t.mu.Lock()
	defer t.mu.Unlock()
	return append([]string{}, t.seq...)
}

// rawLog: VERIF_STRACE_RAW=<file> keeps every strace line (debugging aid)
var rawLog = func() *os.File {
	if p := os.Getenv("VERIF_STRACE_RAW"); p != "" {
		f, _ := os.OpenFile(p, os.O_CREATE|os.O_WRONLY|os.O_APPEND, 0o644)
		return f
	}
	return nil
}()

type syncBuf struct {
	mu sync.Mutex
	b  bytes.Buffer
}

func (s *syncBuf) Write(p []byte) (int, error) {
	s.mu.Lock()
	defer s.mu.Unlock()
	return s.b.Write(p)
}

func (s *syncBuf) String() string {
	s.mu.Lock()
	defer s.mu.Unlock()
	return s.b.String()
}
