package main

// C04: after any sequence of create / copy / pull / delete / restart(prune) every listed model is
// complete, operations on one model never damage another, start-up pruning leaves exactly the
// referenced blobs, and no two listed models differ only by case. Black box over the public API;
// the store is inspected on disk after every operation.

import (
	"bytes"
	"encoding/json"
	"fmt"
	"os"
	"path/filepath"
	"sort"
	"strings"
	"sync"

	kit "verifkit"
)

type c04Op struct {
	Op       string         `json:"op"` // create-files create-from copy delete pull show restart
	Name     string         `json:"name,omitempty"`
	From     string         `json:"from,omitempty"`
	Blob     int            `json:"blob,omitempty"`
	Dash     bool           `json:"dash_digest,omitempty"`  // digest sent in the accepted sha256-<hex> spelling
	Upper    bool           `json:"upper_digest,omitempty"` // digest sent with upper-case hex digits
	Adapter  string         `json:"adapter,omitempty"`      // create-files: also names the pool's adapter file, digest spelled "colon" or "dash"
	Template string         `json:"template,omitempty"`
	System   string         `json:"system,omitempty"`
	License  any            `json:"license,omitempty"`
	Params   map[string]any `json:"parameters,omitempty"`
	NoPrune  bool           `json:"noprune,omitempty"`
	Result   string         `json:"result,omitempty"`
}

type c04Case struct {
	Index int     `json:"index"`
	Ops   []c04Op `json:"ops"`
}

var c04Names = []string{"alpha", "Alpha", "ALPHA", "beta", "Beta", "ns1/alpha", "NS1/alpha", "ns1/Alpha", "example.com/ns1/alpha", "Example.com/ns1/alpha", "ns2/gamma", "gamma"}
var c04Tags = []string{"", "", ":v1", ":V1", ":latest", ":q4_0"}

// full normalises a user-visible name to host/ns/model:tag (lower-cased for comparisons by the caller).
func c04Full(n string) string {
	name, tag := n, "latest"
	if i := strings.LastIndex(n, ":"); i > strings.LastIndex(n, "/") {
		name, tag = n[:i], n[i+1:]
	}
	parts := strings.Split(name, "/")
	switch len(parts) {
	case 1:
		parts = []string{"registry.ollama.ai", "library", parts[0]}
	case 2:
		parts = []string{"registry.ollama.ai", parts[0], parts[1]}
	}
	return strings.Join(parts, "/") + ":" + tag
}

func c04Fold(n string) string { return strings.ToLower(c04Full(n)) }

func c04Gen(r *kit.Rand, idx int) c04Case {
	c := c04Case{Index: idx}
	var live []string // names we believe exist (refreshed from the server while running)
	pick := func() string {
		if len(live) > 0 && r.Chance(1, 4) {
			// another spelling (letter case) of a name used earlier in this history - typically of the newest one: the
			// server must find the existing model whichever operation created it
			n := live[len(live)-1]
			if r.Chance(1, 2) {
				n = kit.Pick(r, live)
			}
			switch r.Intn(4) {
			case 0:
				return strings.ToUpper(n)
			case 1:
				return strings.ToLower(n)
			case 2:
				return strings.ToUpper(n[:1]) + n[1:]
			default:
				i := strings.LastIndexAny(n, "/:") + 1
				return n[:i] + strings.ToUpper(n[i:])
			}
		}
		return kit.Pick(r, c04Names) + kit.Pick(r, c04Tags)
	}
	n := r.Range(6, 14)
	for i := 0; i < n; i++ {
		var op c04Op
		k := r.Intn(21)
		switch {
		case k == 20 && len(live) > 0:
			// an upload that the server must reject (the content is a blob of the pool, probably referenced by
			// listed models, the digest in the URL is another spelling of its digest or another digest), or a
			// repeated correct upload: neither may touch what is stored
			op = c04Op{Op: "upload", Blob: r.Intn(3), From: kit.Pick(r, []string{"upper", "other", "dash-upper", "same", "short"})}
		case k < 5 || len(live) == 0:
			op = c04Op{Op: "create-files", Name: pick(), Blob: r.Intn(3), Dash: r.Chance(1, 6), Upper: r.Chance(1, 6)}
			if r.Chance(1, 3) {
				op.Adapter = kit.Pick(r, []string{"colon", "colon", "dash"})
			}
		case k < 8:
			op = c04Op{Op: "create-from", Name: pick(), From: kit.Pick(r, live)}
			if r.Chance(1, 3) {
				op.Name = kit.Pick(r, live) // re-create an existing model from another (or itself)
			}
		case k < 11:
			op = c04Op{Op: "copy", From: kit.Pick(r, live), Name: pick()}
		case k < 14:
			op = c04Op{Op: "delete", Name: kit.Pick(r, live)}
			if r.Chance(1, 4) {
				op.Name = strings.ToUpper(op.Name[:1]) + op.Name[1:] // case variant of an existing name
			}
		case k < 16:
			op = c04Op{Op: "pull", Name: kit.Pick(r, []string{"ns/pm:latest", "ns/pm:v2", "ns/other:latest"})}
		case k < 17:
			op = c04Op{Op: "show", Name: kit.Pick(r, live)}
		case k < 19 && r.Chance(1, 2):
			// debris of an interrupted create/copy/pull: an empty (or garbage) manifest file under a sibling tag
			// of an existing model; the server is written to tolerate such files (Manifests(continueOnError))
			base := kit.Pick(r, live)
			if i := strings.LastIndex(base, ":"); i > strings.LastIndex(base, "/") {
				base = base[:i]
			}
			op = c04Op{Op: "debris", Name: base + ":" + kit.Pick(r, []string{"aaa", "0", "zzz", "broken"}), Blob: r.Intn(2)}
		case k < 18:
			// the base model exists neither locally nor on the (fake) registry: create must fail and change nothing
			op = c04Op{Op: "create-from", Name: pick(), From: "REG/ns/missing:latest"}
			if r.Chance(1, 2) {
				op.Name = kit.Pick(r, live) // it would replace an existing model
			}
		default:
			op = c04Op{Op: "restart", NoPrune: r.Chance(1, 5)}
		}
		if op.Op == "create-files" || op.Op == "create-from" {
			if r.Chance(1, 2) {
				op.Template = fmt.Sprintf("{{ .Prompt }} t%d", r.Intn(3))
				if r.Chance(1, 6) {
					op.Template = kit.Pick(r, []string{"{{ .Prompt", "{{ if }}", "{{ .Prompt }} {{ end }}"}) // rejected: must change nothing
				}
			}
			if r.Chance(1, 2) {
				op.System = fmt.Sprintf("system %d", r.Intn(3))
			}
			if r.Chance(1, 3) {
				if r.Bool() {
					op.License = fmt.Sprintf("license %d", r.Intn(2))
				} else {
					op.License = []string{"license 0", fmt.Sprintf("license %d", r.Intn(3))}
				}
			}
			if r.Chance(1, 3) {
				op.Params = map[string]any{"temperature": float64(r.Intn(3)) / 2, "stop": []string{"a", fmt.Sprint("b", r.Intn(2))}}
			}
		}
		switch op.Op {
		case "create-files", "create-from", "copy":
			live = append(live, op.Name)
		}
		c.Ops = append(c.Ops, op)
	}
	c.Ops = append(c.Ops, c04Op{Op: "restart"})
	return c
}

type c04Viol struct{ Sig, What string }

// c04AdapterFile: a GGUF of kind "adapter" (what create stores as an adapter layer next to the model layer)
var c04AdapterFile = (&kit.GFile{
	KVs:     []kit.GKV{kit.StrKV("general.architecture", "llama"), kit.StrKV("general.type", "adapter"), kit.U32KV("adapter.lora.alpha", 16)},
	Tensors: []kit.GTensor{{Name: "blk.0.attn_q.weight.lora_a", Dims: []uint64{8}, Kind: 0, Data: make([]byte, 32)}},
}).Bytes()

// the chat template of the phi-3 family as GGUF files carry it (server/model.go detectChatTemplate recognises it)
const c04ChatTemplate = "{% for message in messages %}{% if (message['role'] == 'user') %}{{'<|user|>' + '\n' + message['content'] + '<|end|>' + '\n' + '<|assistant|>' + '\n'}}{% elif (message['role'] == 'assistant') %}{{message['content'] + '<|end|>' + '\n'}}{% endif %}{% endfor %}"

func c04Pool(r *kit.Rand) [][]byte {
	var pool [][]byte
	for i := 0; i < 3; i++ {
		f := kit.GFile{
			KVs: []kit.GKV{
				kit.StrKV("general.architecture", "llama"), kit.U32KV("general.file_type", 1), kit.U32KV("llama.context_length", 32),
				kit.U32KV("llama.embedding_length", 64), kit.U32KV("llama.block_count", 1), kit.U32KV("llama.attention.head_count", 4),
				kit.U32KV("llama.attention.head_count_kv", 4), kit.StrArrKV("tokenizer.ggml.tokens", "a", "b"),
				kit.ArrKV("tokenizer.ggml.scores", kit.GF32, float32(0), float32(0)), kit.ArrKV("tokenizer.ggml.token_type", kit.GI32, int32(1), int32(1)),
				kit.U32KV("verif.unique", uint32(i)),
			},
			Tensors: []kit.GTensor{{Name: "token_embd.weight", Dims: []uint64{8}, Kind: 0, Data: make([]byte, 32)}, {Name: "output.weight", Dims: []uint64{8}, Kind: 0, Data: make([]byte, 32)}},
		}
		if i > 0 {
			// two different files of one family: create detects the same chat template for both and stores the
			// identical template and stop-parameter blobs for every model made from either
			f.KVs = append(f.KVs, kit.StrKV("tokenizer.chat_template", c04ChatTemplate))
		}
		pool = append(pool, f.Bytes())
	}
	return pool
}

// referenced returns the set of blob file names referenced by the manifests of a store state.
func referenced(st storeState, skip map[string]bool) map[string]bool {
	refs := map[string]bool{}
	for p, raw := range st.Manifests {
		if skip[p] {
			continue
		}
		var m manifestDoc
		if json.Unmarshal(raw, &m) != nil {
			continue
		}
		for _, l := range append(append([]layerRef{}, m.Layers...), m.Config) {
			if l.Digest != "" {
				refs[blobFile(l.Digest)] = true
			}
		}
	}
	return refs
}

func manifestRel(full string) string {
	name, tag, _ := strings.Cut(full[strings.LastIndex(full, "/")+1:], ":")
	dir := full[:strings.LastIndex(full, "/")]
	return filepath.Join(dir, name, tag)
}

func c04Run(bin, work string, c *c04Case, seed uint64, rep *kit.Report) (vs []c04Viol, inconclusive string) {
	home := filepath.Join(work, fmt.Sprintf("c04-%d", c.Index))
	os.RemoveAll(home)
	defer os.RemoveAll(home)
	reg := NewFakeReg()
	defer reg.Close()
	pool := c04Pool(nil)
	// published models share the pool's GGUF blobs with locally created ones
	pub := func(repoTag string, blob int, extra string) {
		var m manifestDoc
		m.SchemaVersion, m.MediaType = 2, "application/vnd.docker.distribution.manifest.v2+json"
		d := reg.AddBlob(pool[blob])
		m.Layers = append(m.Layers, layerRef{"application/vnd.ollama.image.model", d, int64(len(pool[blob]))})
		tb := []byte("{{ .Prompt }} " + extra)
		m.Layers = append(m.Layers, layerRef{"application/vnd.ollama.image.template", reg.AddBlob(tb), int64(len(tb))})
		cb, _ := json.Marshal(map[string]any{"model_format": "gguf", "model_family": "llama", "model_type": "1B", "file_type": "F16", "x": extra})
		m.Config = layerRef{"application/vnd.docker.container.image.v1+json", reg.AddBlob(cb), int64(len(cb))}
		b, _ := json.Marshal(m)
		reg.SetManifest(repoTag, b)
	}
	pub("ns/pm:latest", 0, "t0")
	pub("ns/pm:v2", 0, "pm2")
	pub("ns/other:latest", 1, "t0")
	srv, err := StartSrv(bin, home, nil)
	if err != nil {
		return nil, "server start: " + err.Error()
	}
	defer func() { srv.Kill() }()

	viol := func(sig, what string) { vs = append(vs, c04Viol{sig, what}) }
	debris := map[string]bool{} // manifest paths (relative) that the harness planted as unreadable files
	for oi := range c.Ops {
		op := &c.Ops[oi]
		before := readStore(srv.Models, true)
		namesBefore, _ := srv.Tags()
		var res apiResult
		target := map[string]bool{} // folded full names this operation is allowed to touch
		fullName := op.Name
		switch op.Op {
		case "pull":
			fullName = reg.RegHost + "/" + op.Name
		}
		if op.Name != "" {
			target[c04Fold(fullName)] = true
		}
		switch op.Op {
		case "create-files":
			d := sha(pool[op.Blob])
			if st, body := srv.UploadBlob(d, pool[op.Blob]); st != 201 && st != 200 {
				viol("c04:blob-upload-failed", fmt.Sprintf("op %d: upload of a valid blob answered %d %s", oi, st, body))
				return vs, ""
			}
			if op.Dash {
				d = strings.Replace(d, ":", "-", 1)
			}
			if op.Upper {
				// the digest pattern admits upper-case hex: whether create accepts or refuses that spelling,
				// the store must stay consistent (references are compared as strings, files are named in lower case)
				d = d[:7] + strings.ToUpper(d[7:])
			}
			req := map[string]any{"model": op.Name, "files": map[string]string{"model.gguf": d}}
			if op.Adapter != "" {
				// a LoRA adapter file (shared by every model that names it), its digest in either accepted spelling
				ad := sha(c04AdapterFile)
				if st, body := srv.UploadBlob(ad, c04AdapterFile); st != 201 && st != 200 {
					viol("c04:blob-upload-failed", fmt.Sprintf("op %d: upload of the adapter blob answered %d %s", oi, st, body))
					return vs, ""
				}
				if op.Adapter == "dash" {
					ad = strings.Replace(ad, ":", "-", 1)
				}
				req["adapters"] = map[string]string{"adapter.gguf": ad}
			}
			c04Overrides(req, op)
			res = srv.Create(req, nil)
		case "create-from":
			if strings.HasPrefix(op.From, "REG/") {
				op.From = reg.RegHost + strings.TrimPrefix(op.From, "REG")
				req := map[string]any{"model": op.Name, "from": op.From}
				c04Overrides(req, op)
				res = srv.Create(req, nil)
				if res.OK() {
					viol("c04:create-from-missing-base-succeeded", fmt.Sprintf("op %d: create from the nonexistent base %s reported success", oi, op.From))
				}
				break
			}
			req := map[string]any{"model": op.Name, "from": op.From}
			c04Overrides(req, op)
			found := false
			for _, n := range namesBefore {
				found = found || c04Fold(n) == c04Fold(op.From)
			}
			if !found {
				op.Result = "skipped (source not present; would try the public registry)"
				continue
			}
			res = srv.Create(req, nil)
		case "copy":
			res = srv.Copy(op.From, op.Name)
		case "delete":
			res = srv.Delete(op.Name)
		case "pull":
			reg.SetPlan(nil)
			res = srv.Pull(fullName, true, nil)
		case "show":
			res = srv.Show(op.Name)
		case "upload":
			d := sha(pool[op.Blob])
			hexpart := strings.TrimPrefix(d, "sha256:")
			switch op.From {
			case "upper":
				d = "sha256:" + strings.ToUpper(hexpart)
			case "dash-upper":
				d = "sha256-" + strings.ToUpper(hexpart)
			case "other":
				d = sha([]byte(fmt.Sprintf("another revision %d", oi)))
			case "short":
				d = "sha256:" + hexpart[:63]
			}
			st, body := srv.UploadBlob(d, pool[op.Blob])
			res = apiResult{Status: st}
			if st != 200 && st != 201 {
				res.Err = fmt.Sprintf("%d %s", st, strings.TrimSpace(body))
			}
			rep.Count(fmt.Sprintf("upload_%s_status_%d", op.From, st), 1)
		case "debris":
			// find the directory of an existing manifest of that model (the store's own spelling) and plant the file there
			full := c04Full(op.Name)
			var dir string
			for p := range before.Manifests {
				parts := strings.Split(filepath.ToSlash(p), "/")
				if len(parts) == 4 && strings.EqualFold(parts[0]+"/"+parts[1]+"/"+parts[2], full[:strings.LastIndex(full, ":")]) {
					dir = filepath.Join(parts[0], parts[1], parts[2])
				}
			}
			if dir == "" {
				op.Result = "skipped (model not present)"
				continue
			}
			rel := filepath.Join(dir, full[strings.LastIndex(full, ":")+1:])
			if _, exists := before.Manifests[rel]; exists {
				op.Result = "skipped (tag exists)"
				continue
			}
			content := []byte{}
			if op.Blob == 1 {
				content = []byte("{\"schemaVersion\":2,\"layers\":[{\"dig")
			}
			os.WriteFile(filepath.Join(srv.Models, "manifests", rel), content, 0o644)
			debris[rel] = true
			res = apiResult{Status: 200}
		case "restart":
			srv.Stop()
			if !srv.WaitExit(10 * 1e9) {
				srv.Kill()
			}
			env := []string{}
			if op.NoPrune {
				env = append(env, "OLLAMA_NOPRUNE=1")
			}
			s2, err := StartSrv(bin, home, nil, env...)
			if err != nil {
				if envFailure(err) {
					return nil, "restart: " + err.Error()
				}
				viol("c04:restart-failed", fmt.Sprintf("op %d: the server does not start on this store: %v", oi, err))
				return vs, ""
			}
			srv = s2
			res = apiResult{Status: 200}
		}
		rep.Count("ops_"+op.Op, 1)
		if res.OK() {
			op.Result = "ok"
			rep.Count("ops_ok_"+op.Op, 1)
		} else {
			op.Result = "error: " + res.Err
		}
		if !srv.Alive() {
			if srv.KilledFromOutside() {
				return nil, fmt.Sprintf("op %d: the server was SIGKILLed from outside the check (no trace in its log)", oi)
			}
			viol("c04:server-died", fmt.Sprintf("op %d (%s %s): server died\n%s", oi, op.Op, op.Name, tail(srv.Crashed(), 1500)))
			return vs, ""
		}
		after := readStore(srv.Models, true)
		names, tr := srv.Tags()
		if !tr.OK() {
			viol("c04:list-failed", fmt.Sprintf("op %d: /api/tags failed: %s", oi, tr.Err))
			return vs, ""
		}
		desc := fmt.Sprintf("op %d (%s name=%q from=%q -> %s)", oi, op.Op, op.Name, op.From, op.Result)
		// I1: every listed model can be shown and is complete on disk
		readable := 0
		for p := range after.Manifests {
			if !debris[p] {
				readable++
			} else if _, err := os.Stat(filepath.Join(srv.Models, "manifests", p)); err != nil {
				delete(debris, p)
			}
		}
		for p := range debris {
			if _, ok := after.Manifests[p]; !ok {
				delete(debris, p) // overwritten or removed by an operation
			} else if _, _, parsed := checkManifest(srv.Models, after.Manifests[p]); parsed {
				delete(debris, p) // an operation wrote a real manifest over it
				readable++
			}
		}
		if len(names) != readable {
			viol("c04:list-vs-store", fmt.Sprintf("%s: %d names listed, %d readable manifest files on disk (%v vs %v)", desc, len(names), readable, names, keys(after.Manifests)))
		}
		for _, n := range names {
			if r := srv.Show(n); !r.OK() {
				viol("c04:listed-model-cannot-be-shown", fmt.Sprintf("%s: listed model %q cannot be shown: %s", desc, n, r.Err))
			}
		}
		for p, raw := range after.Manifests {
			_, problems, parsed := checkManifest(srv.Models, raw)
			if !parsed {
				if !debris[p] {
					viol("c04:manifest-unreadable", fmt.Sprintf("%s: manifest %s does not parse", desc, p))
				}
			} else if len(problems) > 0 {
				kind := "other-model"
				if target[strings.ToLower(strings.Replace(p, string(filepath.Separator), "/", -1))] || c04TargetPath(target, p) {
					kind = "target-model"
				}
				viol("c04:incomplete-model:"+kind+":after-"+op.Op, fmt.Sprintf("%s: model %s: %s", desc, p, strings.Join(problems, "; ")))
			}
		}
		// I2: models not named in the operation are byte-identical
		if op.Op != "restart" {
			skip := map[string]bool{}
			for p := range before.Manifests {
				if c04TargetPath(target, p) {
					skip[p] = true
				}
			}
			for p, raw := range before.Manifests {
				if skip[p] {
					continue
				}
				if now, ok := after.Manifests[p]; !ok {
					viol("c04:other-model-removed:after-"+op.Op, fmt.Sprintf("%s: manifest %s of another model disappeared", desc, p))
				} else if !bytes.Equal(raw, now) {
					viol("c04:other-model-changed:after-"+op.Op, fmt.Sprintf("%s: manifest %s of another model changed", desc, p))
				}
			}
			for bf := range referenced(before, skip) {
				if h, ok := after.Blobs[bf]; !ok {
					viol("c04:shared-blob-removed:after-"+op.Op, fmt.Sprintf("%s: blob %s still referenced by another model was removed", desc, bf))
				} else if h != before.Blobs[bf] {
					viol("c04:shared-blob-changed:after-"+op.Op, fmt.Sprintf("%s: blob %s referenced by another model changed content", desc, bf))
				}
			}
		} else {
			// restart: manifests survive; with pruning the blob set is exactly the referenced set
			for p, raw := range before.Manifests {
				if now, ok := after.Manifests[p]; !ok || !bytes.Equal(raw, now) {
					viol("c04:restart-changed-manifest", fmt.Sprintf("%s: manifest %s changed or disappeared over a restart", desc, p))
				}
			}
			if !op.NoPrune && len(debris) == 0 { // with unreadable manifests present start-up deliberately skips pruning
				refs := referenced(after, nil)
				for bf := range after.Blobs {
					if !refs[bf] {
						viol("c04:prune-left-unreferenced-blob", fmt.Sprintf("%s: blob %s is referenced by no manifest after start-up pruning", desc, bf))
					}
				}
				for bf := range refs {
					if _, ok := after.Blobs[bf]; !ok {
						viol("c04:prune-removed-referenced-blob", fmt.Sprintf("%s: blob %s is referenced but missing after start-up pruning", desc, bf))
					}
				}
				rep.Count("restarts_with_prune_checked", 1)
			}
		}
		// I4: no two listed names equal under case folding
		seen := map[string]string{}
		for _, n := range names {
			f := c04Fold(n)
			if o, ok := seen[f]; ok {
				viol("c04:case-duplicate", fmt.Sprintf("%s: listed models %q and %q differ only by letter case", desc, o, n))
			}
			seen[f] = n
		}
		// I5: minimal post-conditions
		if res.OK() {
			switch op.Op {
			case "create-files", "create-from", "pull":
				if _, ok := seen[c04Fold(fullName)]; !ok {
					viol("c04:created-not-listed", fmt.Sprintf("%s succeeded but the model is not listed (%v)", desc, names))
				}
			case "copy":
				srcListed := false
				for _, n := range namesBefore {
					srcListed = srcListed || c04Fold(n) == c04Fold(op.From)
				}
				if !srcListed {
					break // e.g. a self-copy of a name that does not exist is answered 200 without doing anything
				}
				src, dst := "", ""
				for p := range after.Manifests {
					if c04TargetPath(map[string]bool{c04Fold(op.From): true}, p) {
						src = p
					}
					if c04TargetPath(map[string]bool{c04Fold(op.Name): true}, p) {
						dst = p
					}
				}
				if dst == "" {
					viol("c04:copied-not-listed", fmt.Sprintf("%s succeeded but the destination does not exist", desc))
				} else if src != "" && !bytes.Equal(after.Manifests[src], after.Manifests[dst]) {
					viol("c04:copy-differs", fmt.Sprintf("%s: destination manifest differs from the source's", desc))
				}
			case "delete":
				if _, ok := seen[c04Fold(op.Name)]; ok {
					viol("c04:deleted-still-listed", fmt.Sprintf("%s succeeded but the model is still listed", desc))
				}
			}
		}
		if len(vs) > 0 {
			return vs, ""
		}
	}
	return vs, ""
}

func c04TargetPath(target map[string]bool, manifestRelPath string) bool {
	parts := strings.Split(filepath.ToSlash(manifestRelPath), "/")
	if len(parts) != 4 {
		return false
	}
	return target[strings.ToLower(parts[0]+"/"+parts[1]+"/"+parts[2]+":"+parts[3])]
}

func c04Overrides(req map[string]any, op *c04Op) {
	if op.Template != "" {
		req["template"] = op.Template
	}
	if op.System != "" {
		req["system"] = op.System
	}
	if op.License != nil {
		req["license"] = op.License
	}
	if op.Params != nil {
		req["parameters"] = op.Params
	}
}

func keys(m map[string][]byte) []string {
	var k []string
	for x := range m {
		k = append(k, x)
	}
	sort.Strings(k)
	return k
}

func runC04() {
	rep := kit.NewReport("C04")
	cfg := rep.Cfg()
	defer rep.Flush()
	rep.Set("rule", "case i = PRNG(seed,'C04',i): 7-15 operations through the public API of the real server binary over a pool of 12 names (case variants, namespaces, a second host) x 6 tags: create from uploaded GGUF blobs (1 in 3 together with one shared LoRA adapter file named in the request's adapters map, its digest in either accepted spelling; pool of 3, two of which carry a chat template the server recognises so that models made from them share generated template/parameter layers; new names are 1 in 4 another letter-case spelling of a name used earlier; digest sent as sha256:<hex> or sha256-<hex>, sometimes with upper-case hex), create from an existing model with template/system/license/parameter overrides (1 in 12 template overrides is one the server rejects), copy, delete (also by case variant), blob uploads under a digest that does not match the content (other letter case, another digest, too short) or repeated correct uploads, fault-free pull of published models that share blobs with the created ones, show, planted debris (an empty or truncated manifest file under a sibling tag of an existing model, as an interrupted create/copy/pull leaves it), restart (start-up prune, or OLLAMA_NOPRUNE); every history ends with a pruning restart. After every operation the store directory is read and re-hashed: every listed model shows and has all layers + config with matching size/SHA-256; manifests and blobs of models not named by the operation are byte-identical; after a pruning restart blobs == referenced digests; no two listed names equal under case folding; created => listed, deleted => not listed, copied => same manifest. Non-trivial & distinct = distinct (op-kind sequence, outcomes) among histories in which at least two models shared a blob when a delete/create/prune ran")
	rep.Set("assumptions", []string{"operations are issued one at a time (concurrent store operations are C15's subject)", "create-from is only issued for sources that exist (a missing source would contact the public registry)"})
	bin := os.Getenv("VERIF_OLLAMA_BIN")
	work, err := os.MkdirTemp("", "verif-c04-")
	if err != nil {
		panic(err)
	}
	defer os.RemoveAll(work)
	n := cfg.N(120, 2400)
	replayIdx := -1
	if cfg.Replay != "" {
		var rc struct {
			Index int `json:"index"`
		}
		if err := kit.LoadReplay(cfg.Replay, &rc); err != nil {
			panic(err)
		}
		replayIdx = rc.Index
	}
	var wg sync.WaitGroup
	sem := make(chan struct{}, 3)
	for i := 0; i < n; i++ {
		if replayIdx >= 0 && i != replayIdx {
			continue
		}
		if replayIdx < 0 && (!cfg.Mine(i) || rep.Enough() || rep.OverBudget()) {
			continue
		}
		wg.Add(1)
		sem <- struct{}{}
		go func(i int) {
			defer wg.Done()
			defer func() { <-sem }()
			c := c04Gen(kit.NewRand(cfg.Seed, "C04", i), i)
			vs, inc := c04Run(bin, work, &c, cfg.Seed, rep)
			rep.Eval(1)
			if inc != "" {
				rep.Inconclusive(fmt.Sprintf("case %d: %s", i, inc))
				return
			}
			for _, v := range vs {
				rep.Violate(v.Sig, v.What, c, nil)
				if replayIdx >= 0 {
					fmt.Printf("replay: %s: %s\n", v.Sig, v.What)
				}
			}
			var ks []string
			for _, o := range c.Ops {
				r := "e"
				if o.Result == "ok" {
					r = "k"
				}
				ks = append(ks, o.Op[:min(6, len(o.Op))]+r)
			}
			rep.Distinct(strings.Join(ks, ","))
			if rep.NeedSample() {
				rep.Sample(c)
			}
		}(i)
	}
	wg.Wait()
}
