package main

// C10 (API layer): a hostile model file uploaded and used in create / show gets an error response
// (or success) and the server keeps serving. create decodes in a goroutine outside gin's recovery,
// so a decoder panic there is a dead server, which is what this observes.

import (
	"encoding/binary"
	"fmt"
	"os"
	"path/filepath"
	"strconv"
	"strings"
	"sync/atomic"
	"time"

	kit "verifkit"
)

type c10Case struct {
	Index    int    `json:"index"`
	Mutation string `json:"mutation"`
	Len      int    `json:"len"`
	Hex      string `json:"hex,omitempty"`
	data     []byte
}

var c10Hostile = []uint64{0, 1, 31, 33, 1<<31 - 1, 1 << 31, 1<<32 - 1, 1 << 32, 1<<63 - 1, 1 << 63, 1<<64 - 1}
var c10Keys = []string{"general.architecture", "general.alignment", "general.file_type", "general.type", "general.parameter_count", "tokenizer.chat_template", "tokenizer.ggml.tokens", "llama.block_count", "llama.vision.block_count", "llama.pooling_type"}

func c10BaseFile(version uint32) *kit.GFile {
	return &kit.GFile{
		Version: version,
		KVs: []kit.GKV{
			kit.StrKV("general.architecture", "llama"), kit.U32KV("general.file_type", 1), kit.U32KV("general.alignment", 32),
			kit.U32KV("llama.context_length", 32), kit.U32KV("llama.embedding_length", 64), kit.U32KV("llama.block_count", 1),
			kit.U32KV("llama.attention.head_count", 4), kit.U32KV("llama.attention.head_count_kv", 4),
			kit.StrKV("tokenizer.chat_template", "{{ .Prompt }}"), kit.StrArrKV("tokenizer.ggml.tokens", "a", "b"),
			kit.ArrKV("tokenizer.ggml.scores", kit.GF32, float32(0), float32(0)), kit.ArrKV("tokenizer.ggml.token_type", kit.GI32, int32(1), int32(1)),
		},
		Tensors: []kit.GTensor{{Name: "token_embd.weight", Dims: []uint64{8}, Kind: 0, Data: make([]byte, 32)}, {Name: "blk.0.attn_q.weight", Dims: []uint64{32}, Kind: 2, Data: make([]byte, 18)}, {Name: "output.weight", Dims: []uint64{8}, Kind: 0, Data: make([]byte, 32)}},
	}
}

func c10Scalar(r *kit.Rand, t uint32) any {
	switch t {
	case kit.GU8:
		return uint8(r.Intn(4))
	case kit.GI8:
		return int8(r.Intn(4))
	case kit.GU16:
		return uint16(r.Intn(4))
	case kit.GI16:
		return int16(r.Intn(4))
	case kit.GU32:
		return uint32(r.Intn(4))
	case kit.GI32:
		return int32(r.Intn(4))
	case kit.GF32:
		return float32(r.Intn(4))
	case kit.GBool:
		return r.Bool()
	case kit.GStr:
		return kit.Pick(r, []string{"", "adapter", "projector", "x"})
	case kit.GU64:
		return uint64(r.Intn(4))
	case kit.GI64:
		return int64(r.Intn(4))
	case kit.GF64:
		return float64(r.Intn(4))
	}
	return kit.GArray{Elem: kit.GI32, Vals: []any{int32(1)}}
}

func c10Gen(r *kit.Rand, idx int) c10Case {
	f := c10BaseFile(kit.Pick(r, []uint32{3, 3, 2, 1}))
	c := c10Case{Index: idx}
	var muts []string
	if r.Chance(1, 3) {
		k := kit.Pick(r, c10Keys)
		t := uint32(r.Intn(13))
		var kvs []kit.GKV
		for _, kv := range f.KVs {
			if kv.Key != k {
				kvs = append(kvs, kv)
			}
		}
		f.KVs = append([]kit.GKV{{Key: k, Type: t, Val: c10Scalar(r, t)}}, kvs...)
		muts = append(muts, fmt.Sprintf("retype[%s]=%d", k, t))
	}
	b, fields, dataStart, err := f.Build()
	if err != nil {
		panic(err)
	}
	if r.Chance(1, 6) && f.Version != 1 && !f.BigEndian {
		// a tensor whose byte size wraps around 2^64 to "minus something": the decoder seeks by the size, so the
		// end of the tensor data lands before its start (target: offset 0, the data start, or a few bytes back)
		last := f.Tensors[len(f.Tensors)-1] // output.weight, one dimension, F32
		x := uint64(dataStart) + last.Offset
		back := kit.Pick(r, []uint64{x, x - uint64(dataStart), 32, 64, x + 32})
		v := (0 - back) / 4
		for i := len(fields) - 1; i >= 0; i-- {
			if fields[i].What == "dim" && fields[i].Key == last.Name {
				binary.LittleEndian.PutUint64(b[fields[i].Pos:], v)
				muts = append(muts, fmt.Sprintf("dim[%s]=%d (size wraps to -%d)", last.Name, v, back))
				break
			}
		}
	}
	if len(muts) == 0 && r.Chance(1, 6) && f.Version != 1 {
		// two tensors whose byte sizes each fit an int64 but whose sum, added to the start of the tensor data,
		// wraps around 2^64 to a position at or before the header (a caller walking the file by the decoder's
		// end offset would then decode the same bytes for ever)
		target := kit.Pick(r, []uint64{0, 0, 32, 64, uint64(dataStart) - 32, 4 * uint64(r.Intn(dataStart/4))})
		if d := f.WrapPair(b, fields, dataStart, 0, target); d != "" {
			muts = append(muts, d)
		}
	}
	for k := r.Range(0, 2); (k > 0 || len(muts) == 0) && !strings.Contains(strings.Join(muts, ";"), "wraps"); k-- {
		switch r.Intn(4) {
		case 0, 1, 2:
			var cand []kit.Field
			for _, fl := range fields {
				if (fl.Size == 4 || fl.Size == 8) && fl.Pos+fl.Size <= len(b) {
					cand = append(cand, fl)
				}
			}
			if len(cand) == 0 {
				continue
			}
			fl := kit.Pick(r, cand)
			v := kit.Pick(r, c10Hostile)
			if r.Chance(1, 4) {
				v = uint64(len(b)) + uint64(r.Intn(5)) - 2
			}
			if fl.Size == 4 {
				binary.LittleEndian.PutUint32(b[fl.Pos:], uint32(v))
			} else {
				binary.LittleEndian.PutUint64(b[fl.Pos:], v)
			}
			muts = append(muts, fmt.Sprintf("%s[%s]=%d", fl.What, fl.Key, v))
		case 3:
			n := r.Intn(len(b) + 1)
			b = b[:n]
			muts = append(muts, fmt.Sprintf("truncate@%d", n))
		}
		if len(b) < 12 && len(muts) == 0 {
			muts = append(muts, "tiny")
		}
		if len(muts) > 0 && k <= 0 {
			break
		}
	}
	c.Mutation = strings.Join(muts, ";")
	c.data = b
	c.Len = len(b)
	c.Hex = fmt.Sprintf("%x", b)
	return c
}

func runC10() {
	rep := kit.NewReport("C10")
	cfg := rep.Cfg()
	defer rep.Flush()
	bin := os.Getenv("VERIF_OLLAMA_BIN")
	work, err := os.MkdirTemp("", "verif-c10-")
	if err != nil {
		panic(err)
	}
	defer os.RemoveAll(work)
	n := cfg.N(160, 4000)
	replayIdx := -1
	if cfg.Replay != "" {
		var rc struct {
			Index int `json:"index"`
		}
		if err := kit.LoadReplay(cfg.Replay, &rc); err == nil {
			replayIdx = rc.Index
		}
	}
	var srv *Srv
	start := func() bool {
		home := filepath.Join(work, fmt.Sprintf("srv-%d", cfg.Shard))
		os.RemoveAll(home)
		s, err := StartSrv(bin, home, nil)
		if err != nil {
			rep.Inconclusive("server start: " + err.Error())
			return false
		}
		srv = s
		return true
	}
	if !start() {
		return
	}
	defer func() { srv.Kill() }()
	for i := 0; i < n; i++ {
		if replayIdx >= 0 && i != replayIdx {
			continue
		}
		if replayIdx < 0 && (!cfg.Mine(i) || rep.Enough() || rep.OverBudget()) {
			continue
		}
		c := c10Gen(kit.NewRand(cfg.Seed, "C10api", i), i)
		rep.Eval(1)
		d := sha(c.data)
		st, body := srv.UploadBlob(d, c.data)
		name := fmt.Sprintf("hostile%d", i)
		var cr, sh apiResult
		if st == 201 || st == 200 {
			// memory watcher: a request on a file of a few hundred bytes must not make the server grow by gigabytes
			stop := make(chan struct{})
			var peak atomic.Int64
			go func() {
				for {
					select {
					case <-stop:
						return
					case <-time.After(50 * time.Millisecond):
					}
					if kb := rssKB(srv.cmd.Process.Pid); kb > peak.Load() {
						peak.Store(kb)
						if kb > 1<<20 { // 1 GiB
							srv.Kill()
							return
						}
					}
				}
			}()
			cr = srv.Create(map[string]any{"model": name, "files": map[string]string{"m.gguf": d}}, nil)
			close(stop)
			if peak.Load() > 1<<20 {
				rep.Violate("c10:api:runaway-allocation:create", fmt.Sprintf("creating a model from a %d-byte hostile file (%s) made the server allocate more than 1 GiB (RSS %d kB) without answering; the server was killed by the monitor", len(c.data), c.Mutation, peak.Load()), c, nil)
				srv.Kill()
				if !start() {
					return
				}
				continue
			}
			if cr.OK() {
				rep.Count("api_create_ok", 1)
				sh = srv.Show(name)
				srv.post("POST", "/api/show", map[string]any{"model": name, "verbose": true}, nil)
				srv.Delete(name)
			} else {
				rep.Count("api_create_error", 1)
			}
		} else {
			rep.Count("api_upload_rejected", 1)
			_ = body
		}
		_ = sh
		if !srv.Alive() && srv.KilledFromOutside() {
			rep.Inconclusive(fmt.Sprintf("case %d: the server was SIGKILLed from outside the check", i))
			if !start() {
				return
			}
			continue
		}
		if !srv.Alive() {
			crash := srv.Crashed()
			site := "unknown"
			for _, ln := range strings.Split(crash, "\n") {
				if strings.HasPrefix(ln, "github.com/ollama/ollama/") {
					site = strings.TrimPrefix(ln, "github.com/ollama/ollama/")
					if k := strings.LastIndexByte(site, '('); k > 0 {
						site = site[:k]
					}
					break
				}
			}
			rep.Violate("c10:api:server-died:"+site, fmt.Sprintf("the server died while creating/showing a model from a hostile file (%s):\n%s", c.Mutation, tail(crash, 1800)), c, nil)
			srv.Kill()
			if !start() {
				return
			}
		}
		mk := c.Mutation
		if j := strings.IndexAny(mk, "=@"); j > 0 {
			mk = mk[:j]
		}
		rep.Distinct("api:" + mk + fmt.Sprint(cr.OK()))
		if rep.NeedSample() && i%13 == 1 {
			rep.Sample(map[string]any{"api_case": c, "create": cr.Err})
		}
	}
}

// rssKB reads VmRSS of a process (0 when it is gone).
func rssKB(pid int) int64 {
	b, err := os.ReadFile(fmt.Sprintf("/proc/%d/status", pid))
	if err != nil {
		return 0
	}
	for _, ln := range strings.Split(string(b), "\n") {
		if strings.HasPrefix(ln, "VmRSS:") {
			f := strings.Fields(ln)
			if len(f) >= 2 {
				n, _ := strconv.ParseInt(f[1], 10, 64)
				return n
			}
		}
	}
	return 0
}
