package main

import (
	"fmt"
	"os"

	kit "verifkit"
)

// tinyGGUF is a small valid llama model file (independent writer) that create/show accept.
func tinyGGUF() []byte {
	f := kit.GFile{
		KVs: []kit.GKV{
			kit.StrKV("general.architecture", "llama"),
			kit.U32KV("general.file_type", 1),
			kit.U32KV("llama.context_length", 32),
			kit.U32KV("llama.embedding_length", 64),
			kit.U32KV("llama.block_count", 1),
			kit.U32KV("llama.attention.head_count", 4),
			kit.U32KV("llama.attention.head_count_kv", 4),
			kit.StrArrKV("tokenizer.ggml.tokens", "a", "b"),
			kit.ArrKV("tokenizer.ggml.scores", kit.GF32, float32(0), float32(0)),
			kit.ArrKV("tokenizer.ggml.token_type", kit.GI32, int32(1), int32(1)),
		},
		Tensors: []kit.GTensor{
			{Name: "token_embd.weight", Dims: []uint64{8}, Kind: 0, Data: make([]byte, 32)},
			{Name: "blk.0.attn_q.weight", Dims: []uint64{8}, Kind: 0, Data: make([]byte, 32)},
			{Name: "output.weight", Dims: []uint64{8}, Kind: 0, Data: make([]byte, 32)},
		},
	}
	return f.Bytes()
}

func main() {
	if len(os.Args) < 2 {
		fmt.Println("usage: blackbox c03|c04|c10|c12")
		os.Exit(2)
	}
	if os.Getenv("VERIF_OLLAMA_BIN") == "" {
		fmt.Println("VERIF_OLLAMA_BIN unset")
		os.Exit(2)
	}
	switch os.Args[1] {
	case "c03":
		runC03()
	case "c04":
		runC04()
	case "c10":
		runC10()
	case "c12":
		runC12()
	default:
		fmt.Println("unknown subcommand", os.Args[1])
		os.Exit(2)
	}
}
