package main

import (
	"net"
	"net/http"
	"os"
	"strings"
	"testing"
)

// Self-test of the start-up ownership check: a foreign process answering on the chosen port must never be
// taken for the server this check started (needs VERIF_OLLAMA_BIN; skipped otherwise).
func TestForeignServerOnPortIsNotOurs(t *testing.T) {
	bin := os.Getenv("VERIF_OLLAMA_BIN")
	if bin == "" {
		t.Skip("VERIF_OLLAMA_BIN not set")
	}
	ln, err := listenLow()
	if err != nil {
		t.Fatal(err)
	}
	defer ln.Close()
	go http.Serve(ln, http.HandlerFunc(func(w http.ResponseWriter, r *http.Request) { w.WriteHeader(200) }))
	home := t.TempDir()
	s := &Srv{Bin: bin, Home: home, Models: home + "/models", Port: ln.Addr().(*net.TCPAddr).Port}
	err = s.start()
	if err == nil {
		s.Kill()
		t.Fatal("start() accepted a foreign server as its own")
	}
	if !envFailure(err) || !strings.Contains(err.Error(), "address already in use") {
		t.Fatalf("unexpected error class: %v", err)
	}
	// and the normal path still works
	s2, err := StartSrv(bin, t.TempDir(), nil)
	if err != nil {
		t.Fatal(err)
	}
	if !s2.ownsPort() {
		t.Fatal("own server not recognised")
	}
	s2.Kill()
}
