module blackbox

go 1.24.0

require verifkit v0.0.0

replace verifkit => ../kit
