package main

// C03: a successful pull leaves exactly the published, digest-verified model; a failed pull never
// leaves a name that resolves to missing/corrupt layers; a later retry succeeds; no registry
// response crashes the server. Black box: real server binary + fake registry/CDN + store inspector.

import (
	"encoding/json"
	"fmt"
	"io"
	"net"
	"os"
	"os/exec"
	"path/filepath"
	"slices"
	"sort"
	"strings"
	"sync"
	"time"

	kit "verifkit"
)

type c03Layer struct {
	Media  string `json:"media"`
	Size   int    `json:"size"`
	Digest string `json:"digest"`
	data   []byte
}

type c03Version struct {
	Layers   []c03Layer `json:"layers"`
	Config   c03Layer   `json:"config"`
	manifest []byte
}

type c03Resume struct {
	Layer     int   `json:"layer"`                        // index into the version's layers
	Parts     []int `json:"parts"`                        // part sizes (tiling of the blob)
	Done      []int `json:"done"`                         // completed bytes per part
	Corrupt   bool  `json:"corrupt"`                      // completed region holds wrong bytes
	EmptyPart int   `json:"empty_part_file,omitempty"`    // 1-based: this part file is empty (process died while rewriting it)
	Missing   []int `json:"missing_part_files,omitempty"` // these part files do not exist (process died while removing them after the layer was complete)
}

// c03Overlap: while this attempt is held in the middle of its pull (the CDN response of its second blob is
// delayed by the fake CDN; with Join, the response of the first layer itself), a second model that shares the
// attempt's first layer is pulled through the same server. Damage says what happens to that shared layer in
// this attempt: "flip" (CDN flips a byte), "no-length" (HEAD without Content-Length, the client then fetches
// nothing and publishes an empty file), "none".
type c03Overlap struct {
	Damage string `json:"damage"`
	Join   bool   `json:"join"`
	// AfterRename: instead of holding a CDN response, the server thread that renames a file into the blob store is
	// paused for half a second right after the rename (strace delay_exit on rename*), and the second model is pulled
	// inside that pause: whatever is published under a digest name must be verified content at that moment already
	AfterRename bool `json:"after_rename,omitempty"`
}

// c03Relay: three pulls of the same name hand over to one another. Pull A's first CDN request is answered 500, so the
// client pauses (1 s) before it tries again, and A's user leaves during that pause; pull B starts a little later and
// its CDN request for the first layer is held by the fake CDN; once A has had time to unwind, pull C runs and is
// served correctly; then B's held response is delivered (intact, with a flipped byte, or cut short). Which of the
// three transfers share a download, and which pulls succeed, is up to the server: whatever they report is judged by
// the usual oracle when all three have ended.
type c03Relay struct {
	LeaveMs  int    `json:"a_leaves_ms_after_the_500"`
	StartBMs int    `json:"b_starts_ms_after_a_left"`
	StartCMs int    `json:"c_starts_ms_after_the_500"`
	Damage   string `json:"held_response"` // ok | flip | short
}

type c03Attempt struct {
	Version    int         `json:"version"`
	Faults     []Fault     `json:"faults,omitempty"`
	Stream     bool        `json:"stream"`
	Disconnect int         `json:"disconnect_after_line,omitempty"`
	Resume     *c03Resume  `json:"resume,omitempty"`
	Overlap    *c03Overlap `json:"overlap,omitempty"`
	Relay      *c03Relay   `json:"relay,omitempty"`
}

type c03Case struct {
	Index    int          `json:"index"`
	Versions []c03Version `json:"versions"`
	Attempts []c03Attempt `json:"attempts"`
	Name     string       `json:"name"`
}

var c03Challenges = []string{
	`Bearer realm=`, `Bearer realm="`, `Bearer realm`, `Bearer `, ``, `Bearer realm="",service="",scope=""`,
	`Bearer realm="http://%zz",service="x"`, `Bearer realm="::::",service="s",scope="a b c"`, `Basic realm="x"`,
	`Bearer service=`, `Bearer scope=`, `Bearer realm="x",service=`, `Bearer realm="x",scope="y`, `realm=`, `Bearer realm=x`,
	`Bearer realm="http://127.0.0.1:1/token",service="s",scope="repository:x:pull"`, `Bearer realm="a",,,,service="b"`,
	"Bearer realm=\"\x00\",service=\"\xff\"", `Bearer =`, `Bearer realm="x"y,service="z"`, strings.Repeat("realm=", 200),
	`Bearer realm="` + strings.Repeat("A", 5000) + `"`, `Bearer scope="`, `Bearer realm="x",service="s",scope=`, `,`, `"`, `=`, `Bearer realm=","`,
}

// c03Big: thorough tier only, every 40th case carries one layer of 200-230 MB, i.e. three real download
// parts (100 MB, 100 MB, rest) with the faults aimed at the CDN requests of those parts.
var c03Big = false

func c03Gen(r *kit.Rand, idx int, tiny []byte) c03Case {
	c := c03Case{Index: idx, Name: fmt.Sprintf("ns%d/m%d:%s", r.Intn(3), r.Intn(3), kit.Pick(r, []string{"latest", "v2", "Q4"}))}
	big := c03Big && idx%40 == 7
	nv := 1
	if r.Chance(1, 2) {
		nv = 2
	}
	mk := func(media string, size int) c03Layer {
		var b []byte
		if media == "application/vnd.ollama.image.model" {
			// a valid tiny GGUF followed by unique padding (the pull path never decodes it; show does)
			b = append([]byte(nil), tiny...)
		} else {
			// contents that show can parse: text for template/license, JSON for params; padded to the drawn size
			var head string
			switch media {
			case "application/vnd.ollama.image.params":
				head = fmt.Sprintf(`{"temperature":0.5,"seed":%d,"stop":["%s"]}`, r.Intn(1<<30), strings.Repeat("s", max(0, size-60)))
			case "application/vnd.ollama.image.template":
				head = fmt.Sprintf("{{ .Prompt }} %d %s", r.Intn(1<<30), strings.Repeat("t", max(0, size-30)))
			default:
				head = fmt.Sprintf("license %d %s", r.Intn(1<<30), strings.Repeat("l", max(0, size-30)))
			}
			b = []byte(head)
		}
		return c03Layer{Media: media, Size: len(b), data: b}
	}
	var shared []c03Layer
	for v := 0; v < nv; v++ {
		var ver c03Version
		if v == 1 && r.Chance(2, 3) {
			ver.Layers = append(ver.Layers, shared[0]) // the big layer is shared between versions
		} else {
			ver.Layers = append(ver.Layers, mk("application/vnd.ollama.image.model", 0))
		}
		for _, m := range []string{"application/vnd.ollama.image.template", "application/vnd.ollama.image.license", "application/vnd.ollama.image.params"} {
			if r.Chance(2, 3) {
				if v == 1 && r.Chance(1, 2) && len(shared) > len(ver.Layers) {
					ver.Layers = append(ver.Layers, shared[len(ver.Layers)])
					continue
				}
				ver.Layers = append(ver.Layers, mk(m, kit.Pick(r, []int{0, 1, 37, 4096, 65536, 300000})))
			}
		}
		if r.Chance(1, 5) && len(ver.Layers) > 1 {
			// the same blob listed twice in one manifest (e.g. two identical license layers) is legitimate
			ver.Layers = append(ver.Layers, ver.Layers[r.Range(1, len(ver.Layers)-1)])
		}
		if big && v == 0 {
			b := r.Bytes(200_000_000 + r.Intn(30_000_000))
			ver.Layers = append(ver.Layers, c03Layer{Media: "application/vnd.ollama.image.license", Size: len(b), data: b})
		}
		cfg := map[string]any{"model_format": "gguf", "model_family": "llama", "model_type": "1B", "file_type": "F16", "architecture": "amd64", "os": "linux", "v": r.Intn(1 << 30)}
		cb, _ := json.Marshal(cfg)
		ver.Config = c03Layer{Media: "application/vnd.docker.container.image.v1+json", Size: len(cb), data: cb}
		if v == 0 {
			shared = append([]c03Layer{}, ver.Layers...)
		}
		c.Versions = append(c.Versions, ver)
	}
	na := r.Range(1, 4)
	for a := 0; a < na; a++ {
		at := c03Attempt{Version: r.Intn(nv), Stream: r.Chance(2, 3)}
		if a == na-1 {
			c.Attempts = append(c.Attempts, at) // the last attempt is fault-free
			break
		}
		nf := r.Range(1, 3)
		chunkFaults := 0
		if big {
			at.Version = 0
		}
		for k := 0; k < nf; k++ {
			var f Fault
			switch r.Intn(12) {
			case 0:
				f = Fault{Kind: kit.Pick(r, []string{"manifest", "head", "blobget"}), Nth: r.Range(1, 3), Act: "status", Code: kit.Pick(r, []int{500, 502, 503, 404, 429, 400, 403})}
			case 1:
				f = Fault{Kind: kit.Pick(r, []string{"manifest", "head", "blobget"}), Nth: r.Range(1, 3), Act: "challenge", Str: kit.Pick(r, c03Challenges)}
			case 2:
				// well-formed challenge: token endpoint is served and the retry must go through
				f = Fault{Kind: kit.Pick(r, []string{"manifest", "head", "blobget"}), Nth: r.Range(1, 2), Act: "challenge", Str: "GOOD"}
				if r.Chance(1, 2) {
					// ... and the token endpoint misbehaves in turn
					tf := Fault{Kind: "token", Nth: 1, Act: kit.Pick(r, []string{"status", "garbage", "reset", "garbage", "challenge"}), Code: kit.Pick(r, []int{500, 401, 403, 404}),
						Str: kit.Pick(r, []string{"", "{", "null", "[]", `{"token":5}`, `{"token":""}`, `{"token":null}`, `{"access_token":"x"}`, "<html>", `"token"`, `{"token":"` + strings.Repeat("t", 70000) + `"}`})}
					if tf.Act == "challenge" {
						// the token endpoint itself demands a token (a proxy that puts /token behind the same rule
						// as /v2/): every token request is answered 401 with a challenge that leads back to it
						tf.Nth, tf.Str = 0, "GOOD"
					}
					at.Faults = append(at.Faults, tf)
				}
			case 3:
				f = Fault{Kind: "manifest", Nth: 1, Act: kit.Pick(r, []string{"truncate", "garbage", "reset"}), Arg: int64(r.Intn(60)), Str: kit.Pick(r, []string{"", "{", "null", "[]", `{"layers":null}`, `{"layers":[{"digest":"x"}]}`, `{"config":{"digest":"sha256:zz"}}`, "<html>",
					`{"layers":[{"digest":"","size":5}]}`, `{"layers":[{}]}`, `{"layers":[null]}`, `{"layers":[{"digest":"sha256:"}]}`, `{"layers":[{"digest":"sha256-0000000000000000000000000000000000000000000000000000000000000000"}]}`,
					`{"config":{"digest":""},"layers":[]}`, `{"layers":[{"digest":"sha256:0000000000000000000000000000000000000000000000000000000000000000","size":-1}]}`, `{"layers":"x"}`, `{"schemaVersion":"two"}`})}
			case 4:
				f = Fault{Kind: "head", Nth: r.Range(1, 3), Act: kit.Pick(r, []string{"bad-length", "no-length", "reset"}), Arg: int64(kit.Pick(r, []int{-1, 1, -100, 100, 7}))}
			case 5:
				f = Fault{Kind: "blobget", Nth: r.Range(1, 3), Act: kit.Pick(r, []string{"redirect-same", "no-redirect", "reset"}), Arg: int64(kit.Pick(r, []int{1, 3, 12}))}
			default:
				if chunkFaults >= 2 {
					continue // every chunk fault costs the client's own 2^try s sleep
				}
				chunkFaults++
				f = Fault{Kind: "cdn", Nth: r.Range(1, 3), Act: kit.Pick(r, []string{"truncate", "flip", "ignore-range", "status", "reset", "short-ok", "extra", "flip"}), Arg: int64(r.Intn(70000)), Code: kit.Pick(r, []int{500, 503, 404, 403})}
				if big {
					f.Nth = r.Range(1, 8)
					f.Arg = int64(r.Intn(120_000_000))
				}
			}
			at.Faults = append(at.Faults, f)
		}
		if at.Stream && r.Chance(1, 6) {
			at.Disconnect = r.Range(1, 6)
		}
		if r.Chance(1, 8) {
			// every CDN response of this attempt is damaged (a broken cache in front of the CDN)
			at.Faults = []Fault{{Kind: "cdn", Nth: 0, Act: "flip", Arg: int64(r.Intn(700))}}
			at.Resume = nil
		}
		if r.Chance(1, 7) {
			// "corrupt, then abandon": an early layer arrives complete but damaged, a later CDN response
			// stalls, and the client leaves while that layer is in flight (the attempt ends by cancellation,
			// not by a registry error)
			at.Stream = true
			at.Faults = []Fault{{Kind: "cdn", Nth: 1, Act: "flip", Arg: int64(r.Intn(700))}, {Kind: "cdn", Nth: r.Range(2, 3), Act: "stall", Arg: 1500}}
			at.Disconnect = r.Range(3, 9)
			at.Resume = nil
		}
		if r.Chance(1, 5) {
			ver := c.Versions[at.Version]
			li := r.Intn(len(ver.Layers))
			size := ver.Layers[li].Size
			if size > 8 {
				rs := &c03Resume{Layer: li, Corrupt: r.Chance(1, 2)}
				np := r.Range(1, 4)
				rest := size
				for p := 0; p < np; p++ {
					ps := rest
					if p < np-1 {
						ps = r.Range(1, rest-(np-1-p))
					}
					rs.Parts = append(rs.Parts, ps)
					rs.Done = append(rs.Done, kit.Pick(r, []int{0, ps, r.Intn(ps + 1)}))
					rest -= ps
				}
				if r.Chance(1, 4) {
					rs.EmptyPart = r.Range(1, np)
				} else if np > 1 && r.Chance(1, 3) {
					// the state a process leaves that dies while it finishes a layer: every part complete, the data
					// file whole, the lower numbered part files already removed
					rs.Corrupt = r.Chance(1, 4)
					for p := range rs.Parts {
						rs.Done[p] = rs.Parts[p]
					}
					for p, gone := 0, r.Range(1, np-1); p < gone; p++ {
						rs.Missing = append(rs.Missing, p)
					}
				}
				at.Resume = rs
			}
		}
		if idx%16 == 11 && a == 0 && c.Versions[at.Version].Layers[0].Size > 0 {
			at.Stream, at.Disconnect, at.Resume, at.Overlap = true, 0, nil, nil
			at.Relay = &c03Relay{LeaveMs: kit.Pick(r, []int{50, 300, 800}), StartBMs: kit.Pick(r, []int{0, 0, 30, 200}), StartCMs: kit.Pick(r, []int{1300, 1300, 2400}), Damage: kit.Pick(r, []string{"flip", "flip", "ok", "short"})}
			at.Faults = []Fault{{Kind: "cdn", Nth: 1, Act: "status", Code: 500}}
			switch at.Relay.Damage {
			case "flip":
				at.Faults = append(at.Faults, Fault{Kind: "cdn", Nth: 2, Act: "flip"})
			case "short":
				at.Faults = append(at.Faults, Fault{Kind: "cdn", Nth: 2, Act: "truncate"})
			}
		} else if idx%48 == 29 && a == 0 {
			// the registry asks for a token and the token endpoint asks for one in turn, for ever
			at.Resume = nil
			at.Faults = []Fault{{Kind: kit.Pick(r, []string{"manifest", "manifest", "head", "blobget"}), Nth: 1, Act: "challenge", Str: "GOOD"}, {Kind: "token", Nth: 0, Act: "challenge", Str: "GOOD"}}
		} else if idx%48 == 5 && a == 0 {
			// CDN outage: every CDN request of this attempt fails, so one part uses up all of the client's
			// retries (1+2+4+8+16 s of its own back-off) and the pull must end with an error, not a crash
			at.Stream, at.Disconnect, at.Resume = r.Chance(1, 2), 0, nil
			at.Faults = []Fault{{Kind: "cdn", Nth: 0, Act: kit.Pick(r, []string{"status", "reset", "status"}), Code: kit.Pick(r, []int{503, 500, 404})}}
		} else if c03Big && idx%25 == 11 && a == 0 {
			// thorough tier: a CDN body that stops in the middle for longer than the client's 30 s stall limit
			at.Stream, at.Disconnect, at.Resume = true, 0, nil
			at.Faults = []Fault{{Kind: "cdn", Nth: r.Range(1, 2), Act: "stall-mid", Arg: int64(r.Intn(70000)), Code: 33}}
		} else if r.Chance(1, 6) {
			ov := &c03Overlap{Damage: kit.Pick(r, []string{"flip", "no-length", "none", "flip"})}
			ov.Join = ov.Damage != "no-length" && r.Chance(1, 4)
			if !ov.Join && ov.Damage != "no-length" && r.Chance(1, 2) {
				ov.AfterRename = true
			}
			at.Stream, at.Disconnect, at.Resume, at.Faults = true, 0, nil, nil
			switch ov.Damage {
			case "flip":
				at.Faults = []Fault{{Kind: "cdn", Nth: 1, Act: "flip", Arg: int64(r.Intn(700))}}
			case "no-length":
				at.Faults = []Fault{{Kind: "head", Nth: 1, Act: "no-length"}}
			}
			at.Overlap = ov
		}
		c.Attempts = append(c.Attempts, at)
	}
	if idx%16 == 7 {
		// challenge sweep: six attempts, each answered 401 with the next entry of the catalogue of malformed
		// WWW-Authenticate headers (six such cases per 96 walk the whole catalogue in every run), then the clean attempt
		last := c.Attempts[len(c.Attempts)-1]
		c.Attempts = nil
		for k := 0; k < 6; k++ {
			h := c03Challenges[(6*(idx/16)+k)%len(c03Challenges)]
			c.Attempts = append(c.Attempts, c03Attempt{Version: last.Version, Stream: k%2 == 0,
				Faults: []Fault{{Kind: []string{"manifest", "head", "blobget"}[k%3], Nth: 1, Act: "challenge", Str: h}}})
		}
		c.Attempts = append(c.Attempts, last)
	}
	return c
}

func (c *c03Case) finish(reg *FakeReg) {
	repo, tag, _ := strings.Cut(c.Name, ":")
	_ = tag
	_ = repo
	for vi := range c.Versions {
		v := &c.Versions[vi]
		m := manifestDoc{SchemaVersion: 2, MediaType: "application/vnd.docker.distribution.manifest.v2+json"}
		for li := range v.Layers {
			l := &v.Layers[li]
			l.Digest = reg.AddBlob(l.data)
			m.Layers = append(m.Layers, layerRef{MediaType: l.Media, Digest: l.Digest, Size: int64(l.Size)})
		}
		v.Config.Digest = reg.AddBlob(v.Config.data)
		m.Config = layerRef{MediaType: v.Config.Media, Digest: v.Config.Digest, Size: int64(v.Config.Size)}
		v.manifest, _ = json.Marshal(m)
	}
}

type c03Viol struct{ Sig, What string }

func c03WriteResume(models string, l c03Layer, rs *c03Resume) {
	dir := filepath.Join(models, "blobs")
	os.MkdirAll(dir, 0o755)
	base := filepath.Join(dir, blobFile(l.Digest))
	if _, err := os.Stat(base); err == nil {
		return // already complete
	}
	if g, _ := filepath.Glob(base + "-partial*"); len(g) > 0 {
		return // a real interrupted attempt left its own state; do not overwrite it
	}
	data := make([]byte, l.Size)
	off := 0
	for i, ps := range rs.Parts {
		done := rs.Done[i]
		copy(data[off:off+done], l.data[off:off+done])
		if rs.Corrupt && done > 0 {
			data[off+done/2] ^= 0x55
		}
		pj, _ := json.Marshal(map[string]any{"N": i, "Offset": off, "Size": ps, "Completed": done})
		if rs.EmptyPart == i+1 {
			pj = nil
		} else {
			pj = append(pj, '\n')
		}
		if !slices.Contains(rs.Missing, i) {
			os.WriteFile(fmt.Sprintf("%s-partial-%d", base, i), pj, 0o644)
		}
		off += ps
	}
	os.WriteFile(base+"-partial", data, 0o644)
}

// c03Run executes one case against a fresh server and returns the violations.
func c03Run(bin, work string, c *c03Case, rep *kit.Report) (vs []c03Viol, inconclusive string) {
	home := filepath.Join(work, fmt.Sprintf("c03-%d", c.Index))
	os.RemoveAll(home)
	defer func() {
		if os.Getenv("VERIF_KEEP") != "" && len(vs) > 0 {
			exec.Command("cp", "-a", home, os.Getenv("VERIF_KEEP")).Run()
		}
		os.RemoveAll(home)
	}()
	reg := NewFakeReg()
	defer reg.Close()
	c.finish(reg)
	srv, err := StartSrv(bin, home, nil)
	if err != nil {
		return nil, "server start: " + err.Error()
	}
	defer srv.Kill()
	full := reg.RegHost + "/" + c.Name
	repo, tag, _ := strings.Cut(c.Name, ":")
	manifestPath := filepath.Join(srv.Models, "manifests", reg.RegHost, repo, tag)
	good := func(ch string) string {
		if ch == "GOOD" {
			return fmt.Sprintf(`Bearer realm="http://%s/token",service="%s",scope="repository:%s:pull"`, reg.RegHost, reg.RegHost, repo)
		}
		return ch
	}
	attempts := append([]c03Attempt(nil), c.Attempts...)
	last := attempts[len(attempts)-1]
	// "a later retry can still succeed": the scripted last attempt is fault-free; if it fails (legitimately:
	// e.g. a digest mismatch caused by bytes an earlier faulty attempt left in the resume file, after which
	// the client deletes the blob) up to two more fault-free attempts follow and one of them must succeed.
	attempts = append(attempts, last, last)
	cleanFrom := len(c.Attempts) - 1
	succeededClean := false
	usedOverlap := false
	for ai, at := range attempts {
		if ai > cleanFrom && succeededClean {
			break
		}
		ver := c.Versions[at.Version]
		reg.SetManifest(repo+":"+tag, ver.manifest)
		plan := append([]Fault(nil), at.Faults...)
		for i := range plan {
			plan[i].Str = good(plan[i].Str)
		}
		reg.SetPlan(plan)
		if at.Resume != nil {
			c03WriteResume(srv.Models, ver.Layers[at.Resume.Layer], at.Resume)
		}
		before := readStore(srv.Models, true)
		var res apiResult
		if at.Overlap != nil {
			var ovs []c03Viol
			var inc string
			res, ovs, inc = c03RunOverlap(srv, reg, full, ver, at.Overlap, rep)
			if inc != "" {
				return nil, fmt.Sprintf("attempt %d: %s", ai, inc)
			}
			if len(ovs) > 0 && srv.Alive() {
				return append(vs, ovs...), ""
			}
			usedOverlap = true
		} else if at.Relay != nil {
			var inc string
			res, inc = c03RunRelay(srv, reg, full, ver, at.Relay, rep)
			if inc != "" {
				return nil, fmt.Sprintf("attempt %d: %s", ai, inc)
			}
		} else if at.Disconnect > 0 {
			res = srv.pullDisconnect(full, at.Disconnect)
		} else {
			res = srv.Pull(full, at.Stream, nil)
		}
		rep.Count("attempts", 1)
		for _, f := range plan {
			rep.Count("fault_"+f.Kind+"_"+f.Act, 1)
			if f.Act == "stall-mid" && strings.Contains(srv.Log(), "stalled; retrying") {
				rep.Count("stall_noticed_and_part_retried_by_client", 1)
			}
		}
		// ---- a pull asks for a token when a request was answered 401, not without bound
		if tok, other := reg.Count("token"), reg.Count("manifest")+reg.Count("head")+reg.Count("blobget")+reg.Count("cdn"); tok > 20+3*other {
			vs = append(vs, c03Viol{"c03:unbounded-token-requests", fmt.Sprintf("attempt %d: %d token requests for %d registry/CDN requests (the fake token endpoint cuts a client off after 3000): the pull does not end on its own on registry behaviour %+v", ai, tok, other, plan)})
			return vs, ""
		}
		// ---- always: the server survives
		if !srv.Alive() {
			if srv.KilledFromOutside() {
				return nil, fmt.Sprintf("attempt %d: the server was SIGKILLed from outside the check (no trace in its log)", ai)
			}
			crash := srv.Crashed()
			site := "unknown"
			for _, ln := range strings.Split(crash, "\n") {
				if strings.HasPrefix(ln, "github.com/ollama/ollama/") {
					site = strings.TrimPrefix(ln, "github.com/ollama/ollama/")
					if i := strings.LastIndexByte(site, '('); i > 0 {
						site = site[:i]
					}
					break
				}
			}
			vs = append(vs, c03Viol{"c03:server-died:" + site, fmt.Sprintf("attempt %d: the server process died (%s) on registry behaviour %+v\n%s", ai, site, plan, tail(crash, 1500))})
			return vs, ""
		}
		raw, rerr := os.ReadFile(manifestPath)
		resolves := rerr == nil
		if res.OK() {
			rep.Count("attempts_success", 1)
			if ai >= cleanFrom {
				succeededClean = true
				if ai > cleanFrom {
					rep.Count("clean_attempt_failed_then_recovered", 1)
				}
			}
			if !resolves {
				vs = append(vs, c03Viol{"c03:success-without-manifest", fmt.Sprintf("attempt %d reported success but %s does not exist", ai, manifestPath)})
				return vs, ""
			}
			m, problems, parsed := checkManifest(srv.Models, raw)
			if !parsed {
				vs = append(vs, c03Viol{"c03:success-with-unreadable-manifest", fmt.Sprintf("attempt %d reported success but the stored manifest does not parse", ai)})
				return vs, ""
			}
			var served manifestDoc
			json.Unmarshal(ver.manifest, &served)
			servedOther := false // the manifest request itself was answered with something else (200 + other JSON)
			for _, f := range plan {
				if f.Kind == "manifest" && (f.Act == "garbage" || f.Act == "truncate" || f.Act == "redirect-same") {
					servedOther = true
				}
			}
			if servedOther {
				rep.Count("success_on_foreign_manifest_body", 1)
			} else if !sameManifest(m, served) {
				vs = append(vs, c03Viol{"c03:success-with-other-manifest", fmt.Sprintf("attempt %d reported success but the stored manifest is not the one served:\nstored %s\nserved %s", ai, raw, ver.manifest)})
			}
			if len(problems) > 0 {
				shape := "fresh-download"
				for _, l := range append(append([]layerRef{}, m.Layers...), m.Config) {
					if h, ok := before.Blobs[blobFile(l.Digest)]; ok && h != l.Digest {
						shape = "unverified-cache-hit" // the bad file already sat under its final name before this attempt
					}
				}
				vs = append(vs, c03Viol{"c03:success-with-bad-layer:" + shape, fmt.Sprintf("attempt %d reported success but: %s", ai, strings.Join(problems, "; "))})
				return vs, ""
			}
		} else {
			rep.Count("attempts_failed", 1)
			if resolves {
				if _, problems, parsed := checkManifest(srv.Models, raw); parsed && len(problems) > 0 {
					vs = append(vs, c03Viol{"c03:failed-pull-left-broken-model", fmt.Sprintf("attempt %d failed (%s) and the name now resolves to a manifest with: %s", ai, res.Err, strings.Join(problems, "; "))})
					return vs, ""
				}
			}
			if ai >= cleanFrom {
				rep.Count("clean_attempt_failed", 1)
			}
			if ai == len(attempts)-1 {
				shape := "other"
				for _, prev := range c.Attempts[:cleanFrom] {
					for _, f := range prev.Faults {
						if f.Kind == "head" && f.Act == "bad-length" && f.Arg > 0 {
							shape = "after-too-large-content-length"
						}
					}
				}
				vs = append(vs, c03Viol{"c03:clean-retry-failed:" + shape, fmt.Sprintf("three fault-free attempts in a row failed, the last with: %s", res.Err)})
				return vs, ""
			}
		}
	}
	// the pulled model must be usable through the API as well
	if !succeededClean {
		return vs, ""
	}
	if r := srv.Show(full); !r.OK() {
		vs = append(vs, c03Viol{"c03:pulled-model-cannot-be-shown", "show after the final successful pull: " + r.Err})
	}
	if usedOverlap {
		// the second model of the overlapping pull: fault-free retries must succeed too, and leave it intact
		reg.SetPlan(nil)
		second := reg.RegHost + "/" + c03SecondName
		ok := false
		var lastErr string
		for try := 0; try < 3 && !ok; try++ {
			r := srv.Pull(second, false, nil)
			ok, lastErr = r.OK(), r.Err
		}
		if !ok {
			vs = append(vs, c03Viol{"c03:clean-retry-failed:second-model", "three fault-free pulls of the model that shared a layer with an overlapping pull failed, the last with: " + lastErr})
		} else if raw, err := os.ReadFile(filepath.Join(srv.Models, "manifests", reg.RegHost, "verif", "second", "latest")); err != nil {
			vs = append(vs, c03Viol{"c03:success-without-manifest", "second model: " + err.Error()})
		} else if _, problems, parsed := checkManifest(srv.Models, raw); !parsed || len(problems) > 0 {
			vs = append(vs, c03Viol{"c03:success-with-bad-layer:second-model-final", fmt.Sprintf("final pull of the second model reported success but: %s", strings.Join(problems, "; "))})
		}
	}
	if !srv.Alive() {
		vs = append(vs, c03Viol{"c03:server-died:after-show", tail(srv.Crashed(), 1500)})
	}
	return vs, ""
}

const c03SecondName = "verif/second:latest"

// c03RunOverlap pulls `full` (streaming) and, while that pull is held by the fake CDN, pulls a second model
// sharing its first layer. It returns the result of the first pull (judged by the caller like any attempt) and
// the violations observed on the second model.
func c03RunOverlap(srv *Srv, reg *FakeReg, full string, ver c03Version, ov *c03Overlap, rep *kit.Report) (res apiResult, vs []c03Viol, inconclusive string) {
	shared := ver.Layers[0]
	holdDigest := shared.Digest
	if !ov.Join {
		holdDigest = ""
		for _, l := range append(append([]c03Layer{}, ver.Layers...), ver.Config) {
			if l.Digest != shared.Digest {
				holdDigest = l.Digest
				break
			}
		}
	}
	cb := []byte(fmt.Sprintf(`{"model_format":"gguf","model_family":"llama","model_type":"1B","file_type":"F16","architecture":"amd64","os":"linux","second":"%s"}`, shared.Digest[7:19]))
	cd := reg.AddBlob(cb)
	m := manifestDoc{SchemaVersion: 2, MediaType: "application/vnd.docker.distribution.manifest.v2+json",
		Layers: []layerRef{{MediaType: shared.Media, Digest: shared.Digest, Size: int64(shared.Size)}},
		Config: layerRef{MediaType: ver.Config.Media, Digest: cd, Size: int64(len(cb))}}
	mb, _ := json.Marshal(m)
	reg.SetManifest(c03SecondName, mb)
	second := reg.RegHost + "/" + c03SecondName
	secondManifest := filepath.Join(srv.Models, "manifests", reg.RegHost, "verif", "second", "latest")

	if ov.AfterRename {
		return c03RunAfterRename(srv, reg, full, shared, second, secondManifest, ov, rep)
	}
	held, release := make(chan struct{}), make(chan struct{})
	var once sync.Once
	reg.mu.Lock()
	reg.OnPath = func(kind, path string) {
		if kind != "cdn" || holdDigest == "" || !strings.HasSuffix(path, holdDigest) {
			return
		}
		first := false
		once.Do(func() { first = true; close(held) })
		if first {
			select {
			case <-release:
			case <-time.After(60 * time.Second):
			}
		}
	}
	reg.mu.Unlock()
	defer func() {
		reg.mu.Lock()
		reg.OnPath = nil
		reg.mu.Unlock()
	}()
	judge := func(resB apiResult, when string) {
		raw, err := os.ReadFile(secondManifest)
		switch {
		case resB.OK() && err != nil:
			vs = append(vs, c03Viol{"c03:success-without-manifest", fmt.Sprintf("second model (%s): reported success but %v", when, err)})
		case err == nil:
			_, problems, parsed := checkManifest(srv.Models, raw)
			if parsed && len(problems) > 0 {
				sig := "c03:failed-pull-left-broken-model"
				if resB.OK() {
					sig = "c03:success-with-bad-layer:shared-with-overlapping-pull"
				}
				vs = append(vs, c03Viol{sig, fmt.Sprintf("second model, pulled while another pull of the shared layer %s (%s in that pull) was under way; %s: result ok=%v err=%q, but: %s", short(shared.Digest), ov.Damage, when, resB.OK(), resB.Err, strings.Join(problems, "; "))})
			}
		}
	}
	done := make(chan apiResult, 1)
	go func() { done <- srv.Pull(full, true, nil) }()
	select {
	case <-held:
		rep.Count("overlap_reached", 1)
		rep.Count("overlap_"+ov.Damage+fmt.Sprintf("_join%v", ov.Join), 1)
		var resB apiResult
		if ov.Join {
			// the second pull joins the download in flight and can only finish after the release
			doneB := make(chan apiResult, 1)
			go func() { doneB <- srv.Pull(second, false, nil) }()
			for i := 0; i < 100; i++ {
				seen := false
				for _, rq := range reg.Requests() {
					seen = seen || strings.Contains(rq.Path, "/verif/second/manifests/")
				}
				if seen {
					break
				}
				time.Sleep(20 * time.Millisecond)
			}
			time.Sleep(150 * time.Millisecond)
			close(release)
			resB = <-doneB
			res = <-done
			judge(resB, "after both pulls returned")
		} else {
			resB = srv.Pull(second, false, nil)
			judge(resB, "while the first pull was still held")
			close(release)
			res = <-done
			if len(vs) == 0 {
				judge(resB, "after the first pull returned")
			}
		}
		if resB.OK() {
			rep.Count("overlap_second_success", 1)
		} else {
			rep.Count("overlap_second_failed", 1)
		}
	case res = <-done:
		// the first pull ended before it reached the held request (e.g. it rejected the damaged layer at once)
		rep.Count("overlap_not_reached", 1)
		close(release)
	case <-time.After(90 * time.Second):
		close(release)
		return res, nil, "overlapping pull: neither the held request nor the end of the first pull was seen within 90 s"
	}
	return res, vs, ""
}

// pullAbandon sends a streaming pull request on a connection of its own and drops the connection when leave is closed.
func (s *Srv) pullAbandon(name string, leave <-chan struct{}) {
	c, err := net.Dial("tcp4", fmt.Sprintf("127.0.0.1:%d", s.Port))
	if err != nil {
		return
	}
	body, _ := json.Marshal(map[string]any{"model": name, "insecure": true, "stream": true})
	fmt.Fprintf(c, "POST /api/pull HTTP/1.1\r\nHost: 127.0.0.1\r\nContent-Type: application/json\r\nContent-Length: %d\r\n\r\n%s", len(body), body)
	go io.Copy(io.Discard, c)
	<-leave
	if tc, ok := c.(*net.TCPConn); ok {
		tc.SetLinger(0)
	}
	c.Close()
}

// c03RunRelay runs the three pulls of a relay attempt and returns the result of pull C once B has ended, too.
func c03RunRelay(srv *Srv, reg *FakeReg, full string, ver c03Version, rl *c03Relay, rep *kit.Report) (res apiResult, inconclusive string) {
	first := ver.Layers[0].Digest
	failed, held, release := make(chan struct{}), make(chan struct{}), make(chan struct{})
	var mu sync.Mutex
	arrivals := 0
	reg.mu.Lock()
	reg.OnPath = func(kind, path string) {
		if kind != "cdn" || !strings.HasSuffix(path, first) {
			return
		}
		mu.Lock()
		arrivals++
		n := arrivals
		mu.Unlock()
		switch n {
		case 1:
			close(failed) // answered 500 by the fault plan
		case 2:
			close(held)
			select {
			case <-release:
			case <-time.After(60 * time.Second):
			}
		}
	}
	reg.mu.Unlock()
	defer func() {
		reg.mu.Lock()
		reg.OnPath = nil
		reg.mu.Unlock()
	}()
	leaveA := make(chan struct{})
	go srv.pullAbandon(full, leaveA)
	select {
	case <-failed:
	case <-time.After(30 * time.Second):
		close(leaveA)
		close(release)
		return res, "relay: pull A never asked the CDN for the first layer"
	}
	t0 := time.Now()
	time.Sleep(time.Duration(rl.LeaveMs) * time.Millisecond)
	close(leaveA)
	time.Sleep(time.Duration(rl.StartBMs) * time.Millisecond)
	doneB := make(chan apiResult, 1)
	go func() { doneB <- srv.Pull(full, true, nil) }()
	var resB apiResult
	haveB := false
	select {
	case <-held:
		rep.Count("relay_b_has_a_transfer_of_its_own_held", 1)
		held = nil
	case resB = <-doneB:
		// B ended without a CDN request of its own (it joined A's abandoned transfer and shared its fate)
		haveB = true
		rep.Count("relay_b_ended_with_a_transfer_ok_"+fmt.Sprint(resB.OK()), 1)
	case <-time.After(8 * time.Second):
		rep.Count("relay_b_neither_asked_nor_ended", 1)
	}
	if d := time.Duration(rl.StartCMs)*time.Millisecond - time.Since(t0); d > 0 {
		time.Sleep(d)
	}
	doneC := make(chan apiResult, 1)
	go func() { doneC <- srv.Pull(full, false, nil) }()
	if haveB {
		doneB = nil
	}
	select {
	case res = <-doneC:
		// C ended while B's response is still held: it had a transfer of its own
		rep.Count("relay_c_ended_before_release_ok_"+fmt.Sprint(res.OK()), 1)
	case resB = <-doneB:
		haveB = true
	case <-held:
		// C's own transfer is the one that is held (and damaged)
		rep.Count("relay_c_transfer_held", 1)
	case <-time.After(4 * time.Second):
		// C waits for the held transfer
		rep.Count("relay_c_joined_held_transfer", 1)
	}
	close(release)
	if !haveB {
		select {
		case resB = <-doneB:
		case <-time.After(120 * time.Second):
			return res, "relay: pull B did not end within 120 s of the release"
		}
	}
	if res.Status == 0 && res.Err == "" {
		select {
		case res = <-doneC:
		case <-time.After(120 * time.Second):
			return res, "relay: pull C did not end within 120 s of the release"
		}
	}
	rep.Count("relay_"+rl.Damage+fmt.Sprintf("_b_ok_%v_c_ok_%v", resB.OK(), res.OK()), 1)
	// let a transfer that is still writing end before the store is judged
	time.Sleep(200 * time.Millisecond)
	return res, ""
}

// c03RunAfterRename: see c03Overlap.AfterRename.
func c03RunAfterRename(srv *Srv, reg *FakeReg, full string, shared c03Layer, second, secondManifest string, ov *c03Overlap, rep *kit.Report) (res apiResult, vs []c03Viol, inconclusive string) {
	renamed := make(chan struct{})
	var once sync.Once
	dst := "/blobs/" + blobFile(shared.Digest) + "\""
	tr, err := startPauseTracer(srv.cmd.Process.Pid, srv.Models, "renameat,renameat2,rename", 500000, func(name, rest string) {
		// renameat(AT_FDCWD<..>, ".../sha256-<hex>-partial", AT_FDCWD<..>, ".../sha256-<hex>") = 0
		if i := strings.LastIndex(rest, dst); i > 0 && strings.Contains(rest[:i], "-partial") && !strings.Contains(rest, ") = -1") {
			once.Do(func() { close(renamed) })
		}
	})
	if err != nil {
		return res, nil, "pause tracer: " + err.Error()
	}
	defer func() { tr.Finish(srv.Alive()) }()
	judge := func(resB apiResult, when string) {
		raw, err := os.ReadFile(secondManifest)
		switch {
		case resB.OK() && err != nil:
			vs = append(vs, c03Viol{"c03:success-without-manifest", fmt.Sprintf("second model (%s): reported success but %v", when, err)})
		case err == nil:
			_, problems, parsed := checkManifest(srv.Models, raw)
			if parsed && len(problems) > 0 {
				sig := "c03:failed-pull-left-broken-model"
				if resB.OK() {
					sig = "c03:success-with-bad-layer:shared-layer-published-before-verification"
				}
				vs = append(vs, c03Viol{sig, fmt.Sprintf("second model, pulled while the thread that had just renamed the shared layer %s (%s in that pull) into the blob store was paused; %s: result ok=%v err=%q, but: %s", short(shared.Digest), ov.Damage, when, resB.OK(), resB.Err, strings.Join(problems, "; "))})
			}
		}
	}
	done := make(chan apiResult, 1)
	go func() { done <- srv.Pull(full, true, nil) }()
	select {
	case <-renamed:
		rep.Count("after_rename_pause_reached_"+ov.Damage, 1)
		resB := srv.Pull(second, false, nil)
		judge(resB, "inside the pause")
		res = <-done
		if len(vs) == 0 {
			judge(resB, "after the first pull returned")
		}
		rep.Count(fmt.Sprintf("after_rename_second_ok_%v", resB.OK()), 1)
	case res = <-done:
		// the first pull never published the layer (it rejected the damaged download before the rename)
		rep.Count("after_rename_layer_never_published_"+ov.Damage, 1)
	case <-time.After(90 * time.Second):
		return res, nil, "after-rename overlap: neither the rename nor the end of the first pull was seen within 90 s"
	}
	return res, vs, ""
}

func sameManifest(a, b manifestDoc) bool {
	if a.Config.Digest != b.Config.Digest || a.Config.Size != b.Config.Size || a.Config.MediaType != b.Config.MediaType || len(a.Layers) != len(b.Layers) {
		return false
	}
	for i := range a.Layers {
		if a.Layers[i] != b.Layers[i] {
			return false
		}
	}
	return true
}

func runC03() {
	rep := kit.NewReport("C03")
	cfg := rep.Cfg()
	defer rep.Flush()
	rep.Set("rule", "case i = PRNG(seed,'C03',i): 1-2 model versions (2-5 layers of 0 B..300 KB, layers shared between versions) and 1-4 pull attempts of one name against the real server binary; every attempt but the last carries 1-3 registry/CDN faults (5xx/4xx/404 on manifest, HEAD, blob GET, CDN; 401 with ~30 malformed challenge headers and with a well-formed one whose token endpoint is served; truncated/garbage/reset manifest; wrong or missing Content-Length on HEAD; redirect chains; CDN body truncated, bit-flipped, Range ignored, short, too long, reset), optional client disconnect after progress line k, a CDN outage for a whole attempt (two cases per 96: one part uses up all six tries of the client), optional synthetic resume state (multi-part -partial files, correct or corrupt, an empty part file, an incomplete set of part files), overlapping pulls of a second model sharing the first layer while the first pull is held by the CDN, relay attempts (three pulls of the name: A's first CDN request fails and its user leaves during the retry pause, B starts meanwhile and any CDN request of its own is held, C runs once A has unwound, then the held response is delivered intact, flipped or cut; judged when all three have ended), a token endpoint that itself answers 401 with a challenge; six cases per 96 are challenge sweeps that together answer 401 with every entry of the catalogue of malformed WWW-Authenticate headers. Oracle after every attempt: server alive; success => stored manifest equals the served one and every layer + config has the manifest's size and SHA-256 (re-hashed); failure => if the name resolves its manifest's layers are all intact; a fault-free attempt at the end succeeds (at most two further fault-free retries are allowed, e.g. after a digest mismatch from bytes left in the resume file) and the model can be shown. Non-trivial & distinct = distinct (sequence of fault kinds+acts per attempt, outcomes) among cases with at least one faulted attempt")
	rep.Set("assumptions", []string{"served manifests are self-consistent (sizes and digests describe the blobs they name)", "quick tier: single-part layers over the wire (<100 MB), multi-part layouts through synthetic resume files; thorough tier adds real 200-230 MB layers (three download parts)", "process death is observed through /api/version + the server log"})
	bin := os.Getenv("VERIF_OLLAMA_BIN")
	work, err := os.MkdirTemp("", "verif-c03-")
	if err != nil {
		panic(err)
	}
	defer os.RemoveAll(work)
	tiny := tinyGGUF()
	c03Big = cfg.Tier == "thorough"
	n := cfg.N(96, 1600)
	replayIdx := -1
	if cfg.Replay != "" {
		var rc struct {
			Index int `json:"index"`
		}
		if err := kit.LoadReplay(cfg.Replay, &rc); err != nil {
			panic(err)
		}
		replayIdx = rc.Index
	}
	var wg sync.WaitGroup
	sem := make(chan struct{}, 3)
	for i := 0; i < n; i++ {
		if replayIdx >= 0 && i != replayIdx {
			continue
		}
		if replayIdx < 0 && (!cfg.Mine(i) || rep.Enough() || rep.OverBudget()) {
			continue
		}
		wg.Add(1)
		sem <- struct{}{}
		go func(i int) {
			defer wg.Done()
			defer func() { <-sem }()
			c := c03Gen(kit.NewRand(cfg.Seed, "C03", i), i, tiny)
			vs, inc := c03Run(bin, work, &c, rep)
			rep.Eval(1)
			if inc != "" {
				rep.Inconclusive(fmt.Sprintf("case %d: %s", i, inc))
				return
			}
			for _, v := range vs {
				rep.Violate(v.Sig, v.What, c, nil)
				if replayIdx >= 0 {
					fmt.Printf("replay: %s: %s\n", v.Sig, v.What)
				}
			}
			var kinds []string
			for _, a := range c.Attempts {
				var ks []string
				for _, f := range a.Faults {
					ks = append(ks, f.Kind+"/"+f.Act)
				}
				sort.Strings(ks)
				if a.Resume != nil {
					ks = append(ks, fmt.Sprintf("resume%v", a.Resume.Corrupt))
				}
				if a.Disconnect > 0 {
					ks = append(ks, "disconnect")
				}
				if a.Relay != nil {
					ks = append(ks, fmt.Sprintf("relay-%s-%d-%d-%d", a.Relay.Damage, a.Relay.LeaveMs, a.Relay.StartBMs, a.Relay.StartCMs))
				}
				if a.Overlap != nil {
					ks = append(ks, fmt.Sprintf("overlap-%s-join%v-afterrename%v", a.Overlap.Damage, a.Overlap.Join, a.Overlap.AfterRename))
				}
				kinds = append(kinds, strings.Join(ks, "+"))
			}
			if len(c.Attempts) > 1 {
				rep.Distinct(strings.Join(kinds, "|"))
			}
			if rep.NeedSample() && len(c.Attempts) > 1 {
				rep.Sample(c)
			}
		}(i)
	}
	wg.Wait()
}

// pullDisconnect drops the connection after `after` progress lines.
func (s *Srv) pullDisconnect(name string, after int) (res apiResult) {
	defer func() {
		if p := recover(); p != nil {
			res = apiResult{Err: "client disconnected"}
		}
	}()
	res = s.post("POST", "/api/pull", map[string]any{"model": name, "insecure": true, "stream": true}, func(n int, _ map[string]any) {
		if n >= after {
			panic("disconnect") // unwinds through post: the deferred resp.Body.Close() drops the connection
		}
	})
	if res.OK() {
		ok := false
		for _, st := range res.Statuses {
			ok = ok || st == "success"
		}
		if !ok {
			res.Err = "no success status"
		}
	}
	return res
}
