package main

// Driver of the real `ollama serve` binary (built from /repo by ./check) as a black-box child:
// one process per case with its own HOME / OLLAMA_MODELS / port, talked to over HTTP only.

import (
	"bufio"
	"bytes"
	"context"
	"crypto/sha256"
	"encoding/hex"
	"encoding/json"
	"errors"
	"fmt"
	"io"
	"net"
	"net/http"
	"os"
	"os/exec"
	"path/filepath"
	"sort"
	"strconv"
	"strings"
	"sync/atomic"
	"syscall"
	"time"
)

type Srv struct {
	Bin      string
	Home     string
	Models   string
	Port     int
	cmd      *exec.Cmd
	LogPath  string
	exited   chan struct{}
	exitErr  error
	Strace   []string // when set: strace arguments placed before the binary
	Env      []string
	hc       *http.Client
	weKilled atomic.Bool
}

var portCounter atomic.Int64

// freePort hands out ports BELOW the ephemeral range (32768-60999): a port obtained from :0 and released
// again is re-used at once as the source port of some outgoing connection when the machine has tens of
// thousands of sockets in TIME_WAIT, and the server's bind then fails with "address already in use".
func freePort() int {
	for i := 0; i < 2000; i++ {
		n := portCounter.Add(1)
		p := 12000 + int((int64(os.Getpid())*131+n*7)%19000)
		l, err := net.Listen("tcp4", fmt.Sprintf("127.0.0.1:%d", p))
		if err != nil {
			continue
		}
		l.Close()
		return p
	}
	panic("no free port below the ephemeral range")
}

// newHTTPClient: keep-alive connections, closed with RST (SO_LINGER 0) so that the thousands of short-lived
// loopback connections of a run do not pile up in TIME_WAIT and exhaust the ephemeral port range.
func newHTTPClient() *http.Client {
	d := &net.Dialer{Timeout: 10 * time.Second}
	tr := &http.Transport{MaxIdleConnsPerHost: 4, IdleConnTimeout: 30 * time.Second,
		DialContext: func(ctx context.Context, network, addr string) (net.Conn, error) {
			c, err := d.DialContext(ctx, network, addr)
			if tc, ok := c.(*net.TCPConn); ok && err == nil {
				tc.SetLinger(0)
			}
			return c, err
		}}
	return &http.Client{Timeout: 120 * time.Second, Transport: tr}
}

// listenLow listens on a port below the ephemeral range (see freePort).
func listenLow() (net.Listener, error) {
	var lastErr error
	for i := 0; i < 2000; i++ {
		n := portCounter.Add(1)
		p := 12000 + int((int64(os.Getpid())*131+n*7)%19000)
		l, err := net.Listen("tcp4", fmt.Sprintf("127.0.0.1:%d", p))
		if err == nil {
			return l, nil
		}
		lastErr = err
	}
	return nil, lastErr
}

// StartSrv starts the server and waits until /api/version answers.
func StartSrv(bin, home string, strace []string, env ...string) (*Srv, error) {
	var lastErr error
	for attempt := 0; attempt < 8; attempt++ {
		s := &Srv{Bin: bin, Home: home, Models: filepath.Join(home, "models"), Port: freePort(), Strace: strace, Env: env}
		if err := s.start(); err != nil {
			lastErr = err
			if !envFailure(err) {
				return nil, err // the server itself refuses to run on this store: not worth retrying on another port
			}
			continue
		}
		return s, nil
	}
	return nil, lastErr
}

// envFailure: the start failed for a reason that lies in the sandbox (port taken, overloaded machine),
// not in the server or its store. Such failures are inconclusive, never violations.
func envFailure(err error) bool {
	return err != nil && (strings.Contains(err.Error(), "address already in use") || strings.Contains(err.Error(), "did not come up within") || strings.Contains(err.Error(), "resource temporarily unavailable") || strings.Contains(err.Error(), "cannot allocate memory"))
}

func (s *Srv) start() error {
	os.MkdirAll(s.Home, 0o755)
	s.LogPath = filepath.Join(s.Home, fmt.Sprintf("server-%d.log", time.Now().UnixNano()))
	lf, err := os.Create(s.LogPath)
	if err != nil {
		return err
	}
	args := []string{"serve"}
	name := s.Bin
	if len(s.Strace) > 0 {
		args = append(append(append([]string{}, s.Strace...), s.Bin), args...)
		name = "strace"
	}
	cmd := exec.Command(name, args...)
	cmd.Env = append([]string{
		"HOME=" + s.Home, "OLLAMA_MODELS=" + s.Models, fmt.Sprintf("OLLAMA_HOST=127.0.0.1:%d", s.Port),
		"PATH=" + os.Getenv("PATH"), "OLLAMA_LLM_LIBRARY=cpu", "OLLAMA_KEEP_ALIVE=0", "NO_PROXY=*", "no_proxy=*",
	}, s.Env...)
	cmd.Stdout, cmd.Stderr = lf, lf
	cmd.SysProcAttr = &syscall.SysProcAttr{Setpgid: true}
	if err := cmd.Start(); err != nil {
		lf.Close()
		return err
	}
	lf.Close()
	s.cmd = cmd
	s.hc = newHTTPClient()
	s.exited = make(chan struct{})
	go func() {
		s.exitErr = cmd.Wait()
		close(s.exited)
		s.hc.CloseIdleConnections()
	}()
	deadline := time.Now().Add(30 * time.Second)
	foreign := 0
	for time.Now().Before(deadline) {
		select {
		case <-s.exited:
			return fmt.Errorf("server exited during start-up: %v\n%s", s.exitErr, tail(s.Log(), 2000))
		default:
		}
		if s.Version() {
			// Another check running on this machine may have started its server on the same port between our
			// probe and our server's bind; ours then exits with "address already in use" a moment later. Only a
			// listening socket that belongs to the process group we started counts.
			if s.ownsPort() {
				return nil
			}
			foreign++
			if foreign > 100 {
				s.Kill()
				return fmt.Errorf("address already in use: port %d is answered by a process this check did not start", s.Port)
			}
		}
		time.Sleep(15 * time.Millisecond)
	}
	s.Kill()
	return errors.New("server did not come up within 30 s")
}

// ownsPort reports whether the socket listening on s.Port is held by a process of the group started by s.
func (s *Srv) ownsPort() bool {
	b, err := os.ReadFile("/proc/net/tcp")
	if err != nil {
		return true // no /proc: cannot tell, keep the old behaviour
	}
	want := fmt.Sprintf("0100007F:%04X", s.Port)
	inode := ""
	for _, ln := range strings.Split(string(b), "\n") {
		f := strings.Fields(ln)
		if len(f) > 9 && f[1] == want && f[3] == "0A" {
			inode = f[9]
		}
	}
	if inode == "" {
		return false
	}
	pg := s.cmd.Process.Pid
	ents, _ := os.ReadDir("/proc")
	for _, e := range ents {
		pid, err := strconv.Atoi(e.Name())
		if err != nil {
			continue
		}
		st, err := os.ReadFile(fmt.Sprintf("/proc/%d/stat", pid))
		if err != nil {
			continue
		}
		// pid (comm) state ppid pgrp ...; comm may contain spaces and parentheses
		rest := string(st)
		if i := strings.LastIndexByte(rest, ')'); i >= 0 {
			rest = rest[i+1:]
		}
		f := strings.Fields(rest)
		if len(f) < 3 || f[2] != strconv.Itoa(pg) {
			continue
		}
		fds, _ := os.ReadDir(fmt.Sprintf("/proc/%d/fd", pid))
		for _, fd := range fds {
			if l, err := os.Readlink(fmt.Sprintf("/proc/%d/fd/%s", pid, fd.Name())); err == nil && l == "socket:["+inode+"]" {
				return true
			}
		}
	}
	return false
}

func (s *Srv) URL() string { return fmt.Sprintf("http://127.0.0.1:%d", s.Port) }

func (s *Srv) Version() bool {
	ctx, cancel := context.WithTimeout(context.Background(), 5*time.Second)
	defer cancel()
	req, _ := http.NewRequestWithContext(ctx, "GET", s.URL()+"/api/version", nil)
	resp, err := s.hc.Do(req)
	if err != nil {
		return false
	}
	defer resp.Body.Close()
	io.Copy(io.Discard, resp.Body)
	return resp.StatusCode == 200
}

func (s *Srv) Exited() bool {
	select {
	case <-s.exited:
		return true
	default:
		return false
	}
}

// Alive: the process runs and answers. Retries briefly so that a loaded machine is not mistaken for a dead server.
func (s *Srv) Alive() bool {
	for i := 0; i < 40; i++ {
		if s.Exited() {
			return false
		}
		if s.Version() {
			return true
		}
		time.Sleep(50 * time.Millisecond)
	}
	return !s.Exited() && s.Version()
}

func (s *Srv) Stop() {
	if s.cmd == nil || s.Exited() {
		return
	}
	syscall.Kill(-s.cmd.Process.Pid, syscall.SIGTERM)
	select {
	case <-s.exited:
	case <-time.After(5 * time.Second):
		s.Kill()
	}
}

func (s *Srv) Kill() {
	if s.cmd == nil {
		return
	}
	s.weKilled.Store(true)
	syscall.Kill(-s.cmd.Process.Pid, syscall.SIGKILL)
	select {
	case <-s.exited:
	case <-time.After(5 * time.Second):
	}
}

// KilledFromOutside: the process ended by SIGKILL that this driver did not send and left no panic / fatal
// error in its log. A Go program that dies on its own always writes a trace; a silent SIGKILL comes from the
// sandbox (OOM killer, another job's clean-up) and is inconclusive, not a verdict on the server.
func (s *Srv) KilledFromOutside() bool {
	if !s.Exited() || s.weKilled.Load() || s.Crashed() != "" {
		return false
	}
	var ee *exec.ExitError
	if errors.As(s.exitErr, &ee) {
		if ws, ok := ee.Sys().(syscall.WaitStatus); ok && ws.Signaled() && ws.Signal() == syscall.SIGKILL {
			return true
		}
	}
	return false
}

func (s *Srv) WaitExit(d time.Duration) bool {
	select {
	case <-s.exited:
		return true
	case <-time.After(d):
		return false
	}
}

func (s *Srv) Log() string {
	b, _ := os.ReadFile(s.LogPath)
	return string(b)
}

// Crashed reports a panic / fatal error in the server log (the witness of a process-killing request).
func (s *Srv) Crashed() string {
	l := s.Log()
	for _, k := range []string{"panic: ", "fatal error: ", "[signal SIG"} {
		if i := strings.Index(l, k); i >= 0 {
			return tail(l[i:], 0)[:min(len(l)-i, 3000)]
		}
	}
	return ""
}

func tail(s string, n int) string {
	if n > 0 && len(s) > n {
		return s[len(s)-n:]
	}
	return s
}

// ---------------------------------------------------------------------------------------------
// API helpers

type apiResult struct {
	Status   int
	Lines    []map[string]any // NDJSON lines (or the single JSON body)
	Raw      string
	Err      string // "error" member of the last line / body, or transport error
	Statuses []string
}

func (r apiResult) OK() bool { return r.Status == 200 && r.Err == "" }

// post sends JSON and reads an NDJSON (or plain JSON) reply. killAfter>0: call kill() after that many lines.
func (s *Srv) post(method, path string, body any, onLine func(n int, line map[string]any)) apiResult {
	var rd io.Reader
	if body != nil {
		b, _ := json.Marshal(body)
		rd = bytes.NewReader(b)
	}
	req, _ := http.NewRequest(method, s.URL()+path, rd)
	req.Header.Set("Content-Type", "application/json")
	resp, err := s.hc.Do(req)
	if err != nil {
		return apiResult{Err: "transport: " + err.Error()}
	}
	defer resp.Body.Close()
	res := apiResult{Status: resp.StatusCode}
	br := bufio.NewReaderSize(resp.Body, 1<<20)
	var raw strings.Builder
	n := 0
	for {
		line, err := br.ReadBytes('\n')
		if len(bytes.TrimSpace(line)) > 0 {
			if raw.Len() < 1<<16 {
				raw.Write(line)
			}
			var m map[string]any
			if json.Unmarshal(line, &m) == nil {
				res.Lines = append(res.Lines, m)
				if e, ok := m["error"].(string); ok {
					res.Err = e
				}
				if st, ok := m["status"].(string); ok {
					res.Statuses = append(res.Statuses, st)
				}
				n++
				if onLine != nil {
					onLine(n, m)
				}
			}
		}
		if err != nil {
			if err != io.EOF {
				res.Err = "transport: " + err.Error()
			}
			break
		}
	}
	res.Raw = raw.String()
	if res.Status >= 400 && res.Err == "" {
		res.Err = fmt.Sprintf("http %d: %s", res.Status, tail(res.Raw, 300))
	}
	return res
}

func (s *Srv) Pull(name string, stream bool, onLine func(int, map[string]any)) apiResult {
	r := s.post("POST", "/api/pull", map[string]any{"model": name, "insecure": true, "stream": stream}, onLine)
	if r.OK() {
		ok := false
		for _, st := range r.Statuses {
			ok = ok || st == "success"
		}
		if !ok {
			r.Err = "no success status: " + tail(r.Raw, 300)
		}
	}
	return r
}

func (s *Srv) Tags() ([]string, apiResult) {
	r := s.post("GET", "/api/tags", nil, nil)
	var names []string
	if len(r.Lines) > 0 {
		if ms, ok := r.Lines[0]["models"].([]any); ok {
			for _, m := range ms {
				if mm, ok := m.(map[string]any); ok {
					if n, ok := mm["name"].(string); ok {
						names = append(names, n)
					}
				}
			}
		}
	}
	sort.Strings(names)
	return names, r
}

func (s *Srv) Show(name string) apiResult {
	return s.post("POST", "/api/show", map[string]any{"model": name}, nil)
}

func (s *Srv) Delete(name string) apiResult {
	return s.post("DELETE", "/api/delete", map[string]any{"model": name}, nil)
}

func (s *Srv) Copy(src, dst string) apiResult {
	return s.post("POST", "/api/copy", map[string]any{"source": src, "destination": dst}, nil)
}

func (s *Srv) Create(req map[string]any, onLine func(int, map[string]any)) apiResult {
	r := s.post("POST", "/api/create", req, onLine)
	if r.OK() {
		ok := false
		for _, st := range r.Statuses {
			ok = ok || st == "success"
		}
		if !ok {
			r.Err = "no success status: " + tail(r.Raw, 300)
		}
	}
	return r
}

func (s *Srv) UploadBlob(digest string, data []byte) (int, string) {
	req, _ := http.NewRequest("POST", s.URL()+"/api/blobs/"+digest, bytes.NewReader(data))
	resp, err := s.hc.Do(req)
	if err != nil {
		return 0, err.Error()
	}
	defer resp.Body.Close()
	b, _ := io.ReadAll(resp.Body)
	return resp.StatusCode, string(b)
}

// ---------------------------------------------------------------------------------------------
// store inspector (reads the directory tree, as the properties allow)

type layerRef struct {
	MediaType string `json:"mediaType"`
	Digest    string `json:"digest"`
	Size      int64  `json:"size"`
}

type manifestDoc struct {
	SchemaVersion int        `json:"schemaVersion"`
	MediaType     string     `json:"mediaType"`
	Config        layerRef   `json:"config"`
	Layers        []layerRef `json:"layers"`
}

func sha(b []byte) string {
	h := sha256.Sum256(b)
	return "sha256:" + hex.EncodeToString(h[:])
}

type storeState struct {
	Manifests map[string][]byte // path relative to manifests/ -> bytes
	Blobs     map[string]string // file name under blobs/ -> sha256 of content ("" not hashed)
	BlobSizes map[string]int64
}

func readStore(models string, hash bool) storeState {
	st := storeState{Manifests: map[string][]byte{}, Blobs: map[string]string{}, BlobSizes: map[string]int64{}}
	mroot := filepath.Join(models, "manifests")
	filepath.Walk(mroot, func(p string, fi os.FileInfo, err error) error {
		if err == nil && !fi.IsDir() {
			b, _ := os.ReadFile(p)
			rel, _ := filepath.Rel(mroot, p)
			st.Manifests[rel] = b
		}
		return nil
	})
	ents, _ := os.ReadDir(filepath.Join(models, "blobs"))
	for _, e := range ents {
		if e.IsDir() {
			continue
		}
		fi, err := e.Info()
		if err != nil {
			continue
		}
		st.BlobSizes[e.Name()] = fi.Size()
		if hash {
			b, _ := os.ReadFile(filepath.Join(models, "blobs", e.Name()))
			st.Blobs[e.Name()] = sha(b)
		} else {
			st.Blobs[e.Name()] = ""
		}
	}
	return st
}

// blobFile is the name of the file a digest refers to. Hex digits are folded to lower case: the store names its
// files with %x, and an implementation that accepts another spelling of a digest and resolves it to that file is
// consistent as long as its own reference scans do the same (which the invariants check through their effects).
func blobFile(digest string) string { return strings.ToLower(strings.Replace(digest, ":", "-", 1)) }

// checkManifest verifies that every layer + config of a manifest file is present with the right size and hash.
func checkManifest(models string, raw []byte) (m manifestDoc, problems []string, parsed bool) {
	if err := json.Unmarshal(raw, &m); err != nil {
		return m, nil, false
	}
	refs := append([]layerRef{}, m.Layers...)
	if m.Config.Digest != "" {
		refs = append(refs, m.Config)
	}
	for _, l := range refs {
		if !strings.HasPrefix(l.Digest, "sha256:") && !strings.HasPrefix(l.Digest, "sha256-") {
			problems = append(problems, "layer with malformed digest "+l.Digest)
			continue
		}
		p := filepath.Join(models, "blobs", blobFile(l.Digest))
		b, err := os.ReadFile(p)
		if err != nil {
			problems = append(problems, fmt.Sprintf("layer %s missing (%v)", short(l.Digest), errShort(err)))
			continue
		}
		if int64(len(b)) != l.Size {
			problems = append(problems, fmt.Sprintf("layer %s has %d bytes, manifest says %d", short(l.Digest), len(b), l.Size))
		}
		if got := sha(b); got != strings.ToLower(strings.Replace(l.Digest, "sha256-", "sha256:", 1)) {
			problems = append(problems, fmt.Sprintf("layer %s content hashes to %s", short(l.Digest), short(got)))
		}
	}
	return m, problems, true
}

func short(d string) string {
	if len(d) > 19 {
		return d[:19]
	}
	return d
}

func errShort(err error) string {
	var pe *os.PathError
	if errors.As(err, &pe) {
		return pe.Err.Error()
	}
	return err.Error()
}
