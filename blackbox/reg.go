package main

// Fake registry + CDN. The registry listens on 127.0.0.1:P1, the CDN is reached as localhost:P2
// (the legacy client only treats a redirect to a DIFFERENT hostname as the CDN hop). Every request
// is logged; a per-attempt fault plan decides how the n-th request of each kind misbehaves.

import (
	"encoding/json"
	"fmt"
	"io"
	"net"
	"net/http"
	"strconv"
	"strings"
	"sync"
	"time"
)

type Fault struct {
	Kind string `json:"kind"` // manifest | head | blobget | cdn | token
	Nth  int    `json:"nth"`  // n-th request of that kind within the attempt (1-based)
	Act  string `json:"act"`
	Code int    `json:"code,omitempty"`
	Arg  int64  `json:"arg,omitempty"`
	Str  string `json:"str,omitempty"`
}

type ReqRec struct {
	Kind   string `json:"kind"`
	N      int    `json:"n"`
	Method string `json:"method"`
	Path   string `json:"path"`
	Range  string `json:"range,omitempty"`
	Fault  string `json:"fault,omitempty"`
}

type FakeReg struct {
	mu        sync.Mutex
	regLn     net.Listener
	cdnLn     net.Listener
	RegHost   string
	CDNHost   string
	manifests map[string][]byte
	blobs     map[string][]byte
	plan      []Fault
	counts    map[string]int
	Log       []ReqRec
	srvs      []*http.Server
	// crash hooks (C12): called with the lock released
	OnRequest func(kind string, n int)
	OnPath    func(kind, path string)                         // may block: holds the request (C03 overlapping pulls)
	OnBody    func(kind string, n int, total int) (cutAt int) // -1: no cut; else call Cut after writing cutAt bytes
	Cut       func()
	// push recording
	Uploads   map[string]*uploadRec
	PushLog   []string
	Accepted  map[string]bool
	PushFault []Fault
}

type uploadRec struct {
	Repo   string
	Data   []byte
	Digest string
	Done   bool
}

func NewFakeReg() *FakeReg {
	f := &FakeReg{manifests: map[string][]byte{}, blobs: map[string][]byte{}, counts: map[string]int{}, Uploads: map[string]*uploadRec{}, Accepted: map[string]bool{}}
	var err error
	f.regLn, err = listenLow()
	if err != nil {
		panic("sandbox: no port for the fake registry: " + err.Error())
	}
	f.cdnLn, err = listenLow()
	if err != nil {
		panic("sandbox: no port for the fake CDN: " + err.Error())
	}
	f.RegHost = f.regLn.Addr().String()
	f.CDNHost = fmt.Sprintf("localhost:%d", f.cdnLn.Addr().(*net.TCPAddr).Port)
	for i, ln := range []net.Listener{f.regLn, f.cdnLn} {
		h := http.HandlerFunc(f.serveReg)
		if i == 1 {
			h = http.HandlerFunc(f.serveCDN)
		}
		s := &http.Server{Handler: h}
		f.srvs = append(f.srvs, s)
		go s.Serve(ln)
	}
	return f
}

func (f *FakeReg) Close() {
	for _, s := range f.srvs {
		s.Close()
	}
}

// SetPlan starts a new attempt: counters reset, plan replaced.
func (f *FakeReg) SetPlan(p []Fault) {
	f.mu.Lock()
	f.plan = p
	f.counts = map[string]int{}
	f.mu.Unlock()
}

func (f *FakeReg) AddBlob(b []byte) string {
	d := sha(b)
	f.mu.Lock()
	f.blobs[d] = b
	f.mu.Unlock()
	return d
}

func (f *FakeReg) SetManifest(repoTag string, m []byte) {
	f.mu.Lock()
	f.manifests[repoTag] = m
	f.mu.Unlock()
}

// Count returns how many requests of a kind arrived since the last SetPlan.
func (f *FakeReg) Count(kind string) int {
	f.mu.Lock()
	defer f.mu.Unlock()
	return f.counts[kind]
}

func (f *FakeReg) Requests() []ReqRec {
	f.mu.Lock()
	defer f.mu.Unlock()
	return append([]ReqRec(nil), f.Log...)
}

// next registers the request and returns the fault that applies (or nil).
func (f *FakeReg) next(kind string, r *http.Request) (int, *Fault) {
	f.mu.Lock()
	f.counts[kind]++
	n := f.counts[kind]
	var hit *Fault
	for i := range f.plan {
		if f.plan[i].Kind == kind && (f.plan[i].Nth == n || f.plan[i].Nth == 0) {
			hit = &f.plan[i]
			break
		}
	}
	rec := ReqRec{Kind: kind, N: n, Method: r.Method, Path: r.URL.Path, Range: r.Header.Get("Range")}
	if hit != nil {
		rec.Fault = hit.Act
	}
	f.Log = append(f.Log, rec)
	hook, onPath := f.OnRequest, f.OnPath
	f.mu.Unlock()
	if hook != nil {
		hook(kind, n)
	}
	if onPath != nil {
		onPath(kind, r.URL.Path)
	}
	return n, hit
}

// raw writes a response by hand on the hijacked connection: declared length, then only `send` bytes, then close.
func raw(w http.ResponseWriter, status int, hdr map[string]string, declared int64, body []byte, send int) {
	hj, ok := w.(http.Hijacker)
	if !ok {
		return
	}
	c, bw, err := hj.Hijack()
	if err != nil {
		return
	}
	defer c.Close()
	fmt.Fprintf(bw, "HTTP/1.1 %d %s\r\n", status, http.StatusText(status))
	for k, v := range hdr {
		fmt.Fprintf(bw, "%s: %s\r\n", k, v)
	}
	if declared >= 0 {
		fmt.Fprintf(bw, "Content-Length: %d\r\n", declared)
	}
	fmt.Fprintf(bw, "Connection: close\r\n\r\n")
	if send > len(body) {
		send = len(body)
	}
	bw.Write(body[:send])
	bw.Flush()
}

func (f *FakeReg) commonFault(w http.ResponseWriter, r *http.Request, ft *Fault) bool {
	switch ft.Act {
	case "status":
		w.WriteHeader(ft.Code)
		io.WriteString(w, ft.Str)
		return true
	case "reset":
		if hj, ok := w.(http.Hijacker); ok {
			if c, _, err := hj.Hijack(); err == nil {
				if tc, ok := c.(*net.TCPConn); ok {
					tc.SetLinger(0)
				}
				c.Close()
			}
		}
		return true
	case "challenge":
		w.Header().Set("www-authenticate", ft.Str)
		w.WriteHeader(401)
		return true
	case "stall":
		time.Sleep(time.Duration(ft.Arg) * time.Millisecond)
		return false
	}
	return false
}

func (f *FakeReg) serveReg(w http.ResponseWriter, r *http.Request) {
	p := r.URL.Path
	switch {
	case p == "/token":
		n, ft := f.next("token", r)
		if n > 3000 {
			// circuit breaker: a client that keeps asking for tokens (e.g. because it answers the token endpoint's
			// own 401 with another token request) is cut off, so that the attempt ends and the count can be judged
			w.WriteHeader(500)
			return
		}
		if ft != nil && f.commonFault(w, r, ft) {
			return
		}
		if ft != nil && ft.Act == "garbage" {
			io.WriteString(w, ft.Str)
			return
		}
		json.NewEncoder(w).Encode(map[string]string{"token": "verif-token"})
	case strings.HasPrefix(p, "/v2/") && strings.Contains(p, "/manifests/") && r.Method == http.MethodGet:
		_, ft := f.next("manifest", r)
		if ft != nil && f.commonFault(w, r, ft) {
			return
		}
		rest := strings.TrimPrefix(p, "/v2/")
		i := strings.Index(rest, "/manifests/")
		key := rest[:i] + ":" + rest[i+len("/manifests/"):]
		f.mu.Lock()
		m, ok := f.manifests[key]
		f.mu.Unlock()
		if !ok {
			w.WriteHeader(404)
			return
		}
		if ft != nil {
			switch ft.Act {
			case "truncate":
				raw(w, 200, map[string]string{"Content-Type": "application/json"}, int64(len(m)), m, int(ft.Arg))
				return
			case "garbage":
				io.WriteString(w, ft.Str)
				return
			case "redirect-same":
				if r.URL.Query().Get("hop") == "" {
					http.Redirect(w, r, "http://"+f.RegHost+p+"?hop=1", http.StatusTemporaryRedirect)
					return
				}
			}
		}
		w.Header().Set("Content-Type", "application/vnd.docker.distribution.manifest.v2+json")
		w.Write(m)
	case strings.HasPrefix(p, "/v2/") && strings.Contains(p, "/blobs/sha256") && (r.Method == http.MethodHead || r.Method == http.MethodGet):
		d := p[strings.LastIndex(p, "/")+1:]
		d = strings.Replace(d, "sha256-", "sha256:", 1)
		f.mu.Lock()
		b, ok := f.blobs[d]
		f.mu.Unlock()
		kind := "head"
		if r.Method == http.MethodGet {
			kind = "blobget"
		}
		_, ft := f.next(kind, r)
		if ft != nil && f.commonFault(w, r, ft) {
			return
		}
		if !ok {
			w.WriteHeader(404)
			return
		}
		if r.Method == http.MethodHead {
			cl := int64(len(b))
			if ft != nil {
				switch ft.Act {
				case "bad-length":
					cl += ft.Arg
					if cl < 0 {
						cl = 0
					}
				case "no-length":
					raw(w, 200, nil, -1, nil, 0)
					return
				}
			}
			w.Header().Set("Content-Length", strconv.FormatInt(cl, 10))
			w.WriteHeader(200)
			return
		}
		if ft != nil {
			hops, _ := strconv.Atoi(r.URL.Query().Get("hop"))
			switch ft.Act {
			case "redirect-same": // Arg same-host hops before the CDN hop
				if int64(hops) < ft.Arg {
					http.Redirect(w, r, fmt.Sprintf("http://%s%s?hop=%d", f.RegHost, p, hops+1), http.StatusTemporaryRedirect)
					return
				}
			case "no-redirect": // serve the blob directly with 200 (the client cannot use that)
				w.Write(b)
				return
			}
		}
		http.Redirect(w, r, "http://"+f.CDNHost+"/blob/"+d, http.StatusTemporaryRedirect)
	default:
		f.servePush(w, r)
	}
}

func parseRange(h string, size int64) (lo, hi int64, ok bool) {
	if !strings.HasPrefix(h, "bytes=") {
		return 0, size - 1, false
	}
	a, b, found := strings.Cut(strings.TrimPrefix(h, "bytes="), "-")
	if !found {
		return 0, size - 1, false
	}
	lo, err1 := strconv.ParseInt(a, 10, 64)
	hi, err2 := strconv.ParseInt(b, 10, 64)
	if err1 != nil {
		return 0, size - 1, false
	}
	if err2 != nil || hi >= size {
		hi = size - 1
	}
	return lo, hi, true
}

func (f *FakeReg) serveCDN(w http.ResponseWriter, r *http.Request) {
	d := strings.TrimPrefix(r.URL.Path, "/blob/")
	f.mu.Lock()
	b, ok := f.blobs[d]
	f.mu.Unlock()
	n, ft := f.next("cdn", r)
	if ft != nil && f.commonFault(w, r, ft) {
		return
	}
	if !ok {
		w.WriteHeader(404)
		return
	}
	size := int64(len(b))
	lo, hi, ranged := parseRange(r.Header.Get("Range"), size)
	if lo > size {
		lo = size
	}
	if hi < lo-1 {
		hi = lo - 1
	}
	part := b[lo : hi+1]
	status := 206
	hdr := map[string]string{"Content-Range": fmt.Sprintf("bytes %d-%d/%d", lo, hi, size)}
	if !ranged {
		status, hdr = 200, map[string]string{}
	}
	if ft != nil {
		switch ft.Act {
		case "truncate":
			raw(w, status, hdr, int64(len(part)), part, int(ft.Arg))
			return
		case "flip":
			part = append([]byte(nil), part...)
			if len(part) > 0 {
				part[int(ft.Arg)%len(part)] ^= 0x40
			}
		case "ignore-range":
			part, status, hdr = b, 200, map[string]string{}
		case "short-ok": // declares and sends fewer bytes than asked, cleanly
			k := int(ft.Arg)
			if k > len(part) {
				k = len(part)
			}
			part = part[:k]
		case "extra": // sends more than asked
			part = append(append([]byte(nil), part...), make([]byte, ft.Arg)...)
		}
	}
	f.mu.Lock()
	onBody, cut := f.OnBody, f.Cut
	f.mu.Unlock()
	if onBody != nil {
		if at := onBody("cdn", n, len(part)); at >= 0 {
			// crash point: deliver `at` bytes, then have the driver kill the server while the body is open
			hj, _ := w.(http.Hijacker)
			c, bw, err := hj.Hijack()
			if err == nil {
				fmt.Fprintf(bw, "HTTP/1.1 %d %s\r\n", status, http.StatusText(status))
				for k, v := range hdr {
					fmt.Fprintf(bw, "%s: %s\r\n", k, v)
				}
				fmt.Fprintf(bw, "Content-Length: %d\r\nConnection: close\r\n\r\n", len(part))
				bw.Write(part[:min(at, len(part))])
				bw.Flush()
				time.Sleep(30 * time.Millisecond) // let the client write what it received
				if cut != nil {
					cut()
				}
				c.Close()
			}
			return
		}
	}
	for k, v := range hdr {
		w.Header().Set(k, v)
	}
	w.Header().Set("Content-Length", strconv.Itoa(len(part)))
	w.WriteHeader(status)
	if ft != nil && ft.Act == "stall-mid" && len(part) > 1 {
		// deliver a first piece, then nothing for Code seconds (the client gives a part up after 30 s without
		// progress and asks again from where it got to), then the rest to whoever is still listening
		k := 1 + int(ft.Arg)%(len(part)-1)
		w.Write(part[:k])
		if fl, ok := w.(http.Flusher); ok {
			fl.Flush()
		}
		select {
		case <-time.After(time.Duration(ft.Code) * time.Second):
		case <-r.Context().Done():
		}
		w.Write(part[k:])
		return
	}
	w.Write(part)
}

// ---------------------------------------------------------------------------------------------
// push side (legacy PushModel): records upload sessions, commits and the manifest PUT

func (f *FakeReg) pushFault(kind string) *Fault {
	f.counts["push-"+kind]++
	n := f.counts["push-"+kind]
	for i := range f.PushFault {
		if f.PushFault[i].Kind == kind && f.PushFault[i].Nth == n {
			return &f.PushFault[i]
		}
	}
	return nil
}

func (f *FakeReg) servePush(w http.ResponseWriter, r *http.Request) {
	p := r.URL.Path
	f.mu.Lock()
	defer f.mu.Unlock()
	switch {
	case strings.HasPrefix(p, "/v2/") && strings.HasSuffix(p, "/blobs/uploads/") && r.Method == http.MethodPost:
		repo := strings.TrimSuffix(strings.TrimPrefix(p, "/v2/"), "/blobs/uploads/")
		if from := r.URL.Query().Get("from"); from != "" {
			// cross-repository mount request
			d := r.URL.Query().Get("mount")
			f.PushLog = append(f.PushLog, "mount-request "+short(d))
		}
		if ft := f.pushFault("start"); ft != nil {
			f.PushLog = append(f.PushLog, "start-fault")
			w.WriteHeader(ft.Code)
			return
		}
		id := fmt.Sprintf("u%d", len(f.Uploads)+1)
		f.Uploads[id] = &uploadRec{Repo: repo}
		f.PushLog = append(f.PushLog, "start "+id)
		w.Header().Set("Location", "http://"+f.RegHost+"/upload/"+id)
		w.Header().Set("Docker-Upload-Location", "http://"+f.RegHost+"/upload/"+id)
		w.WriteHeader(http.StatusAccepted)
	case strings.HasPrefix(p, "/upload/") && r.Method == http.MethodPatch:
		id := strings.TrimPrefix(p, "/upload/")
		u := f.Uploads[id]
		if u == nil {
			w.WriteHeader(404)
			return
		}
		f.mu.Unlock()
		body, _ := io.ReadAll(r.Body)
		f.mu.Lock()
		if ft := f.pushFault("patch"); ft != nil {
			f.PushLog = append(f.PushLog, "patch-fault "+id)
			w.WriteHeader(ft.Code)
			return
		}
		off := int64(0)
		if cr := r.Header.Get("Content-Range"); cr != "" {
			a, _, _ := strings.Cut(cr, "-")
			off, _ = strconv.ParseInt(a, 10, 64)
		}
		if int64(len(u.Data)) < off+int64(len(body)) {
			u.Data = append(u.Data, make([]byte, off+int64(len(body))-int64(len(u.Data)))...)
		}
		copy(u.Data[off:], body)
		f.PushLog = append(f.PushLog, fmt.Sprintf("patch %s %d+%d", id, off, len(body)))
		w.Header().Set("Location", "http://"+f.RegHost+"/upload/"+id)
		w.Header().Set("Docker-Upload-Location", "http://"+f.RegHost+"/upload/"+id)
		w.WriteHeader(http.StatusAccepted)
	case strings.HasPrefix(p, "/upload/") && r.Method == http.MethodPut:
		id := strings.TrimPrefix(p, "/upload/")
		u := f.Uploads[id]
		if u == nil {
			w.WriteHeader(404)
			return
		}
		if ft := f.pushFault("commit"); ft != nil {
			f.PushLog = append(f.PushLog, "commit-fault "+id)
			w.WriteHeader(ft.Code)
			return
		}
		d := r.URL.Query().Get("digest")
		if sha(u.Data) != d {
			f.PushLog = append(f.PushLog, "commit-mismatch "+id)
			w.WriteHeader(400)
			io.WriteString(w, `{"errors":[{"code":"DIGEST_INVALID"}]}`)
			return
		}
		u.Digest, u.Done = d, true
		f.Accepted[d] = true
		f.blobs[d] = u.Data
		f.PushLog = append(f.PushLog, "commit "+short(d))
		w.WriteHeader(http.StatusCreated)
	case strings.HasPrefix(p, "/v2/") && strings.Contains(p, "/manifests/") && r.Method == http.MethodPut:
		f.mu.Unlock()
		body, _ := io.ReadAll(r.Body)
		f.mu.Lock()
		var m manifestDoc
		json.Unmarshal(body, &m)
		missing := []string{}
		for _, l := range append(append([]layerRef{}, m.Layers...), m.Config) {
			if l.Digest != "" && !f.Accepted[l.Digest] {
				missing = append(missing, short(l.Digest))
			}
		}
		f.PushLog = append(f.PushLog, "manifest-put missing="+strings.Join(missing, ","))
		if ft := f.pushFault("manifest"); ft != nil {
			w.WriteHeader(ft.Code)
			return
		}
		rest := strings.TrimPrefix(p, "/v2/")
		i := strings.Index(rest, "/manifests/")
		f.manifests[rest[:i]+":"+rest[i+len("/manifests/"):]] = body
		w.WriteHeader(http.StatusCreated)
	default:
		w.WriteHeader(404)
	}
}
