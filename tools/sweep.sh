# usage: tools/sweep.sh [base]   -- multi-seed sweep of every check from fresh processes (seeds base+1 .. base+N)
B=${1:-20}
F='violation sig\|^VIOLATION\|^SUMMARY\|^INCONCL\|^BROKEN'
for s in 1 2 3 4 5 6; do for p in C03 C12 C04 C10; do ./check $p --seed $((B+s)) --no-evidence 2>&1 | grep "$F" | cut -c1-500; done; done
for s in 1 2 3; do for p in C01 C02 C05 C06 C07 C08 C09 C11 C13 C14 C15 C16 C17 C18 C19 C20; do ./check $p --seed $((B+s)) --no-evidence 2>&1 | grep "$F" | cut -c1-400; done; done
for p in C03 C12 C04 C10; do ./check $p --tier thorough --seed $((B+1)) --no-evidence 2>&1 | grep "$F" | cut -c1-500; done
