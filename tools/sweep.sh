for p in C12 C04; do ./check $p --tier thorough --no-evidence 2>&1 | grep "violation sig\|^VIOLATION\|^SUMMARY\|^INCONCL\|^BROKEN" | cut -c1-500; done
for s in 9 10 11 12 13 14; do for p in C03 C12 C04 C10; do ./check $p --seed $s --no-evidence 2>&1 | grep "violation sig\|^VIOLATION\|^SUMMARY\|^INCONCL\|^BROKEN" | cut -c1-500; done; done
for s in 2 3 4; do for p in C01 C02 C05 C06 C07 C08 C09 C11 C13 C14 C15 C16 C17 C18 C19 C20; do ./check $p --seed $s --no-evidence 2>&1 | grep "violation sig\|^VIOLATION\|^SUMMARY\|^INCONCL\|^BROKEN" | cut -c1-400; done; done
./check C03 --tier thorough --no-evidence 2>&1 | grep "violation sig\|^VIOLATION\|^SUMMARY\|^INCONCL\|^BROKEN" | cut -c1-500
