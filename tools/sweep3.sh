# usage: tools/sweep3.sh [base] -- thorough tiers of C09 and C03, then two more quick seeds of the checks changed last
B=${1:-70}
F='violation sig\|^VIOLATION\|^SUMMARY\|^INCONCL\|^BROKEN'
./check C09 --tier thorough --seed $((B+1)) --no-evidence 2>&1 | grep "$F" | cut -c1-500
for s in 1 2; do for p in C01 C02 C10 C03 C12 C04; do ./check $p --seed $((B+s)) --no-evidence 2>&1 | grep "$F" | cut -c1-500; done; done
./check C03 --tier thorough --seed $((B+1)) --no-evidence 2>&1 | grep "$F" | cut -c1-500
