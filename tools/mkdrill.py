#!/usr/bin/env python3
"""usage: tools/mkdrill.py <ID> <slug> <repo-relative file> <<< "OLD\n=====\nNEW"   (textual replacement -> drills/<ID>/<slug>.diff)"""
import os, subprocess, sys, tempfile
pid, slug, rel = sys.argv[1:4]
pairs = []
for chunk in sys.stdin.read().split("\n#####\n"):
    old, new = chunk.split("\n=====\n")
    pairs.append((old.rstrip("\n"), new.rstrip("\n")))
V = os.path.dirname(os.path.dirname(os.path.abspath(__file__)))
wt = tempfile.mkdtemp(prefix="verif-mkdrill-", dir="/tmp"); os.rmdir(wt)
subprocess.check_call(["git", "-C", "/repo", "worktree", "add", "-q", "--detach", wt, "HEAD"])
try:
    p = os.path.join(wt, rel)
    s = open(p).read()
    for old, new in pairs:
        if s.count(old) != 1:
            raise SystemExit("old text occurs %d times in %s: %r" % (s.count(old), rel, old[:60]))
        s = s.replace(old, new)
    open(p, "w").write(s)
    d = subprocess.check_output(["git", "-C", wt, "diff"]).decode()
    os.makedirs(os.path.join(V, "drills", pid), exist_ok=True)
    open(os.path.join(V, "drills", pid, slug + ".diff"), "w").write(d)
    print("wrote drills/%s/%s.diff (%d lines)" % (pid, slug, d.count("\n")))
finally:
    subprocess.call(["git", "-C", "/repo", "worktree", "remove", "--force", wt])
