#!/usr/bin/env python3
"""usage: tools/mkdrill.py <ID> <slug> <repo-relative file> <<< "OLD\n=====\nNEW"   (textual replacement -> drills/<ID>/<slug>.diff)"""
import os, subprocess, sys, tempfile
pid, slug, rel = sys.argv[1:4]
old, new = sys.stdin.read().split("\n=====\n")
new = new.rstrip("\n") if not new.endswith("\n\n") else new
old = old.rstrip("\n")
V = os.path.dirname(os.path.dirname(os.path.abspath(__file__)))
wt = tempfile.mkdtemp(prefix="verif-mkdrill-", dir="/tmp"); os.rmdir(wt)
subprocess.check_call(["git", "-C", "/repo", "worktree", "add", "-q", "--detach", wt, "HEAD"])
try:
    p = os.path.join(wt, rel)
    s = open(p).read()
    if s.count(old) != 1:
        raise SystemExit("old text occurs %d times in %s" % (s.count(old), rel))
    open(p, "w").write(s.replace(old, new))
    d = subprocess.check_output(["git", "-C", wt, "diff"]).decode()
    os.makedirs(os.path.join(V, "drills", pid), exist_ok=True)
    open(os.path.join(V, "drills", pid, slug + ".diff"), "w").write(d)
    print("wrote drills/%s/%s.diff (%d lines)" % (pid, slug, d.count("\n")))
finally:
    subprocess.call(["git", "-C", "/repo", "worktree", "remove", "--force", wt])
