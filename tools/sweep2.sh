# usage: tools/sweep2.sh [base]  -- silence sweep after the second build round: every check at three fresh seeds, then the
# thorough tier of the checks whose machinery changed most (C12 C10 C04 C11 C07 C20 C09), then C03 thorough
B=${1:-60}
F='violation sig\|^VIOLATION\|^SUMMARY\|^INCONCL\|^BROKEN'
for s in 1 2 3; do for p in C03 C12 C04 C10 C01 C02 C05 C06 C07 C08 C09 C11 C13 C14 C15 C16 C17 C18 C19 C20; do ./check $p --seed $((B+s)) --no-evidence 2>&1 | grep "$F" | cut -c1-500; done; done
for p in C12 C10 C04 C11 C07 C20 C09 C03; do ./check $p --tier thorough --seed $((B+1)) --no-evidence 2>&1 | grep "$F" | cut -c1-500; done
