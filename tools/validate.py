#!/usr/bin/env python3
"""Validates MANIFEST.json and evidence/*.json against the task's schemas (uses the tooling venv's jsonschema)."""
import json, glob, sys, os
import jsonschema
V = os.path.dirname(os.path.dirname(os.path.abspath(__file__)))
jsonschema.validate(json.load(open(V + '/MANIFEST.json')), json.load(open('/root/.vp/MANIFEST.schema.json')))
es = json.load(open('/root/.vp/EVIDENCE.schema.json'))
for f in sorted(glob.glob(V + '/evidence/*.json')):
    jsonschema.validate(json.load(open(f)), es)
    print('ok', f)
print('schemas ok')
