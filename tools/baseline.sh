#!/bin/bash
# Runs the repository's pinned test suite with the verif guard OFF (no -tags verif, no overlay)
# and compares against /root/.vp/BASELINE.json's stable_pass list.
# usage: tools/baseline.sh [repo dir]
REPO=${1:-/repo}
OUT=${VERIF_BASELINE_OUT:-$(mktemp /tmp/verif-baseline.XXXXXX.json)}
export GOFLAGS=-mod=mod GOPROXY=off
unset GOSUMDB
export GOTOOLCHAIN=auto
(cd "$REPO" && go test -mod=mod -json -vet=off -count=1 -timeout 25m ./... > "$OUT" 2>/dev/null)
python3 - "$OUT" <<'PY'
import json,sys
res={}
for l in open(sys.argv[1], errors='replace'):
    try: e=json.loads(l)
    except Exception: continue
    if e.get('Test') and e.get('Action') in('pass','fail','skip'):
        res[e['Package']+'::'+e['Test']]=e['Action']
base=json.load(open('/root/.vp/BASELINE.json'))['stable_pass']
missing=[t for t in base if res.get(t)!='pass']
print('baseline tests: %d, passing now: %d, not passing: %d' % (len(base), len(base)-len(missing), len(missing)))
for t in missing[:40]: print('  NOT PASSING:', t, res.get(t))
newfail=[t for t,a in res.items() if a=='fail' and t not in base]
print('failures outside the baseline list:', newfail[:10])
sys.exit(1 if missing else 0)
PY
rc=$?
rm -f "$OUT"
exit $rc
