#!/bin/bash
# usage: tools/recut.sh <ID> <base-commit (tree the cumulative drill diffs were cut against)>
# Re-expresses cumulative drill diffs (fix + mutation, cut before the fix was committed) as diffs against /repo HEAD.
ID=$1; BASE=$2
WT=/tmp/verif-recut-$$
git -C /repo worktree add -q --detach $WT $BASE || exit 1
for f in /verif/drills/$ID/*.diff; do
  git -C $WT checkout -q -- . ; git -C $WT clean -fdq
  if git -C $WT apply $f 2>/dev/null; then
    (cd $WT && git diff HEAD --name-only > /tmp/recut-files.$$; git add -A; git diff --cached $(git -C /repo rev-parse HEAD) -R -- $(cat /tmp/recut-files.$$) ) > $f.new 2>/dev/null
    # diff from /repo HEAD to the mutated tree, restricted to the files the drill touches
    (cd $WT && git diff --cached -R $(git -C /repo rev-parse HEAD) -- $(cat /tmp/recut-files.$$)) > /dev/null
    (cd $WT && git diff $(git -C /repo rev-parse HEAD) --cached -- $(cat /tmp/recut-files.$$)) > $f.new
    if [ -s $f.new ]; then mv $f.new $f; echo "recut $(basename $f)"; else rm -f $f.new; echo "EMPTY $(basename $f)"; fi
    git -C $WT reset -q --hard $BASE
  else
    echo "skip (does not apply to base) $(basename $f)"
  fi
done
rm -f /tmp/recut-files.$$
git -C /repo worktree remove --force $WT
