#!/usr/bin/env python3
"""Regenerates seeded/README.md from seeded/*/meta.json."""
import glob, json, os
V = os.path.dirname(os.path.dirname(os.path.abspath(__file__)))
rows = []
for f in sorted(glob.glob(V + "/seeded/*/meta.json")):
    m = json.load(open(f))
    d = os.path.basename(os.path.dirname(f))
    sigs = []
    log = os.path.join(os.path.dirname(f), "check_quick.log")
    if os.path.exists(log):
        import re
        sigs = sorted(set(re.findall(r"violation sig=(\S+)", open(log, errors="replace").read())))
    rows.append((d, m, sigs))
out = ["# Independently seeded breaking changes", "",
       "Each directory holds `patch.diff` (the production change), `demo/` (a demonstration that fails with the change and",
       "passes without it), `agent_meta.json` (the author's description) and `meta.json` (what was confirmed here:",
       "`tools/seeded.sh` applies the patch to a scratch worktree of /repo HEAD, builds, runs the demonstration with and",
       "without it, runs the pinned tests of the touched packages, then runs the property's check with `tools/drill.sh`).",
       "The authors were fresh agents that saw only the property text and their own worktree, nothing from /verif.", "",
       "| change | property | confirmed (demo fails with / passes without, suite green) | caught by `./check` quick | signatures | needs |",
       "|---|---|---|---|---|---|"]
for d, m, sigs in rows:
    note = m.get("note", "")
    caught = "yes" if m.get("caught_quick") else "no"
    if note:
        caught += " — " + note
    out.append("| %s | %s | %s | %s | %s | %s |" % (d, m["property"], "yes" if m.get("confirmed") else "NO", caught,
               "<br>".join("`%s`" % s for s in sigs[:6]) + (" …" if len(sigs) > 6 else ""), (m.get("needs") or "").replace("|", "/").replace("\n", " ")[:400]))
open(V + "/seeded/README.md", "w").write("\n".join(out) + "\n")
print("seeded/README.md: %d changes" % len(rows))
