#!/bin/bash
# usage: tools/drill.sh <ID> <patch.diff> [quick|thorough] [seed]
# Applies a breaking patch to a scratch worktree of /repo (outside /repo and /verif), runs the check
# against it with its own build directory and without touching evidence/, then removes the worktree.
ID=$1; PATCH=$(readlink -f "$2"); TIER=${3:-quick}; SEED=${4:-1}
V=$(cd "$(dirname "$0")/.." && pwd)
WT=$(mktemp -d /tmp/verif-drill-$ID.XXXXXX)
rmdir "$WT"
git -C /repo worktree add -q --detach "$WT" HEAD || exit 9
cleanup() { git -C /repo worktree remove --force "$WT" 2>/dev/null; rm -rf "$WT" "$WT.build"; }
trap cleanup EXIT
if ! git -C "$WT" apply "$PATCH"; then echo "DRILL: patch does not apply"; exit 9; fi
VERIF_REPO=$WT VERIF_BUILD_DIR=$WT.build "$V/check" "$ID" --tier "$TIER" --seed "$SEED" --no-evidence
rc=$?
echo "DRILL $ID $(basename "$(dirname "$PATCH")")/$(basename "$PATCH") tier=$TIER seed=$SEED rc=$rc"
exit $rc
