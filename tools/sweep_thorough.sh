# usage: tools/sweep_thorough.sh [ids...]  -- thorough tier of the given checks (default: all but the blackbox ones), one after the other
F='violation sig\|^VIOLATION\|^SUMMARY\|^INCONCL\|^BROKEN\|^KNOWN'
IDS=${@:-C01 C02 C11 C15 C05 C06 C07 C08 C09 C13 C14 C16 C17 C18 C19 C20}
for p in $IDS; do ./check $p --tier thorough --no-evidence 2>&1 | grep "$F" | cut -c1-300; done
