#!/bin/bash
# usage: tools/drillall.sh <ID> [tier]   -- runs every drills/<ID>/*.diff (up to 4 in parallel) and prints a table
ID=$1; TIER=${2:-quick}
cd "$(dirname "$0")/.."
mkdir -p build/drill-logs
ls drills/$ID/*.diff | xargs -P 4 -I{} bash -c 'f={}; n=$(basename $f .diff); tools/drill.sh '$ID' $f '$TIER' > build/drill-logs/'$ID'.$n.log 2>&1; rc=$?; sigs=$(grep -o "violation sig=[^ ]*" build/drill-logs/'$ID'.$n.log | sort | uniq -c | tr "\n" ";"); echo "$n rc=$rc $sigs $(grep -c "^INCONCLUSIVE" build/drill-logs/'$ID'.$n.log) inconclusive-lines"'
