#!/bin/bash
# usage: tools/seeded.sh <ID> <out dir of the seeding agent> [name]
# Confirms an independently written breaking change (compiles, demo fails with it / passes without it, touched
# packages' own tests pass), stores it under seeded/<name>/ and runs the property's check against it.
ID=$1; OUT=$2; NAME=${3:-$ID}
V=$(cd "$(dirname "$0")/.." && pwd)
export GOFLAGS=-mod=mod GOPROXY=off
D=$V/seeded/$NAME; mkdir -p $D; cp $OUT/patch.diff $D/patch.diff; rm -rf $D/demo; cp -r $OUT/demo $D/demo; cp $OUT/meta.json $D/agent_meta.json
WT=$(mktemp -d /tmp/verif-seeded-$NAME.XXXXXX); rmdir $WT
git -C /repo worktree add -q --detach $WT HEAD || exit 9
trap 'git -C /repo worktree remove --force $WT 2>/dev/null; rm -rf $WT' EXIT
DEMO=$(python3 -c "import json;print(json.load(open('$D/agent_meta.json'))['demo_cmd'])")
cp -r $D/demo/. $WT/
cd $WT
echo "== demo WITHOUT the change"; timeout 900 bash -c "$DEMO" > $D/demo_without.log 2>&1; R0=$?; tail -3 $D/demo_without.log
git apply $D/patch.diff || { echo "PATCH DOES NOT APPLY"; exit 9; }
echo "== build"; go build ./... > $D/build.log 2>&1; RB=$?; tail -3 $D/build.log
echo "== demo WITH the change"; timeout 900 bash -c "$DEMO" > $D/demo_with.log 2>&1; R1=$?; tail -5 $D/demo_with.log
PKGS=$(git diff --name-only | xargs -n1 dirname | sort -u | sed 's#^#./#' | tr '\n' ' ')
# the pinned tests of the touched packages, without the demo files
(cd $D/demo && find . -type f) | while read f; do rm -f "$WT/$f"; done
echo "== pinned tests of touched packages: $PKGS"; go test -vet=off -count=1 $PKGS > $D/suite_touched.log 2>&1; RS=$?; tail -4 $D/suite_touched.log
cd $V
echo "== check (quick)"; tools/drill.sh $ID $D/patch.diff quick 1 > $D/check_quick.log 2>&1; RC=$?; grep "violation sig\|^VIOLATION\|^SUMMARY\|^KNOWN\|^BROKEN\|^DRILL" $D/check_quick.log | cut -c1-300
python3 - <<PY
import json
m={"property":"$ID","demo_without_rc":$R0,"build_rc":$RB,"demo_with_rc":$R1,"touched_packages_suite_rc":$RS,"check_quick_rc":$RC}
a=json.load(open("$D/agent_meta.json"))
m["what"]=a.get("summary"); m["needs"]=a.get("needs"); m["demo_cmd"]=a.get("demo_cmd")
m["confirmed"]= ($R0==0 and $RB==0 and $R1!=0 and $RS==0)
m["caught_quick"]= ($RC==1)
json.dump(m,open("$D/meta.json","w"),indent=1)
print(json.dumps({k:v for k,v in m.items() if k not in("what","needs")}))
PY
