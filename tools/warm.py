#!/usr/bin/env python3
"""Builds every harness once so that the quick checks start from a warm go build cache."""
import importlib.machinery, importlib.util, os, subprocess, sys
V = os.path.dirname(os.path.dirname(os.path.abspath(__file__)))
spec = importlib.util.spec_from_loader("check", importlib.machinery.SourceFileLoader("check", os.path.join(V, "check")))
chk = importlib.util.module_from_spec(spec)
sys.argv = ["check"]
spec.loader.exec_module(chk)
need_ollama = False
allparts = []
for pid, cfg in chk.PROPS.items():
    allparts.append((pid, cfg))
    for i, part in enumerate(cfg.get("parts", [])):
        allparts.append(("%s.%s" % (pid, part.get("label", str(i))), part))
for pid, cfg in allparts:
    if cfg["kind"] == "gotest":
        race = cfg.get("race")
        races = {bool(race)} if not isinstance(race, dict) else {bool(v) for v in race.values()}
        for r in races:
            try:
                chk.build_gotest(pid, cfg, r)
            except SystemExit as e:
                print("warm: harness %s failed to build (rc %s)" % (pid, e.code)); sys.exit(1)
        need_ollama |= bool(cfg.get("needs_ollama"))
    else:
        need_ollama = True
if need_ollama:
    chk.build_ollama()
    if os.path.isdir(os.path.join(V, "blackbox")):
        chk.build_blackbox()
