#!/usr/bin/env python3
"""Regenerates /verif/MANIFEST.json from props.py (single source of truth)."""
import json, os, sys
V = os.path.dirname(os.path.dirname(os.path.abspath(__file__)))
sys.path.insert(0, V)
from props import PROPS, NOT_APPLICABLE
ids = [json.loads(l)["id"] for l in open(os.path.join(V, "properties.jsonl"))]
checks = []
hold = set()
if os.path.exists(os.path.join(V, "tools", "unregistered.txt")):
    hold = set(open(os.path.join(V, "tools", "unregistered.txt")).read().split())
for pid in ids:
    if pid not in PROPS or not PROPS[pid].get("registered", True) or pid in hold:
        continue
    c = PROPS[pid]
    checks.append({
        "property_id": pid,
        "quick_cmd": "./check %s --tier quick" % pid,
        "thorough_cmd": "./check %s --tier thorough" % pid,
        "evidence_file": "/verif/evidence/%s.json" % pid,
        "replay_cmd_template": "./check %s --replay {path}" % pid,
        "engine": c.get("engine", "overlay-harness"),
        "level_claimed": {"category": c["level"], "text": c["level_text"], "design_ref": c.get("design_ref", "DESIGN.md section 4, " + pid)},
        "level_note": c["level_note"],
        "technique": c["technique"],
    })
na = [{"property_id": p, "reason": NOT_APPLICABLE.get(p, "check not built yet in this session; see DESIGN.md section 4 for the planned monitor")}
      for p in ids if p not in [c["property_id"] for c in checks]]
m = {
    "version": 1,
    "setup_cmd": "./setup.sh",
    "hooks": {
        "guard": "verif",
        "enable": "go test -c -tags verif -modfile=/verif/build/<id>/go.mod -overlay=/verif/build/<id>/overlay.json (harness files live in /verif/overlay and are injected into /repo packages at build time; no file inside /repo carries the tag)",
        "baseline_off_cmd": "cd /repo && GOFLAGS=-mod=mod GOPROXY=off go test -mod=mod -json -vet=off -count=1 -timeout 25m ./...",
        "source_commits": [],
        "add_only": True,
    },
    "engines": [
        {"name": "overlay-harness", "path": "/verif/overlay", "serves_properties": [p for p in ids if p in PROPS and PROPS[p]["kind"] == "gotest"],
         "kind_free_text": "in-package Go test harnesses (build tag verif) compiled against /repo's working tree through go's -overlay; workload generators + online/offline monitors; race detector where stated"},
        {"name": "blackbox", "path": "/verif/blackbox", "serves_properties": [p for p in ids if p in PROPS and PROPS[p]["kind"] == "blackbox"],
         "kind_free_text": "drives the real `ollama serve` binary built from /repo over HTTP with a fake registry/CDN, a store inspector and strace-injected SIGKILL crash points"},
    ],
    "checks": checks,
    "not_applicable": na,
    "notes": "All checks: ./check <ID> [--tier quick|thorough]; VERIF_SEED selects the PRNG seed. Exit 0 held / 1 VIOLATION / 2 BROKEN-HARNESS (harness no longer compiles against the tree) / 3 observed nothing non-trivial. known_findings.json lists recorded findings and fixed defects.",
}
json.dump(m, open(os.path.join(V, "MANIFEST.json"), "w"), indent=1)
print("MANIFEST.json: %d checks, %d not_applicable" % (len(checks), len(na)))
