#!/bin/bash
# Run once after a fresh restore (offline): warms the go build cache for every harness and the ollama binary.
cd "$(dirname "$0")"
export GOFLAGS=-mod=mod GOPROXY=off GOTOOLCHAIN=auto
unset GOSUMDB
mkdir -p build/bin build/logs evidence replays
python3 tools/warm.py || exit 1
echo setup ok
