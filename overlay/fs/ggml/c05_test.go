//go:build verif

package ggml

// C05: GGUF written by WriteGGUF decodes to the same metadata, tensors and tensor bytes.
// Oracle = real Decode + an independent header reader (verifkit.ParseGGUF) over generated files.

import (
	"bytes"
	"errors"
	"fmt"
	"io"
	"log/slog"
	"math"
	"os"
	"path/filepath"
	"reflect"
	"sort"
	"strings"
	"testing"

	kit "verifkit"
)

// memWS is an in-memory io.WriteSeeker (sparse writes zero-fill like a file).
type memWS struct {
	b   []byte
	pos int64
}

func (m *memWS) Write(p []byte) (int, error) {
	end := m.pos + int64(len(p))
	if end > int64(len(m.b)) {
		m.b = append(m.b, make([]byte, end-int64(len(m.b)))...)
	}
	copy(m.b[m.pos:], p)
	m.pos = end
	return len(p), nil
}

func (m *memWS) Seek(off int64, whence int) (int64, error) {
	switch whence {
	case io.SeekStart:
		m.pos = off
	case io.SeekCurrent:
		m.pos += off
	case io.SeekEnd:
		m.pos = int64(len(m.b)) + off
	}
	if m.pos < 0 {
		return 0, errors.New("negative seek")
	}
	return m.pos, nil
}

var c05Kinds = []uint32{0, 1, 2, 3, 6, 7, 8, 9, 10, 11, 12, 13, 14, 15, 16, 17, 18, 19, 20, 21, 22, 23, 24, 25, 26, 27, 28, 29, 30}

type c05Tensor struct {
	Name  string   `json:"name"`
	Kind  uint32   `json:"kind"`
	Shape []uint64 `json:"shape"`
	Size  uint64   `json:"size"`
	data  []byte
}

type c05Case struct {
	Index     int            `json:"index"`
	Alignment int            `json:"alignment"` // 0 = key absent
	KV        map[string]any `json:"kv"`
	Tensors   []c05Tensor    `json:"tensors"`
	MaxArray  int            `json:"max_array"`
	OnDisk    bool           `json:"on_disk"`
}

func c05RandString(r *kit.Rand) string {
	switch r.Intn(6) {
	case 0:
		return ""
	case 1:
		return strings.Repeat("x", r.Range(1, 70))
	case 2:
		return "héllo wörld ☃ " + fmt.Sprint(r.Intn(1000))
	case 3:
		return string(r.Bytes(r.Range(1, 40))) // arbitrary bytes incl. NUL
	default:
		return fmt.Sprintf("s%d", r.Intn(1<<20))
	}
}

func c05Float(r *kit.Rand) float32 {
	switch r.Intn(8) {
	case 0:
		return 0
	case 1:
		return float32(math.Inf(1))
	case 2:
		return math.MaxFloat32
	case 3:
		return math.SmallestNonzeroFloat32
	default:
		return float32(r.NormFloat64() * 1000)
	}
}

func c05Gen(r *kit.Rand, idx int) c05Case {
	c := c05Case{Index: idx, KV: map[string]any{}}
	c.Alignment = kit.Pick(r, []int{0, 0, 1, 8, 16, 32, 64, 4096, -1})
	if c.Alignment == 4096 && r.Chance(1, 2) {
		c.Alignment = 128
	}
	if c.Alignment == -1 {
		// the format asks for a multiple of 8, not for a power of two
		c.Alignment = kit.Pick(r, []int{24, 40, 48, 56, 96, 104, 1000, 3, 7, 33})
	}
	if c.Alignment != 0 {
		c.KV["general.alignment"] = uint32(c.Alignment)
	}
	arch := kit.Pick(r, []string{"llama", "gemma3", "x", "verif"})
	if r.Chance(3, 4) {
		c.KV["general.architecture"] = arch
	}
	nkv := r.Range(0, 12)
	for i := 0; i < nkv; i++ {
		key := kit.Pick(r, []string{"general.", "tokenizer.ggml.", arch + ".", "", "a.b.c."}) + fmt.Sprintf("k%d", r.Intn(30))
		if r.Chance(1, 20) {
			key = ""
		}
		n := r.Range(0, 6)
		if r.Chance(1, 12) {
			n = r.Range(1000, 1100) // straddles the default maxArraySize of 1024
		}
		switch r.Intn(8) {
		case 0:
			c.KV[key] = uint32(r.Uint64())
		case 1:
			c.KV[key] = c05Float(r)
		case 2:
			c.KV[key] = r.Bool()
		case 3:
			c.KV[key] = c05RandString(r)
		case 4:
			a := make([]int32, n)
			for j := range a {
				a[j] = int32(r.Uint64())
			}
			c.KV[key] = a
		case 5:
			a := make([]uint32, n)
			for j := range a {
				a[j] = uint32(r.Uint64())
			}
			c.KV[key] = a
		case 6:
			a := make([]float32, n)
			for j := range a {
				a[j] = c05Float(r)
			}
			c.KV[key] = a
		case 7:
			a := make([]string, n)
			for j := range a {
				a[j] = c05RandString(r)
			}
			c.KV[key] = a
		}
	}
	nt := r.Range(0, 12)
	if r.Chance(1, 6) {
		nt = r.Range(13, 40)
	}
	if r.Chance(1, 10) {
		nt = 0
	}
	used := map[string]bool{}
	for i := 0; i < nt; i++ {
		var name string
		for {
			switch r.Intn(5) {
			case 0, 1:
				name = fmt.Sprintf("blk.%d.%s", r.Intn(6), kit.Pick(r, []string{"attn_q.weight", "attn_k.weight", "ffn_up.weight", "attn_norm.weight", "x"}))
			case 2:
				name = kit.Pick(r, []string{"output.weight", "token_embd.weight", "output_norm.weight", "rope_freqs.weight", "v.blk.1.w", "mm.0.weight"})
			default:
				name = fmt.Sprintf("t%d", r.Intn(1000))
			}
			if !used[name] {
				used[name] = true
				break
			}
		}
		t := c05Tensor{Name: name, Kind: kit.Pick(r, c05Kinds)}
		if r.Chance(1, 2) {
			t.Kind = kit.Pick(r, []uint32{0, 1, 24, 25, 30}) // byte-granular kinds make unaligned sizes common
		}
		bs := Tensor{Kind: t.Kind}.blockSize()
		nd := r.Range(1, 4)
		t.Shape = make([]uint64, nd)
		for d := range t.Shape {
			t.Shape[d] = uint64(r.Range(1, 5))
		}
		if r.Chance(1, 10) {
			t.Shape[r.Intn(nd)] = uint64(r.Range(0, 1)) // zero-sized tensors are legal
		}
		// the writer reverses the shape; block quantised rows live in the last written-order dimension
		t.Shape[nd-1] = bs * uint64(r.Range(1, 3))
		if bs == 1 {
			t.Shape[nd-1] = uint64(r.Range(1, 37))
		}
		tt := Tensor{Kind: t.Kind, Shape: t.Shape}
		t.Size = tt.Size()
		t.data = r.Bytes(int(t.Size))
		c.Tensors = append(c.Tensors, t)
	}
	c.MaxArray = kit.Pick(r, []int{-1, -1, 0, 3, 1024})
	c.OnDisk = r.Chance(1, 16)
	return c
}

func c05Reverse(s []uint64) []uint64 {
	o := make([]uint64, len(s))
	for i := range s {
		o[len(s)-1-i] = s[i]
	}
	return o
}

// c05Check runs one case; it returns "" or (signature, description).
func c05Check(c c05Case, dir string) (sig, what string) {
	defer func() {
		if p := recover(); p != nil {
			sig, what = "panic", fmt.Sprint("panic: ", p)
		}
	}()
	kv := KV{}
	for k, v := range c.KV {
		kv[k] = v
	}
	ts := make([]Tensor, len(c.Tensors))
	byName := map[string]c05Tensor{}
	for i, t := range c.Tensors {
		ts[i] = Tensor{Name: t.Name, Kind: t.Kind, Shape: append([]uint64(nil), t.Shape...), WriterTo: bytes.NewReader(t.data)}
		byName[t.Name] = t
	}
	var b []byte
	if c.OnDisk {
		f, err := os.Create(filepath.Join(dir, "c05.gguf"))
		if err != nil {
			return "harness", err.Error()
		}
		defer f.Close()
		if err := WriteGGUF(f, kv, ts); err != nil {
			return "write-error", "WriteGGUF: " + err.Error()
		}
		if b, err = os.ReadFile(f.Name()); err != nil {
			return "harness", err.Error()
		}
	} else {
		ws := &memWS{}
		if err := WriteGGUF(ws, kv, ts); err != nil {
			return "write-error", "WriteGGUF: " + err.Error()
		}
		b = ws.b
	}
	g, end, err := Decode(bytes.NewReader(b), c.MaxArray)
	if err != nil {
		return "decode-error", "Decode of a file WriteGGUF produced: " + err.Error()
	}
	if end != int64(len(b)) {
		return "end-offset", fmt.Sprintf("decoder end offset %d != file length %d", end, len(b))
	}
	align := uint64(32)
	if c.Alignment != 0 {
		align = uint64(c.Alignment)
	}
	// ---- metadata
	dkv := g.KV()
	limit := c.MaxArray
	if limit == 0 {
		limit = 1024
	}
	for k, want := range c.KV {
		got, ok := dkv[k]
		if !ok {
			return "kv-missing", fmt.Sprintf("key %q missing after decode", k)
		}
		rv := reflect.ValueOf(want)
		if rv.Kind() == reflect.Slice {
			a, ok := got.(*array)
			if !ok {
				return "kv-type", fmt.Sprintf("key %q: wrote %T, decoded %T", k, want, got)
			}
			if a.size != rv.Len() {
				return "kv-array-size", fmt.Sprintf("key %q: wrote %d elements, decoded size %d", k, rv.Len(), a.size)
			}
			if limit >= 0 && rv.Len() > limit {
				if a.values != nil {
					return "kv-array-collect", fmt.Sprintf("key %q: %d elements collected beyond maxArraySize %d", k, rv.Len(), limit)
				}
				continue
			}
			if len(a.values) != rv.Len() {
				return "kv-array-values", fmt.Sprintf("key %q: wrote %d elements, decoded %d values", k, rv.Len(), len(a.values))
			}
			for i := 0; i < rv.Len(); i++ {
				w := rv.Index(i).Interface()
				if !c05Equal(w, a.values[i]) {
					return "kv-array-elem", fmt.Sprintf("key %q[%d]: wrote %#v decoded %#v", k, i, w, a.values[i])
				}
			}
			continue
		}
		if !c05Equal(want, got) {
			return "kv-value", fmt.Sprintf("key %q: wrote %#v (%T) decoded %#v (%T)", k, want, want, got, got)
		}
	}
	extra := 0
	for k := range dkv {
		if _, ok := c.KV[k]; !ok {
			extra++
			if k != "general.parameter_count" {
				return "kv-extra", fmt.Sprintf("decoded key %q was never written", k)
			}
		}
	}
	// ---- tensors
	items := g.Tensors().Items()
	if len(items) != len(c.Tensors) {
		return "tensor-count", fmt.Sprintf("wrote %d tensors, decoded %d", len(c.Tensors), len(items))
	}
	base := g.Tensors().Offset
	if base%align != 0 {
		return "data-start-unaligned", fmt.Sprintf("data section start %d not a multiple of alignment %d", base, align)
	}
	seen := map[string]bool{}
	var params uint64
	for _, it := range items {
		w, ok := byName[it.Name]
		if !ok || seen[it.Name] {
			return "tensor-name", fmt.Sprintf("decoded tensor %q not written (or twice)", it.Name)
		}
		seen[it.Name] = true
		if it.Kind != w.Kind {
			return "tensor-kind", fmt.Sprintf("tensor %q kind %d != %d", it.Name, it.Kind, w.Kind)
		}
		if !reflect.DeepEqual(it.Shape, c05Reverse(w.Shape)) {
			return "tensor-shape", fmt.Sprintf("tensor %q shape %v, want reverse of %v", it.Name, it.Shape, w.Shape)
		}
		if it.Size() != w.Size {
			return "tensor-size", fmt.Sprintf("tensor %q size %d != %d", it.Name, it.Size(), w.Size)
		}
		if it.Offset%align != 0 {
			return "tensor-offset-unaligned", fmt.Sprintf("tensor %q offset %d not aligned to %d", it.Name, it.Offset, align)
		}
		lo := base + it.Offset
		hi := lo + w.Size
		if hi > uint64(len(b)) {
			return "tensor-out-of-file", fmt.Sprintf("tensor %q [%d,%d) beyond file length %d", it.Name, lo, hi, len(b))
		}
		if !bytes.Equal(b[lo:hi], w.data) {
			return "tensor-bytes", fmt.Sprintf("tensor %q: bytes at decoded location [%d,%d) differ from the bytes written (alignment %d, %d tensors)", it.Name, lo, hi, align, len(items))
		}
		p := uint64(1)
		for _, n := range w.Shape {
			p *= n
		}
		params += p
	}
	if pc, ok := dkv["general.parameter_count"].(uint64); !ok || pc != params {
		return "parameter-count", fmt.Sprintf("general.parameter_count %v != %d", dkv["general.parameter_count"], params)
	}
	// ---- independent reader must agree on where things are
	p, err := kit.ParseGGUF(b)
	if err != nil {
		return "independent-parse", "independent reader rejects the file: " + err.Error()
	}
	if len(p.Tensors) != len(items) || len(p.KVs) != len(c.KV) {
		return "independent-counts", fmt.Sprintf("independent reader sees %d kvs/%d tensors, wrote %d/%d", len(p.KVs), len(p.Tensors), len(c.KV), len(c.Tensors))
	}
	if len(items) > 0 && uint64(p.DataStart) != base {
		return "independent-datastart", fmt.Sprintf("independent data start %d != decoder's %d", p.DataStart, base)
	}
	ends := make([][2]uint64, 0, len(p.Tensors))
	for i, pt := range p.Tensors {
		if pt.Name != items[i].Name || pt.Offset != items[i].Offset || pt.Kind != items[i].Kind {
			return "independent-info", fmt.Sprintf("tensor info %d differs between readers: %+v vs %+v", i, pt, *items[i])
		}
		ends = append(ends, [2]uint64{pt.Offset, pt.Offset + byName[pt.Name].Size})
	}
	sort.Slice(ends, func(i, j int) bool { return ends[i][0] < ends[j][0] || (ends[i][0] == ends[j][0] && ends[i][1] < ends[j][1]) })
	for i := 1; i < len(ends); i++ {
		if ends[i][0] < ends[i-1][1] {
			return "tensor-overlap", fmt.Sprintf("tensor data ranges overlap: %v then %v", ends[i-1], ends[i])
		}
	}
	return "", ""
}

func c05Equal(w, g any) bool {
	if wf, ok := w.(float32); ok {
		gf, ok := g.(float32)
		return ok && math.Float32bits(wf) == math.Float32bits(gf)
	}
	return reflect.DeepEqual(w, g)
}

func TestVerifC05(t *testing.T) {
	slog.SetDefault(slog.New(slog.NewTextHandler(io.Discard, nil)))
	rep := kit.NewReport("C05")
	cfg := rep.Cfg()
	defer rep.Flush()
	rep.Set("rule", "case i = PRNG(seed,'C05',i): KV map over all writable value types (+alignment in {absent,1,8,16,32,64,128,4096} or not a power of two: {24,40,48,56,96,104,1000,3,7,33}), 0-40 tensors over every kind of typeSize's table with byte sizes mostly not multiples of the alignment, unique PRNG bytes per tensor; written by the real WriteGGUF, decoded by the real Decode and by an independent header reader. Non-trivial & distinct = distinct (alignment, tensor-count bucket, pattern of which of the first 8 tensors (in written order) have unaligned size, set of KV value types, maxArraySize) among cases with >=3 tensors of which at least one non-last is unaligned")
	rep.Set("assumptions", []string{"tensor data supplied through WriterTo has exactly Tensor.Size() bytes", "tensor names unique within a file", "block-quantised kinds get a row length that is a multiple of their block size (Size() is exact)"})
	dir := t.TempDir()
	n := cfg.N(4000, 3000000)
	replayIdx := -1
	if cfg.Replay != "" {
		var rc struct {
			Index int `json:"index"`
		}
		if err := kit.LoadReplay(cfg.Replay, &rc); err != nil {
			t.Fatal(err)
		}
		replayIdx = rc.Index
	}
	for i := 0; i < n; i++ {
		if replayIdx >= 0 && i != replayIdx {
			continue
		}
		if replayIdx < 0 && !cfg.Mine(i) {
			continue
		}
		if replayIdx < 0 && i%256 == 0 && (rep.Enough() || rep.OverBudget()) {
			break
		}
		r := kit.NewRand(cfg.Seed, "C05", i)
		c := c05Gen(r, i)
		rep.Eval(1)
		sig, what := c05Check(c, dir)
		if sig != "" {
			rep.Violate("c05:"+sig, what, c, nil)
			if replayIdx >= 0 {
				t.Logf("replay: %s: %s", sig, what)
			}
		}
		align := 32
		if c.Alignment != 0 {
			align = c.Alignment
		}
		if len(c.Tensors) >= 3 {
			mask := 0
			un := false
			// written order is the writer's sorted order; approximate the pattern on the generated order
			for j, tt := range c.Tensors {
				if j < 8 && tt.Size%uint64(align) != 0 {
					mask |= 1 << j
					if j < len(c.Tensors)-1 {
						un = true
					}
				}
			}
			if un {
				types := map[string]bool{}
				for _, v := range c.KV {
					types[fmt.Sprintf("%T", v)] = true
				}
				tl := make([]string, 0, len(types))
				for k := range types {
					tl = append(tl, k)
				}
				sort.Strings(tl)
				bucket := len(c.Tensors)
				if bucket > 12 {
					bucket = 13
				}
				rep.Distinct(fmt.Sprint(align, bucket, mask, tl, c.MaxArray))
			}
		}
		if rep.NeedSample() && len(c.Tensors) >= 3 && len(c.Tensors) <= 5 {
			rep.Sample(c)
		}
	}
	if replayIdx >= 0 && rep.Violations() == 0 {
		t.Logf("replay: case %d holds", replayIdx)
	}
}
