//go:build verif

package ggml

// C10 (decoder layer): decoding any byte string ends with a model or an error: no panic, no runaway
// allocation, termination. Structure-aware mutations of valid files built by the kit's independent
// writer (every length/count/type/dims/alignment field set to hostile values, well-known keys re-typed,
// every truncation, random flips). The process runs under ulimit -v; a fatal error is attributed
// through the journal written before each call.

import (
	"bytes"
	"encoding/binary"
	"encoding/hex"
	"errors"
	"fmt"
	"io"
	"log/slog"
	"math"
	"regexp"
	"runtime/debug"
	"runtime/metrics"
	"strings"
	"testing"

	kit "verifkit"
)

type c10Case struct {
	Index    int    `json:"index"`
	Base     string `json:"base"`
	Mutation string `json:"mutation"`
	Len      int    `json:"len"`
	Hex      string `json:"hex,omitempty"` // only for small inputs
	data     []byte
	mk       func() []byte // enumerated cases are materialised when they run (tens of thousands of copies of a 15 KB file do not fit the address-space limit the harness runs under)
}

var c10Hostile = []uint64{0, 1, 2, 31, 32, 33, 255, 256, 65535, 65536, 1<<31 - 1, 1 << 31, 1<<32 - 1, 1 << 32, 1<<63 - 1, 1 << 63, 1<<63 + 1, 1<<64 - 1, 1<<64 - 2}

var c10WellKnown = []string{"general.architecture", "general.alignment", "general.file_type", "general.type", "general.parameter_count",
	"tokenizer.chat_template", "tokenizer.ggml.tokens", "llama.block_count", "llama.context_length", "llama.embedding_length",
	"llama.attention.head_count", "llama.attention.head_count_kv", "llama.vision.block_count", "llama.pooling_type", "general.name"}

func c10Value(r *kit.Rand, t uint32) any {
	switch t {
	case kit.GU8:
		return uint8(r.Uint64())
	case kit.GI8:
		return int8(r.Uint64())
	case kit.GU16:
		return uint16(r.Uint64())
	case kit.GI16:
		return int16(r.Uint64())
	case kit.GU32:
		return uint32(r.Intn(64))
	case kit.GI32:
		return int32(r.Intn(64))
	case kit.GF32:
		return float32(r.Intn(64))
	case kit.GBool:
		return r.Bool()
	case kit.GStr:
		return kit.Pick(r, []string{"", "llama", "adapter", "projector", "x", "{{ .Prompt }}"})
	case kit.GU64:
		return r.Uint64() >> uint(r.Intn(64))
	case kit.GI64:
		return int64(r.Uint64())
	case kit.GF64:
		return float64(r.Intn(64))
	case kit.GArr:
		et := uint32(r.Intn(13))
		if et == kit.GArr {
			et = kit.GI32
		}
		n := r.Intn(5)
		a := kit.GArray{Elem: et}
		for i := 0; i < n; i++ {
			a.Vals = append(a.Vals, c10Value(r, et))
		}
		return a
	}
	return uint32(0)
}

// c10Base builds a valid file. variant selects version / byte order / richness.
func c10Base(r *kit.Rand, version uint32, be bool, rich bool) *kit.GFile {
	f := &kit.GFile{Version: version, BigEndian: be}
	f.KVs = []kit.GKV{
		kit.StrKV("general.architecture", "llama"),
		kit.U32KV("general.file_type", 1),
		kit.U32KV("llama.block_count", 1),
		kit.U32KV("llama.context_length", 32),
		kit.U32KV("llama.embedding_length", 64),
		kit.U32KV("llama.attention.head_count", 4),
		kit.U32KV("llama.attention.head_count_kv", 4),
		kit.StrKV("tokenizer.chat_template", "{{ .Prompt }}"),
		kit.StrArrKV("tokenizer.ggml.tokens", "a", "b", "c"),
		kit.ArrKV("tokenizer.ggml.scores", kit.GF32, float32(0), float32(1), float32(2)),
		kit.ArrKV("tokenizer.ggml.token_type", kit.GI32, int32(1), int32(1), int32(1)),
	}
	if rich {
		f.KVs = append(f.KVs, kit.U32KV("general.alignment", kit.Pick(r, []uint32{8, 16, 32, 64})), kit.StrKV("general.type", "model"), kit.StrKV("general.name", "n"))
		for t := uint32(0); t < 13; t++ {
			f.KVs = append(f.KVs, kit.GKV{Key: fmt.Sprintf("x.k%d", t), Type: t, Val: c10Value(r, t)})
		}
		big := kit.GArray{Elem: kit.GU8}
		for i := 0; i < 1030; i++ { // straddles the default collection limit of 1024
			big.Vals = append(big.Vals, uint8(i))
		}
		f.KVs = append(f.KVs, kit.GKV{Key: "x.big", Type: kit.GArr, Val: big})
		bigs := kit.GArray{Elem: kit.GStr}
		for i := 0; i < 1030; i++ { // a vocabulary-like string list that is too long to be collected by default
			bigs.Vals = append(bigs.Vals, fmt.Sprintf("s%d", i))
		}
		f.KVs = append(f.KVs, kit.GKV{Key: "x.bigs", Type: kit.GArr, Val: bigs})
		for _, kv := range f.KVs {
			if kv.Key == "general.alignment" {
				f.Alignment = uint64(kv.Val.(uint32))
			}
		}
	}
	f.Tensors = []kit.GTensor{
		{Name: "token_embd.weight", Dims: []uint64{4, 2}, Kind: 0, Data: make([]byte, 32)},
		{Name: "blk.0.attn_q.weight", Dims: []uint64{32}, Kind: 2, Data: make([]byte, 18)},
		{Name: "output.weight", Dims: []uint64{3}, Kind: 1, Data: make([]byte, 6)},
	}
	return f
}

func c10Put(b []byte, pos, size int, be bool, v uint64) {
	var bo binary.ByteOrder = binary.LittleEndian
	if be {
		bo = binary.BigEndian
	}
	switch size {
	case 4:
		bo.PutUint32(b[pos:], uint32(v))
	case 8:
		bo.PutUint64(b[pos:], v)
	}
}

// c10Enumerated lists the systematic part of the case space for one base file.
func c10Enumerated(name string, f *kit.GFile) []c10Case {
	var out []c10Case
	b, fields, _, err := f.Build()
	if err != nil {
		panic(err)
	}
	out = append(out, c10Case{Base: name, Mutation: "none", data: b})
	deepTotal, deepSeen := map[string]int{}, map[string]int{}
	for _, fl := range fields {
		if fl.What == "strlen-deep" {
			deepTotal[fl.Key]++
		}
	}
	for _, fl := range fields {
		if fl.Size != 4 && fl.Size != 8 {
			continue
		}
		if fl.What == "strlen-deep" && deepTotal[fl.Key] > 64 {
			// the length fields of a long string list: every 97th element and the last two
			n := deepSeen[fl.Key]
			deepSeen[fl.Key]++
			if n%97 != 0 && n < deepTotal[fl.Key]-2 {
				continue
			}
		}
		vals := append([]uint64{}, c10Hostile...)
		vals = append(vals, uint64(len(b)), uint64(len(b))+1, uint64(len(b)-fl.Pos), uint64(len(b)-fl.Pos)+1)
		if fl.What == "kvtype" || fl.What == "arrtype" || fl.What == "tkind" {
			for t := uint64(0); t < 16; t++ {
				vals = append(vals, t)
			}
			vals = append(vals, 29, 30, 31, 39, 40)
		}
		for _, v := range vals {
			out = append(out, c10Case{Base: name, Mutation: fmt.Sprintf("%s[%s]@%d=%d", fl.What, fl.Key, fl.Pos, v), mk: func() []byte {
				m := append([]byte(nil), b...)
				c10Put(m, fl.Pos, fl.Size, f.BigEndian, v)
				return m
			}})
		}
	}
	// lengths that point BACKWARDS (two's complement of a distance, i.e. >= 2^63) to a place where parsing can start
	// again - the field itself, the key-value entry it belongs to, the first entry - combined with a count of
	// entries / elements that never runs out: a decoder that turns such a length into a relative seek parses the
	// same bytes for ever. Pairs of fields, which the single-field sweep above cannot produce.
	if f.Version >= 2 {
		var nkv, firstKey *kit.Field
		for i := range fields {
			switch {
			case fields[i].What == "nkv":
				nkv = &fields[i]
			case fields[i].What == "keylen" && firstKey == nil:
				firstKey = &fields[i]
			}
		}
		ownKey, ownCount := map[int]int{}, map[int]int{} // field index -> position of its entry's key length / array count
		lastKey, lastCount := -1, -1
		for i, fl := range fields {
			switch fl.What {
			case "keylen":
				lastKey, lastCount = fl.Pos, -1
			case "arrcount":
				lastCount = fl.Pos
			}
			ownKey[i], ownCount[i] = lastKey, lastCount
		}
		deepSeen = map[string]int{}
		for i, fl := range fields {
			if fl.Size != 8 || (fl.What != "strlen" && fl.What != "strlen-deep" && fl.What != "keylen") || nkv == nil || firstKey == nil {
				continue
			}
			if fl.What == "strlen-deep" && deepTotal[fl.Key] > 64 {
				n := deepSeen[fl.Key]
				deepSeen[fl.Key]++
				if n%211 != 0 && n < deepTotal[fl.Key]-2 {
					continue
				}
			}
			after := fl.Pos + 8 // where the reader stands when it has read the length
			for _, target := range []int{fl.Pos, ownKey[i], firstKey.Pos, nkv.Pos, 0} {
				if target < 0 || target > fl.Pos {
					continue
				}
				// which counts are made endless: the entries of the file, the elements of the array the string is in, both
				for variant := 0; variant < 3; variant++ {
					if variant > 0 && ownCount[i] < 0 {
						continue
					}
					cnt := ownCount[i]
					out = append(out, c10Case{Base: name, Mutation: fmt.Sprintf("%s[%s]@%d=back-to-%d,endless-counts-variant-%d", fl.What, fl.Key, fl.Pos, target, variant), mk: func() []byte {
						m := append([]byte(nil), b...)
						c10Put(m, fl.Pos, 8, f.BigEndian, -uint64(after-target))
						if variant != 1 {
							c10Put(m, nkv.Pos, nkv.Size, f.BigEndian, 1<<40)
						}
						if variant != 0 {
							c10Put(m, cnt, 8, f.BigEndian, 1<<31-1)
						}
						return m
					}})
				}
			}
		}
	}
	for n := 0; n < len(b); n++ {
		out = append(out, c10Case{Base: name, Mutation: fmt.Sprintf("truncate@%d", n), data: b[:n]})
	}
	// well-known keys re-typed to every value type (the key is added or replaced)
	r := kit.NewRand(7, "c10-retype", name)
	for _, k := range c10WellKnown {
		for t := uint32(0); t < 13; t++ {
			g := *f
			g.KVs = nil
			for _, kv := range f.KVs {
				if kv.Key != k {
					g.KVs = append(g.KVs, kv)
				}
			}
			g.KVs = append([]kit.GKV{{Key: k, Type: t, Val: c10Value(r, t)}}, g.KVs...)
			g.Tensors = append([]kit.GTensor(nil), f.Tensors...)
			out = append(out, c10Case{Base: name, Mutation: fmt.Sprintf("retype[%s]=%d", k, t), mk: g.Bytes})
		}
	}
	return out
}

func c10Random(r *kit.Rand, idx int) c10Case {
	version := kit.Pick(r, []uint32{1, 2, 3, 3, 3})
	be := r.Chance(1, 6)
	f := c10Base(r, version, be, r.Chance(2, 3))
	// random extra kvs / tensors
	for i := r.Intn(4); i > 0; i-- {
		t := uint32(r.Intn(13))
		f.KVs = append(f.KVs, kit.GKV{Key: kit.Pick(r, c10WellKnown), Type: t, Val: c10Value(r, t)})
	}
	for i := r.Intn(3); i > 0; i-- {
		nd := r.Intn(5)
		tt := kit.GTensor{Name: fmt.Sprintf("blk.%d.t%d", r.Intn(3), i), Kind: uint32(r.Intn(34)), Data: make([]byte, r.Intn(40))}
		for d := 0; d < nd; d++ {
			tt.Dims = append(tt.Dims, kit.Pick(r, []uint64{0, 1, 2, 32, 256, 1 << 20, 1 << 32, 1<<63 + 5}))
		}
		f.Tensors = append(f.Tensors, tt)
	}
	b, fields, _, err := f.Build()
	if err != nil {
		panic(err)
	}
	c := c10Case{Index: idx, Base: fmt.Sprintf("random v%d be=%v", version, be)}
	var muts []string
	for k := r.Range(1, 3); k > 0; k-- {
		switch r.Intn(5) {
		case 0, 1, 2:
			var cand []kit.Field
			for _, fl := range fields {
				if (fl.Size == 4 || fl.Size == 8) && fl.Pos+fl.Size <= len(b) {
					cand = append(cand, fl)
				}
			}
			if len(cand) == 0 {
				continue
			}
			fl := kit.Pick(r, cand)
			v := kit.Pick(r, c10Hostile)
			if r.Chance(1, 3) {
				v = uint64(len(b)) + uint64(r.Intn(9)) - 4
			}
			if r.Chance(1, 6) {
				v = r.Uint64() >> uint(r.Intn(64))
			}
			c10Put(b, fl.Pos, fl.Size, be, v)
			muts = append(muts, fmt.Sprintf("%s[%s]@%d=%d", fl.What, fl.Key, fl.Pos, v))
		case 3:
			if len(b) > 8 {
				p := r.Intn(len(b))
				b[p] ^= byte(1 << uint(r.Intn(8)))
				muts = append(muts, fmt.Sprintf("flip@%d", p))
			}
		case 4:
			n := r.Intn(len(b) + 1)
			b = b[:n]
			muts = append(muts, fmt.Sprintf("truncate@%d", n))
		}
	}
	c.Mutation = strings.Join(muts, ";")
	c.data = b
	return c
}

var c10FrameRE = regexp.MustCompile(`(?m)^(github\.com/ollama/ollama/[^\s(]+)`)

// c10PanicSite extracts (innermost ollama frame, panic kind) from inside a deferred function.
func c10PanicSite(p any) string {
	st := string(debug.Stack())
	if i := strings.Index(st, "panic("); i >= 0 {
		st = st[i:]
	}
	site := "?"
	for _, m := range c10FrameRE.FindAllStringSubmatch(st, -1) {
		fn := strings.TrimPrefix(m[1], "github.com/ollama/ollama/")
		if strings.Contains(fn, "c10") {
			continue
		}
		site = regexp.MustCompile(`\[[^\]]*\]`).ReplaceAllString(fn, "")
		break
	}
	msg := fmt.Sprint(p)
	kind := msg
	for _, k := range []string{"index out of range", "slice bounds out of range", "interface conversion", "integer divide by zero", "makeslice", "nil pointer dereference", "nil map", "negative", "out of range"} {
		if strings.Contains(msg, k) {
			kind = k
			break
		}
	}
	return site + ":" + strings.ReplaceAll(kind, " ", "-")
}

var c10AllocSample = []metrics.Sample{{Name: "/gc/heap/allocs:bytes"}}

func c10Allocs() uint64 {
	metrics.Read(c10AllocSample)
	return c10AllocSample[0].Value.Uint64()
}

// c10Walk walks the input the way the server's create path does (server/create.go ggufLayers: decode at the
// current position, continue at the returned end offset until it reaches the end of the file or an error). The
// walker's whole state is the reader position, so a position seen twice means it never terminates; no clock is
// involved. Returns "" or the description of the cycle.
// c10Reader counts what the decoder asks of its input. A decoder that terminates does an amount of work in
// proportion to the input; one that is sent backwards by a hostile length and parses the same bytes again and again
// does not. The budget is logical (reader calls), not wall-clock: 64 calls per input byte + 100000, far beyond what
// any linear pass needs (the decoder reads through a 32 KiB buffer). When it is used up the reader fails, which
// ends the decode, and the case is reported.
type c10Reader struct {
	r        *bytes.Reader
	calls    int
	budget   int
	exceeded bool
	backward int // seeks that ended before the position they started from
}

func newC10Reader(data []byte) *c10Reader {
	return &c10Reader{r: bytes.NewReader(data), budget: 64*len(data) + 100000}
}

var errC10Budget = errors.New("verif: reader call budget used up")

func (c *c10Reader) spend() error {
	c.calls++
	if c.calls > c.budget {
		c.exceeded = true
		return errC10Budget
	}
	return nil
}

func (c *c10Reader) Read(p []byte) (int, error) {
	if err := c.spend(); err != nil {
		return 0, err
	}
	return c.r.Read(p)
}

func (c *c10Reader) Seek(off int64, whence int) (int64, error) {
	if err := c.spend(); err != nil {
		return 0, err
	}
	before, _ := c.r.Seek(0, io.SeekCurrent)
	n, err := c.r.Seek(off, whence)
	if err == nil && n < before {
		c.backward++
	}
	return n, err
}

func c10Walk(data []byte, rep *kit.Report) string {
	rs := bytes.NewReader(data)
	seen := map[int64]bool{0: true}
	var offset int64
	for steps := 1; offset < int64(len(data)); steps++ {
		_, n, err := Decode(rs, 0)
		if err != nil {
			break
		}
		pos, _ := rs.Seek(0, io.SeekCurrent)
		if seen[pos] {
			return fmt.Sprintf("walking the file by the decoder's end offset (as create does): step %d decoded successfully, reported end offset %d and left the reader at position %d, where an earlier step started: the walk repeats for ever", steps, n, pos)
		}
		seen[pos] = true
		offset = n
		rep.Count("walk_steps", 1)
		if steps > 1 {
			rep.Count("walk_second_model_decoded", 1)
		}
	}
	return ""
}

// c10Run decodes one input (both collection modes) and runs the accessor battery the server uses on
// untrusted files at create/show time. It returns violation signatures.
func c10Run(c *c10Case, rep *kit.Report) (sigs [][2]string) {
	for _, maxArr := range []int{0, -1} {
		func() {
			stage := "Decode"
			defer func() {
				if p := recover(); p != nil {
					site := c10PanicSite(p)
					sigs = append(sigs, [2]string{"c10:panic:" + stage + ":" + site, fmt.Sprintf("%s(maxArraySize=%d) panicked: %v", stage, maxArr, p)})
				}
			}()
			before := c10Allocs()
			rd := newC10Reader(c.data)
			g, end, err := Decode(rd, maxArr)
			alloc := c10Allocs() - before
			if rd.exceeded {
				sigs = append(sigs, [2]string{"c10:decode-does-not-terminate", fmt.Sprintf("Decode(maxArraySize=%d) made more than %d read/seek calls (%d of them seeks that went backwards) on a %d-byte input and was still going: the work is out of all proportion to the input", maxArr, rd.budget, rd.backward, len(c.data))})
				return
			}
			rep.Count("decode_reader_calls", rd.calls)
			limit := uint64(64*len(c.data) + 8<<20)
			if alloc > limit {
				sigs = append(sigs, [2]string{"c10:disproportionate-allocation", fmt.Sprintf("Decode(maxArraySize=%d) allocated %d bytes for a %d-byte input (bound %d)", maxArr, alloc, len(c.data), limit)})
			}
			if err != nil {
				rep.Count("decode_error", 1)
				return
			}
			rep.Count("decode_ok", 1)
			_ = end
			if maxArr == 0 {
				stage = "walk"
				if sig := c10Walk(c.data, rep); sig != "" {
					sigs = append(sigs, [2]string{"c10:walk-never-terminates", sig})
				}
			}
			stage = "accessors"
			before = c10Allocs()
			kv := g.KV()
			_ = kv.Architecture()
			_ = kv.Kind()
			_ = kv.FileType().String()
			_ = kv.ChatTemplate()
			_ = kv.ParameterCount()
			_ = kv.BlockCount()
			_ = kv.EmbeddingLength()
			_ = kv.HeadCount()
			_ = kv.HeadCountKV()
			_ = kv.ContextLength()
			_ = kv.OllamaEngineRequired()
			_, _ = kv[fmt.Sprintf("%s.pooling_type", kv.Architecture())]
			_, _ = kv[fmt.Sprintf("%s.vision.block_count", kv.Architecture())]
			ts := g.Tensors()
			for _, t := range ts.Items() {
				_ = t.Size()
				_ = t.Type()
				_ = t.Name
			}
			for _, l := range ts.GroupLayers() {
				_ = l.Size()
			}
			alloc = c10Allocs() - before
			if alloc > limit {
				sigs = append(sigs, [2]string{"c10:disproportionate-allocation:accessors", fmt.Sprintf("accessors allocated %d bytes for a %d-byte input", alloc, len(c.data))})
			}
		}()
	}
	return sigs
}

func TestVerifC10(t *testing.T) {
	slog.SetDefault(slog.New(slog.NewTextHandler(io.Discard, nil)))
	debug.SetGCPercent(200)
	// the process runs under an address-space limit of 2 GiB (a decoder that allocates by a count from the file dies
	// there). The harness's own garbage must never get near it, whatever the machine load does to GC pacing (seen
	// once on a heavily loaded machine: 870 MB of garbage, "out of memory" in innocent code): a soft limit far below.
	debug.SetMemoryLimit(512 << 20)
	rep := kit.NewReport("C10")
	cfg := rep.Cfg()
	defer rep.Flush()
	rep.Set("rule", "two case lists. Enumerated: for 6 base files (GGUF v1/v2/v3, little/big endian, plain and rich metadata) every 4/8-byte length/count/type/dims/kind/offset field set to each of 19 boundary values (0,1,2^31+-1,2^32+-1,2^63+-1,2^64-1,...) and to file-size-relative values, every value-type/array-type/tensor-kind code, every truncation of the file, each of 15 well-known keys re-typed to each of the 13 value types, and pairs: every string/key length set to the two's complement of the distance back to itself / its entry / the first entry / the counts together with an entry count and/or array count that never runs out (the rich files hold a 1030-element byte list and a 1030-element string list; of their element lengths every 97th resp. 211th is swept). Random: PRNG(seed,'C10',i) valid file (random version/endianness/extra KVs/tensors with hostile dims and kinds) with 1-3 mutations (hostile field value, bit flip, truncation). Each input is decoded with maxArraySize 0 and -1 and, if decoding succeeds, the accessors the server calls on untrusted files at create/show time are invoked. Oracle: no panic (recovered, site recorded), termination on logical steps (the decoder reads through a counting reader: more than 64 read/seek calls per input byte + 100000 = does not terminate; walking a decoded file by the reported end offset must not revisit a position), allocation per call <= 64 x len(input) + 8 MiB (runtime/metrics heap allocs), the process (ulimit -v 2 GiB) survives; each input is journalled before the call. Non-trivial & distinct = distinct (mutation kind, field kind, outcome in {decoded, error}) classes plus distinct error texts")
	rep.Set("assumptions", []string{"the accessor battery is the set the server calls on untrusted files during create/show (Architecture, Kind, FileType, ChatTemplate, ParameterCount, BlockCount, ..., Tensors().Items() Size/Type, GroupLayers)", "load-time paths (GraphSize, tokenizer arrays) are not part of create/show and are not driven"})
	var cases []c10Case
	r0 := kit.NewRand(3, "c10-bases")
	for _, v := range []struct {
		name string
		ver  uint32
		be   bool
		rich bool
	}{{"v3-le", 3, false, false}, {"v3-le-rich", 3, false, true}, {"v2-le", 2, false, false}, {"v1-le", 1, false, false}, {"v3-be", 3, true, false}, {"v1-le-rich", 1, false, true}} {
		cases = append(cases, c10Enumerated(v.name, c10Base(r0, v.ver, v.be, v.rich))...)
	}
	// pairs of tensors whose sizes each fit an int64 and together wrap the end of the tensor data around 2^64
	for _, v := range []struct {
		ver uint32
		be  bool
	}{{3, false}, {2, false}, {3, true}} {
		f := c10Base(r0, v.ver, v.be, false)
		f.Tensors = []kit.GTensor{
			{Name: "token_embd.weight", Dims: []uint64{8}, Kind: 0, Data: make([]byte, 32)},
			{Name: "blk.0.attn_q.weight", Dims: []uint64{32}, Kind: 2, Data: make([]byte, 18)},
			{Name: "blk.0.attn_k.weight", Dims: []uint64{8}, Kind: 0, Data: make([]byte, 32)},
			{Name: "output.weight", Dims: []uint64{8}, Kind: 0, Data: make([]byte, 32)},
		}
		_, _, ds, _ := f.Build()
		for _, i := range []int{0, 2} {
			for _, target := range []uint64{0, 4, 32, 64, uint64(ds) - 32, uint64(ds) - 4, uint64(ds), uint64(ds) + 32, uint64(ds) + 64, uint64(ds) + 128} {
				b, fields, ds2, _ := f.Build()
				if d := f.WrapPair(b, fields, ds2, i, target); d != "" {
					cases = append(cases, c10Case{Base: fmt.Sprintf("wrap-pair v%d be=%v", v.ver, v.be), Mutation: "wrappair[" + f.Tensors[i].Name + "]=" + fmt.Sprint(target) + " " + d, data: b})
				}
			}
		}
	}
	nEnum := len(cases)
	if cfg.Tier == "quick" {
		// quick: every 3rd enumerated case of the big rich bases is enough per run; the selection rotates with the seed
		sel := cases[:0]
		for i, c := range cases {
			if !strings.Contains(c.Base, "rich") || (i+int(cfg.Seed))%3 == 0 {
				sel = append(sel, c)
			}
		}
		cases = sel
	}
	nRandom := cfg.N(6000, 4000000)
	rep.Set("enumerated_cases_total", nEnum)
	rep.Set("enumerated_cases_run", len(cases))
	replayIdx := -1
	var replayHex string
	if cfg.Replay != "" {
		var rc struct {
			Index int    `json:"index"`
			Hex   string `json:"hex"`
		}
		if err := kit.LoadReplay(cfg.Replay, &rc); err != nil {
			t.Fatal(err)
		}
		replayIdx, replayHex = rc.Index, rc.Hex
	}
	total := len(cases) + nRandom
	for i := 0; i < total; i++ {
		if replayIdx >= 0 && i != replayIdx {
			continue
		}
		if replayIdx < 0 && !cfg.Mine(i) {
			continue
		}
		if replayIdx < 0 && i%512 == 0 && (rep.Enough() || rep.OverBudget()) {
			break
		}
		var c c10Case
		if i < len(cases) {
			c = cases[i]
			c.Index = i
		} else {
			c = c10Random(kit.NewRand(cfg.Seed, "C10", i), i)
		}
		if c.mk != nil {
			c.data = c.mk()
		}
		if replayHex != "" {
			c.data, _ = hex.DecodeString(replayHex)
		}
		c.Len = len(c.data)
		if len(c.data) <= 4096 {
			c.Hex = hex.EncodeToString(c.data)
		}
		rep.Journal([]byte(fmt.Sprintf("{\"index\":%d,\"base\":%q,\"mutation\":%q,\"hex\":%q}", c.Index, c.Base, c.Mutation, c.Hex)))
		rep.Eval(1)
		sigs := c10Run(&c, rep)
		for _, s := range sigs {
			rep.Violate(s[0], s[1], c, nil)
			if replayIdx >= 0 {
				t.Logf("replay: %s: %s", s[0], s[1])
			}
		}
		mk := c.Mutation
		if j := strings.IndexAny(mk, "[@"); j > 0 {
			mk = mk[:j]
		}
		outcome := "ok"
		if len(sigs) > 0 {
			outcome = "violation"
		}
		fk := ""
		if a := strings.Index(c.Mutation, "["); a >= 0 {
			if b := strings.Index(c.Mutation, "]"); b > a {
				fk = c.Mutation[a:b]
			}
		}
		v := ""
		if k := strings.LastIndex(c.Mutation, "="); k >= 0 && !strings.Contains(c.Mutation, ";") {
			v = c.Mutation[k:]
		}
		if c.Mutation != "none" {
			rep.Distinct(fmt.Sprint(c.Base, mk, fk, v, outcome))
		}
		if rep.NeedSample() && i%977 == 5 {
			rep.Sample(c)
		}
	}
	_ = math.MaxInt32
}
