//go:build verif

package server

// C02: every uncancelled request gets exactly one reply (cancelled: at most one); a full queue
// answers "busy" instead of blocking; after all requests finished and keep-alives elapsed every
// started runner has been closed and nothing is loaded. "Never" is decided at runtime quiescence.

import (
	"fmt"
	"sort"
	"strings"
	"testing"
)

func vCheckC02(h *vHistory, out *vOutcome) []vViol {
	var vs []vViol
	evs := out.Events
	replies := map[int][]vEvent{}
	for _, e := range evs {
		if e.Kind == "grant" || e.Kind == "error" {
			replies[e.Req] = append(replies[e.Req], e)
		}
	}
	ids := make([]int, 0, len(replies))
	for id := range replies {
		ids = append(ids, id)
	}
	sort.Ints(ids)
	for _, id := range ids {
		rs := replies[id]
		if len(rs) > 1 {
			kinds := []string{}
			seqs := []int64{}
			for _, e := range rs {
				kinds = append(kinds, e.Kind)
				seqs = append(seqs, e.Seq)
			}
			sort.Strings(kinds)
			vs = append(vs, vViol{"c02:second-reply:" + strings.Join(kinds, "+"), fmt.Sprintf("request %d received %d replies (%v at seq %v)", id, len(rs), kinds, seqs), vSlice(evs, seqs...)})
		}
	}
	if out.Stuck {
		var locks []string
		for _, wln := range out.Witness {
			if strings.HasPrefix(wln, "[sync.Mutex.Lock]") || strings.HasPrefix(wln, "[sync.RWMutex") {
				for _, f := range strings.Split(wln, " < ") {
					if strings.Contains(f, vPkg) && !strings.Contains(f, "created-by") {
						locks = append(locks, strings.TrimPrefix(f[strings.Index(f, vPkg):], vPkg))
						break
					}
				}
			}
		}
		sort.Strings(locks)
		locks = uniqStrings(locks)
		// scheduler goroutines parked in a channel SEND: one of the internal event queues (expiredCh,
		// finishedReqCh, unloadedCh; all of capacity OLLAMA_MAX_QUEUE) is full
		var sends []string
		for _, wln := range out.Witness {
			if strings.HasPrefix(wln, "[chan send]") {
				for _, f := range strings.Split(wln, " < ") {
					if strings.Contains(f, vPkg) && !strings.Contains(f, "created-by") && !strings.Contains(f, "vWorld") && !strings.Contains(f, "vRunHistory") && !strings.Contains(f, "waitForVRAMRecovery") {
						sends = append(sends, strings.TrimPrefix(f[strings.Index(f, vPkg):], vPkg))
						break
					}
				}
			}
		}
		sort.Strings(sends)
		sends = uniqStrings(sends)
		var sig, what string
		switch {
		case len(locks) > 0 && len(sends) > 0:
			sig = fmt.Sprintf("c02:deadlock:event-queue-full:max-queue-%d:send=%s:lock=%s", h.MaxQueue, strings.Join(sends, "+"), strings.Join(locks, "+"))
			what = fmt.Sprintf("an internal event queue of the scheduler (capacity OLLAMA_MAX_QUEUE=%d) is full: %s is parked in a channel send while holding a runner's refMu, and %s waits for that mutex; the completion loop is the only consumer, so nothing moves any more; phase %s, unreplied requests %v, unclosed runners %v", h.MaxQueue, strings.Join(sends, ", "), strings.Join(locks, ", "), out.Phase, out.Unreplied, out.Unclosed)
		case len(locks) > 0:
			sig = "c02:deadlock:" + strings.Join(locks, "+")
			what = fmt.Sprintf("scheduler is quiescent with goroutines parked on mutexes for good (%s); phase %s, unreplied requests %v, unclosed runners %v", strings.Join(locks, ", "), out.Phase, out.Unreplied, out.Unclosed)
		case out.InGetRunner > 0:
			sig = "c02:getrunner-blocked"
			what = fmt.Sprintf("%d caller(s) are blocked inside GetRunner at quiescence (a full queue must answer busy); phase %s", out.InGetRunner, out.Phase)
		case len(out.Unreplied) > 0:
			sig = "c02:no-reply"
			what = fmt.Sprintf("requests %v were never answered although nothing can move any more (phase %s, loaded=%d refs=%d)", out.Unreplied, out.Phase, out.LoadedLeft, out.RefsLeft)
		case len(out.Unclosed) > 0 || out.LoadedLeft > 0:
			sig = "c02:not-drained"
			if out.RefsLeft > 0 {
				sig = "c02:not-drained:leaked-reference"
			}
			what = fmt.Sprintf("all requests finished and keep-alives elapsed but runners %v were never closed (loaded map size %d, outstanding references %d)", out.Unclosed, out.LoadedLeft, out.RefsLeft)
		default:
			sig = "c02:stuck:" + out.Phase
			what = "history stuck in phase " + out.Phase
		}
		vs = append(vs, vViol{sig, what, vSlice(evs, int64(len(evs)))})
	}
	return vs
}

func uniqStrings(s []string) []string {
	var o []string
	for i, x := range s {
		if i == 0 || x != s[i-1] {
			o = append(o, x)
		}
	}
	return o
}

var vProfileC02 = vProfile{name: "c02", blockLoads: false, queueFull: 120, multiGPU: 15, optVariants: true, lateLoad: 60, pingCancel: 100, busyPingFail: 40}

func TestVerifC02(t *testing.T) {
	vRunSched(t, "C02", vProfileC02, 400, 40000,
		"history i = PRNG(seed,'C02',i): as C01 but every scripted load terminates and every holder releases (the property's premises); 12% of histories are the queue-full scenario (MAX_LOADED=1, a gated holder, a request that makes the pending loop wait for the unload, then a burst of MAX_QUEUE+2..6 submissions from one goroutine), 10% are the ping-cancel scenario (a model idle under a finite keep-alive, then requests whose client leaves during the scheduler's health check of the loaded runner; no forever keep-alive and no explicit unload, so the history must drain through the timers alone). Oracle: at most one reply per request over the whole history (listeners stay until the end), exactly one for uncancelled requests; after the last release (+ explicit unload of forever-runners) the history must drain: every started mock closed, Scheduler.loaded empty, no outstanding references. 'Never' is decided only at runtime quiescence (3 goroutine-dump samples 50 ms apart without a movable goroutine of the package and without an armed finite keep-alive timer); the wall-clock watchdog yields inconclusive. Non-trivial & distinct as for C01",
		vCheckC02)
}
