//go:build verif

package server

// C01: a runner handed to a request is never shut down while that request is in progress;
// a runner is shut down at most once; a shut-down runner is never handed out.

import (
	"fmt"
	"testing"

	kit "verifkit"
)

type vViol struct {
	Sig, What string
	Events    []vEvent
}

func vSlice(evs []vEvent, around ...int64) []vEvent {
	if len(evs) <= 60 {
		return evs
	}
	keep := map[int64]bool{}
	for _, a := range around {
		for d := int64(-6); d <= 6; d++ {
			keep[a+d] = true
		}
	}
	var o []vEvent
	for _, e := range evs {
		if keep[e.Seq] {
			o = append(o, e)
		}
	}
	return o
}

func vCheckC01(out *vOutcome) []vViol {
	var vs []vViol
	evs := out.Events
	closeSeq := map[int]int64{}
	cancelSeq := map[int]int64{}
	releaseSeq := map[int][]int64{}
	for _, e := range evs {
		switch e.Kind {
		case "close-begin":
			if first, ok := closeSeq[e.Runner]; ok {
				vs = append(vs, vViol{"c01:closed-twice", fmt.Sprintf("runner %d (model %d) closed twice (seq %d and %d)", e.Runner, e.Model, first, e.Seq), vSlice(evs, first, e.Seq)})
			} else {
				closeSeq[e.Runner] = e.Seq
			}
		case "cancel":
			cancelSeq[e.Req] = e.Seq
		case "release":
			releaseSeq[e.Req] = append(releaseSeq[e.Req], e.Seq)
		}
	}
	for _, e := range evs {
		if e.Kind != "grant" || e.Info == "late" {
			continue
		}
		if c, ok := cancelSeq[e.Req]; ok && c < e.Seq {
			continue // cancelled before the reply: no longer "in progress" (at-most-one reply is C02's business)
		}
		if e.Runner < 0 {
			vs = append(vs, vViol{"c01:granted-unloaded-runner", fmt.Sprintf("request %d (model %d) was handed a runner whose server had already been unloaded (runner.llama == nil)", e.Req, e.Model), vSlice(evs, e.Seq)})
			continue
		}
		cs, closed := closeSeq[e.Runner]
		if closed && cs < e.Seq {
			vs = append(vs, vViol{"c01:granted-after-close", fmt.Sprintf("request %d was handed runner %d after its Close (close seq %d < grant seq %d)", e.Req, e.Runner, cs, e.Seq), vSlice(evs, cs, e.Seq)})
			continue
		}
		rel := int64(1 << 62)
		for _, r := range releaseSeq[e.Req] {
			if r > e.Seq && r < rel {
				rel = r
			}
		}
		if closed && cs > e.Seq && cs < rel {
			vs = append(vs, vViol{"c01:closed-while-in-use", fmt.Sprintf("runner %d was closed (seq %d) while request %d still held it (granted seq %d, released seq %d)", e.Runner, cs, e.Req, e.Seq, rel), vSlice(evs, e.Seq, cs, rel)})
		}
	}
	return vs
}

var vProfileC01 = vProfile{name: "c01", blockLoads: true, queueFull: 0, multiGPU: 15, optVariants: true, lateLoad: 100, pingCancel: 60, busyPingFail: 50}

func vRunSched(t *testing.T, prop string, profile vProfile, nQuick, nThorough int, rule string,
	check func(h *vHistory, out *vOutcome) []vViol) {
	vSilenceSlog()
	defer vCleanupModelFiles()
	rep := kit.NewReport(prop)
	cfg := rep.Cfg()
	defer rep.Flush()
	rep.Set("rule", rule)
	rep.Set("assumptions", []string{
		"runners are mock llm.LlamaServer values injected through Scheduler.newServerFn; GPU inventory through getGpuFn/getCpuFn",
		"clients behave like routes.go scheduleRunner: wait on the success/error channels without a ctx case, cancel only after recording the release",
		"interleavings are sampled (delays at slog call sites, in mock Ping/Close/WaitUntilRunning, GOMAXPROCS 1-16), not enumerated",
	})
	n := cfg.N(nQuick, nThorough)
	replayIdx := -1
	if cfg.Replay != "" {
		var rc struct {
			Index int `json:"index"`
		}
		if err := kit.LoadReplay(cfg.Replay, &rc); err != nil {
			t.Fatal(err)
		}
		replayIdx = rc.Index
	}
	ignore := map[int]bool{}
	evKinds := map[string]int64{}
	for i := 0; i < n; i++ {
		reps := 1
		if replayIdx >= 0 {
			if i != replayIdx {
				continue
			}
			reps = 100 // free-running concurrency: re-run the same workload and delay plan
		} else if !cfg.Mine(i) {
			continue
		}
		if replayIdx < 0 && (rep.Enough() || rep.OverBudget()) {
			break
		}
		for k := 0; k < reps; k++ {
			h := vGenHistory(kit.NewRand(cfg.Seed, prop, i), i, profile)
			rep.Journal([]byte(fmt.Sprintf("%s history %d", prop, i)))
			out := vRunHistory(t, h, ignore)
			rep.Eval(1)
			for _, e := range out.Events {
				evKinds[e.Kind]++
				if e.Kind == "cancel" && e.Info == "in-ping" {
					rep.Count("requests_cancelled_during_health_check", 1)
				}
			}
			if out.Inconcl != "" {
				rep.Inconclusive(fmt.Sprintf("history %d: %s", i, out.Inconcl))
				// the history did not come to an end, but what its event log shows did happen (the snapshot is taken
				// before the world is torn down): safety clauses over the recorded order are still decided
				if prop == "C01" || prop == "C02" { // (C02: only its safety clause - a second reply - is evaluated when the outcome is not "stuck")
					for _, v := range check(h, out) {
						rep.Violate(v.Sig+":history-did-not-end", v.What+" (the history then neither ended nor came to rest within the watchdog: "+out.Inconcl[:min(len(out.Inconcl), 300)]+")", h, map[string]any{"events": v.Events})
					}
					rep.Count("unfinished_histories_checked_for_safety", 1)
				}
				continue
			}
			vs := check(h, out)
			for _, v := range vs {
				rep.Violate(v.Sig, v.What, h, map[string]any{"events": v.Events, "stuck_phase": out.Phase, "blocked_goroutines": out.Witness})
				if replayIdx >= 0 {
					t.Logf("replay run %d: %s: %s", k, v.Sig, v.What)
				}
			}
			sig, overlaps := vAbstract(out.Events)
			if overlaps > 0 || len(sig) > 6 {
				rep.Distinct(sig)
			}
			if overlaps > 0 {
				rep.Count("histories_with_unload_racing_an_outstanding_grant", 1)
			}
			if rep.NeedSample() && len(out.Events) > 12 && len(out.Events) < 120 {
				rep.Sample(map[string]any{"history": h, "events": out.Events})
			}
		}
	}
	rep.Set("events_by_kind", evKinds)
	rep.Set("delay_point_hits", vHitCounts())
	unreached := []string{}
	hits := vHitCounts()
	for _, p := range vDelayPoints {
		if hits[p] == 0 {
			unreached = append(unreached, p)
		}
	}
	rep.Set("delay_points_never_reached", unreached)
}

func TestVerifC01(t *testing.T) {
	vRunSched(t, "C01", vProfileC01, 400, 40000,
		"history i = PRNG(seed,'C01',i): 2-5 models, 1-8 client goroutines, 3-40 actions (requests with keep-alive in {0,0.2,1,5,20 ms,forever,nil}, holds, cancels before reply, clients that leave during the scheduler's health check of a loaded runner (cancel_in_ping; 6-10 % of histories are a dedicated scenario that must drain through the keep-alive timers alone), health checks that fail while the runner is busy with another request (4-5 % of histories are a dedicated scenario: A holds the runner, B asks for the model with keep_alive 0 and keeps it longer than A, the health check made for B fails once), scripted load ok/fail/block-until-cancel, explicit unloads, sleeps), MAX_LOADED 1-3/auto, ping failures, delays at 20 slog call sites and in mock Ping/Close/WaitUntilRunning, GOMAXPROCS in {1,2,4,8,16}. Oracle on the boundary event log: no Close between grant and release, at most one Close per runner, no grant after Close / of an unloaded runner. Non-trivial & distinct = distinct abstract order signature (collapsed sequence of grant/release/close/start/unload/fail/cancel/error kinds) of histories with more than 6 such transitions or with an explicit unload issued while a grant was outstanding",
		func(h *vHistory, out *vOutcome) []vViol { return vCheckC01(out) })
}
