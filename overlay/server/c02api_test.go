//go:build verif

package server

// C02, API part: the same statement seen from the HTTP boundary. The scheduler harness (c02_test.go) plays the
// client itself; here the real handlers (routes.go scheduleRunner and friends) sit between the clients and the
// scheduler, and some clients leave while their request is queued, loading or being handed over. Oracle: every
// client that keeps waiting gets its reply (otherwise the goroutine dump must show what the scheduler is blocked
// on), and after the last client is done the server drains (/api/ps empty, every started runner closed).

import (
	"fmt"
	"io"
	"log/slog"
	"testing"

	"github.com/gin-gonic/gin"

	kit "verifkit"
)

func TestVerifC02Api(t *testing.T) {
	slog.SetDefault(slog.New(slog.NewTextHandler(io.Discard, nil)))
	gin.SetMode(gin.ReleaseMode)
	pw := &c15PanicWriter{}
	gin.DefaultErrorWriter = pw
	gin.DefaultWriter = io.Discard
	rep := kit.NewReport("C02A")
	cfg := rep.Cfg()
	defer rep.Flush()
	rep.Set("rule", "round i = PRNG(seed,'C02api',i): real router + real scheduler (mock runners: every 5th fails to start, every 3rd loads slowly) + real store; 8-32 client goroutines each issue 30-80 requests (generate/chat/embed/ps/unload/... as in C15) of which ~15 % are generate calls whose client leaves after 0.3-3 ms. Violations: clients still waiting after 30 s while scheduler goroutines are blocked in a channel send or on a server mutex (c02:api:scheduler-wedged, with the blocked frames); after all clients are done the server does not drain although the scheduler is idle (c02:api:not-drained). Non-trivial & distinct = distinct (clients, max_loaded, parallel, gomaxprocs, keep_alive, models) configurations")
	n := cfg.N(24, 480)
	for i := 0; i < n; i++ {
		if !cfg.Mine(i) || rep.Enough() || rep.OverBudget() {
			continue
		}
		r := kit.NewRand(cfg.Seed, "C02api", i)
		rd := c15Round{Index: i, Clients: kit.Pick(r, []int{8, 16, 32}), OpsEach: r.Range(30, 80), MaxLoaded: r.Range(1, 2), Parallel: kit.Pick(r, []int{1, 2, 4}),
			Procs: kit.Pick(r, []int{2, 4, 8, 16}), KeepAlive: kit.Pick(r, []string{"1ms", "5ms", "20ms"}), Models: r.Range(2, 3), Mode: "c02api"}
		rep.Journal([]byte(fmt.Sprintf("C02api round %+v", rd)))
		vs, inc := c15RunRound(t, r, rd, rep, pw)
		rep.Eval(1)
		if inc != "" {
			rep.Inconclusive(fmt.Sprintf("round %d: %s", i, inc))
			continue
		}
		for _, v := range vs {
			rep.Violate(v.Sig, v.What, rd, nil)
		}
		rep.Distinct(fmt.Sprint(rd.Clients, rd.MaxLoaded, rd.Parallel, rd.Procs, rd.KeepAlive, rd.Models))
		rep.Sample(rd)
	}
}
