//go:build verif

package server

// Shared world of the scheduler monitors (C01, C02, C11): a real Scheduler driven by scripted
// clients that behave like routes.go scheduleRunner, mock llm servers that record every
// Start / WaitUntilRunning / Ping / Close at the boundary, an event log with one logical clock,
// a slog handler used as a failpoint facility (delays keyed by log message) and a quiescence
// detector built on goroutine dumps (no wall-clock verdicts).

import (
	"context"
	"errors"
	"fmt"
	"io"
	"log/slog"
	"os"
	"path/filepath"
	"runtime"
	"sort"
	"strconv"
	"strings"
	"sync"
	"sync/atomic"
	"testing"
	"time"

	"github.com/ollama/ollama/api"
	"github.com/ollama/ollama/discover"
	"github.com/ollama/ollama/fs/ggml"
	"github.com/ollama/ollama/llm"

	kit "verifkit"
)

// ---------------------------------------------------------------------------------------------
// event log

type vEvent struct {
	Seq    int64  `json:"seq"`
	Kind   string `json:"k"`
	Req    int    `json:"q,omitempty"`
	Runner int    `json:"r,omitempty"`
	Model  int    `json:"m"`
	Info   string `json:"i,omitempty"`
}

type vLog struct {
	mu  sync.Mutex
	evs []vEvent
}

func (l *vLog) add(kind string, req, runner, model int, info string) int64 {
	l.mu.Lock()
	seq := int64(len(l.evs) + 1)
	l.evs = append(l.evs, vEvent{Seq: seq, Kind: kind, Req: req, Runner: runner, Model: model, Info: info})
	l.mu.Unlock()
	return seq
}

func (l *vLog) snapshot() []vEvent {
	l.mu.Lock()
	defer l.mu.Unlock()
	return append([]vEvent(nil), l.evs...)
}

// ---------------------------------------------------------------------------------------------
// history description (PRNG generated, JSON-able for samples and replays)

type vGPU struct {
	Library string `json:"lib"`
	ID      string `json:"id"`
	FreeMB  int    `json:"free_mb"`
	TotalMB int    `json:"total_mb"`
}

type vAction struct {
	Op           string `json:"op"` // req | unload | sleep | burst
	Req          int    `json:"req,omitempty"`
	Model        int    `json:"model"`
	NumCtx       int    `json:"num_ctx,omitempty"`
	NumGPU       int    `json:"num_gpu,omitempty"`
	NumBatch     int    `json:"num_batch,omitempty"`
	KeepAliveUs  int    `json:"keep_alive_us,omitempty"` // <0: "forever" (1h); 0: unload when idle
	Lanes        int    `json:"lanes,omitempty"`         // burst: number of goroutines that submit it concurrently (0/1: one)
	NilKeep      bool   `json:"nil_keep_alive,omitempty"`
	Hold         int    `json:"hold,omitempty"`      // yields (and 50us sleeps every 8th) while holding the runner
	Gated        bool   `json:"gated,omitempty"`     // hold until the harness opens the gate (used by the queue-full scenario)
	CancelAt     int    `json:"cancel_at,omitempty"` // >0: cancel this many yields after submit, before any reply
	LoadMode     string `json:"load,omitempty"`      // ok | fail | block (until the request ctx is cancelled) | ok-late (succeeds although cancelled)
	LoadDelayUs  int    `json:"load_delay_us,omitempty"`
	SleepUs      int    `json:"sleep_us,omitempty"`
	Burst        int    `json:"burst,omitempty"`          // op burst: number of back-to-back submissions from this goroutine
	Adapter      int    `json:"adapter,omitempty"`        // >0: the request's model carries this adapter path variant
	KeepOpen     bool   `json:"keep_open,omitempty"`      // sequential workload: hold the grant until a later "release" action
	PingFails    bool   `json:"ping_fails,omitempty"`     // sequential workload: the health check made for this request fails
	CancelInPing bool   `json:"cancel_in_ping,omitempty"` // the client leaves while the scheduler health-checks the loaded runner for it (the next Ping of a runner of this model cancels the request)
}

// vPingCancel: a request's cancellation armed for the next health check of its model; disarmed once the
// client has been handed the runner (from then on leaving is the client's release, not a cancellation).
type vPingCancel struct {
	mu       sync.Mutex
	disarmed bool
	fired    bool
	fn       func()
}

type vMockPlan struct {
	PingFail   []int `json:"ping_fail,omitempty"` // ordinal numbers (1-based) of pings that fail
	PingDelay  int   `json:"ping_delay_us,omitempty"`
	CloseDelay int   `json:"close_delay_us,omitempty"`
	VRAMMB     int   `json:"vram_mb"`
}

type vHistory struct {
	Index       int            `json:"index"`
	Profile     string         `json:"profile"`
	MaxLoaded   int            `json:"max_loaded"` // 0 = automatic
	NumParallel int            `json:"num_parallel"`
	MaxQueue    int            `json:"max_queue"`
	GPUs        []vGPU         `json:"gpus"`
	Models      int            `json:"models"`
	Adapters    []int          `json:"adapters,omitempty"` // per model: 0 none, n>0 adapter path variant
	Clients     [][]vAction    `json:"clients"`
	Delays      map[string]int `json:"delays"` // slog message -> 1 gosched burst, 2 sleep 100us, 3 sleep 1ms
	Procs       int            `json:"gomaxprocs"`
	MockPlans   []vMockPlan    `json:"mock_plans"`
	ReschedUs   int            `json:"resched_us"`
	FinalUnload bool           `json:"final_unload"`
	NReq        int            `json:"nreq"`
	Spread      bool           `json:"sched_spread,omitempty"` // OLLAMA_SCHED_SPREAD=1: placement goes through the all-GPUs path
	CPUFreeMB   int            `json:"cpu_free_mb,omitempty"`  // >0: system memory for CPU loads; every live CPU runner takes its plan's VRAMMB out of it (0: 64 GiB, constant)
}

var vDelayPoints = []string{
	"runner expired event received",
	"got lock to unload",
	"runner released",
	"timer expired, expiring to unload",
	"resetting model to expire immediately to make room",
	"waiting for pending requests to complete and unload to occur",
	"context for request finished",
	"evaluating already loaded",
	"after processing request finished event",
	"expired event with positive ref count, retrying",
	"sending an unloaded event",
	"unload completed",
	"triggering expiration for failed load",
	"finished setting up runner",
	"runner with zero duration has gone idle, expiring to unload",
	"runner with non-zero duration has gone idle, adding timer",
	"loaded runners",
	"ignoring unload event with no pending requests",
	"pending request cancelled or timed out, skipping scheduling",
	"max runners achieved, unloading one to make room",
}

// ---------------------------------------------------------------------------------------------
// slog failpoints

type vSlog struct {
	plan atomic.Pointer[map[string]int]
	mu   sync.Mutex
	hits map[string]int64
}

var vSlogH = &vSlog{hits: map[string]int64{}}

func (h *vSlog) Enabled(context.Context, slog.Level) bool { return true }
func (h *vSlog) WithAttrs([]slog.Attr) slog.Handler       { return h }
func (h *vSlog) WithGroup(string) slog.Handler            { return h }
func (h *vSlog) Handle(_ context.Context, r slog.Record) error {
	p := h.plan.Load()
	if p == nil {
		return nil
	}
	d, ok := (*p)[r.Message]
	if !ok {
		return nil
	}
	h.mu.Lock()
	h.hits[r.Message]++
	h.mu.Unlock()
	switch d {
	case 1:
		for i := 0; i < 20; i++ {
			runtime.Gosched()
		}
	case 2:
		time.Sleep(100 * time.Microsecond)
	case 3:
		time.Sleep(time.Millisecond)
	}
	return nil
}

// ---------------------------------------------------------------------------------------------
// mock llm server

type vMock struct {
	w           *vWorld
	id          int
	model       int
	modelPath   string
	opts        api.Options
	numParallel int
	gpus        discover.GpuInfoList
	adapters    []string
	startedFor  int // request id (from opts.Seed)
	act         vAction
	plan        vMockPlan
	closes      atomic.Int32
	pings       atomic.Int32
	startSeq    int64
	maxAtStart  int // OLLAMA_MAX_LOADED_MODELS as the scheduler sees it when it starts this runner
	closeEndSeq atomic.Int64
	failPing    atomic.Bool // sequential workload: from now on every Ping fails (a runner that stopped answering stays dead: the pending loop may ask twice when it is woken by the unload event of another runner)
}

var errVScriptedLoad = errors.New("scripted load failure")
var errVScriptedPing = errors.New("scripted ping failure")

func vSleepCtx(ctx context.Context, us int) error {
	// never blocks in select: a sleeping goroutine must stay visible as "active" to the quiescence detector
	for us > 0 {
		if ctx != nil && ctx.Err() != nil {
			return ctx.Err()
		}
		d := us
		if d > 200 {
			d = 200
		}
		time.Sleep(time.Duration(d) * time.Microsecond)
		us -= d
	}
	if ctx != nil {
		return ctx.Err()
	}
	return nil
}

func (m *vMock) Ping(ctx context.Context) error {
	n := int(m.pings.Add(1))
	if m.closes.Load() > 0 {
		m.w.log.add("ping-after-close", 0, m.id, m.model, "")
	}
	m.w.log.add("ping", 0, m.id, m.model, strconv.Itoa(n))
	if v, ok := m.w.pingCancel.LoadAndDelete(m.model); ok {
		pc := v.(*vPingCancel)
		pc.mu.Lock()
		if !pc.disarmed {
			pc.fired = true
			pc.fn()
		}
		pc.mu.Unlock()
		vYield(4)
	}
	vSleepCtx(nil, m.plan.PingDelay)
	for _, k := range m.plan.PingFail {
		if k == n {
			return errVScriptedPing
		}
	}
	if m.failPing.Load() {
		return errVScriptedPing
	}
	return nil
}

func (m *vMock) WaitUntilRunning(ctx context.Context) error {
	m.w.log.add("wait-begin", m.startedFor, m.id, m.model, m.act.LoadMode)
	var err error
	switch m.act.LoadMode {
	case "block":
		for ctx.Err() == nil && m.w.ctx.Err() == nil {
			time.Sleep(100 * time.Microsecond)
		}
		err = ctx.Err()
		if err == nil {
			err = errors.New("world ended")
		}
	case "fail":
		if err = vSleepCtx(ctx, m.act.LoadDelayUs); err == nil {
			err = errVScriptedLoad
		}
	case "ok-late":
		// the runner becomes ready although the requester has meanwhile cancelled: the load SUCCEEDS with a
		// cancelled request context (a real server that finishes loading just as the client gives up)
		vSleepCtx(nil, m.act.LoadDelayUs)
	default:
		// like the real server, a cancelled request context aborts the load
		err = vSleepCtx(ctx, m.act.LoadDelayUs)
	}
	info := "ok"
	if err != nil {
		info = "err"
	}
	m.w.log.add("wait-end", m.startedFor, m.id, m.model, info)
	return err
}

func (m *vMock) Close() error {
	n := m.closes.Add(1)
	m.w.log.add("close-begin", 0, m.id, m.model, strconv.Itoa(int(n)))
	vSleepCtx(nil, m.plan.CloseDelay)
	m.closeEndSeq.Store(m.w.log.add("close-end", 0, m.id, m.model, ""))
	return nil
}

func (m *vMock) Completion(ctx context.Context, req llm.CompletionRequest, fn func(llm.CompletionResponse)) error {
	return nil
}
func (m *vMock) Embedding(ctx context.Context, input string) ([]float32, error) { return nil, nil }
func (m *vMock) Tokenize(ctx context.Context, content string) ([]int, error)    { return nil, nil }
func (m *vMock) Detokenize(ctx context.Context, tokens []int) (string, error)   { return "", nil }
func (m *vMock) onCPU() bool                                                    { return len(m.gpus) > 0 && m.gpus[0].Library == "cpu" }

// a runner placed on the CPU holds system memory, not VRAM
func (m *vMock) EstimatedVRAM() uint64 {
	if m.onCPU() {
		return 0
	}
	return uint64(m.plan.VRAMMB) << 20
}
func (m *vMock) EstimatedTotal() uint64 { return uint64(m.plan.VRAMMB) << 20 }
func (m *vMock) EstimatedVRAMByGPU(gpuID string) uint64 {
	for _, g := range m.gpus {
		if g.ID == gpuID {
			return (uint64(m.plan.VRAMMB) << 20) / uint64(len(m.gpus))
		}
	}
	return 0
}

// ---------------------------------------------------------------------------------------------
// world

type vReqState struct {
	act       vAction
	cancelled atomic.Bool // cancelled by the client before any reply
}

type vWorld struct {
	h      *vHistory
	s      *Scheduler
	ctx    context.Context
	cancel context.CancelFunc
	log    *vLog
	models []*Model
	ggmls  []*ggml.GGML

	mu     sync.Mutex
	mocks  []*vMock
	reqs   map[int]*vReqState
	gate   chan struct{}
	gateMu sync.Once

	listeners sync.WaitGroup
	clients   sync.WaitGroup
	inGet     atomic.Int32 // client goroutines currently inside GetRunner

	pingCancel sync.Map // model index -> *vPingCancel (armed by submit, fired by the mock's next Ping)
}

var (
	vModelDirOnce sync.Once
	vModelDir     string
	vModelPaths   []string
)

const vMaxModels = 6

// vModelFiles writes the tiny model files once per process (independent writer from the kit).
func vModelFiles(t testing.TB) []string {
	vModelDirOnce.Do(func() {
		dir, err := os.MkdirTemp("", "verif-sched-models")
		if err != nil {
			t.Fatal(err)
		}
		vModelDir = dir
		for i := 0; i < vMaxModels; i++ {
			f := kit.GFile{
				KVs: []kit.GKV{
					kit.StrKV("general.architecture", "llama"),
					kit.U32KV("llama.context_length", 32),
					kit.U32KV("llama.embedding_length", 256),
					kit.U32KV("llama.block_count", 1),
					kit.U32KV("llama.attention.head_count", 8),
					kit.U32KV("llama.attention.head_count_kv", 8),
					kit.StrArrKV("tokenizer.ggml.tokens", " "),
					kit.ArrKV("tokenizer.ggml.scores", kit.GF32, float32(0)),
					kit.ArrKV("tokenizer.ggml.token_type", kit.GI32, int32(0)),
				},
				Tensors: []kit.GTensor{
					{Name: "blk.0.attn.weight", Dims: []uint64{8}, Kind: 0, Data: make([]byte, 32)},
					{Name: "output.weight", Dims: []uint64{8}, Kind: 0, Data: make([]byte, 32)},
				},
			}
			p := filepath.Join(dir, fmt.Sprintf("model%d.gguf", i))
			if err := os.WriteFile(p, f.Bytes(), 0o644); err != nil {
				t.Fatal(err)
			}
			vModelPaths = append(vModelPaths, p)
		}
	})
	return vModelPaths
}

func vCleanupModelFiles() {
	if vModelDir != "" {
		os.RemoveAll(vModelDir)
	}
}

func (h *vHistory) gpuList() discover.GpuInfoList {
	var l discover.GpuInfoList
	for _, g := range h.GPUs {
		gi := discover.GpuInfo{Library: g.Library, ID: g.ID}
		gi.FreeMemory = uint64(g.FreeMB) << 20
		gi.TotalMemory = uint64(g.TotalMB) << 20
		gi.MinimumMemory = 0
		l = append(l, gi)
	}
	return l
}

func newVWorld(t testing.TB, h *vHistory) *vWorld {
	paths := vModelFiles(t)
	if h.MaxLoaded > 0 {
		os.Setenv("OLLAMA_MAX_LOADED_MODELS", strconv.Itoa(h.MaxLoaded))
	} else {
		os.Unsetenv("OLLAMA_MAX_LOADED_MODELS")
	}
	if h.NumParallel > 0 {
		os.Setenv("OLLAMA_NUM_PARALLEL", strconv.Itoa(h.NumParallel))
	} else {
		os.Unsetenv("OLLAMA_NUM_PARALLEL")
	}
	os.Setenv("OLLAMA_MAX_QUEUE", strconv.Itoa(h.MaxQueue))
	os.Setenv("OLLAMA_KEEP_ALIVE", "3ms")
	if h.Spread {
		os.Setenv("OLLAMA_SCHED_SPREAD", "1")
	} else {
		os.Unsetenv("OLLAMA_SCHED_SPREAD")
	}
	os.Unsetenv("OLLAMA_GPU_OVERHEAD")

	w := &vWorld{h: h, log: &vLog{}, reqs: map[int]*vReqState{}, gate: make(chan struct{})}
	w.ctx, w.cancel = context.WithCancel(context.Background())
	for i := 0; i < h.Models; i++ {
		m := &Model{Name: fmt.Sprintf("m%d", i), ShortName: fmt.Sprintf("m%d", i), ModelPath: paths[i]}
		if i < len(h.Adapters) && h.Adapters[i] > 0 {
			m.AdapterPaths = []string{fmt.Sprintf("/nonexistent/adapter-%d", h.Adapters[i])}
		}
		w.models = append(w.models, m)
	}
	for _, c := range h.Clients {
		for _, a := range c {
			if a.Op == "req" {
				w.reqs[a.Req] = &vReqState{act: a}
			}
			if a.Op == "burst" {
				for k := 0; k < a.Burst; k++ {
					b := a
					b.Op = "req"
					b.Req = a.Req + k
					w.reqs[b.Req] = &vReqState{act: b}
				}
			}
		}
	}
	s := InitScheduler(w.ctx)
	s.reschedDelay = time.Duration(h.ReschedUs) * time.Microsecond
	s.getGpuFn = func() discover.GpuInfoList { return h.gpuList() }
	s.getCpuFn = func() discover.GpuInfoList {
		gi := discover.GpuInfo{Library: "cpu", ID: "0"}
		gi.FreeMemory = 64 << 30
		gi.TotalMemory = 64 << 30
		if h.CPUFreeMB > 0 {
			// what the live CPU runners hold is gone from the free system memory
			free := uint64(h.CPUFreeMB) << 20
			gi.TotalMemory = free
			w.mu.Lock()
			for _, m := range w.mocks {
				if m.onCPU() && m.closeEndSeq.Load() == 0 {
					if use := m.EstimatedTotal(); use < free {
						free -= use
					} else {
						free = 0
					}
				}
			}
			w.mu.Unlock()
			gi.FreeMemory = free
		}
		return discover.GpuInfoList{gi}
	}
	s.newServerFn = w.newServer
	w.s = s
	plan := h.Delays
	vSlogH.plan.Store(&plan)
	s.Run(w.ctx)
	return w
}

func (w *vWorld) modelIndex(path string) int {
	for i, m := range w.models {
		if m.ModelPath == path {
			return i
		}
	}
	return -1
}

func (w *vWorld) newServer(gpus discover.GpuInfoList, model string, f *ggml.GGML, adapters []string, projectors []string, opts api.Options, numParallel int) (llm.LlamaServer, error) {
	req := opts.Seed
	w.mu.Lock()
	rs := w.reqs[req]
	id := len(w.mocks) + 1
	m := &vMock{w: w, id: id, model: w.modelIndex(model), modelPath: model, opts: opts, numParallel: numParallel,
		gpus: append(discover.GpuInfoList(nil), gpus...), adapters: adapters, startedFor: req}
	if rs != nil {
		m.act = rs.act
	}
	if len(w.h.MockPlans) > 0 {
		m.plan = w.h.MockPlans[(id-1)%len(w.h.MockPlans)]
	}
	m.maxAtStart, _ = strconv.Atoi(os.Getenv("OLLAMA_MAX_LOADED_MODELS"))
	w.mocks = append(w.mocks, m)
	w.mu.Unlock()
	gl := make([]string, len(gpus))
	for i, g := range gpus {
		gl[i] = fmt.Sprintf("%s:%s:%d", g.Library, g.ID, g.FreeMemory>>20)
	}
	m.startSeq = w.log.add("start", req, id, m.model, fmt.Sprintf("ctx=%d gpu=%d batch=%d par=%d gpus=%s max=%s", opts.NumCtx, opts.NumGPU, opts.NumBatch, numParallel, strings.Join(gl, ","), os.Getenv("OLLAMA_MAX_LOADED_MODELS")))
	return m, nil
}

// modelFor returns the Model value of a request (same ModelPath, per-request adapter list).
func (w *vWorld) modelFor(a vAction) *Model {
	if a.Adapter == 0 {
		return w.models[a.Model]
	}
	m := *w.models[a.Model]
	m.AdapterPaths = []string{fmt.Sprintf("/nonexistent/adapter-%d", a.Adapter)}
	return &m
}

func (w *vWorld) openGate() { w.gateMu.Do(func() { close(w.gate) }) }

func vYield(n int) {
	for i := 0; i < n; i++ {
		if i%8 == 7 {
			time.Sleep(50 * time.Microsecond)
		} else {
			runtime.Gosched()
		}
	}
}

// submit issues one request the way routes.go scheduleRunner does and plays the client's part.
func (w *vWorld) submit(a vAction) {
	rs := w.reqs[a.Req]
	m := w.modelFor(a)
	opts := api.DefaultOptions()
	opts.NumCtx = a.NumCtx
	opts.NumGPU = a.NumGPU
	if a.NumBatch > 0 {
		opts.NumBatch = a.NumBatch
	}
	opts.Seed = a.Req // carries the request identity to newServerFn; not part of the reload comparison
	var keep *api.Duration
	if !a.NilKeep {
		d := time.Duration(a.KeepAliveUs) * time.Microsecond
		if a.KeepAliveUs < 0 {
			d = time.Hour
		}
		keep = &api.Duration{Duration: d}
	}
	ctx, cancel := context.WithCancel(w.ctx)
	w.log.add("submit", a.Req, 0, a.Model, "")
	w.inGet.Add(1)
	okCh, errCh := w.s.GetRunner(ctx, m, opts, keep)
	w.inGet.Add(-1)
	w.log.add("submitted", a.Req, 0, a.Model, "")

	linger := func() {
		// a second reply (or any reply after cancellation) must still be observed: keep listening to the end
		w.listeners.Add(1)
		go func() {
			defer w.listeners.Done()
			for {
				select {
				case r := <-okCh:
					w.log.add("grant", a.Req, vRunnerID(r), a.Model, "late")
				case err := <-errCh:
					w.log.add("error", a.Req, 0, a.Model, "late:"+vErrKind(err))
				case <-w.ctx.Done():
					return
				}
			}
		}()
	}

	if a.CancelInPing {
		pc := &vPingCancel{}
		pc.fn = func() {
			rs.cancelled.Store(true)
			w.log.add("cancel", a.Req, 0, a.Model, "in-ping")
			cancel()
		}
		w.pingCancel.Store(a.Model, pc)
		// like routes.go scheduleRunner: a client that has left does not use a runner that arrives afterwards
		select {
		case r := <-okCh:
			pc.mu.Lock()
			pc.disarmed = true
			fired := pc.fired
			pc.mu.Unlock()
			if fired {
				w.log.add("grant", a.Req, vRunnerID(r), a.Model, "late")
			} else {
				w.holdAndRelease(a, r, cancel)
			}
		case err := <-errCh:
			w.log.add("error", a.Req, 0, a.Model, vErrKind(err))
			cancel()
		case <-ctx.Done():
		case <-w.ctx.Done():
			cancel()
			return
		}
		linger()
		return
	}
	if a.CancelAt > 0 {
		// cancel before any reply unless one arrives first
		for i := 0; i < a.CancelAt; i++ {
			select {
			case r := <-okCh:
				w.holdAndRelease(a, r, cancel)
				linger()
				return
			case err := <-errCh:
				w.log.add("error", a.Req, 0, a.Model, vErrKind(err))
				cancel()
				linger()
				return
			default:
				vYield(1)
			}
		}
		rs.cancelled.Store(true)
		w.log.add("cancel", a.Req, 0, a.Model, "")
		cancel()
		linger()
		return
	}
	select {
	case r := <-okCh:
		w.holdAndRelease(a, r, cancel)
	case err := <-errCh:
		w.log.add("error", a.Req, 0, a.Model, vErrKind(err))
		cancel()
	case <-w.ctx.Done():
		// world abandoned (judged stuck); the missing reply has been recorded by the oracle already
		cancel()
		return
	}
	linger()
}

func vRunnerID(r *runnerRef) int {
	if r == nil {
		return -1
	}
	if m, ok := r.llama.(*vMock); ok && m != nil {
		return m.id
	}
	return -1 // runner.llama is nil (or foreign): the runner had been unloaded when it was handed out
}

func vErrKind(err error) string {
	switch {
	case err == nil:
		return "nil"
	case errors.Is(err, ErrMaxQueue):
		return "busy"
	case errors.Is(err, errVScriptedLoad):
		return "load-failed"
	case errors.Is(err, context.Canceled):
		return "ctx-cancelled"
	default:
		return "other:" + err.Error()
	}
}

func (w *vWorld) holdAndRelease(a vAction, r *runnerRef, cancel context.CancelFunc) {
	id := vRunnerID(r)
	info := ""
	if id < 0 {
		info = "nil-llama"
	}
	w.log.add("grant", a.Req, id, a.Model, info)
	if a.Gated {
		select {
		case <-w.gate:
		case <-w.ctx.Done():
		}
	}
	vYield(a.Hold)
	w.log.add("release", a.Req, id, a.Model, "")
	cancel()
}

func (w *vWorld) runClient(script []vAction) {
	defer w.clients.Done()
	for _, a := range script {
		if w.ctx.Err() != nil {
			return
		}
		switch a.Op {
		case "req":
			w.submit(a)
		case "burst":
			// back-to-back submissions from one goroutine: each GetRunner call must return at once
			var wg sync.WaitGroup
			lanes := max(1, a.Lanes)
			var lw sync.WaitGroup
			for l := 0; l < lanes; l++ {
				lw.Add(1)
				submit := func(l int) {
					defer lw.Done()
					for k := l; k < a.Burst; k += lanes {
						b := a
						b.Op = "req"
						b.Req = a.Req + k
						// GetRunner itself is called inline (so that a blocking enqueue is attributable);
						// waiting for the reply happens in a helper goroutine
						wg.Add(1)
						w.submitAsync(b, &wg)
					}
				}
				if lanes == 1 {
					submit(l)
				} else {
					go submit(l) // several handlers submit at the same moment: checking the queue and entering it must be one step
				}
			}
			if lanes > 1 {
				// a lane parked inside GetRunner never comes back: do not wait for it here, quiescence reports it
				ld := make(chan struct{})
				go func() { lw.Wait(); close(ld) }()
				select {
				case <-ld:
				case <-w.ctx.Done():
				}
			}
			w.log.add("burst-done", a.Req, 0, a.Model, "")
			w.openGate()
			wg.Wait()
		case "unload":
			w.log.add("unload-call", 0, 0, a.Model, "")
			w.s.expireRunner(w.models[a.Model])
			w.log.add("unload-ret", 0, 0, a.Model, "")
		case "sleep":
			vSleepCtx(w.ctx, a.SleepUs)
		}
	}
}

// submitAsync calls GetRunner on the caller's goroutine and plays the rest of the client in a new one.
func (w *vWorld) submitAsync(a vAction, wg *sync.WaitGroup) {
	m := w.modelFor(a)
	opts := api.DefaultOptions()
	opts.NumCtx = a.NumCtx
	opts.NumGPU = a.NumGPU
	opts.Seed = a.Req
	d := time.Duration(a.KeepAliveUs) * time.Microsecond
	if a.KeepAliveUs < 0 {
		d = time.Hour
	}
	ctx, cancel := context.WithCancel(w.ctx)
	w.log.add("submit", a.Req, 0, a.Model, "burst")
	w.inGet.Add(1)
	okCh, errCh := w.s.GetRunner(ctx, m, opts, &api.Duration{Duration: d})
	w.inGet.Add(-1)
	w.log.add("submitted", a.Req, 0, a.Model, "")
	go func() {
		defer wg.Done()
		select {
		case r := <-okCh:
			w.holdAndRelease(a, r, cancel)
		case err := <-errCh:
			w.log.add("error", a.Req, 0, a.Model, vErrKind(err))
			cancel()
		case <-w.ctx.Done():
			cancel()
			return
		}
		w.listeners.Add(1)
		go func() {
			defer w.listeners.Done()
			for {
				select {
				case r := <-okCh:
					w.log.add("grant", a.Req, vRunnerID(r), a.Model, "late")
				case err := <-errCh:
					w.log.add("error", a.Req, 0, a.Model, "late:"+vErrKind(err))
				case <-w.ctx.Done():
					return
				}
			}
		}()
	}()
}

// ---------------------------------------------------------------------------------------------
// quiescence

type vQuiesce struct {
	Quiescent bool
	Active    []string // frames of active goroutines (when not quiescent)
	Blocked   []kit.G  // relevant goroutines blocked for good (when quiescent)
}

const vPkg = "github.com/ollama/ollama/server."

func vRelevant(ignore map[int]bool) (active, blocked []kit.G) {
	gs := kit.Goroutines()
	// The VRAM-recovery poller (<-ticker.C) matters only while the completion loop waits for its verdict
	// (<-finished). Upstream forgot the return after the 5 s timeout: a poller whose runner's memory never
	// "recovers" keeps ticking for ever after it has delivered; such a leaked poller is not activity.
	completionWaits := false
	for _, g := range gs {
		if !ignore[g.ID] && g.Has("processCompleted") && g.State == "chan receive" {
			completionWaits = true
		}
	}
	for _, g := range gs {
		if ignore[g.ID] || !g.Has(vPkg) {
			continue
		}
		if g.Has("testing.tRunner") && !g.Has("runClient") {
			continue // the test goroutine itself (it is the one sampling)
		}
		if g.Has("waitForVRAMRecovery.func") && !g.Has("processCompleted") {
			if completionWaits {
				active = append(active, g)
			}
			continue
		}
		if g.Active() {
			// (the VRAM-recovery poller sits in <-ticker.C: it will move by itself)
			active = append(active, g)
		} else {
			blocked = append(blocked, g)
		}
	}
	return
}

// pendingTimers looks at the live runners without ever blocking on a scheduler lock.
// ok=false: a lock could not be taken (held by somebody; the caller decides from the goroutine dump).
func (w *vWorld) pendingTimers() (timers int, loaded int, refs int, ok bool) {
	if !w.s.loadedMu.TryLock() {
		return 0, 0, 0, false
	}
	defer w.s.loadedMu.Unlock()
	loaded = len(w.s.loaded)
	for _, r := range w.s.loaded {
		if !r.refMu.TryLock() {
			return 0, loaded, 0, false
		}
		if r.expireTimer != nil && r.sessionDuration < time.Minute {
			timers++
		}
		refs += int(r.refCount)
		r.refMu.Unlock()
	}
	return timers, loaded, refs, true
}

// quiescentSample: no goroutine of the package can move without an external event, no finite
// keep-alive timer is armed and the scheduler's event queues are empty.
func (w *vWorld) quiescentSample(ignore map[int]bool) (bool, []kit.G) {
	active, bl := vRelevant(ignore)
	timers, _, _, lockOK := w.pendingTimers()
	// (queue lengths are deliberately not consulted: with a consumer parked for good they never drain,
	// and with a live consumer a non-empty queue makes that consumer runnable, i.e. active)
	return len(active) == 0 && (timers == 0 || !lockOK), bl
}

const (
	vOK = iota
	vStuck
	vInconclusive
)

// await polls cond. Positive verdicts need no quiescence; "never" does: when cond stays false the
// system is probed, and only three consecutive quiescent samples (50 ms apart) with cond still false
// make it definite. The 30 s wall-clock watchdog only ever yields "inconclusive".
func (w *vWorld) await(cond func() bool, ignore map[int]bool) (int, []kit.G) {
	start := time.Now()
	nextProbe := start.Add(1500 * time.Millisecond)
	for {
		if cond() {
			return vOK, nil
		}
		now := time.Now()
		if now.After(nextProbe) {
			calm := 0
			for k := 0; k < 3; k++ {
				q, _ := w.quiescentSample(ignore)
				if !q {
					break
				}
				calm++
				time.Sleep(50 * time.Millisecond)
				if cond() {
					return vOK, nil
				}
			}
			if calm == 3 {
				if q, b := w.quiescentSample(ignore); q && !cond() {
					return vStuck, b
				}
			}
			nextProbe = time.Now().Add(500 * time.Millisecond)
		}
		if now.Sub(start) > 30*time.Second {
			return vInconclusive, nil
		}
		time.Sleep(200 * time.Microsecond)
	}
}

// ---------------------------------------------------------------------------------------------
// running one history

type vOutcome struct {
	Events      []vEvent
	Drained     bool     // every uncancelled request replied, every started runner closed, nothing loaded
	Stuck       bool     // quiescent without having drained: definite
	Phase       string   // phase in which it got stuck
	Inconcl     string   // non-empty: watchdog fired
	Witness     []string // blocked goroutines (stuck only)
	LoadedLeft  int
	RefsLeft    int
	InGetRunner int
	Unreplied   []int
	Unclosed    []int
	Mocks       []*vMock
	World       *vWorld
}

func (w *vWorld) replyState() (unreplied, unclosed []int) {
	evs := w.log.snapshot()
	replied := map[int]bool{}
	closed := map[int]bool{}
	var started []int
	for _, e := range evs {
		switch e.Kind {
		case "grant", "error":
			replied[e.Req] = true
		case "start":
			started = append(started, e.Runner)
		case "close-end":
			closed[e.Runner] = true
		}
	}
	for id, rs := range w.reqs {
		if !rs.cancelled.Load() && !replied[id] {
			unreplied = append(unreplied, id)
		}
	}
	for _, r := range started {
		if !closed[r] {
			unclosed = append(unclosed, r)
		}
	}
	sort.Ints(unreplied)
	return
}

func (w *vWorld) drained() bool {
	u, c := w.replyState()
	if len(u) != 0 || len(c) != 0 {
		return false
	}
	_, loaded, refs, ok := w.pendingTimers()
	return ok && loaded == 0 && refs == 0
}

func vRunHistory(t testing.TB, h *vHistory, ignore map[int]bool) *vOutcome {
	prev := runtime.GOMAXPROCS(h.Procs)
	defer runtime.GOMAXPROCS(prev)
	for _, g := range kit.Goroutines() {
		if g.Has(vPkg) && !(g.Has("testing.tRunner") && !g.Has("runClient")) {
			ignore[g.ID] = true // leftovers of earlier histories
		}
	}
	w := newVWorld(t, h)
	out := &vOutcome{}
	for _, c := range h.Clients {
		w.clients.Add(1)
		go w.runClient(c)
	}
	var clientsDone, unloadDone atomic.Bool
	go func() { w.clients.Wait(); clientsDone.Store(true) }()

	finish := func() *vOutcome {
		out.Events = w.log.snapshot()
		w.mu.Lock()
		out.Mocks = append([]*vMock(nil), w.mocks...)
		w.mu.Unlock()
		out.World = w
		w.openGate()
		w.cancel()
		vSlogH.plan.Store(nil)
		lw := make(chan struct{})
		go func() { w.listeners.Wait(); close(lw) }()
		select {
		case <-lw:
		case <-time.After(2 * time.Second):
		}
		return out
	}
	phase := func(name string, cond func() bool) bool {
		res, bl := w.await(cond, ignore)
		switch res {
		case vOK:
			return true
		case vInconclusive:
			out.Inconcl = name + ": neither reached nor quiescent within the watchdog"
			active, _ := vRelevant(ignore)
			var fr []string
			for _, g := range active {
				fr = append(fr, "["+g.State+"] "+strings.Join(g.Frames[:min(len(g.Frames), 4)], " < "))
			}
			sort.Strings(fr)
			u, c := w.replyState()
			_, loaded, refs, _ := w.pendingTimers()
			_, bl := vRelevant(ignore)
			var bf []string
			for _, g := range bl {
				bf = append(bf, "["+g.State+"] "+strings.Join(g.Frames[:min(len(g.Frames), 3)], " < "))
			}
			sort.Strings(bf)
			out.Inconcl += fmt.Sprintf(" (unreplied %v, unclosed %v, loaded %d, refs %d; active: %s; blocked: %s)", u, c, loaded, refs, strings.Join(fr[:min(len(fr), 6)], " | "), strings.Join(bf[:min(len(bf), 8)], " | "))
			return false
		}
		out.Stuck = true
		out.Phase = name
		_, out.LoadedLeft, out.RefsLeft, _ = w.pendingTimers()
		out.InGetRunner = int(w.inGet.Load())
		out.Unreplied, out.Unclosed = w.replyState()
		for _, g := range bl {
			top := g.Top(vPkg)
			if strings.Contains(top, "vWorld") && g.State == "select" && !strings.Contains(top, "holdAndRelease") {
				continue // lingering listeners
			}
			out.Witness = append(out.Witness, fmt.Sprintf("[%s] %s", g.State, strings.Join(g.Frames[:min(len(g.Frames), 6)], " < ")))
		}
		sort.Strings(out.Witness)
		return false
	}

	if !phase("clients", clientsDone.Load) {
		return finish()
	}
	if h.FinalUnload {
		// "keep-alive periods have elapsed" cannot happen for forever-runners: unload them explicitly,
		// from a disposable goroutine (the monitor never blocks on a scheduler lock)
		go func() {
			for i := range w.models {
				w.log.add("unload-call", 0, 0, i, "final")
				w.s.expireRunner(w.models[i])
				w.log.add("unload-ret", 0, 0, i, "final")
			}
			unloadDone.Store(true)
		}()
		if !phase("final-unload", unloadDone.Load) {
			return finish()
		}
	}
	// A request that was cancelled while it waited for room can still be loaded afterwards (its load may
	// succeed although the requester is gone); with a forever keep-alive such a late runner needs the explicit
	// unload again, so the unload of forever-runners is repeated while draining.
	// (At most 6 repetitions: every call posts an expiry event, and hammering expireRunner while a slow
	// multi-GPU unload is in progress fills the scheduler's expiredCh (capacity OLLAMA_MAX_QUEUE), on which
	// the completion loop itself then blocks — an artefact of an abusive client, not of the histories meant here.)
	var lastUnload time.Time
	var unloading atomic.Bool
	unloadRounds := 0
	drainCond := func() bool {
		if w.drained() {
			return true
		}
		if h.FinalUnload && unloadRounds < 6 && time.Since(lastUnload) > 150*time.Millisecond && unloading.CompareAndSwap(false, true) {
			lastUnload = time.Now()
			unloadRounds++
			go func() {
				defer unloading.Store(false)
				for i := range w.models {
					w.s.expireRunner(w.models[i])
				}
			}()
		}
		return false
	}
	if !phase("drain", drainCond) {
		return finish()
	}
	out.Drained = true
	// grace: let trailing goroutines (finish events of cancelled requests, re-queued expiries) settle so
	// that a late second reply or second Close is still recorded
	for i := 0; i < 400; i++ {
		if q, _ := w.quiescentSample(ignore); q {
			break
		}
		time.Sleep(250 * time.Microsecond)
	}
	return finish()
}

func vSilenceSlog() {
	slog.SetDefault(slog.New(vSlogH))
	_ = io.Discard
}

func vHitCounts() map[string]int64 {
	vSlogH.mu.Lock()
	defer vSlogH.mu.Unlock()
	o := map[string]int64{}
	for k, v := range vSlogH.hits {
		o[k] = v
	}
	return o
}

// ---------------------------------------------------------------------------------------------
// history generator

type vProfile struct {
	name         string
	blockLoads   bool // C01 only: loads that block until the requester cancels
	queueFull    int  // per mille of histories that are the queue-full scenario
	multiGPU     int  // per mille of histories with a non-metal / multi-GPU inventory (each unload costs real time)
	optVariants  bool // vary ctx / num_gpu / batch / adapters (reload decisions)
	vramPressure bool // GPU sizes and mock VRAM chosen so that co-loading sometimes does not fit
	lateLoad     int  // per mille of histories that are the "load succeeds for a requester who has left" scenario
	pingCancel   int  // per mille of histories that are the "client leaves during the health check of a loaded runner" scenario
	busyPingFail int  // per mille of histories that are the "health check of a BUSY runner fails" scenario
}

func contextWithCancel(w *vWorld) (context.Context, context.CancelFunc) {
	return context.WithCancel(w.ctx)
}

func vGenHistory(r *kit.Rand, idx int, p vProfile) *vHistory {
	h := &vHistory{Index: idx, Profile: p.name}
	h.Models = r.Range(2, 5)
	h.MaxLoaded = kit.Pick(r, []int{1, 1, 2, 2, 3, 0})
	h.NumParallel = kit.Pick(r, []int{1, 1, 2, 4, 0})
	h.MaxQueue = kit.Pick(r, []int{8, 16, 64, 512})
	h.Procs = kit.Pick(r, []int{1, 2, 4, 8, 16})
	h.ReschedUs = r.Range(500, 5000)
	h.Delays = map[string]int{}
	for _, pnt := range vDelayPoints {
		if r.Chance(1, 3) {
			h.Delays[pnt] = r.Range(1, 3)
			if h.Delays[pnt] == 3 && r.Chance(2, 3) {
				h.Delays[pnt] = 2
			}
		} else {
			h.Delays[pnt] = 0 // still counted as reached
		}
	}
	// GPUs
	if r.Intn(1000) < p.multiGPU {
		n := r.Range(2, 3)
		lib := kit.Pick(r, []string{"cuda", "metal"})
		for i := 0; i < n; i++ {
			tot := kit.Pick(r, []int{2048, 8192, 24576})
			h.GPUs = append(h.GPUs, vGPU{lib, fmt.Sprint(i), tot - r.Intn(tot/2), tot})
		}
	} else {
		tot := kit.Pick(r, []int{1024, 8192, 24576})
		h.GPUs = []vGPU{{"metal", "0", tot, tot}}
	}
	for i := 0; i < 8; i++ {
		mp := vMockPlan{VRAMMB: kit.Pick(r, []int{0, 100, 900, 4000, 7000})}
		if r.Chance(1, 4) {
			mp.PingFail = []int{r.Range(1, 4)}
			if r.Chance(1, 3) {
				mp.PingFail = append(mp.PingFail, r.Range(1, 6))
			}
		}
		if r.Chance(1, 3) {
			mp.PingDelay = r.Range(20, 400)
		}
		if r.Chance(1, 3) {
			mp.CloseDelay = r.Range(20, 800)
		}
		h.MockPlans = append(h.MockPlans, mp)
	}
	if len(h.GPUs) > 1 {
		// every unload of a multi-GPU runner waits for "VRAM recovery" (250 ms polls of the real system memory,
		// up to 5 s when the free memory does not rise by 80 % of the runner's estimate): keep the estimate 0 so
		// that the first poll converges and such histories stay within the watchdog
		for i := range h.MockPlans {
			h.MockPlans[i].VRAMMB = 0
		}
	}
	nextReq := 1
	mkReq := func() vAction {
		a := vAction{Op: "req", Req: nextReq, Model: r.Intn(h.Models), NumCtx: 8, NumGPU: -1}
		nextReq++
		if r.Chance(2, 3) {
			a.Model = r.Intn(min(2, h.Models)) // concentrate on few models so that requests collide
		}
		if p.optVariants && r.Chance(1, 4) {
			a.NumCtx = kit.Pick(r, []int{2, 8, 16, 32})
			a.NumGPU = kit.Pick(r, []int{-1, -1, 1, 2, 0})
			a.NumBatch = kit.Pick(r, []int{0, 0, 64})
			a.Adapter = kit.Pick(r, []int{0, 0, 0, 1})
		}
		a.KeepAliveUs = kit.Pick(r, []int{0, 0, 200, 1000, 5000, 20000, -1})
		if r.Chance(1, 10) {
			a.NilKeep = true
		}
		a.Hold = kit.Pick(r, []int{0, 1, 4, 16, 64})
		a.LoadMode = "ok"
		a.LoadDelayUs = kit.Pick(r, []int{0, 0, 50, 300, 2000})
		if r.Chance(1, 8) {
			a.LoadMode = "fail"
		}
		if r.Chance(1, 7) {
			a.CancelAt = r.Range(1, 40)
			if p.blockLoads && r.Chance(1, 3) {
				a.LoadMode = "block"
			} else if r.Chance(1, 2) {
				a.LoadMode = "ok-late"
				a.LoadDelayUs = kit.Pick(r, []int{300, 1000, 3000})
			}
		} else if r.Chance(1, 12) {
			a.CancelInPing = true
		}
		return a
	}
	if r.Intn(1000) < p.queueFull {
		// queue-full scenario: one runner slot, a gated holder on model 0, a request for model 1 that
		// makes the pending loop wait for the unload, then a burst larger than the queue from ONE goroutine.
		h.Profile = p.name + "/queue-full"
		h.MaxLoaded = 1
		h.MaxQueue = kit.Pick(r, []int{2, 4, 8})
		h.Models = max(h.Models, 2)
		holder := vAction{Op: "req", Req: nextReq, Model: 0, NumCtx: 8, NumGPU: -1, KeepAliveUs: 1000, Gated: true, Hold: 2, LoadMode: "ok"}
		nextReq++
		blocker := vAction{Op: "req", Req: nextReq, Model: 1, NumCtx: 8, NumGPU: -1, KeepAliveUs: 1000, Hold: 2, LoadMode: "ok"}
		nextReq++
		burst := vAction{Op: "burst", Req: nextReq, Model: r.Intn(2), NumCtx: 8, NumGPU: -1, KeepAliveUs: 500, Hold: 1, LoadMode: "ok", Burst: h.MaxQueue + r.Range(2, 6), Lanes: kit.Pick(r, []int{1, 2, 4, 8})}
		nextReq += burst.Burst
		h.Clients = [][]vAction{
			{holder},
			{{Op: "sleep", SleepUs: 3000}, blocker},
			{{Op: "sleep", SleepUs: 8000}, burst},
		}
		h.NReq = nextReq - 1
		return h
	}
	if r.Intn(1000) < p.lateLoad {
		// A's load becomes ready although A has cancelled meanwhile; B and C ask for the same model right behind it
		// and hold it; short keep-alives and an explicit unload make any stray reference release visible as a Close
		h.Profile = p.name + "/late-load"
		a := vAction{Op: "req", Req: nextReq, Model: 0, NumCtx: 8, NumGPU: -1, KeepAliveUs: kit.Pick(r, []int{0, 1000, 5000}), LoadMode: "ok-late",
			LoadDelayUs: kit.Pick(r, []int{1000, 3000}), CancelAt: r.Range(2, 12)}
		nextReq++
		b := vAction{Op: "req", Req: nextReq, Model: 0, NumCtx: 8, NumGPU: -1, KeepAliveUs: kit.Pick(r, []int{0, 1000, 5000}), Hold: 64, LoadMode: "ok"}
		nextReq++
		c := vAction{Op: "req", Req: nextReq, Model: 0, NumCtx: 8, NumGPU: -1, KeepAliveUs: kit.Pick(r, []int{0, 1000}), Hold: 32, LoadMode: "ok"}
		nextReq++
		d := vAction{Op: "req", Req: nextReq, Model: r.Intn(2), NumCtx: 8, NumGPU: -1, KeepAliveUs: 1000, Hold: 16, LoadMode: "ok"}
		nextReq++
		h.Clients = [][]vAction{
			{a},
			{{Op: "sleep", SleepUs: kit.Pick(r, []int{100, 400})}, b},
			{{Op: "sleep", SleepUs: kit.Pick(r, []int{300, 1500})}, c, {Op: "unload", Model: 0}},
			{{Op: "sleep", SleepUs: kit.Pick(r, []int{2000, 6000})}, d},
		}
		h.NReq = nextReq - 1
		return h
	}
	if r.Intn(1000) < p.pingCancel {
		// A loads model 0 and leaves it idle under a finite keep-alive; B (and later C) ask for the same model with
		// the same options and leave while the scheduler is health-checking the loaded runner for them. No forever
		// keep-alive and no explicit unload: the history must drain through the keep-alive timers alone.
		h.Profile = p.name + "/ping-cancel"
		ka := func() int { return kit.Pick(r, []int{1000, 5000, 20000}) }
		a := vAction{Op: "req", Req: nextReq, Model: 0, NumCtx: 8, NumGPU: -1, KeepAliveUs: ka(), Hold: kit.Pick(r, []int{0, 4, 16}), LoadMode: "ok"}
		nextReq++
		b := vAction{Op: "req", Req: nextReq, Model: 0, NumCtx: 8, NumGPU: -1, KeepAliveUs: ka(), Hold: 4, LoadMode: "ok", CancelInPing: true}
		nextReq++
		c := vAction{Op: "req", Req: nextReq, Model: 0, NumCtx: 8, NumGPU: -1, KeepAliveUs: ka(), Hold: 4, LoadMode: "ok", CancelInPing: r.Chance(1, 2)}
		nextReq++
		d := vAction{Op: "req", Req: nextReq, Model: 1, NumCtx: 8, NumGPU: -1, KeepAliveUs: 1000, Hold: 8, LoadMode: "ok"}
		nextReq++
		for i := range h.MockPlans {
			h.MockPlans[i].PingFail = nil
		}
		h.Clients = [][]vAction{
			{a, {Op: "sleep", SleepUs: kit.Pick(r, []int{100, 400})}, b, {Op: "sleep", SleepUs: kit.Pick(r, []int{50, 300})}, c},
			{{Op: "sleep", SleepUs: kit.Pick(r, []int{500, 3000})}, d},
		}
		h.NReq = nextReq - 1
		return h
	}
	if r.Intn(1000) < p.busyPingFail {
		// A holds model 0's runner; B (and later C) ask for the same model with the same options while A is still
		// at work, and the health check the scheduler makes for them fails once: the runner must be replaced, but not
		// before A is done with it, and A's release must not be booked on the replacement. B keeps its runner
		// longer than A and asks for keep_alive 0, so a reference that goes missing shows at once.
		h.Profile = p.name + "/busy-ping-fail"
		a := vAction{Op: "req", Req: nextReq, Model: 0, NumCtx: 8, NumGPU: -1, KeepAliveUs: kit.Pick(r, []int{0, 1000, 5000}), Hold: kit.Pick(r, []int{16, 32}), LoadMode: "ok"}
		nextReq++
		b := vAction{Op: "req", Req: nextReq, Model: 0, NumCtx: 8, NumGPU: -1, KeepAliveUs: 0, Hold: 64, LoadMode: "ok"}
		nextReq++
		c := vAction{Op: "req", Req: nextReq, Model: 0, NumCtx: 8, NumGPU: -1, KeepAliveUs: kit.Pick(r, []int{0, 1000}), Hold: 8, LoadMode: "ok"}
		nextReq++
		d := vAction{Op: "req", Req: nextReq, Model: 1, NumCtx: 8, NumGPU: -1, KeepAliveUs: 1000, Hold: 8, LoadMode: "ok"}
		nextReq++
		for i := range h.MockPlans {
			h.MockPlans[i].PingFail = []int{1}
			h.MockPlans[i].PingDelay = kit.Pick(r, []int{0, 0, 100})
		}
		h.MaxLoaded = kit.Pick(r, []int{0, 2, 3})
		h.NumParallel = kit.Pick(r, []int{2, 4})
		h.Clients = [][]vAction{
			{a},
			{{Op: "sleep", SleepUs: kit.Pick(r, []int{200, 500})}, b},
			{{Op: "sleep", SleepUs: kit.Pick(r, []int{400, 2500})}, c},
			{{Op: "sleep", SleepUs: kit.Pick(r, []int{1000, 6000})}, d},
		}
		h.NReq = nextReq - 1
		return h
	}
	nc := r.Range(1, 8)
	total := r.Range(3, 40)
	h.Clients = make([][]vAction, nc)
	for i := 0; i < total; i++ {
		c := r.Intn(nc)
		switch {
		case r.Chance(1, 8):
			h.Clients[c] = append(h.Clients[c], vAction{Op: "unload", Model: r.Intn(min(2, h.Models))})
		case r.Chance(1, 8):
			h.Clients[c] = append(h.Clients[c], vAction{Op: "sleep", SleepUs: kit.Pick(r, []int{50, 300, 1500, 6000})})
		default:
			a := mkReq()
			if a.KeepAliveUs < 0 || a.NilKeep {
				h.FinalUnload = h.FinalUnload || a.KeepAliveUs < 0
			}
			h.Clients[c] = append(h.Clients[c], a)
		}
	}
	h.NReq = nextReq - 1
	return h
}

// vAbstract summarises an execution as the order of its racy event kinds (for distinct counting).
func vAbstract(evs []vEvent) (sig string, overlaps int) {
	var b strings.Builder
	holding := map[int]int{} // runner -> outstanding grants
	last := ""
	for _, e := range evs {
		var c string
		switch e.Kind {
		case "grant":
			holding[e.Runner]++
			c = "G"
		case "release":
			holding[e.Runner]--
			c = "R"
		case "close-begin":
			c = "C"
		case "start":
			c = "S"
		case "unload-call":
			c = "U"
			for _, n := range holding {
				if n > 0 {
					overlaps++
					break
				}
			}
		case "wait-end":
			if e.Info == "err" {
				c = "F"
			}
		case "cancel":
			c = "X"
		case "error":
			c = "E"
		case "ping":
			continue
		}
		if c != "" && c != last {
			b.WriteString(c)
			last = c
		}
	}
	return b.String(), overlaps
}
