//go:build verif

package server

// C15: concurrent API use causes no data race, no panic and no torn view of running models.
// Real gin router + real Scheduler (mock runners) + real model store in a temp dir, hammered by
// 8-32 client goroutines under the race detector. Monitors: race reports (parsed by the driver),
// recovered panics (gin's error writer), process death, /api/ps replies checked against the mock
// runner event log with interval logic, and a quiescence check at the end (lock-order deadlocks).

import (
	"bytes"
	"context"
	"crypto/sha256"
	"encoding/json"
	"errors"
	"fmt"
	"io"
	"log/slog"
	"net/http"
	"net/http/httptest"
	"os"
	"runtime"
	"sort"
	"strings"
	"sync"
	"sync/atomic"
	"testing"
	"time"

	"github.com/gin-gonic/gin"

	"github.com/ollama/ollama/api"
	"github.com/ollama/ollama/discover"
	"github.com/ollama/ollama/fs/ggml"
	"github.com/ollama/ollama/llm"

	kit "verifkit"
)

type c15Event struct {
	Seq    int64
	Kind   string // start close-begin close-end
	Runner int
	Path   string
}

type c15Log struct {
	mu  sync.Mutex
	evs []c15Event
	seq int64
}

func (l *c15Log) add(kind string, runner int, path string) int64 {
	l.mu.Lock()
	defer l.mu.Unlock()
	l.seq++
	l.evs = append(l.evs, c15Event{l.seq, kind, runner, path})
	return l.seq
}

func (l *c15Log) tick() int64 {
	l.mu.Lock()
	defer l.mu.Unlock()
	l.seq++
	return l.seq
}

type c15Mock struct {
	log    *c15Log
	id     int
	path   string
	closed atomic.Int32
}

var errC15ScriptedLoad = errors.New("scripted load failure")

func (m *c15Mock) Ping(ctx context.Context) error { return nil }

// every 5th runner fails to start after a load of a few milliseconds (a crashed subprocess); every 3rd loads
// slowly enough for an impatient client to leave meanwhile
func (m *c15Mock) WaitUntilRunning(ctx context.Context) error {
	switch {
	case m.id%5 == 3:
		time.Sleep(time.Duration(1+m.id%3) * time.Millisecond)
		m.log.add("load-failed", m.id, m.path)
		return errC15ScriptedLoad
	case m.id%3 == 1:
		for i := 0; i < 10 && ctx.Err() == nil; i++ {
			time.Sleep(200 * time.Microsecond)
		}
	default:
		time.Sleep(200 * time.Microsecond)
	}
	return ctx.Err()
}
func (m *c15Mock) Completion(ctx context.Context, req llm.CompletionRequest, fn func(llm.CompletionResponse)) error {
	for _, p := range []string{"he", "llo", " wor", "ld"} {
		if ctx.Err() != nil {
			return ctx.Err()
		}
		fn(llm.CompletionResponse{Content: p})
		runtime.Gosched()
	}
	fn(llm.CompletionResponse{Done: true, DoneReason: llm.DoneReasonStop, PromptEvalCount: 3, EvalCount: 4})
	return nil
}
func (m *c15Mock) Embedding(ctx context.Context, input string) ([]float32, error) {
	return []float32{0.1, 0.2, 0.3}, nil
}
func (m *c15Mock) Tokenize(ctx context.Context, content string) ([]int, error) {
	return make([]int, len(strings.Fields(content))), nil
}
func (m *c15Mock) Detokenize(ctx context.Context, tokens []int) (string, error) { return "", nil }
func (m *c15Mock) Close() error {
	m.closed.Add(1)
	m.log.add("close-begin", m.id, m.path)
	time.Sleep(100 * time.Microsecond)
	m.log.add("close-end", m.id, m.path)
	return nil
}
func (m *c15Mock) EstimatedVRAM() uint64                  { return 1 << 20 }
func (m *c15Mock) EstimatedTotal() uint64                 { return 1 << 20 }
func (m *c15Mock) EstimatedVRAMByGPU(gpuID string) uint64 { return 1 << 20 }

type c15PanicWriter struct {
	mu  sync.Mutex
	buf bytes.Buffer
}

func (w *c15PanicWriter) Write(p []byte) (int, error) {
	w.mu.Lock()
	defer w.mu.Unlock()
	if w.buf.Len() < 1<<20 {
		w.buf.Write(p)
	}
	return len(p), nil
}

func (w *c15PanicWriter) take() string {
	w.mu.Lock()
	defer w.mu.Unlock()
	s := w.buf.String()
	w.buf.Reset()
	return s
}

type c15Round struct {
	Index     int    `json:"index"`
	Clients   int    `json:"clients"`
	OpsEach   int    `json:"ops_per_client"`
	MaxLoaded int    `json:"max_loaded"`
	Parallel  int    `json:"num_parallel"`
	Procs     int    `json:"gomaxprocs"`
	KeepAlive string `json:"keep_alive"`
	Models    int    `json:"models"`
	Mode      string `json:"mode,omitempty"` // "": C15 round; "c02api": C02's API part (more impatient clients, drain oracle, no race detector)
}

func c15GGUF(i int) []byte {
	f := kit.GFile{
		KVs: []kit.GKV{
			kit.StrKV("general.architecture", "llama"), kit.U32KV("general.file_type", 1), kit.U32KV("llama.context_length", 64),
			kit.U32KV("llama.embedding_length", 64), kit.U32KV("llama.block_count", 1), kit.U32KV("llama.attention.head_count", 4),
			kit.U32KV("llama.attention.head_count_kv", 4), kit.StrArrKV("tokenizer.ggml.tokens", "a", "b"),
			kit.ArrKV("tokenizer.ggml.scores", kit.GF32, float32(0), float32(0)), kit.ArrKV("tokenizer.ggml.token_type", kit.GI32, int32(1), int32(1)),
			kit.U32KV("verif.unique", uint32(i)),
		},
		Tensors: []kit.GTensor{{Name: "token_embd.weight", Dims: []uint64{8}, Kind: 0, Data: make([]byte, 32)}, {Name: "blk.0.attn_q.weight", Dims: []uint64{8}, Kind: 0, Data: make([]byte, 32)}, {Name: "output.weight", Dims: []uint64{8}, Kind: 0, Data: make([]byte, 32)}},
	}
	return f.Bytes()
}

type c15Viol struct{ Sig, What string }

func c15Do(c *http.Client, method, url string, body any) (int, []byte, error) {
	var rd io.Reader
	if body != nil {
		if b, ok := body.([]byte); ok {
			rd = bytes.NewReader(b)
		} else {
			b, _ := json.Marshal(body)
			rd = bytes.NewReader(b)
		}
	}
	req, _ := http.NewRequest(method, url, rd)
	req.Header.Set("Content-Type", "application/json")
	resp, err := c.Do(req)
	if err != nil {
		return 0, nil, err
	}
	defer resp.Body.Close()
	b, _ := io.ReadAll(resp.Body)
	return resp.StatusCode, b, nil
}

func c15RunRound(t *testing.T, r *kit.Rand, rd c15Round, rep *kit.Report, pw *c15PanicWriter) (vs []c15Viol, inconclusive string) {
	prev := runtime.GOMAXPROCS(rd.Procs)
	defer runtime.GOMAXPROCS(prev)
	dir, err := os.MkdirTemp("", "verif-c15-")
	if err != nil {
		t.Fatal(err)
	}
	defer os.RemoveAll(dir)
	t.Setenv("OLLAMA_MODELS", dir)
	t.Setenv("OLLAMA_MAX_LOADED_MODELS", fmt.Sprint(rd.MaxLoaded))
	t.Setenv("OLLAMA_NUM_PARALLEL", fmt.Sprint(rd.Parallel))
	t.Setenv("OLLAMA_MAX_QUEUE", "512")
	t.Setenv("OLLAMA_KEEP_ALIVE", rd.KeepAlive)

	log := &c15Log{}
	var mockMu sync.Mutex
	var mocks []*c15Mock
	ctx, cancel := context.WithCancel(context.Background())
	defer cancel()
	s := &Server{}
	s.sched = InitScheduler(ctx)
	s.sched.reschedDelay = time.Millisecond
	gpu := discover.GpuInfo{Library: "metal", ID: "0"}
	gpu.FreeMemory, gpu.TotalMemory = 32<<30, 32<<30
	s.sched.getGpuFn = func() discover.GpuInfoList { return discover.GpuInfoList{gpu} }
	s.sched.getCpuFn = func() discover.GpuInfoList {
		g := discover.GpuInfo{Library: "cpu", ID: "0"}
		g.FreeMemory, g.TotalMemory = 32<<30, 32<<30
		return discover.GpuInfoList{g}
	}
	s.sched.newServerFn = func(gpus discover.GpuInfoList, model string, f *ggml.GGML, adapters, projectors []string, opts api.Options, numParallel int) (llm.LlamaServer, error) {
		mockMu.Lock()
		m := &c15Mock{log: log, id: len(mocks) + 1, path: model}
		mocks = append(mocks, m)
		mockMu.Unlock()
		log.add("start", m.id, model)
		return m, nil
	}
	s.sched.Run(ctx)
	h, err := s.GenerateRoutes(nil)
	if err != nil {
		t.Fatal(err)
	}
	ts := httptest.NewServer(h)
	// not ts.Close(): it waits for every handler, and the handler of a request whose client left while it was
	// queued never returns (the scheduler skips a cancelled request without a reply and scheduleRunner does not
	// watch its context) - a goroutine leak of the code under test that no property here speaks about
	defer func() {
		ts.CloseClientConnections()
		ts.Listener.Close()
	}()
	hc := &http.Client{Timeout: 60 * time.Second, Transport: &http.Transport{MaxIdleConnsPerHost: 64}}
	defer hc.CloseIdleConnections()

	// pre-populate the store through the API
	var digests []string
	for i := 0; i < 3; i++ {
		b := c15GGUF(i)
		d := fmt.Sprintf("sha256:%x", sha256.Sum256(b))
		if st, body, err := c15Do(hc, "POST", ts.URL+"/api/blobs/"+d, b); err != nil || (st != 201 && st != 200) {
			return nil, fmt.Sprintf("setup blob upload: %v %d %s", err, st, body)
		}
		digests = append(digests, d)
	}
	names := []string{}
	for i := 0; i < rd.Models; i++ {
		n := fmt.Sprintf("m%d", i)
		creq := map[string]any{"model": n, "files": map[string]string{"m.gguf": digests[i%3]}, "stream": false}
		if i%2 == 0 {
			creq["template"] = "{{ .Prompt }}"
		} // odd models have no template layer: every request shares the package-level default template
		st, body, err := c15Do(hc, "POST", ts.URL+"/api/create", creq)
		if err != nil || st != 200 {
			return nil, fmt.Sprintf("setup create: %v %d %s", err, st, body)
		}
		names = append(names, n)
	}
	// map model path -> names, to interpret /api/ps
	pathOf := func(name string) string {
		m, err := GetModel(name)
		if err != nil {
			return ""
		}
		return m.ModelPath
	}
	basePaths := map[string]string{}
	for _, n := range names {
		basePaths[n+":latest"] = pathOf(n)
	}

	type psObs struct {
		call, ret int64
		models    []string
	}
	var psMu sync.Mutex
	var psSeen []psObs
	var wg sync.WaitGroup
	var ops atomic.Int64
	var fiveHundreds atomic.Int64
	var fiveSample atomic.Value
	stream := func(b bool) *bool { return &b }
	for c := 0; c < rd.Clients; c++ {
		wg.Add(1)
		cr := kit.NewRand(r.Uint64(), "client", c)
		go func(c int) {
			defer wg.Done()
			// an impatient client: it leaves 0.3-3 ms after sending, typically while the model is loading
			abandon := func(name string) {
				actx, acancel := context.WithTimeout(context.Background(), time.Duration(300+cr.Intn(2700))*time.Microsecond)
				b, _ := json.Marshal(map[string]any{"model": name, "prompt": "hi there", "stream": true, "keep_alive": "5ms"})
				req, _ := http.NewRequestWithContext(actx, "POST", ts.URL+"/api/generate", bytes.NewReader(b))
				if resp, e := hc.Do(req); e == nil {
					io.Copy(io.Discard, resp.Body)
					resp.Body.Close()
				}
				acancel()
				ops.Add(1)
				rep.Count("requests_generate-abandoned", 1)
			}
			for i := 0; i < rd.OpsEach; i++ {
				name := kit.Pick(cr, names)
				var st int
				var body []byte
				var err error
				if rd.Mode == "c02api" && cr.Intn(100) < 12 {
					abandon(name)
					continue
				}
				k := cr.Intn(100)
				kind := ""
				switch {
				case k < 4:
					abandon(name)
					continue
				case k < 22:
					kind = "generate"
					st, body, err = c15Do(hc, "POST", ts.URL+"/api/generate", map[string]any{"model": name, "prompt": "hi there", "stream": *stream(cr.Bool()), "keep_alive": kit.Pick(cr, []string{"1ms", "5ms", "0s", "20ms"})})
				case k < 36:
					kind = "chat"
					st, body, err = c15Do(hc, "POST", ts.URL+"/api/chat", map[string]any{"model": name, "messages": []map[string]string{{"role": "user", "content": "hello you"}}, "stream": *stream(cr.Bool()), "keep_alive": kit.Pick(cr, []string{"1ms", "5ms"})})
				case k < 44:
					kind = "embed"
					st, body, err = c15Do(hc, "POST", ts.URL+"/api/embed", map[string]any{"model": name, "input": "some text", "keep_alive": "2ms"})
				case k < 62:
					kind = "ps"
					call := log.tick()
					st, body, err = c15Do(hc, "GET", ts.URL+"/api/ps", nil)
					ret := log.tick()
					if err == nil && st == 200 {
						var pr api.ProcessResponse
						if json.Unmarshal(body, &pr) == nil {
							o := psObs{call: call, ret: ret}
							for _, m := range pr.Models {
								o.models = append(o.models, m.Name)
							}
							psMu.Lock()
							psSeen = append(psSeen, o)
							psMu.Unlock()
						}
					}
				case k < 68:
					kind = "tags"
					st, body, err = c15Do(hc, "GET", ts.URL+"/api/tags", nil)
				case k < 74:
					kind = "show"
					st, body, err = c15Do(hc, "POST", ts.URL+"/api/show", map[string]any{"model": name})
				case k < 80:
					kind = "unload"
					st, body, err = c15Do(hc, "POST", ts.URL+"/api/generate", map[string]any{"model": name, "keep_alive": 0})
				case k < 85:
					kind = "create"
					st, body, err = c15Do(hc, "POST", ts.URL+"/api/create", map[string]any{"model": fmt.Sprintf("tmp%d", cr.Intn(4)), "from": name, "system": fmt.Sprint("s", cr.Intn(3)), "stream": false})
				case k < 89:
					kind = "copy"
					st, body, err = c15Do(hc, "POST", ts.URL+"/api/copy", map[string]any{"source": name, "destination": fmt.Sprintf("tmp%d", cr.Intn(4))})
				case k < 93:
					kind = "delete"
					st, body, err = c15Do(hc, "DELETE", ts.URL+"/api/delete", map[string]any{"model": fmt.Sprintf("tmp%d", cr.Intn(4))})
				case k < 97:
					kind = "blob"
					b := c15GGUF(cr.Intn(3))
					st, body, err = c15Do(hc, "POST", ts.URL+"/api/blobs/"+fmt.Sprintf("sha256:%x", sha256.Sum256(b)), b)
				default:
					kind = "openai-chat"
					st, body, err = c15Do(hc, "POST", ts.URL+"/v1/chat/completions", map[string]any{"model": name, "messages": []map[string]string{{"role": "user", "content": "hello"}}})
				}
				ops.Add(1)
				rep.Count("requests_"+kind, 1)
				if err != nil {
					rep.Count("transport_errors", 1)
					continue
				}
				if st >= 500 {
					fiveHundreds.Add(1)
					fiveSample.Store(fmt.Sprintf("%s -> %d %s", kind, st, string(body[:min(len(body), 200)])))
				}
			}
		}(c)
	}
	done := make(chan struct{})
	go func() { wg.Wait(); close(done) }()
	watchdog := 120 * time.Second
	if rd.Mode == "c02api" {
		watchdog = 30 * time.Second
	}
	select {
	case <-done:
	case <-time.After(watchdog):
		// decided below from the goroutine dump: are clients parked on server locks?
		var locks, sends []string
		for _, g := range kit.Goroutines() {
			if g.State == "sync.Mutex.Lock" && g.Has("github.com/ollama/ollama/server.") {
				locks = append(locks, g.Top("github.com/ollama/ollama/server."))
			}
			if g.State == "chan send" && g.Has("github.com/ollama/ollama/server.(*Scheduler).") {
				sends = append(sends, g.Top("github.com/ollama/ollama/server."))
			}
		}
		if rd.Mode == "c02api" {
			if len(locks)+len(sends) > 0 {
				sort.Strings(locks)
				sort.Strings(sends)
				vs = append(vs, c15Viol{"c02:api:scheduler-wedged", fmt.Sprintf("requests whose clients are still waiting got no reply; scheduler goroutines blocked in a channel send: %v; goroutines parked on server mutexes: %v", sends, locks)})
				return vs, ""
			}
			return vs, "clients did not finish within 30 s and nothing is parked on a server mutex or scheduler channel"
		}
		if len(locks) > 0 {
			vs = append(vs, c15Viol{"c15:deadlock", fmt.Sprintf("requests did not finish; goroutines parked on server mutexes: %v", locks)})
			return vs, ""
		}
		return vs, "clients did not finish within 120 s and nothing is parked on a server mutex"
	}
	if rd.Mode == "c02api" {
		// drain: keep-alives are at most 20 ms here, so once every client is done the runners must go away:
		// /api/ps empty and every started mock closed. Decided at quiescence (scheduler loops parked in their
		// selects, nothing of the package runnable); the 10 s bound alone only yields inconclusive.
		drained := func() (bool, string) {
			st, body, err := c15Do(hc, "GET", ts.URL+"/api/ps", nil)
			var pr api.ProcessResponse
			if err != nil || st != 200 || json.Unmarshal(body, &pr) != nil {
				return false, fmt.Sprintf("/api/ps: %v %d", err, st)
			}
			mockMu.Lock()
			defer mockMu.Unlock()
			open := 0
			for _, m := range mocks {
				if m.closed.Load() == 0 {
					open++
				}
			}
			return len(pr.Models) == 0 && open == 0, fmt.Sprintf("/api/ps lists %d model(s), %d of %d started runners were never closed", len(pr.Models), open, len(mocks))
		}
		ok, what := false, ""
		for i := 0; i < 400 && !ok; i++ {
			if ok, what = drained(); !ok {
				time.Sleep(25 * time.Millisecond)
			}
		}
		rep.Count("api_rounds_drain_checked", 1)
		if !ok {
			busy := []string{}
			for _, g := range kit.Goroutines() {
				if !g.Has("github.com/ollama/ollama/server.(*Scheduler).") && !g.Has("github.com/ollama/ollama/server.(*runnerRef).") {
					continue
				}
				if g.State != "select" && g.State != "chan receive" {
					busy = append(busy, g.State+" "+g.Top("github.com/ollama/ollama/server."))
				}
			}
			if len(busy) == 0 {
				vs = append(vs, c15Viol{"c02:api:not-drained", "all clients are done and every keep-alive (<= 20 ms) has long elapsed, the scheduler is idle, but " + what})
			} else {
				return vs, "not drained after 10 s but scheduler goroutines are still active: " + strings.Join(busy, "; ")
			}
		}
		rep.Count("requests", int(ops.Load()))
		mockMu.Lock()
		rep.Count("runners_started", len(mocks))
		mockMu.Unlock()
		return vs, ""
	}
	rep.Count("requests", int(ops.Load()))
	// recovered panics
	if out := pw.take(); strings.Contains(out, "panic recovered") || strings.Contains(out, "[Recovery]") {
		site := "unknown"
		for _, ln := range strings.Split(out, "\n") {
			ln = strings.TrimSpace(ln)
			if strings.HasPrefix(ln, "/") && strings.Contains(ln, "/server/") && !strings.Contains(ln, "zz_verif") {
				site = ln[strings.LastIndex(ln, "/")+1:]
				if i := strings.Index(site, " "); i > 0 {
					site = site[:i]
				}
				site = strings.Split(site, ":")[0]
				break
			}
		}
		vs = append(vs, c15Viol{"c15:recovered-panic:" + site, "a request made a handler panic (gin recovery):\n" + out[:min(len(out), 3000)]})
	}
	if n := fiveHundreds.Load(); n > 0 {
		rep.Count("http_5xx", int(n))
		if s, ok := fiveSample.Load().(string); ok {
			rep.Set("http_5xx_sample", s)
		}
	}
	// torn view: a listed model needs a runner with start < reply-return that was not already closed when the request was sent
	evs := func() []c15Event { log.mu.Lock(); defer log.mu.Unlock(); return append([]c15Event(nil), log.evs...) }()
	type life struct{ start, closeEnd int64 }
	lives := map[string][]life{}
	idx := map[int]int{}
	for _, e := range evs {
		switch e.Kind {
		case "start":
			lives[e.Path] = append(lives[e.Path], life{start: e.Seq})
			idx[e.Runner] = len(lives[e.Path]) - 1
		case "close-end":
			l := lives[e.Path]
			if i, ok := idx[e.Runner]; ok && i < len(l) {
				l[i].closeEnd = e.Seq
			}
		}
	}
	listed := 0
	for _, o := range psSeen {
		for _, n := range o.models {
			listed++
			p := basePaths[n]
			if p == "" {
				// a temporary model (created from a base model): it runs on one of the base blobs; accept any path
				ok := false
				for _, l := range lives {
					for _, x := range l {
						if x.start < o.ret && (x.closeEnd == 0 || x.closeEnd > o.call) {
							ok = true
						}
					}
				}
				if !ok {
					vs = append(vs, c15Viol{"c15:ps-lists-torn-down-runner", fmt.Sprintf("/api/ps (call %d, return %d) listed %q but no runner at all was alive in that interval", o.call, o.ret, n)})
				}
				continue
			}
			ok := false
			for _, x := range lives[p] {
				if x.start < o.ret && (x.closeEnd == 0 || x.closeEnd > o.call) {
					ok = true
				}
			}
			if !ok {
				vs = append(vs, c15Viol{"c15:ps-lists-torn-down-runner", fmt.Sprintf("/api/ps (call %d, return %d) listed %q although every runner of that model had been closed before the request was sent (or none was started): %v", o.call, o.ret, n, lives[p])})
			}
		}
	}
	rep.Count("ps_replies_checked", len(psSeen))
	rep.Count("ps_listed_models_checked", listed)
	mockMu.Lock()
	rep.Count("runners_started", len(mocks))
	mockMu.Unlock()
	return vs, ""
}

func TestVerifC15(t *testing.T) {
	slog.SetDefault(slog.New(slog.NewTextHandler(io.Discard, nil)))
	gin.SetMode(gin.ReleaseMode)
	pw := &c15PanicWriter{}
	gin.DefaultErrorWriter = pw
	gin.DefaultWriter = io.Discard
	rep := kit.NewReport("C15")
	cfg := rep.Cfg()
	defer rep.Flush()
	rep.Set("rule", "round i = PRNG(seed,'C15',i): real router + real scheduler (mock runners) + real store; 8-32 client goroutines each issue 30-80 requests drawn from generate/chat (stream and not), embed, ps, tags, show, unload (keep_alive 0), create-from, copy, delete, blob upload, OpenAI chat, with keep-alives of 0-20 ms and MAX_LOADED_MODELS 1-2 so that loads and unloads are continuous; every 5th runner fails to start after 1-3 ms, every 3rd loads slowly, and 4 % of the requests are generate calls whose client leaves after 0.3-3 ms (loads that fail or are abandoned while /api/ps and other requests are in flight); built with -race. Violations: every distinct data-race report of the race detector (identity = innermost ollama frames of the two accesses), every handler panic recovered by gin, process death, a /api/ps reply listing a model all of whose runners had completed Close before the request was sent, and requests that never finish with goroutines parked on server mutexes. Non-trivial & distinct = distinct (clients, max_loaded, parallel, gomaxprocs, keep_alive) configurations of rounds in which at least one runner was closed while requests were in flight")
	rep.Set("assumptions", []string{"mock runners; pull/push are not in the statement's list of request kinds and are not driven here", "race identity: pair of innermost github.com/ollama/ollama frames (function names)"})
	n := cfg.N(18, 480)
	for i := 0; i < n; i++ {
		if !cfg.Mine(i) || rep.Enough() || rep.OverBudget() {
			continue
		}
		r := kit.NewRand(cfg.Seed, "C15", i)
		rd := c15Round{Index: i, Clients: kit.Pick(r, []int{8, 16, 32}), OpsEach: r.Range(30, 80), MaxLoaded: r.Range(1, 2), Parallel: kit.Pick(r, []int{1, 2, 4}),
			Procs: kit.Pick(r, []int{2, 4, 8, 16}), KeepAlive: kit.Pick(r, []string{"1ms", "5ms", "20ms"}), Models: r.Range(2, 3)}
		rep.Journal([]byte(fmt.Sprintf("C15 round %+v", rd)))
		vs, inc := c15RunRound(t, r, rd, rep, pw)
		rep.Eval(1)
		if inc != "" {
			rep.Inconclusive(fmt.Sprintf("round %d: %s", i, inc))
			continue
		}
		for _, v := range vs {
			rep.Violate(v.Sig, v.What, rd, nil)
		}
		rep.Distinct(fmt.Sprint(rd.Clients, rd.MaxLoaded, rd.Parallel, rd.Procs, rd.KeepAlive, rd.Models))
		rep.Sample(rd)
	}
}
