//go:build verif

package server

// C13: model names and digests cannot address anything outside the model store.
//
// Runtime monitor over generated hostile strings. Every string is pushed, as a model name, as a
// name-relative path or as a blob digest, through the real entry points that turn it into a path:
//
//	legacy store : model.ParseName/IsValid/Filepath/String, model.ParseNameFromFilepath,
//	               ParseModelPath(..).GetManifestPath, GetBlobsPath, getExistingName (+WriteManifest/Manifests)
//	new store    : blob.ParseDigest, DiskCache.GetFile/Link/Resolve (names.Parse via blob.nameToPath),
//	               ollama.CompleteName (names.Parse+Merge+String), Registry.ResolveLocal
//	               (parseNameExtended/splitExtended), Registry.Unlink (parseName)
//
// The oracle looks at the *paths* (returned strings, and the real files that appear in a temp tree that
// is swept after every file-system operation), at print/parse round trips, at resolution through
// case variants, and at the agreement of the two name parsers on printed fully qualified names.

import (
	"errors"
	"fmt"
	"io"
	"io/fs"
	"log/slog"
	"os"
	"path/filepath"
	"runtime"
	"sort"
	"strconv"
	"strings"
	"testing"

	kit "verifkit"

	"github.com/ollama/ollama/server/internal/cache/blob"
	"github.com/ollama/ollama/server/internal/client/ollama"
	"github.com/ollama/ollama/types/model"
)

// ------------------------------------------------------------------------------------------------
// environment: one temp tree per process
//
//	<root>/v1/v2/v3/v4/v5/v6/models   legacy store (OLLAMA_MODELS)
//	<root>/v1/v2/v3/v4/v5/v6/cache    blob.DiskCache
//
// The stores sit six levels below the observed root so that an upward traversal of a few levels (the
// generator never emits more than four consecutive "..") stays inside the tree that the sweep observes.

type c13Env struct {
	root, deep, models, cacheDir string
	cache                        *blob.DiskCache
	rc                           *ollama.Registry
	blobs                        [3]blob.Digest // blobs present in the cache; all sizes differ
	data                         [3]string
	cnt                          map[string]int
	skeleton                     map[string]bool // directories that are allowed to exist (relative to root)
}

// c13TempRoot: the observed tree lives on tmpfs when there is one. The workload is a few hundred metadata
// operations (mkdir/create/unlink/readdir) per accepted name; on a journaled disk shared with other builds its
// wall time is dominated by I/O wait (measured 26 s vs 4.7 s per 10k cases on a loaded machine). Path semantics
// that matter here (separator, NAME_MAX 255, case sensitivity) are the same. VERIF_C13_DISK=1 forces t.TempDir().
func c13TempRoot(t *testing.T) string {
	if st, err := os.Stat("/dev/shm"); err == nil && st.IsDir() && os.Getenv("VERIF_C13_DISK") == "" {
		if d, err := os.MkdirTemp("/dev/shm", "verif-c13-"); err == nil {
			t.Cleanup(func() { os.RemoveAll(d) })
			return d
		}
	}
	return t.TempDir()
}

func c13NewEnv(t *testing.T) *c13Env {
	e := &c13Env{cnt: map[string]int{}, skeleton: map[string]bool{".": true}}
	e.root = c13TempRoot(t)
	rel := ""
	for i := 1; i <= 6; i++ {
		rel = filepath.Join(rel, fmt.Sprintf("v%d", i))
		e.skeleton[rel] = true
	}
	e.deep = filepath.Join(e.root, rel)
	e.models = filepath.Join(e.deep, "models")
	e.cacheDir = filepath.Join(e.deep, "cache")
	for _, d := range []string{"models", "models/blobs", "models/manifests", "cache", "cache/blobs", "cache/manifests"} {
		e.skeleton[filepath.Join(rel, d)] = true
		if err := os.MkdirAll(filepath.Join(e.deep, d), 0o755); err != nil {
			t.Fatal(err)
		}
	}
	t.Setenv("OLLAMA_MODELS", e.models)
	c, err := blob.Open(e.cacheDir)
	if err != nil {
		t.Fatal(err)
	}
	e.cache = c
	e.rc = &ollama.Registry{Cache: c}
	e.data = [3]string{`{}`, `{"layers":[]}`, `{"layers":[],"config":null}`}
	for i, s := range e.data {
		e.blobs[i] = blob.DigestFromBytes(s)
		if err := blob.PutBytes(c, e.blobs[i], s); err != nil {
			t.Fatal(err)
		}
	}
	return e
}

// sweep walks the whole observed tree. It returns the regular files found at depth exactly 4 below the
// two manifests directories (relative, slash separated) and everything that must not exist ("strays":
// any file or directory outside the skeleton, any file below manifests at another depth, any blob with a
// name that is not sha256-<64 lower hex>). Strays are removed.
func (e *c13Env) sweep() (legacy, cached, strays []string) {
	relDeep, _ := filepath.Rel(e.root, e.deep)
	lm := filepath.Join(relDeep, "models", "manifests")
	cm := filepath.Join(relDeep, "cache", "manifests")
	cb := filepath.Join(relDeep, "cache", "blobs")
	filepath.WalkDir(e.root, func(p string, d fs.DirEntry, err error) error {
		if err != nil {
			strays = append(strays, p+" (walk error: "+err.Error()+")")
			return nil
		}
		rel, _ := filepath.Rel(e.root, p)
		if e.skeleton[rel] {
			return nil
		}
		for _, m := range []struct {
			dir string
			out *[]string
		}{{lm, &legacy}, {cm, &cached}} {
			if strings.HasPrefix(rel, m.dir+"/") {
				sub := rel[len(m.dir)+1:]
				depth := strings.Count(sub, "/") + 1
				switch {
				case d.IsDir() && depth <= 3:
				case d.Type().IsRegular() && depth == 4:
					*m.out = append(*m.out, sub)
				default:
					strays = append(strays, rel)
				}
				return nil
			}
		}
		if d.Type().IsRegular() && filepath.Dir(rel) == cb && len(d.Name()) == 71 && strings.HasPrefix(d.Name(), "sha256-") {
			if _, hx, ok := c13WellFormedDigest(d.Name()); ok && hx == strings.ToLower(hx) {
				return nil
			}
		}
		strays = append(strays, rel)
		if d.IsDir() {
			os.RemoveAll(p)
			return filepath.SkipDir
		}
		os.Remove(p)
		return nil
	})
	return legacy, cached, strays
}

// blobsIntact: the three blobs the harness put into the cache are still there, byte for byte (a hostile name
// must not be able to unlink or overwrite them).
func (e *c13Env) blobsIntact() string {
	for i, d := range e.blobs {
		b, err := os.ReadFile(e.cache.GetFile(d))
		if err != nil || string(b) != e.data[i] {
			return fmt.Sprintf("blob %v of the cache is damaged: %q, %v (want %q)", d, b, err, e.data[i])
		}
	}
	return ""
}

func (e *c13Env) cleanManifests() {
	e.cleanDir(filepath.Join(e.models, "manifests"))
	e.cleanDir(filepath.Join(e.cacheDir, "manifests"))
}

// listManifests walks one manifests directory only: regular files at depth exactly 4 (relative, slash
// separated) and everything else that is not a directory at depth <= 3 ("odd").
func (e *c13Env) listManifests(mdir string) (files, odd []string) {
	filepath.WalkDir(mdir, func(p string, d fs.DirEntry, err error) error {
		if p == mdir {
			return nil
		}
		sub := p[len(mdir)+1:]
		depth := strings.Count(sub, "/") + 1
		switch {
		case err != nil:
			odd = append(odd, sub+" ("+err.Error()+")")
		case d.IsDir() && depth <= 3:
		case d.Type().IsRegular() && depth == 4:
			files = append(files, sub)
		default:
			odd = append(odd, sub)
			if d.IsDir() {
				return filepath.SkipDir
			}
		}
		return nil
	})
	return files, odd
}

func (e *c13Env) cleanDir(d string) {
	ents, _ := os.ReadDir(d)
	for _, x := range ents {
		os.RemoveAll(filepath.Join(d, x.Name()))
	}
}

// ------------------------------------------------------------------------------------------------
// independent helpers (no code of the system under test)

func c13IsHex(c byte) bool {
	return c >= '0' && c <= '9' || c >= 'a' && c <= 'f' || c >= 'A' && c <= 'F'
}

// c13WellFormedDigest: "sha256" + one of ":-" + exactly 64 hex digits, nothing else.
func c13WellFormedDigest(s string) (sep byte, hexpart string, ok bool) {
	if len(s) != 6+1+64 || s[:6] != "sha256" || (s[6] != ':' && s[6] != '-') {
		return 0, "", false
	}
	for i := 7; i < len(s); i++ {
		if !c13IsHex(s[i]) {
			return 0, "", false
		}
	}
	return s[6], s[7:], true
}

// c13SplitPrinted splits the printed form host/namespace/model:tag without validating the parts.
func c13SplitPrinted(p string) ([]string, bool) {
	i := strings.LastIndexByte(p, ':')
	j := strings.LastIndexByte(p, '/')
	if i < 0 || j < 0 || i < j {
		return nil, false
	}
	segs := strings.Split(p[:i], "/")
	if len(segs) != 3 {
		return nil, false
	}
	return append(segs, p[i+1:]), true
}

func c13BadComponent(c string) bool {
	return c == "" || c == "." || c == ".." || strings.ContainsAny(c, "/\\\x00")
}

// c13PathCheck: p must be exactly base/prefix/parts[0]/.../parts[n-1], every part a clean single component.
func c13PathCheck(base, prefix string, parts []string, p string) (sig, what string) {
	rel, err := filepath.Rel(base, p)
	if err != nil || rel == ".." || strings.HasPrefix(rel, "../") || filepath.IsAbs(rel) {
		return "path-escape", fmt.Sprintf("derived path %q is outside %q (rel %q, parts %q)", p, base, rel, parts)
	}
	comps := strings.Split(rel, "/")
	if len(comps) != len(parts)+1 || comps[0] != prefix {
		return "path-depth", fmt.Sprintf("derived path %q is %q below the store, want %s/ + %d components (parts %q)", p, rel, prefix, len(parts), parts)
	}
	for _, c := range parts {
		if c13BadComponent(c) {
			return "path-component", fmt.Sprintf("accepted part %q is empty, dot, dot-dot or contains a separator byte (parts %q, path %q)", c, parts, p)
		}
	}
	if want := base + "/" + prefix + "/" + strings.Join(parts, "/"); p != want {
		return "path-mismatch", fmt.Sprintf("derived path %q != %q", p, want)
	}
	return "", ""
}

func c13IsLetter(c byte) bool { return c >= 'a' && c <= 'z' || c >= 'A' && c <= 'Z' }

// c13FlipCase returns s with the case of ASCII letters changed (differs from s whenever s has a letter).
func c13FlipCase(r *kit.Rand, s string) string {
	b := []byte(s)
	var idx []int
	for i, c := range b {
		if c13IsLetter(c) {
			idx = append(idx, i)
		}
	}
	if len(idx) == 0 {
		return s
	}
	mode := r.Intn(4)
	for _, i := range idx {
		switch {
		case mode == 0:
			b[i] &^= 0x20
		case mode == 1:
			b[i] |= 0x20
		case r.Bool():
			b[i] ^= 0x20
		}
	}
	if string(b) == s {
		b[idx[r.Intn(len(idx))]] ^= 0x20
	}
	return string(b)
}

func c13PanicSite() string {
	pcs := make([]uintptr, 64)
	n := runtime.Callers(0, pcs)
	frames := runtime.CallersFrames(pcs[:n])
	for {
		f, more := frames.Next()
		if strings.HasPrefix(f.Function, "github.com/ollama/ollama/") && !strings.Contains(f.File, "zz_verif") &&
			!strings.Contains(f.Function, "c13") && !strings.Contains(f.Function, "VerifC13") {
			fn := strings.TrimPrefix(f.Function, "github.com/ollama/ollama/")
			if i := strings.IndexByte(fn, '['); i >= 0 {
				fn = fn[:i]
			}
			return fn
		}
		if !more {
			return "unknown"
		}
	}
}

// ------------------------------------------------------------------------------------------------
// generators

var (
	c13Hosts   = []string{"registry.ollama.ai", "library", "Library", "latest", "localhost:11434", "h", "example.com", "127.0.0.1:5000", "hf.co", "Registry.Ollama.AI", "_h", "a.b-c_d:1:2", "H0st", "x:", "http:", "a..b", "0"}
	c13Nss     = []string{"library", "registry.ollama.ai", "latest", "n", "user_1", "Alice", "a-b", "_", "LIBRARY", "0x", "n-", "bartowski"}
	c13Models  = []string{"llama3.2", "m", "Mistral-7B", "_m", "a.b", "m..x", "Foo", "x-", "m.", "0", "Llama-3.2-1B-Instruct-GGUF"}
	c13Tags    = []string{"latest", "t", "7b-q4_K_M", "v1.0", "LATEST", "_", "q4..0", "t.", "Q4_K_M"}
	c13Hostile = []string{"..", "..", ".", "", "...", ".hidden", "..x", "-x", "a/b", "a\\b", "a\x00b", "a b", "a%2fb", "%2e%2e", "a:b", "é", "\u212a", "x@y", "~", "*", "?", "[a]",
		"!MISSING!", "\xff", "a\nb", "..\\..", "../..", "..:..", " ", "\t", "con", "a;b", "$HOME", "a|b", "..\x00", "../", "/..", "\u2025", "\uff0e\uff0e", "%00", ".:", ":."}
	c13Dotty   = []string{"..", "..", "..", ".", ".", "...", "..x", ".x", "x..", "._", ".-", ". "}
	c13Schemes = []string{"http://", "https://", "https+insecure://", "x://", "://", "file://", "HTTP://", "http:/", "http:///"}
	c13Tokens  = []string{"/", "/", "/", ":", ":", "@", ".", "..", "-", "_", "\\", "\x00", "a", "B", "0", "m", "://", "%2f", " ", "\n", "é", "latest", "library", "h", "http", "sha256"}
	c13Lens    = []int{79, 80, 81, 82, 160, 254, 255, 256, 349, 350, 351, 352, 593, 594, 1000}
)

func c13Long(r *kit.Rand, n int) string {
	alpha := "abcdefghijklmnopqrstuvwxyzABCDEFGHIJKLMNOPQRSTUVWXYZ0123456789_-"
	if r.Chance(1, 3) {
		alpha += "."
	}
	b := make([]byte, n)
	for i := range b {
		b[i] = alpha[r.Intn(len(alpha))]
	}
	if n > 0 && r.Chance(4, 5) {
		b[0] = 'a' + byte(r.Intn(26))
	}
	return string(b)
}

func c13Assemble(p [4]string, present [4]bool) string {
	var b strings.Builder
	if present[0] {
		b.WriteString(p[0])
		b.WriteByte('/')
	}
	if present[1] {
		b.WriteString(p[1])
		b.WriteByte('/')
	}
	b.WriteString(p[2])
	if present[3] {
		b.WriteByte(':')
		b.WriteString(p[3])
	}
	return b.String()
}

func c13RandHex(r *kit.Rand, n int) string {
	const hx = "0123456789abcdef"
	b := make([]byte, n)
	for i := range b {
		b[i] = hx[r.Intn(16)]
	}
	return string(b)
}

func c13PickParts(r *kit.Rand) [4]string {
	return [4]string{kit.Pick(r, c13Hosts), kit.Pick(r, c13Nss), kit.Pick(r, c13Models), kit.Pick(r, c13Tags)}
}

func c13Presence(r *kit.Rand) [4]bool {
	switch x := r.Intn(100); {
	case x < 50:
		return [4]bool{true, true, true, true}
	case x < 68:
		return [4]bool{false, true, true, true}
	case x < 80:
		return [4]bool{false, false, true, true}
	case x < 88:
		return [4]bool{false, false, true, false}
	case x < 94:
		return [4]bool{true, true, true, false}
	default:
		return [4]bool{false, true, true, false}
	}
}

func c13MutatePart(r *kit.Rand, p string, kind int, gen *[]string) string {
	switch m := r.Intn(9); m {
	case 0, 1:
		*gen = append(*gen, fmt.Sprintf("part%d=hostile", kind))
		return kit.Pick(r, c13Hostile)
	case 2:
		n := kit.Pick(r, c13Lens)
		*gen = append(*gen, fmt.Sprintf("part%d=len%d", kind, n))
		return c13Long(r, n)
	case 3:
		if p == "" {
			return p
		}
		c := kit.Pick(r, []byte{'.', '.', '-', '_', ':', '/', 0, '~', ' ', '\\', 0xc3})
		*gen = append(*gen, fmt.Sprintf("part%d[0]=%q", kind, c))
		return string(c) + p[1:]
	case 4:
		*gen = append(*gen, fmt.Sprintf("part%d=flipcase", kind))
		return c13FlipCase(r, p)
	case 5:
		c := byte(r.Intn(256))
		*gen = append(*gen, fmt.Sprintf("part%d+=%q", kind, c))
		return p + string(c)
	case 6:
		c := byte(r.Intn(256))
		i := r.Intn(len(p) + 1)
		*gen = append(*gen, fmt.Sprintf("part%d insert %q@%d", kind, c, i))
		return p[:i] + string(c) + p[i:]
	case 7:
		*gen = append(*gen, fmt.Sprintf("part%d=dotty", kind))
		return kit.Pick(r, c13Dotty)
	default:
		t := kit.Pick(r, c13Dotty)
		*gen = append(*gen, fmt.Sprintf("part%d prefix %q", kind, t))
		return t + p
	}
}

func c13MutateString(r *kit.Rand, s string, gen *[]string) string {
	switch m := r.Intn(13); m {
	case 0:
		sc := kit.Pick(r, c13Schemes)
		*gen = append(*gen, "scheme "+sc)
		return sc + s
	case 1:
		d := "sha256:" + c13RandHex(r, kit.Pick(r, []int{64, 64, 8, 63}))
		*gen = append(*gen, "append @digest")
		return s + "@" + d
	case 2:
		*gen = append(*gen, "extra :tag")
		return s + ":" + kit.Pick(r, c13Tags)
	case 3:
		*gen = append(*gen, "leading /")
		return "/" + s
	case 4:
		*gen = append(*gen, "trailing /")
		return s + "/"
	case 5:
		*gen = append(*gen, "trailing :")
		return s + ":"
	case 6, 7:
		var idx []int
		for i := range s {
			if s[i] == '/' || s[i] == ':' {
				idx = append(idx, i)
			}
		}
		if len(idx) == 0 {
			return s
		}
		i := idx[r.Intn(len(idx))]
		if m == 6 {
			*gen = append(*gen, fmt.Sprintf("double separator@%d", i))
			return s[:i] + s[i:i+1] + s[i:]
		}
		c := kit.Pick(r, []string{"\\", ":", "/", "@", "%2f", "//", ".", "/../", "/./"})
		*gen = append(*gen, fmt.Sprintf("separator@%d -> %q", i, c))
		return s[:i] + c + s[i+1:]
	case 8:
		c := byte(r.Intn(256))
		i := r.Intn(len(s) + 1)
		*gen = append(*gen, fmt.Sprintf("insert %q@%d", c, i))
		return s[:i] + string(c) + s[i:]
	case 9:
		if s == "" {
			return s
		}
		i := r.Intn(len(s))
		*gen = append(*gen, fmt.Sprintf("delete@%d", i))
		return s[:i] + s[i+1:]
	case 10:
		*gen = append(*gen, "flipcase")
		return c13FlipCase(r, s)
	case 11:
		k := r.Range(1, 4)
		*gen = append(*gen, fmt.Sprintf("prefix ../ x%d", k))
		return strings.Repeat("../", k) + s
	default:
		*gen = append(*gen, "prefix ./")
		return "./" + s
	}
}

func c13GenName(r *kit.Rand) (string, []string) {
	var gen []string
	form := r.Intn(100)
	switch {
	case form < 52:
		gen = append(gen, "skeleton")
		p := c13PickParts(r)
		pres := c13Presence(r)
		nm := kit.Pick(r, []int{0, 0, 1, 1, 1, 2, 2, 3})
		strMut := 0
		for i := 0; i < nm; i++ {
			if r.Chance(3, 5) {
				k := r.Intn(4)
				p[k] = c13MutatePart(r, p[k], k, &gen)
			} else {
				strMut++
			}
		}
		s := c13Assemble(p, pres)
		for i := 0; i < strMut; i++ {
			s = c13MutateString(r, s, &gen)
		}
		return s, gen
	case form < 68:
		gen = append(gen, "traversal")
		p := c13PickParts(r)
		k := kit.Pick(r, []int{1, 1, 1, 2, 2, 3, 4})
		for _, i := range r.Perm(4)[:k] {
			p[i] = kit.Pick(r, c13Dotty)
		}
		pres := c13Presence(r)
		if r.Chance(2, 3) {
			pres = [4]bool{true, true, true, true}
		}
		s := c13Assemble(p, pres)
		if r.Chance(1, 5) {
			s = c13MutateString(r, s, &gen)
		}
		return s, gen
	case form < 80:
		gen = append(gen, "token-soup")
		n := r.Range(0, 12)
		var b strings.Builder
		for i := 0; i < n; i++ {
			if r.Chance(1, 8) {
				b.WriteByte(byte(r.Intn(256)))
			} else {
				b.WriteString(kit.Pick(r, c13Tokens))
			}
		}
		return b.String(), gen
	case form < 86:
		gen = append(gen, "random-bytes")
		return string(r.Bytes(r.Range(0, 40))), gen
	default:
		gen = append(gen, "length-limits")
		var p [4]string
		lim := [4]int{350, 80, 80, 80}
		for i := range p {
			d := kit.Pick(r, []int{0, 0, 0, -1, 1, 1, -300, -40, 2, 175})
			n := lim[i] + d
			if n < 1 {
				n = 1
			}
			if i == 0 && r.Chance(1, 2) {
				n = kit.Pick(r, []int{1, 20, 200, 255, 256, 350})
			}
			p[i] = c13Long(r, n)
			if i == 1 {
				p[i] = strings.ReplaceAll(p[i], ".", "_")
			}
		}
		s := c13Assemble(p, [4]bool{true, true, true, true})
		gen = append(gen, fmt.Sprintf("lens %d/%d/%d:%d total %d", len(p[0]), len(p[1]), len(p[2]), len(p[3]), len(s)))
		if r.Chance(1, 6) {
			s = c13MutateString(r, s, &gen)
		}
		return s, gen
	}
}

func c13GenRel(r *kit.Rand) (string, []string) {
	var gen []string
	p := c13PickParts(r)
	parts := p[:]
	nm := kit.Pick(r, []int{0, 0, 1, 1, 2})
	for i := 0; i < nm; i++ {
		k := r.Intn(4)
		parts[k] = c13MutatePart(r, parts[k], k, &gen)
	}
	switch r.Intn(12) {
	case 0:
		gen = append(gen, "3 parts")
		parts = parts[:3]
	case 1, 2:
		gen = append(gen, "5 parts")
		parts = append(parts, kit.Pick(r, []string{"extra", "..", "latest", "x.json", "."}))
	case 3:
		gen = append(gen, "6 parts")
		parts = append(parts, "..", kit.Pick(r, c13Tags))
	case 4:
		gen = append(gen, "leading /")
		parts = append([]string{""}, parts...)
	case 5:
		gen = append(gen, "trailing /")
		parts = append(parts, "")
	}
	s := strings.Join(parts, "/")
	switch r.Intn(14) {
	case 0:
		gen = append(gen, "backslashes")
		s = strings.ReplaceAll(s, "/", "\\")
	case 1:
		s = c13MutateString(r, s, &gen)
	case 2:
		gen = append(gen, "colon form")
		if i := strings.LastIndexByte(s, '/'); i >= 0 {
			s = s[:i] + ":" + s[i+1:]
		}
	}
	return s, gen
}

func c13GenDigest(r *kit.Rand, e *c13Env) (string, []string) {
	var gen []string
	prefix, sep := "sha256", kit.Pick(r, []string{":", "-"})
	hx := c13RandHex(r, 64)
	if r.Chance(1, 6) {
		k := r.Intn(3)
		hx = e.blobs[k].String()[7:]
		gen = append(gen, fmt.Sprintf("existing blob %d", k))
	}
	switch r.Intn(5) {
	case 0:
		hx = strings.ToUpper(hx)
		gen = append(gen, "upper hex")
	case 1:
		hx = c13FlipCase(r, hx)
		gen = append(gen, "mixed hex")
	}
	front, back := "", ""
	nm := kit.Pick(r, []int{0, 0, 0, 1, 1, 1, 1, 2})
	for i := 0; i < nm; i++ {
		switch r.Intn(9) {
		case 0:
			n := kit.Pick(r, []int{0, 1, 8, 62, 63, 65, 66, 128})
			gen = append(gen, fmt.Sprintf("hexlen %d", n))
			if n <= len(hx) {
				hx = hx[:n]
			} else if n <= 64 {
			} else {
				hx += c13RandHex(r, n-64)
			}
		case 1:
			if hx != "" {
				c := kit.Pick(r, []byte{'g', 'G', '/', '.', 0, '\n', ' ', 0x80, 0xff, ':', '-', 'x', '%'})
				i := r.Intn(len(hx))
				gen = append(gen, fmt.Sprintf("hex[%d]=%q", i, c))
				hx = hx[:i] + string(c) + hx[i+1:]
			}
		case 2:
			prefix = kit.Pick(r, []string{"SHA256", "sha512", "md5", "", "sha256sha256", " sha256", "sha25", "sha2566", "Sha256", "sha256\x00"})
			gen = append(gen, fmt.Sprintf("prefix %q", prefix))
		case 3:
			sep = kit.Pick(r, []string{"", "::", "_", "/", ":-", "-:", " ", "=", "@", ".", "--"})
			gen = append(gen, fmt.Sprintf("sep %q", sep))
		case 4, 5:
			back = kit.Pick(r, []string{"\n", "/", "/..", "/../x", "/../../x", "/../../../x/y", "/../../../../x", "\x00", " ", ".json", "-partial", "-partial-0", "/x", "\r\n", "\n/../../x", "0", "a"})
			gen = append(gen, fmt.Sprintf("suffix %q", back))
		case 6, 7:
			front = kit.Pick(r, []string{"../", "../../x/", "../../../", "../../../../x/", "/", "./", "a/", "\n", "x", " ", "blobs/", "../manifests/", "x\n"})
			gen = append(gen, fmt.Sprintf("front %q", front))
		default:
			if r.Chance(1, 2) {
				gen = append(gen, "empty")
				return "", gen
			}
			gen = append(gen, "random bytes")
			return string(r.Bytes(r.Range(1, 80))), gen
		}
	}
	return front + prefix + sep + hx + back, gen
}

// ------------------------------------------------------------------------------------------------
// one case

type c13Case struct {
	Index  int      `json:"index"`
	Kind   string   `json:"kind"`   // name | relpath | digest
	Input  string   `json:"input"`  // JSON rendering (lossy for invalid UTF-8)
	InputQ string   `json:"inputq"` // Go-quoted, exact bytes
	Gen    []string `json:"gen"`    // how the generator built it
}

type c13Vio struct{ sig, what string }

type c13Run struct {
	e       *c13Env
	r       *kit.Rand
	vio     []c13Vio
	acc     []string // which entry points accepted the input (part of the distinct signature)
	shape   string
	checked map[string]bool
}

func (x *c13Run) v(sig, format string, a ...any) {
	for _, o := range x.vio {
		if o.sig == sig {
			return
		}
	}
	x.vio = append(x.vio, c13Vio{sig, fmt.Sprintf(format, a...)})
}

func (x *c13Run) count(k string) { x.e.cnt[k]++ }

func (x *c13Run) guard(step string, f func()) {
	defer func() {
		if p := recover(); p != nil {
			site := c13PanicSite()
			x.v("panic:"+site, "panic in %s during %s: %v", site, step, p)
			x.count("panics")
		}
	}()
	f()
}

// fullSweep is the expensive observation: the whole tree, six levels above the stores. It runs whenever a cheap
// observation is not what it should be, every 256 cases and at the end of the run.
func (x *c13Run) fullSweep(step string) []string {
	_, _, strays := x.e.sweep()
	if len(strays) > 0 {
		x.v("stray-path:"+step, "after %s the observed tree contains entries outside the two stores' fixed layout: %q", step, strays)
	}
	x.count("full-sweeps")
	if what := x.e.blobsIntact(); what != "" {
		x.v("store-damaged:"+step, "after %s: %s", step, what)
	}
	return strays
}

// cacheName links name into the (empty) blob cache, observes where the manifest file appears, and then
// resolves / relinks / unlinks it through case variants. wantParts (optional) are the four parts held by the
// parser that printed name. It reports whether the cache accepted the name.
func (x *c13Run) cacheName(name string, wantParts []string, from string) bool {
	e := x.e
	if x.checked[name] {
		return true
	}
	mdir := filepath.Join(e.cacheDir, "manifests")
	err := e.cache.Link(name, e.blobs[1])
	if err != nil {
		x.count("cache.link.rejected")
		if ents, _ := os.ReadDir(mdir); len(ents) > 0 {
			files, odd := e.listManifests(mdir)
			if len(files)+len(odd) > 0 {
				x.v("blob.Link:error-left-file", "Link(%q) failed (%v) but left manifest files %q %q", name, err, files, odd)
				x.fullSweep("failed blob.Link")
			}
			e.cleanDir(mdir)
		}
		return false
	}
	x.checked[name] = true
	x.count("cache.link.accepted")
	defer e.cleanDir(mdir)
	cached, odd := e.listManifests(mdir)
	if len(cached) != 1 || len(odd) > 0 {
		strays := x.fullSweep("blob.Link")
		x.v("blob.Link:file-count", "Link(%q) succeeded but the manifest files at depth 4 below cache/manifests are %q (other entries there: %q, elsewhere: %q)", name, cached, odd, strays)
		return true
	}
	comps := strings.Split(cached[0], "/")
	for _, c := range comps {
		if c13BadComponent(c) {
			x.v("blob.Link:path-component", "manifest of %q landed at %q", name, cached[0])
		}
	}
	printed := ollama.CompleteName(name)
	exp, ok := c13SplitPrinted(printed)
	if !ok {
		x.v("names.print-shape", "names parser accepted %q as fully qualified but prints it as %q, which is not host/namespace/model:tag", name, printed)
	} else if strings.Join(exp, "/") != cached[0] {
		x.v("blob.Link:path-mismatch", "Link(%q): manifest landed at %q but the name prints as %q", name, cached[0], printed)
	}
	if wantParts != nil && strings.Join(wantParts, "/") != cached[0] {
		x.v("cross-parser:"+from+":parts", "name %q printed by the legacy parser with parts %q was stored by the cache at %q", name, wantParts, cached[0])
	}
	// print/parse round trip of the names parser
	if again := ollama.CompleteName(printed); again != printed {
		x.v("names-roundtrip", "names parser: %q prints as %q which re-parses and prints as %q", name, printed, again)
	}
	if d, err := e.cache.Resolve(printed); err != nil || d != e.blobs[1] {
		x.v("blob.Resolve:printed-name", "Link(%q) ok, but Resolve of its printed form %q = %v, %v", name, printed, d, err)
	}
	if name != printed && !strings.Contains(name, "@") {
		if d, err := e.cache.Resolve(name); err != nil || d != e.blobs[1] {
			x.v("blob.Resolve:linked-name", "Link(%q) ok, but Resolve(%q) = %v, %v", name, name, d, err)
		}
	}
	// the other parser must read the printed name back with the same parts
	mn := model.ParseName(printed)
	if !mn.IsValid() {
		x.v("cross-parser:names->model:rejected", "names parser prints fully qualified %q (file %q); model.ParseName rejects it: %#v", printed, cached[0], mn)
	} else if got := strings.Join([]string{mn.Host, mn.Namespace, mn.Model, mn.Tag}, "/"); got != cached[0] || mn.Filepath() != cached[0] {
		x.v("cross-parser:names->model:parts", "names parser stored %q at %q; model.ParseName reads parts %q (Filepath %q)", printed, cached[0], got, mn.Filepath())
	}
	x.count("oracle.cross-parser.names->model")
	if !ok || !x.r.Chance(1, 2) {
		return true
	}

	// ---- other models in the same cache (different namespace, same other parts in another casing)
	nOther := 0
	if x.r.Chance(1, 3) {
		for k, nk := 0, x.r.Range(1, 2); k < nk; k++ {
			o := append([]string(nil), exp...)
			o[1] = kit.Pick(x.r, []string{"zzother", "ZZ0", "o-o"}) + strconv.Itoa(k)
			o[2] = c13FlipCase(x.r, o[2])
			o[3] = c13FlipCase(x.r, o[3])
			if e.cache.Link(o[0]+"/"+o[1]+"/"+o[2]+":"+o[3], e.blobs[0]) == nil {
				nOther++
			}
		}
	}
	// ---- case variants address the same manifest
	v1, v2, v3 := c13FlipCase(x.r, printed), c13FlipCase(x.r, printed), c13FlipCase(x.r, printed)
	if d, err := e.cache.Resolve(v1); err != nil || d != e.blobs[1] {
		x.v("case-fold:blob.Resolve", "%q linked; Resolve of case variant %q = %v, %v", printed, v1, d, err)
	}
	if err := e.cache.Link(v2, e.blobs[2]); err != nil {
		x.v("case-fold:blob.Link:error", "%q linked; Link of case variant %q failed: %v", printed, v2, err)
	} else {
		c2, odd := e.listManifests(mdir)
		found := false
		for _, f := range c2 {
			found = found || f == cached[0]
		}
		if len(c2) != 1+nOther || !found || len(odd) > 0 {
			x.v("case-fold:blob.Link:second-file", "%q linked at %q; Link of case variant %q left manifests %q %q", printed, cached[0], v2, c2, odd)
			x.fullSweep("blob.Link of a case variant")
		} else if d, err := e.cache.Resolve(printed); err != nil || d != e.blobs[2] {
			x.v("case-fold:blob.Link:not-updated", "%q relinked through case variant %q to %v; Resolve(%q) = %v, %v", printed, v2, e.blobs[2], printed, d, err)
		}
		sc := kit.Pick(x.r, []string{"", "", "http://", "https://", "https+insecure://"})
		m, err := e.rc.ResolveLocal(sc + v3)
		if err != nil {
			x.v("case-fold:Registry.ResolveLocal", "%q linked; ResolveLocal(%q) failed: %v", printed, sc+v3, err)
		} else if string(m.Data) != e.data[2] || !strings.EqualFold(m.Name, printed) {
			x.v("client:resolves-other-model", "%q linked; ResolveLocal(%q) returned name %q data %q", printed, sc+v3, m.Name, m.Data)
		}
	}
	okU, err := e.rc.Unlink(v1)
	c3, odd := e.listManifests(mdir)
	if err != nil || !okU || len(c3) != nOther || len(odd) > 0 {
		x.v("case-fold:Registry.Unlink", "%q linked (+%d other models); Unlink of case variant %q = %v, %v; manifests left: %q %q", printed, nOther, v1, okU, err, c3, odd)
		x.fullSweep("Registry.Unlink")
	}
	for _, f := range c3 {
		if f == cached[0] {
			x.v("case-fold:Registry.Unlink", "%q linked; Unlink(%q) left it in place", printed, v1)
		}
	}
	x.count("oracle.case-fold.cache")
	return true
}

// legacyCase: real manifest files in the legacy store, resolution through getExistingName as the handlers do.
func (x *c13Run) legacyCase(n model.Name) {
	e := x.e
	mdir := filepath.Join(e.models, "manifests")
	defer e.cleanDir(mdir)
	if err := WriteManifest(n, Layer{}, nil); err != nil {
		x.count("legacy.write.fs-error")
		return
	}
	rel := n.Host + "/" + n.Namespace + "/" + n.Model + "/" + n.Tag
	want := filepath.Join(mdir, rel)
	collision := false
	nOther := 0
	for k, nk := 0, x.r.Intn(3); k < nk; k++ {
		o := n
		o.Namespace = kit.Pick(x.r, []string{"zzother", "ZZ0", "o-o"}) + strconv.Itoa(k)
		if x.r.Bool() {
			o.Model = c13FlipCase(x.r, n.Model)
		}
		if x.r.Bool() {
			o.Tag = c13FlipCase(x.r, n.Tag)
		}
		if x.r.Chance(1, 3) {
			o.Host = c13FlipCase(x.r, n.Host)
		}
		if !o.IsValid() || o.EqualFold(n) {
			continue
		}
		if WriteManifest(o, Layer{}, nil) == nil {
			nOther++
			collision = collision || o.Model != n.Model || o.Tag != n.Tag || o.Host != n.Host
		}
	}
	legacy, odd := e.listManifests(mdir)
	found := false
	for _, f := range legacy {
		found = found || f == rel
	}
	if len(legacy) != 1+nOther || !found || len(odd) > 0 {
		strays := x.fullSweep("WriteManifest")
		x.v("WriteManifest:file-count", "wrote %d manifests for %q (+others), found %q (odd %q, elsewhere %q)", 1+nOther, n.String(), legacy, odd, strays)
		return
	}
	variants := []string{n.String(), c13FlipCase(x.r, n.String())}
	for _, vs := range variants {
		pv := model.ParseName(vs)
		if !pv.IsValid() || !pv.EqualFold(n) {
			x.v("case-fold:model.ParseName", "case variant %q of valid %q parses as %#v", vs, n.String(), pv)
			continue
		}
		for rep := 0; rep < 3; rep++ {
			got, err := getExistingName(pv)
			sig := "case-fold:getExistingName"
			if collision {
				sig += ":cross-model" // another model shares a part in a different casing
			}
			if err != nil {
				x.v(sig+":error", "getExistingName(%q): %v", vs, err)
				break
			}
			// the path the handlers then open: GetModel(name.String()) -> ParseModelPath -> GetManifestPath
			p, perr := ParseModelPath(got.String()).GetManifestPath()
			if got != n || perr != nil || p != want {
				_, serr := os.Stat(p)
				x.v(sig, "store holds %q (%d other models, collision=%v); getExistingName(%q) = %q -> manifest path %q (err %v, stat err %v), want %q",
					n.String(), nOther, collision, vs, got.String(), p, perr, serr, want)
				break
			}
		}
	}
	if collision {
		x.count("oracle.case-fold.legacy.cross-model")
	} else {
		x.count("oracle.case-fold.legacy")
	}
}

func c13PartClass(s string) string {
	lb := "0"
	switch l := len(s); {
	case l == 0:
	case l == 1:
		lb = "1"
	case l < 10:
		lb = "s"
	case l < 79:
		lb = "m"
	case l <= 81:
		lb = strconv.Itoa(l)
	case l < 255:
		lb = "l"
	case l <= 256:
		lb = strconv.Itoa(l)
	case l < 349:
		lb = "L"
	default:
		lb = strconv.Itoa(l)
	}
	m := 0
	for i := 0; i < len(s); i++ {
		switch c := s[i]; {
		case c >= 'A' && c <= 'Z':
			m |= 1
		case c >= '0' && c <= '9':
			m |= 2
		case c == '.':
			m |= 4
		case c == '-':
			m |= 8
		case c == '_':
			m |= 16
		case c == ':':
			m |= 32
		}
	}
	return lb + "." + strconv.Itoa(m)
}

func (x *c13Run) nameCase(s string) {
	e := x.e
	var n model.Name
	var printed string
	valid := false
	// ---- 1. legacy name parser
	x.guard("model.ParseName", func() {
		n = model.ParseName(s)
		valid = n.IsValid()
	})
	if valid {
		x.acc = append(x.acc, "model")
		x.count("model.accepted")
		parts := []string{n.Host, n.Namespace, n.Model, n.Tag}
		x.shape = c13PartClass(n.Host) + "/" + c13PartClass(n.Namespace) + "/" + c13PartClass(n.Model) + ":" + c13PartClass(n.Tag)
		var full string
		x.guard("model.Name.Filepath", func() {
			fp := n.Filepath()
			full = filepath.Join(e.models, "manifests", fp)
			if sig, what := c13PathCheck(e.models, "manifests", parts, full); sig != "" {
				x.v("model.Filepath:"+sig, "ParseName(%q) valid, Filepath %q: %s", s, fp, what)
			}
			if back := model.ParseNameFromFilepath(fp); back != n {
				x.v("model-filepath-roundtrip", "ParseName(%q) = %#v; ParseNameFromFilepath(Filepath()=%q) = %#v", s, n, fp, back)
			}
		})
		printed = n.String()
		x.guard("model round trip", func() {
			if rt := model.ParseName(printed); rt != n {
				x.v("model-roundtrip", "ParseName(%q) = %#v prints as %q which parses as %#v", s, n, printed, rt)
			}
			// what GetModel does with the canonical name
			p, err := ParseModelPath(printed).GetManifestPath()
			if err != nil {
				x.v("modelpath-rejects-printed", "valid name %q: ParseModelPath(..).GetManifestPath() fails: %v", printed, err)
			} else if p != full {
				x.v("modelpath-differs", "valid name %q: Name.Filepath addresses %q, ParseModelPath(..).GetManifestPath() addresses %q", printed, full, p)
			}
		})
		x.count("oracle.model-roundtrip")
		// the short printed form (what /api/tags shows and what pull/push/delete are then given) omits default
		// parts only: reading it back must give the same name again (defaults compare case-insensitively)
		x.guard("model short form round trip", func() {
			short := n.DisplayShortest()
			if rt := model.ParseName(short); !rt.EqualFold(n) {
				x.v("model-short-roundtrip", "ParseName(%q) = %#v is listed as %q, which parses as %#v", s, n, short, rt)
			}
		})
		x.count("oracle.model-short-roundtrip")
		// ---- the other parser reads the printed name
		x.guard("cross parser model->names", func() {
			_, uerr := e.rc.Unlink(printed)
			if errors.Is(uerr, ollama.ErrNameInvalid) {
				x.v("cross-parser:model->names:rejected", "model.ParseName(%q) valid, prints %q; the names parser rejects it: %v", s, printed, uerr)
				return
			}
			x.count("oracle.cross-parser.model->names")
			if !x.cacheName(printed, parts, "model->names") {
				x.count("cross-parser.model->names.fs-rejected")
			}
		})
		if x.r.Chance(1, 4) {
			x.guard("legacy case folding", func() { x.legacyCase(n) })
		}
	}
	// ---- 2. legacy path parser on the raw string
	x.guard("ParseModelPath", func() {
		mp := ParseModelPath(s)
		p, err := mp.GetManifestPath()
		if err != nil {
			return
		}
		x.acc = append(x.acc, "modelpath")
		x.count("modelpath.accepted")
		if !valid {
			x.count("modelpath.accepted-but-ParseName-rejects")
		}
		if sig, what := c13PathCheck(e.models, "manifests", []string{mp.Registry, mp.Namespace, mp.Repository, mp.Tag}, p); sig != "" {
			x.v("ModelPath.GetManifestPath:"+sig, "ParseModelPath(%q) = %+v: %s", s, mp, what)
		}
	})
	// ---- 3. the raw string as a cache name (names.Parse, fully qualified without defaults)
	x.guard("blob cache name", func() {
		if x.cacheName(s, nil, "") {
			x.acc = append(x.acc, "cache")
		}
	})
	// ---- 4. the new client: scheme://name@digest, defaults merged from the mask
	x.guard("Registry.ResolveLocal", func() {
		if !strings.Contains(s, "@") {
			if m, err := e.rc.ResolveLocal(s); err == nil {
				x.v("client:resolved-in-empty-store", "no manifest is linked, yet ResolveLocal(%q) returned name %q data %q", s, m.Name, m.Data)
			}
		}
		d0 := e.blobs[0].String()
		m, err := e.rc.ResolveLocal(s + "@" + d0)
		if err != nil {
			return
		}
		x.acc = append(x.acc, "client")
		x.count("client.accepted")
		if string(m.Data) != e.data[0] {
			x.v("client:digest-wrong-data", "ResolveLocal(%q@%s) returned data %q", s, d0, m.Data)
		}
		P := m.Name
		if !x.cacheName(P, nil, "") {
			// Pull would Link exactly this string; a file-system refusal (component too long) is a rejection, a name error is not
			if _, uerr := e.rc.Unlink(P); errors.Is(uerr, ollama.ErrNameInvalid) {
				x.v("client:accepted-name-not-linkable", "client accepted %q as %q, which the names parser then rejects: %v", s, P, uerr)
			} else {
				x.count("client.accepted.fs-rejected")
			}
		}
		m2, err := e.rc.ResolveLocal(P + "@" + d0)
		if err != nil || m2.Name != P {
			x.v("client-roundtrip", "client accepted %q as %q; that printed name re-parses as %v (err %v)", s, P, m2, err)
		}
		x.count("oracle.client-roundtrip")
	})
}

func (x *c13Run) relCase(s string) {
	e := x.e
	x.guard("model.ParseNameFromFilepath", func() {
		n := model.ParseNameFromFilepath(s)
		if n == (model.Name{}) {
			x.count("relpath.rejected")
			return
		}
		x.acc = append(x.acc, "relpath")
		x.count("relpath.accepted")
		x.shape = c13PartClass(n.Host) + "/" + c13PartClass(n.Namespace) + "/" + c13PartClass(n.Model) + "/" + c13PartClass(n.Tag)
		if !n.IsValid() {
			x.v("ParseNameFromFilepath:accepted-invalid", "ParseNameFromFilepath(%q) = %#v, not valid", s, n)
			return
		}
		full := filepath.Join(e.models, "manifests", s)
		if sig, what := c13PathCheck(e.models, "manifests", []string{n.Host, n.Namespace, n.Model, n.Tag}, full); sig != "" {
			x.v("ParseNameFromFilepath:"+sig, "relative path %q accepted as %#v: %s", s, n, what)
		}
		if fp := n.Filepath(); fp != s {
			x.v("ParseNameFromFilepath:roundtrip", "relative path %q accepted as %#v whose Filepath is %q", s, n, fp)
		}
	})
}

func (x *c13Run) digestCase(s string) {
	e := x.e
	sep, hexpart, wf := c13WellFormedDigest(s)
	cls := "lower"
	if hexpart != strings.ToLower(hexpart) {
		cls = "upper"
		if hexpart != strings.ToUpper(hexpart) {
			cls = "mixed"
		}
	}
	x.shape = fmt.Sprintf("wf=%v sep=%q hex=%s len=%d", wf, sep, cls, len(s))
	// ---- legacy store
	x.guard("GetBlobsPath", func() {
		p, err := GetBlobsPath(s)
		if err != nil {
			x.count("GetBlobsPath.rejected")
			if !wf {
				return
			}
			x.count("GetBlobsPath.rejected-wellformed")
			return
		}
		if s == "" {
			// documented and pinned (TestGetBlobsPath "empty digest"): "" is the request for the blobs directory itself
			x.count("GetBlobsPath.empty->blobs-dir")
			if p != filepath.Join(e.models, "blobs") {
				x.v("GetBlobsPath:empty", "GetBlobsPath(\"\") = %q", p)
			}
			return
		}
		x.acc = append(x.acc, "GetBlobsPath")
		x.count("GetBlobsPath.accepted")
		base := filepath.Base(p)
		if !wf {
			x.v("GetBlobsPath:accepted-malformed", "GetBlobsPath(%q) accepted a string that is not sha256[:-]<64 hex>: path %q", s, p)
			if sig, what := c13PathCheck(e.models, "blobs", []string{base}, p); sig != "" {
				x.v("GetBlobsPath:"+sig, "GetBlobsPath(%q): %s", s, what)
			}
			x.fullSweep("GetBlobsPath")
			return
		}
		if sig, what := c13PathCheck(e.models, "blobs", []string{"sha256-" + hexpart}, p); sig != "" {
			x.v("GetBlobsPath:"+sig, "GetBlobsPath(%q): %s", s, what)
		}
	})
	// ---- new cache
	var d blob.Digest
	var derr error
	x.guard("blob.ParseDigest", func() {
		d, derr = blob.ParseDigest(s)
		if derr != nil {
			x.count("ParseDigest.rejected")
			return
		}
		x.acc = append(x.acc, "ParseDigest")
		x.count("ParseDigest.accepted")
		f := e.cache.GetFile(d)
		if !wf {
			x.v("ParseDigest:accepted-malformed", "blob.ParseDigest(%q) accepted a string that is not sha256[:-]<64 hex>: file %q", s, f)
			if sig, what := c13PathCheck(e.cacheDir, "blobs", []string{filepath.Base(f)}, f); sig != "" {
				x.v("DiskCache.GetFile:"+sig, "ParseDigest(%q): %s", s, what)
			}
			return
		}
		if sig, what := c13PathCheck(e.cacheDir, "blobs", []string{"sha256-" + strings.ToLower(hexpart)}, f); sig != "" {
			x.v("DiskCache.GetFile:"+sig, "ParseDigest(%q): %s", s, what)
		}
		if d2, err := blob.ParseDigest(d.String()); err != nil || d2 != d {
			x.v("digest-roundtrip", "ParseDigest(%q) prints as %q which parses as %v, %v", s, d.String(), d2, err)
		}
	})
	if strings.Contains(s, "@") {
		return
	}
	// ---- name@digest forms
	for _, nm := range []string{"@" + s, "registry.ollama.ai/library/x:latest@" + s} {
		x.guard("DiskCache.Resolve(name@digest)", func() {
			d3, err := e.cache.Resolve(nm)
			if s == "" {
				return // no digest part at all
			}
			if (err == nil) != (derr == nil) || (err == nil && d3 != d) {
				x.v("blob.Resolve:digest-differs", "Resolve(%q) = %v, %v but ParseDigest = %v, %v", nm, d3, err, d, derr)
			}
		})
	}
	known := -1
	for k := range e.blobs {
		if derr == nil && d == e.blobs[k] {
			known = k
		}
	}
	for _, nm := range []string{"x@" + s, "http://h/n/m:t@" + s, "@" + s} {
		x.guard("Registry.ResolveLocal(name@digest)", func() {
			m, err := e.rc.ResolveLocal(nm)
			if err != nil {
				return
			}
			x.count("client.digest.resolved")
			if s == "" {
				x.v("client:resolved-in-empty-store", "no manifest is linked, yet ResolveLocal(%q) returned name %q data %q", nm, m.Name, m.Data)
			} else if known < 0 || string(m.Data) != e.data[known] {
				x.v("client:digest-wrong-data", "ResolveLocal(%q) returned data %q (digest %v, known blob %d)", nm, m.Data, d, known)
			}
		})
	}
}

// ------------------------------------------------------------------------------------------------

func TestVerifC13(t *testing.T) {
	slog.SetDefault(slog.New(slog.NewTextHandler(io.Discard, nil)))
	rep := kit.NewReport("C13")
	cfg := rep.Cfg()
	defer rep.Flush()
	rep.Set("rule", "case i = PRNG(seed,'C13',i) -> one string used as a model name (66%: valid 1-4 part skeletons from part pools incl. boundary lengths 79-82/254-256/349-352/593-594 with 0-3 part/string mutations [hostile tokens, dot/dot-dot parts, any byte inserted, first byte replaced, doubled/replaced separators, schemes, @digest, extra :tag, ../ prefixes, case flips], dot-dot skeletons, separator token soup, random bytes), as a name-relative path (10%: 3-6 components, same part mutations, backslashes) or as a digest (24%: sha256[:-]64hex with prefix/separator/length/hex-byte/front/suffix mutations incl. path suffixes and newlines, upper/mixed hex, digests of existing blobs). Each string goes through every real entry point of both stores; accepted names are really linked/written in a temp tree that is swept for files outside the fixed layout, then resolved/relinked/unlinked through case variants. Non-trivial = accepted by at least one entry point (so a path was derived and judged); distinct = distinct (kind, set of accepting entry points, per-part (length bucket, character classes) of the parsed name | digest (well-formed, separator, hex case, length))")
	rep.Set("assumptions", []string{
		"the empty string passed to GetBlobsPath is the documented request for the blobs directory, not a digest",
		"for the names parser (server/internal/internal/names) 'accepted' means accepted by the code that derives a path from it: fully qualified as written (blob.DiskCache) or after merging the default mask (ollama.Registry); Name.IsValid alone is not reachable from package server",
		"the store never holds two manifests whose full names differ only in case (the harness does not create that)",
		"case variants are ASCII letter case changes",
		"upward traversal is observed up to six directory levels above the stores (generator emits at most four consecutive ..)",
		"Linux path semantics (separator '/', case-sensitive file system)",
	})
	e := c13NewEnv(t)
	n := cfg.N(200000, 12000000)
	replayIdx := -1
	if cfg.Replay != "" {
		var rc struct {
			Index int `json:"index"`
		}
		if err := kit.LoadReplay(cfg.Replay, &rc); err != nil {
			t.Fatal(err)
		}
		replayIdx = rc.Index
	}
	samplesByKind := map[string]int{}
	evals := 0
	for i := 0; i < n; i++ {
		if replayIdx >= 0 && i != replayIdx {
			continue
		}
		if replayIdx < 0 && !cfg.Mine(i) {
			continue
		}
		r := kit.NewRand(cfg.Seed, "C13", i)
		c := c13Case{Index: i}
		x := &c13Run{e: e, r: r, checked: map[string]bool{}}
		var s string
		switch k := r.Intn(100); {
		case k < 66:
			c.Kind = "name"
			s, c.Gen = c13GenName(r)
		case k < 76:
			c.Kind = "relpath"
			s, c.Gen = c13GenRel(r)
		default:
			c.Kind = "digest"
			s, c.Gen = c13GenDigest(r, e)
		}
		c.Input, c.InputQ = s, strconv.Quote(s)
		rep.Eval(1)
		e.cnt["kind."+c.Kind]++
		switch c.Kind {
		case "name":
			x.nameCase(s)
		case "relpath":
			x.relCase(s)
		default:
			x.digestCase(s)
		}
		if evals++; evals%256 == 0 {
			x.fullSweep("the last 256 cases")
		}
		for _, v := range x.vio {
			rep.Violate("c13:"+v.sig, v.what, c, nil)
			if replayIdx >= 0 {
				t.Logf("replay: %s: %s", v.sig, v.what)
			}
		}
		if len(x.acc) > 0 {
			sort.Strings(x.acc)
			rep.Distinct(c.Kind + "|" + strings.Join(x.acc, ",") + "|" + x.shape)
			e.cnt["nontrivial."+c.Kind]++
			if rep.NeedSample() && samplesByKind[c.Kind] < 2 && len(c.Gen) > 1 && len(s) < 120 {
				samplesByKind[c.Kind]++
				rep.Sample(map[string]any{"case": c, "accepted_by": x.acc})
			}
		} else {
			e.cnt["rejected-everywhere."+c.Kind]++
		}
	}
	// final sweep: nothing may be left outside the fixed layout, wherever it came from
	e.cleanManifests()
	if _, _, strays := e.sweep(); len(strays) > 0 {
		rep.Violate("c13:stray-path:end-of-run", fmt.Sprintf("entries outside the stores' fixed layout at the end of the run: %q", strays), map[string]any{"index": -1}, nil)
	}
	if what := e.blobsIntact(); what != "" {
		rep.Violate("c13:store-damaged:end-of-run", what, map[string]any{"index": -1}, nil)
	}
	for k, v := range e.cnt {
		rep.Count(k, v)
	}
	if replayIdx >= 0 && rep.Violations() == 0 {
		t.Logf("replay: case %d holds", replayIdx)
	}
}
