//go:build verif

package registry

// C09b: the pull clauses of C09 observed through the REAL retry loop of registry.Local.handlePull
// (POST /api/pull, streaming and non-streaming) and the real handleDelete. The upstream registry is a
// fake with chunk plans and a per-request fault plan made mostly of the faults canRetry retries on
// (5xx, connection reset, read timeout). Oracle = cache directory contents re-hashed after every request.

import (
	"bytes"
	"crypto/sha256"
	"encoding/json"
	"fmt"
	"io"
	"log"
	"log/slog"
	"net"
	"net/http"
	"net/http/httptest"
	"os"
	"sort"
	"strconv"
	"strings"
	"sync"
	"testing"
	"time"

	kit "verifkit"

	"github.com/ollama/ollama/server/internal/cache/blob"
	"github.com/ollama/ollama/server/internal/client/ollama"
)

const (
	c09bFQ   = "c09b.test/ns/m:v"
	c09bName = "http://" + c09bFQ
)

type c09bBlob struct {
	Size   int    `json:"size"`
	Digest string `json:"digest"`
	data   []byte
	dig    blob.Digest
}

type c09bFault struct {
	Target string `json:"target"` // manifest | chunksums:<blob> | chunk:<blob>:<i>
	Kind   string `json:"kind"`
	Times  int    `json:"times"`
}

type c09bStep struct {
	Op     string      `json:"op"` // pull | delete
	Stream bool        `json:"stream"`
	Faults []c09bFault `json:"faults,omitempty"`
	Delete []int       `json:"delete,omitempty"`
}

type c09bCase struct {
	Index      int                `json:"index"`
	Threshold  int64              `json:"chunking_threshold"`
	MaxStreams int                `json:"max_streams"`
	TimeoutMs  int                `json:"read_timeout_ms"`
	Blobs      []c09bBlob         `json:"blobs"`
	Layers     []int              `json:"layers"`
	Config     int                `json:"config"`
	Plans      map[int][][2]int64 `json:"plans"`
	Steps      []c09bStep         `json:"steps"`
	manifest   []byte
}

func c09bGen(r *kit.Rand, idx int) *c09bCase {
	c := &c09bCase{Index: idx, Config: -1, Plans: map[int][][2]int64{}}
	c.Threshold = kit.Pick(r, []int64{1 << 10, 4 << 10, 16 << 10})
	c.MaxStreams = kit.Pick(r, []int{1, 2, 4, 8})
	c.TimeoutMs = 3000
	T := int(c.Threshold)
	nb := r.Range(2, 3)
	for i := 0; i < nb; i++ {
		size := r.Range(1, T-1)
		if i == 0 || r.Chance(1, 3) {
			size = r.Range(T, 4*T)
		}
		b := c09bBlob{Size: size, data: r.Bytes(size)}
		for j := range b.data {
			if b.data[j] == 0 {
				b.data[j] = 0x5a
			}
		}
		b.dig = blob.DigestFromBytes(b.data)
		b.Digest = b.dig.String()
		c.Blobs = append(c.Blobs, b)
		if i == nb-1 && nb == 3 && r.Bool() {
			c.Config = i
		} else {
			c.Layers = append(c.Layers, i)
		}
		if size >= T {
			k := r.Range(2, 6)
			cuts := map[int]bool{}
			for len(cuts) < k-1 {
				cuts[1+r.Intn(size-1)] = true
			}
			cs := []int{0, size}
			for x := range cuts {
				cs = append(cs, x)
			}
			sort.Ints(cs)
			for j := 0; j+1 < len(cs); j++ {
				c.Plans[i] = append(c.Plans[i], [2]int64{int64(cs[j]), int64(cs[j+1] - 1)})
			}
		}
	}
	faults := func(n int) []c09bFault {
		var out []c09bFault
		for range n {
			b := r.Intn(len(c.Blobs))
			f := c09bFault{Times: r.Range(1, 2)}
			if p := c.Plans[b]; len(p) > 0 {
				f.Target = fmt.Sprintf("chunk:%d:%d", b, r.Intn(len(p)))
				if r.Chance(1, 10) {
					f.Target = fmt.Sprintf("chunksums:%d", b)
				}
			} else {
				f.Target = fmt.Sprintf("chunk:%d:0", b)
			}
			if r.Chance(1, 12) {
				f.Target = "manifest"
			}
			f.Kind = kit.Pick(r, []string{"status500", "status500", "status502", "reset-mid", "reset-mid", "stall-mid", "status404", "corrupt"})
			if f.Kind == "stall-mid" {
				c.TimeoutMs = 50
			}
			if strings.HasPrefix(f.Target, "chunksums") || f.Target == "manifest" {
				f.Kind = kit.Pick(r, []string{"status500", "status502", "status404"})
			}
			out = append(out, f)
		}
		return out
	}
	all := func() []int {
		a := append([]int(nil), c.Layers...)
		if c.Config >= 0 {
			a = append(a, c.Config)
		}
		return a
	}
	stream := func() bool { return r.Chance(5, 6) }
	switch r.Intn(4) {
	case 0, 1:
		c.Steps = []c09bStep{{Op: "pull", Stream: stream(), Faults: faults(r.Range(1, 3))}, {Op: "pull", Stream: stream()}}
	case 2:
		del := all()
		if r.Bool() {
			del = []int{kit.Pick(r, del)}
		}
		c.Steps = []c09bStep{{Op: "pull", Stream: stream()}, {Op: "delete", Delete: del}, {Op: "pull", Stream: stream(), Faults: faults(r.Intn(2))}, {Op: "pull", Stream: stream()}}
	default:
		c.Steps = []c09bStep{{Op: "pull", Stream: stream(), Faults: faults(r.Range(1, 2))}, {Op: "pull", Stream: stream(), Faults: faults(1)}, {Op: "pull", Stream: stream()}}
	}
	var b bytes.Buffer
	b.WriteString(`{"layers":[`)
	for i, li := range c.Layers {
		if i > 0 {
			b.WriteByte(',')
		}
		fmt.Fprintf(&b, `{"digest":"%s","mediaType":"application/vnd.ollama.image.model","size":%d}`, c.Blobs[li].Digest, c.Blobs[li].Size)
	}
	b.WriteString(`]`)
	if c.Config >= 0 {
		fmt.Fprintf(&b, `,"config":{"digest":"%s","mediaType":"application/vnd.docker.container.image.v1+json","size":%d}`, c.Blobs[c.Config].Digest, c.Blobs[c.Config].Size)
	}
	b.WriteString(`}`)
	c.manifest = b.Bytes()
	return c
}

// c09bRW is a ResponseWriter that may be written to from several goroutines. handlePull does exactly
// that (the pull goroutine's trace callback flushes progress while the handler goroutine encodes its first
// status line — a data race that belongs to C15); httptest.ResponseRecorder dies of it with "concurrent
// map writes", which would end this child for a reason that is not C09's.
type c09bRW struct {
	mu   sync.Mutex
	hdr  http.Header
	Code int
	Body bytes.Buffer
}

func (w *c09bRW) Header() http.Header {
	w.mu.Lock()
	defer w.mu.Unlock()
	if w.hdr == nil {
		w.hdr = http.Header{}
	}
	return w.hdr.Clone() // nothing here reads the headers back
}

func (w *c09bRW) WriteHeader(code int) {
	w.mu.Lock()
	defer w.mu.Unlock()
	if w.Code == 0 {
		w.Code = code
	}
}

func (w *c09bRW) Write(b []byte) (int, error) {
	w.mu.Lock()
	defer w.mu.Unlock()
	if w.Code == 0 {
		w.Code = 200
	}
	return w.Body.Write(b)
}

func (w *c09bRW) Flush() {}

func (w *c09bRW) result() (int, string) {
	w.mu.Lock()
	defer w.mu.Unlock()
	if w.Code == 0 {
		return 200, w.Body.String()
	}
	return w.Code, w.Body.String()
}

type c09bWorld struct {
	c      *c09bCase
	mu     sync.Mutex
	faults []*c09bFault
	fired  []string
	reqs   []string
	pulls  int // manifest requests = Pull calls made by the handler
	okChk  map[int]int
}

func (w *c09bWorld) take(target string) string {
	w.mu.Lock()
	defer w.mu.Unlock()
	for _, f := range w.faults {
		if f.Target == target && f.Times > 0 {
			f.Times--
			w.fired = append(w.fired, target+"="+f.Kind)
			return f.Kind
		}
	}
	return ""
}

func c09bErr(rw http.ResponseWriter, status int, code string) {
	rw.Header().Set("Content-Type", "application/json")
	rw.WriteHeader(status)
	fmt.Fprintf(rw, `{"errors":[{"code":%q,"message":"c09b injected fault"}]}`, code)
}

func c09bReset(rw http.ResponseWriter) {
	conn, _, err := rw.(http.Hijacker).Hijack()
	if err != nil {
		panic(http.ErrAbortHandler)
	}
	if tc, ok := conn.(*net.TCPConn); ok {
		tc.SetLinger(0)
	}
	conn.Close()
}

func (w *c09bWorld) serve(rw http.ResponseWriter, r *http.Request) {
	c := w.c
	rest, ok := strings.CutPrefix(r.URL.Path, "/v2/ns/m/")
	if !ok || r.Method != "GET" {
		http.Error(rw, "unexpected", 597)
		return
	}
	w.mu.Lock()
	if len(w.reqs) < 300 {
		w.reqs = append(w.reqs, rest+" "+r.Header.Get("Range"))
	}
	w.mu.Unlock()
	kind, arg, _ := strings.Cut(rest, "/")
	bi := -1
	for i := range c.Blobs {
		if c.Blobs[i].Digest == arg {
			bi = i
		}
	}
	status := func(f string) bool {
		switch f {
		case "status500":
			c09bErr(rw, 500, "INTERNAL_ERROR")
		case "status502":
			rw.WriteHeader(502)
			io.WriteString(rw, "<html>Bad Gateway</html>")
		case "status404":
			c09bErr(rw, 404, "BLOB_UNKNOWN")
		default:
			return false
		}
		return true
	}
	switch {
	case kind == "manifests":
		w.mu.Lock()
		w.pulls++
		w.mu.Unlock()
		if !status(w.take("manifest")) {
			rw.Write(c.manifest)
		}
	case kind == "chunksums" && bi >= 0:
		if status(w.take(fmt.Sprintf("chunksums:%d", bi))) {
			return
		}
		rw.Header().Set("Content-Location", "http://c09b.test/v2/ns/m/blobs/"+arg)
		for _, p := range c.Plans[bi] {
			fmt.Fprintf(rw, "%s %d-%d\n", blob.DigestFromBytes(c.Blobs[bi].data[p[0]:p[1]+1]), p[0], p[1])
		}
	case kind == "blobs" && bi >= 0:
		bl := &c.Blobs[bi]
		s, e := int64(0), int64(bl.Size-1)
		if h, ok := strings.CutPrefix(r.Header.Get("Range"), "bytes="); ok {
			a, b, _ := strings.Cut(h, "-")
			s, _ = strconv.ParseInt(a, 10, 64)
			e, _ = strconv.ParseInt(b, 10, 64)
		}
		if s < 0 || e >= int64(bl.Size) || s > e {
			rw.WriteHeader(416)
			return
		}
		ci := 0
		for i, p := range c.Plans[bi] {
			if p[0] == s && p[1] == e {
				ci = i
			}
		}
		data := bl.data[s : e+1]
		f := w.take(fmt.Sprintf("chunk:%d:%d", bi, ci))
		if status(f) {
			return
		}
		rw.Header().Set("Content-Length", strconv.Itoa(len(data)))
		rw.WriteHeader(206)
		switch f {
		case "reset-mid":
			rw.Write(data[:len(data)/2])
			rw.(http.Flusher).Flush()
			c09bReset(rw)
		case "stall-mid":
			rw.Write(data[:len(data)/2])
			rw.(http.Flusher).Flush()
			select {
			case <-r.Context().Done():
			case <-time.After(10 * time.Second):
			}
		case "corrupt":
			d := append([]byte(nil), data...)
			d[0] ^= 0x55
			rw.Write(d)
		default:
			rw.Write(data)
			w.mu.Lock()
			w.okChk[bi]++
			w.mu.Unlock()
		}
	default:
		http.Error(rw, "unexpected", 597)
	}
}

func c09bCheckBlob(cache *blob.DiskCache, c *c09bCase, b int) string {
	bl := &c.Blobs[b]
	got, err := os.ReadFile(cache.GetFile(bl.dig))
	switch {
	case err != nil:
		return fmt.Sprintf("blob %d (%d bytes): file missing", b, bl.Size)
	case len(got) != bl.Size:
		return fmt.Sprintf("blob %d: file has %d bytes, manifest says %d", b, len(got), bl.Size)
	case sha256.Sum256(got) != bl.dig.Sum():
		first := 0
		for i := range got {
			if got[i] != bl.data[i] {
				first = i
				break
			}
		}
		return fmt.Sprintf("blob %d: file has the manifest's size %d but not its SHA-256 (first differing byte at %d, value %#x)", b, bl.Size, first, got[first])
	}
	return ""
}

func c09bRun(t *testing.T, rep *kit.Report, c *c09bCase, base string) {
	if j, err := json.Marshal(c); err == nil {
		rep.Journal(j)
	}
	dir, err := os.MkdirTemp(base, "case")
	if err != nil {
		rep.Inconclusive("harness: " + err.Error())
		return
	}
	defer os.RemoveAll(dir)
	cache, err := blob.Open(dir)
	if err != nil {
		rep.Inconclusive("harness: " + err.Error())
		return
	}
	w := &c09bWorld{c: c, okChk: map[int]int{}}
	srv := httptest.NewUnstartedServer(http.HandlerFunc(w.serve))
	srv.Config.ErrorLog = log.New(io.Discard, "", 0)
	srv.Start()
	addr := srv.Listener.Addr().String()
	tr := &http.Transport{Dial: func(network, _ string) (net.Conn, error) { return net.Dial(network, addr) }}
	defer func() {
		srv.CloseClientConnections()
		srv.Close()
		tr.CloseIdleConnections()
	}()
	local := &Local{
		Client: &ollama.Registry{Cache: cache, HTTPClient: &http.Client{Transport: tr}, MaxStreams: c.MaxStreams, ChunkingThreshold: c.Threshold,
			ReadTimeout: time.Duration(c.TimeoutMs) * time.Millisecond},
		Logger: slog.New(slog.NewTextHandler(io.Discard, nil)),
	}
	all := append([]int(nil), c.Layers...)
	if c.Config >= 0 {
		all = append(all, c.Config)
	}
	mdig := blob.DigestFromBytes(c.manifest)
	var outcomes []string
	hist := map[int]string{} // blob -> what the history did to it
	retried, multi := false, false
	for si, st := range c.Steps {
		if st.Op == "delete" {
			rec := &c09bRW{}
			local.ServeHTTP(rec, httptest.NewRequest("DELETE", "/api/delete", strings.NewReader(fmt.Sprintf(`{"model":%q}`, c09bFQ))))
			if _, err := cache.Resolve(c09bFQ); err == nil {
				rep.Inconclusive(fmt.Sprintf("case %d: /api/delete answered %d and the name still resolves", c.Index, rec.Code))
				return
			}
			for _, b := range st.Delete {
				os.Remove(cache.GetFile(c.Blobs[b].dig))
				hist[b] = "after-layer-blob-deleted"
			}
			outcomes = append(outcomes, fmt.Sprintf("delete-%d", rec.Code))
			rep.Count("deletes", 1)
			continue
		}
		w.mu.Lock()
		w.faults = nil
		for i := range st.Faults {
			f := st.Faults[i]
			w.faults = append(w.faults, &f)
		}
		w.fired = nil
		w.pulls = 0
		w.okChk = map[int]int{}
		nreq := len(w.reqs)
		w.mu.Unlock()
		pre := map[int]int64{}
		for _, b := range all {
			pre[b] = -1
			if fi, err := os.Stat(cache.GetFile(c.Blobs[b].dig)); err == nil {
				pre[b] = fi.Size()
			}
		}
		body := fmt.Sprintf(`{"model":%q,"stream":%v}`, c09bName, st.Stream)
		rec := &c09bRW{}
		done := make(chan any, 1)
		go func() {
			defer func() { done <- recover() }()
			local.ServeHTTP(rec, httptest.NewRequest("POST", "/api/pull", strings.NewReader(body)))
		}()
		select {
		case p := <-done:
			if p != nil {
				rep.Violate("c09b:panic:Local.handlePull", fmt.Sprint(p), c, nil)
				return
			}
		case <-time.After(90 * time.Second):
			rep.Inconclusive(fmt.Sprintf("case %d step %d: /api/pull did not return within the watchdog", c.Index, si))
			return
		}
		code, out := rec.result()
		success := code == 200 && strings.Contains(out, `"status":"success"`)
		w.mu.Lock()
		pulls, fired := w.pulls, append([]string(nil), w.fired...)
		reqs := append([]string(nil), w.reqs[nreq:]...)
		for b, n := range w.okChk {
			if n >= 2 && len(c.Plans[b]) >= 2 {
				multi = true
			}
		}
		w.mu.Unlock()
		if pulls > 1 {
			retried = true
			rep.Count("handler_auto_retries", pulls-1)
		}
		d, rerr := cache.Resolve(c09bFQ)
		var bad []string
		if rerr == nil || success {
			for _, b := range all {
				if s := c09bCheckBlob(cache, c, b); s != "" {
					bad = append(bad, s)
				}
			}
		}
		wit := map[string]any{"step": si, "response_code": code, "response_tail": out[max(0, len(out)-600):], "pull_calls_by_handler": pulls, "faults_fired": fired,
			"upstream_requests": reqs, "file_sizes_before": fmt.Sprint(pre), "outcomes_so_far": outcomes}
		shape := func() string {
			var b int
			fmt.Sscanf(bad[0], "blob %d", &b)
			asked := "requested"
			n := 0
			for _, rq := range reqs {
				if strings.Contains(rq, c.Blobs[b].Digest) {
					n++
				}
			}
			switch {
			case n == 0 && pre[b] == int64(c.Blobs[b].Size):
				asked = "layer-not-requested"
			case n == 0 || (len(c.Plans[b]) > 0 && n < 1+len(c.Plans[b])):
				asked = "ranges-skipped"
			}
			h := hist[b]
			if pulls > 1 && !(h == "after-layer-blob-deleted" && asked == "ranges-skipped") {
				// several Pull calls inside one request: what the last one asked for cannot be told
				// apart from the outside; the layer was left part-written by an earlier Pull of the loop
				return "auto-retry-after-partial-download"
			}
			if h == "" {
				h = "unexplained"
			}
			return h + ":" + asked
		}
		if success {
			rep.Count("pull_success", 1)
			outcomes = append(outcomes, fmt.Sprintf("success(%d pulls)", pulls))
			switch {
			case rerr != nil || d != mdig:
				rep.Violate("c09b:pull-success-name-not-linked-to-served-manifest", fmt.Sprintf("/api/pull reported success but the name does not resolve to the served manifest (%v)", rerr), c, wit)
				return
			case len(bad) > 0:
				rep.Violate("c09b:pull-success-bad-layer:"+shape(), "/api/pull reported success and the name is linked, but "+strings.Join(bad, "; "), c, wit)
				return
			}
			for _, b := range all {
				hist[b] = ""
			}
		} else {
			rep.Count("pull_failed", 1)
			outcomes = append(outcomes, fmt.Sprintf("failed(%d pulls)", pulls))
			if rerr == nil && len(bad) > 0 {
				rep.Violate("c09b:failed-pull-name-linked-to-incomplete-model:"+shape(), "/api/pull failed and the name resolves, but "+strings.Join(bad, "; "), c, wit)
				return
			}
			for _, b := range all {
				if hist[b] == "" && w.okChk[b] > 0 && c09bCheckBlob(cache, c, b) != "" {
					hist[b] = "retry-after-partial-download"
				}
			}
		}
	}
	if multi && (retried || len(c.Steps) > 2) {
		rep.Distinct(fmt.Sprint(c.Threshold, c.MaxStreams, len(c.Blobs), outcomes))
		rep.Count("nontrivial_cases", 1)
	}
	if rep.NeedSample() && c.Blobs[0].Size < 5000 {
		rep.Sample(c)
	}
}

func TestVerifC09b(t *testing.T) {
	slog.SetDefault(slog.New(slog.NewTextHandler(io.Discard, nil)))
	rep := kit.NewReport("C09b")
	cfg := rep.Cfg()
	defer rep.Flush()
	rep.Set("rule", "case i = PRNG(seed,'C09b',i): 2-4 requests (POST /api/pull streaming or not, DELETE /api/delete + removal of layer blob files) served by the real registry.Local handler (real retry loop with backoff, real canRetry) over a real Registry/DiskCache, against a fake upstream with chunk plans of 2-6 chunks and a fault plan of mostly retryable faults (5xx, reset mid-body, stalled body with ReadTimeout 50 ms). After every request every layer file is re-hashed and the name resolved. Non-trivial = a chunked layer was served in >= 2 chunk responses within one request and (the handler called Pull more than once for one request, or the history has > 2 steps). Distinct = distinct (threshold, MaxStreams, blob count, outcome sequence with the number of Pull calls per request).")
	rep.Set("assumptions", []string{
		"success of a request = HTTP 200 and a line with status \"success\" in the response body",
		"manifests are well-formed and honest; layer sizes >= 1; delete removes layer blob files by digest after the handler unlinked the name (Prune is nil), marker blobs are left alone",
		"completion order of chunk downloads is left to the scheduler here (the order plans are in C09)",
	})
	n := cfg.N(500, 40000)
	replayIdx := -1
	if cfg.Replay != "" {
		var rc struct {
			Index int `json:"index"`
		}
		if err := kit.LoadReplay(cfg.Replay, &rc); err != nil {
			t.Fatal(err)
		}
		replayIdx = rc.Index
	}
	base := t.TempDir()
	for i := 0; i < n; i++ {
		if replayIdx >= 0 && i != replayIdx {
			continue
		}
		if replayIdx < 0 && !cfg.Mine(i) {
			continue
		}
		if replayIdx < 0 && (rep.Enough() || rep.OverBudget()) {
			break
		}
		rep.Eval(1)
		c09bRun(t, rep, c09bGen(kit.NewRand(cfg.Seed, "C09b", i), i), base)
	}
	if replayIdx >= 0 {
		t.Logf("replay of case %d: %d violation(s)", replayIdx, rep.Violations())
	}
}
