//go:build verif

package ollama

// C09: registry client — success means every layer verified; manifest committed last.
//
// The real Registry.Pull / Registry.Push run against a scripted fake registry (httptest.Server) with a
// real blob.DiskCache in a temp dir. A case is a HISTORY of 1-4 attempts (pull, pull under the retry loop
// of registry.Local.handlePull, delete) with, per attempt, a CHUNK PLAN per chunked layer (any tiling, or a
// broken list), a FAULT PLAN per request and a COMPLETION-ORDER PLAN (chunk responses are held by the fake
// registry and released one at a time in an enumerated or PRNG order). The oracle looks at the cache
// directory only: files are re-hashed by the monitor after every attempt, at every inotify event on the
// model's manifest file, and at every moment the fake registry holds chunk responses back.

import (
	"bytes"
	"cmp"
	"context"
	"crypto/sha256"
	"encoding/json"
	"errors"
	"fmt"
	"io"
	"log"
	"log/slog"
	"net"
	"net/http"
	"net/http/httptest"
	"os"
	"path/filepath"
	"sort"
	"strconv"
	"strings"
	"sync"
	"sync/atomic"
	"syscall"
	"testing"
	"time"
	"unsafe"

	kit "verifkit"

	"github.com/ollama/ollama/server/internal/cache/blob"
	"github.com/ollama/ollama/server/internal/internal/backoff"
)

const (
	c09Host   = "c09.test"
	c09NS     = "ns"
	c09Model  = "m"
	c09Tag    = "v"
	c09FQ     = c09Host + "/" + c09NS + "/" + c09Model + ":" + c09Tag
	c09Name   = "http://" + c09FQ
	c09Settle = 300 * time.Microsecond
)

// ---------------------------------------------------------------------------------------------
// case description (everything needed to understand / replay a case is exported to JSON)

type c09Blob struct {
	Size   int    `json:"size"`
	Digest string `json:"digest"`
	data   []byte
	dig    blob.Digest
}

type c09Version struct {
	Layers []int `json:"layers"` // indices into Blobs
	Config int   `json:"config"` // index into Blobs, -1 = the manifest has no config object
	data   []byte
	dig    blob.Digest
}

type c09Line struct {
	S   int64  `json:"s"`
	E   int64  `json:"e"`
	Raw string `json:"raw,omitempty"` // served verbatim instead of "<digest> <s>-<e>"
	Lie bool   `json:"lie,omitempty"` // the listed digest is that of the corrupted bytes the registry then serves
}

// c09Plan is what the chunksums endpoint streams for one layer.
type c09Plan struct {
	Kind       string    `json:"kind"` // tiling | tiling-shuffled | gap | overlap | gap+overlap | garbage | truncated | cut-line | beyond | lying-digest | no-location
	Lines      []c09Line `json:"lines"`
	NoLocation bool      `json:"no_location,omitempty"`
	Flush      bool      `json:"flush,omitempty"` // flush after every line (chunks start while the list still streams)
	Abort      bool      `json:"abort,omitempty"` // end the stream by aborting the connection instead of a clean EOF
}

func (p c09Plan) broken() bool { return !strings.HasPrefix(p.Kind, "tiling") }

type c09Fault struct {
	Target string `json:"target"` // manifest | chunksums:<blob> | chunk:<blob>:<line index>
	Kind   string `json:"kind"`
	Times  int    `json:"times"` // number of matching requests affected (counted over the whole step, retries included)
}

type c09Step struct {
	Op            string          `json:"op"` // pull | retry-pull | delete
	Version       int             `json:"version"`
	Faults        []c09Fault      `json:"faults,omitempty"`
	Plans         map[int]c09Plan `json:"plans,omitempty"` // per-step chunk plan of a blob (default: the case's plan)
	Order         string          `json:"order"`           // free | seeded | perm
	Perm          []int           `json:"perm,omitempty"`  // perm: release order over the chunk indices of PermBlob
	PermBlob      int             `json:"perm_blob,omitempty"`
	OrderSeed     uint64          `json:"order_seed,omitempty"`
	CancelAtStep  int             `json:"cancel_at_step"`            // -1 never; k: cancel the pull context just before the k-th held response is released
	CancelAtBytes int64           `json:"cancel_at_bytes,omitempty"` // cancel inside Trace.Update once that many bytes were received
	Delete        []int           `json:"delete,omitempty"`          // delete: blobs whose files are removed (after Unlink)
}

type c09Case struct {
	Index         int             `json:"index"`
	Mode          string          `json:"mode"` // enum | random
	Shape         string          `json:"shape"`
	SiblingOf     int             `json:"sibling_of_blob_plus_1,omitempty"` // the last blob is a revision of this one: same size and chunk list, same bytes up to a chunk boundary
	Threshold     int64           `json:"chunking_threshold"`
	MaxStreams    int             `json:"max_streams"`
	ReadTimeoutMs int             `json:"read_timeout_ms"`
	Blobs         []c09Blob       `json:"blobs"`
	Versions      []c09Version    `json:"versions"`
	Plans         map[int]c09Plan `json:"plans"`
	Steps         []c09Step       `json:"steps"`
}

// ---------------------------------------------------------------------------------------------
// generators

func c09MakeBlob(r *kit.Rand, size int) c09Blob {
	b := c09Blob{Size: size, data: r.Bytes(size)}
	// no long zero runs at the start: holes (zero-filled) must differ from content
	for i := range b.data {
		if b.data[i] == 0 {
			b.data[i] = 0x5a
		}
	}
	b.dig = blob.DigestFromBytes(b.data)
	b.Digest = b.dig.String()
	return b
}

func c09Tiling(r *kit.Rand, size int64, k int) []c09Line {
	if int64(k) > size {
		k = int(size)
	}
	if k < 1 {
		k = 1
	}
	cuts := map[int64]bool{}
	for len(cuts) < k-1 {
		cuts[1+int64(r.Intn(int(size-1)))] = true
	}
	cs := make([]int64, 0, k+1)
	cs = append(cs, 0)
	for c := range cuts {
		cs = append(cs, c)
	}
	sort.Slice(cs, func(i, j int) bool { return cs[i] < cs[j] })
	cs = append(cs, size)
	out := make([]c09Line, 0, k)
	for i := 0; i+1 < len(cs); i++ {
		out = append(out, c09Line{S: cs[i], E: cs[i+1] - 1})
	}
	return out
}

// c09Break turns a valid tiling into one of the broken lists of the property's quantifier.
func c09Break(r *kit.Rand, kind string, size int64, base []c09Line) c09Plan {
	p := c09Plan{Kind: kind, Lines: append([]c09Line(nil), base...)}
	k := len(p.Lines)
	switch kind {
	case "gap":
		j := r.Intn(k)
		if k > 1 && r.Chance(2, 3) {
			j = r.Intn(k - 1) // not the last one: the file still reaches full length
		}
		p.Lines = append(p.Lines[:j], p.Lines[j+1:]...)
	case "overlap":
		if k < 2 {
			p.Lines = append(p.Lines, p.Lines[0])
			break
		}
		j := 1 + r.Intn(k-1)
		d := int64(1 + r.Intn(int(p.Lines[j].S-p.Lines[j-1].S)))
		p.Lines[j].S -= d
	case "gap+overlap":
		// same number of bytes as the layer, but chunk j is shifted down by d: it overlaps its
		// predecessor and leaves the d bytes before its successor unlisted
		if k < 2 {
			p.Kind = "tiling"
			break
		}
		j := 1 + r.Intn(k-1)
		d := int64(1 + r.Intn(int(p.Lines[j].S-p.Lines[j-1].S)))
		p.Lines[j].S -= d
		p.Lines[j].E -= d
		if p.Lines[j].E < p.Lines[j].S {
			p.Lines[j].E = p.Lines[j].S
		}
	case "garbage":
		j := r.Intn(k + 1)
		raw := kit.Pick(r, []string{"sha256:zz 0-1", "!!!", "sha256:" + strings.Repeat("0", 64) + " 5-x", "sha256:" + strings.Repeat("0", 64) + " 9-2", "<html>502 Bad Gateway</html>"})
		p.Lines = append(p.Lines[:j], append([]c09Line{{Raw: raw}}, p.Lines[j:]...)...)
	case "truncated":
		p.Lines = p.Lines[:r.Intn(k)]
		p.Abort = r.Chance(1, 2)
	case "cut-line":
		j := r.Intn(k)
		l := p.Lines[j]
		p.Lines = p.Lines[:j]
		p.Lines = append(p.Lines, c09Line{S: l.S, E: l.E, Raw: kit.Pick(r, []string{"sha256:0123", "@DIGEST@", "@DIGEST@ " + strconv.FormatInt(l.S, 10) + "-"})})
		p.Abort = r.Chance(1, 2)
	case "beyond":
		p.Lines[k-1].E += int64(1 + r.Intn(64))
	case "lying-digest":
		p.Lines[r.Intn(k)].Lie = true
	case "no-location":
		p.NoLocation = true
	}
	return p
}

var c09BrokenKinds = []string{"gap", "overlap", "gap+overlap", "garbage", "truncated", "cut-line", "beyond", "lying-digest", "no-location"}

var c09ChunkFaults = []string{"status500", "status404", "short", "short-abort", "corrupt-first", "corrupt-last", "rotate", "reset", "reset-mid", "stall", "stall-mid", "cancel", "cancel-mid"}

// faults after which registry.Local.handlePull retries on its own (canRetry)
var c09RetryableFaults = []string{"status500", "status500", "status502", "reset-mid", "reset"}

func c09Pad(datas [][]byte) {
	n := 0
	for _, d := range datas {
		n = max(n, len(d))
	}
	for i, d := range datas {
		datas[i] = append(d, bytes.Repeat([]byte(" "), n-len(d))...)
	}
}

func (c *c09Case) finish() {
	// the read timeout is short only where a stalled response is planned: a held response must not
	// be mistaken for a stalled one
	c.ReadTimeoutMs = 3000
	for _, st := range c.Steps {
		for _, f := range st.Faults {
			if strings.HasPrefix(f.Kind, "stall") {
				c.ReadTimeoutMs = 50
			}
		}
	}
	datas := make([][]byte, len(c.Versions))
	for vi, v := range c.Versions {
		var b bytes.Buffer
		b.WriteString(`{"schemaVersion":2,"layers":[`)
		for i, li := range v.Layers {
			if i > 0 {
				b.WriteByte(',')
			}
			fmt.Fprintf(&b, `{"digest":"%s","mediaType":"application/vnd.ollama.image.model","size":%d}`, c.Blobs[li].Digest, c.Blobs[li].Size)
		}
		b.WriteString(`]`)
		if v.Config >= 0 {
			fmt.Fprintf(&b, `,"config":{"digest":"%s","mediaType":"application/vnd.docker.container.image.v1+json","size":%d}`, c.Blobs[v.Config].Digest, c.Blobs[v.Config].Size)
		}
		b.WriteString(`}`)
		datas[vi] = b.Bytes()
	}
	c09Pad(datas) // version updates whose manifests have EQUAL LENGTH (trailing JSON white space)
	for vi := range c.Versions {
		c.Versions[vi].data = datas[vi]
		c.Versions[vi].dig = blob.DigestFromBytes(datas[vi])
	}
}

func (c *c09Case) chunked(b int) bool { return int64(c.Blobs[b].Size) >= c.Threshold }

func (c *c09Case) plan(st *c09Step, b int) c09Plan {
	if st != nil {
		if p, ok := st.Plans[b]; ok {
			return p
		}
	}
	if p, ok := c.Plans[b]; ok {
		return p
	}
	return c09Plan{Kind: "tiling", Lines: []c09Line{{S: 0, E: int64(c.Blobs[b].Size) - 1}}}
}

func (c *c09Case) blobsOf(v int) []int {
	out := append([]int(nil), c.Versions[v].Layers...)
	if c.Versions[v].Config >= 0 {
		out = append(out, c.Versions[v].Config)
	}
	return out
}

// c09GenFaults draws n faults for a pull of version v under the given plans.
func c09GenFaults(r *kit.Rand, c *c09Case, st *c09Step, n int, kinds []string) {
	type tgt struct {
		name string
		kind string // manifest | chunksums | chunk
	}
	var ts []tgt
	for _, b := range c.blobsOf(st.Version) {
		if c.chunked(b) {
			ts = append(ts, tgt{fmt.Sprintf("chunksums:%d", b), "chunksums"})
			for i, l := range c.plan(st, b).Lines {
				if l.Raw == "" {
					for range 3 { // chunk requests are the interesting targets
						ts = append(ts, tgt{fmt.Sprintf("chunk:%d:%d", b, i), "chunk"})
					}
				}
			}
		} else {
			ts = append(ts, tgt{fmt.Sprintf("chunk:%d:0", b), "chunk"})
		}
	}
	ts = append(ts, tgt{"manifest", "manifest"})
	for range n {
		t := kit.Pick(r, ts)
		f := c09Fault{Target: t.name, Times: 1}
		switch t.kind {
		case "manifest":
			f.Kind = kit.Pick(r, []string{"status500", "status404", "garbage", "truncated-json", "reset", "no-layers", "null-layer"})
		case "chunksums":
			f.Kind = kit.Pick(r, []string{"status500", "status404", "status204", "reset", "reset-mid"})
		default:
			f.Kind = kit.Pick(r, kinds)
		}
		if r.Chance(1, 6) {
			f.Times = 2
		}
		st.Faults = append(st.Faults, f)
	}
}

func c09Gen(r *kit.Rand, idx int) *c09Case {
	c := &c09Case{Index: idx, Mode: "random", Plans: map[int]c09Plan{}}
	c.Threshold = kit.Pick(r, []int64{1 << 10, 1 << 10, 4 << 10, 4 << 10, 16 << 10, 64 << 10})
	c.MaxStreams = kit.Pick(r, []int{1, 2, 3, 4, 8, 8})
	c.ReadTimeoutMs = 40
	T := int(c.Threshold)
	nb := r.Range(3, 5)
	for i := 0; i < nb; i++ {
		var size int
		switch {
		case i == 0: // always one chunked layer
			size = r.Range(T, min(4*T, 256<<10))
		case i == 1:
			size = r.Range(1, T-1) // unchunked
		default:
			switch r.Intn(5) {
			case 0:
				size = kit.Pick(r, []int{T - 1, T, T + 1})
			case 1, 2:
				size = r.Range(T, min(4*T, 256<<10))
			default:
				size = r.Range(1, T-1)
			}
		}
		c.Blobs = append(c.Blobs, c09MakeBlob(r, size))
	}
	// version 0: blobs 0,1 (+2 as config or layer); version 1: shares a layer with version 0, same layer count
	v0 := c09Version{Layers: []int{0, 1}, Config: -1}
	if r.Chance(1, 2) {
		v0.Config = 2
	} else if r.Chance(1, 2) {
		v0.Layers = append(v0.Layers, 2)
	}
	v1 := c09Version{Layers: append([]int(nil), v0.Layers...), Config: v0.Config}
	repl := nb - 1
	sibling := -1 // the layer of version 0 that the replacement is a revision of
	if nb == 3 {
		// only three blobs: the update swaps the order and replaces nothing but the config/last layer role
		v1.Layers[0], v1.Layers[1] = v1.Layers[1], v1.Layers[0]
	} else {
		pos := r.Intn(len(v1.Layers))
		if r.Chance(1, 2) {
			pos = 0 // the chunked layer
		}
		if old := v1.Layers[pos]; c.chunked(old) && r.Chance(2, 3) {
			// the new layer is a revision of the one it replaces: same size, same bytes up to some point (a
			// re-quantised tail, appended metadata): the registry lists identical chunks for the common part
			sibling = old
			c.Blobs[repl] = c09Blob{Size: c.Blobs[old].Size, data: append([]byte(nil), c.Blobs[old].data...)}
		}
		v1.Layers[pos] = repl // replace one layer, keep (share) the others
	}
	c.Versions = []c09Version{v0, v1}
	if r.Chance(1, 12) {
		// a manifest that lists the same layer twice
		c.Versions[0].Layers = append(c.Versions[0].Layers, c.Versions[0].Layers[0])
		c.Versions[1].Layers = append(c.Versions[1].Layers, c.Versions[1].Layers[0])
	}
	for b := range c.Blobs {
		if c.chunked(b) {
			k := r.Range(1, 8)
			if r.Chance(1, 4) {
				k = r.Range(2, 4)
			}
			p := c09Plan{Kind: "tiling", Lines: c09Tiling(r, int64(c.Blobs[b].Size), k), Flush: r.Chance(1, 2)}
			if r.Chance(1, 8) {
				p.Kind = "tiling-shuffled"
				kit.Shuffle(r, p.Lines)
			}
			c.Plans[b] = p
		}
	}
	if sibling >= 0 {
		p := c.Plans[sibling]
		if len(p.Lines) < 2 {
			p = c09Plan{Kind: "tiling", Lines: c09Tiling(r, int64(c.Blobs[sibling].Size), r.Range(2, 6)), Flush: p.Flush}
			c.Plans[sibling] = p
		}
		// same chunk boundaries; the revision differs from the first byte of one of the later chunks on
		var starts []int64
		for _, l := range p.Lines {
			if l.S > 0 {
				starts = append(starts, l.S)
			}
		}
		cut := kit.Pick(r, starts)
		b := &c.Blobs[repl]
		for i := int(cut); i < len(b.data); i++ {
			if b.data[i] ^= 0xff; b.data[i] == 0 {
				b.data[i] = 0x5a
			}
		}
		b.dig = blob.DigestFromBytes(b.data)
		b.Digest = b.dig.String()
		c.Plans[repl] = c09Plan{Kind: p.Kind, Lines: append([]c09Line(nil), p.Lines...), Flush: p.Flush}
		c.SiblingOf = sibling + 1
	}
	order := func(st *c09Step) {
		st.CancelAtStep = -1
		switch r.Intn(4) {
		case 0:
			st.Order = "free"
		default:
			st.Order = "seeded"
			st.OrderSeed = r.Uint64()
		}
	}
	clean := func(v int) c09Step {
		st := c09Step{Op: "pull", Version: v}
		order(&st)
		return st
	}
	faulty := func(v int, retry bool) c09Step {
		st := c09Step{Op: "pull", Version: v, Plans: map[int]c09Plan{}}
		order(&st)
		if retry {
			st.Op = "retry-pull"
			c09GenFaults(r, c, &st, r.Range(1, 2), c09RetryableFaults)
			return st
		}
		switch r.Intn(10) {
		case 0, 1, 2: // broken chunk list for one chunked blob of the version
			var cand []int
			for _, b := range c.blobsOf(v) {
				if c.chunked(b) {
					cand = append(cand, b)
				}
			}
			if len(cand) > 0 {
				b := kit.Pick(r, cand)
				base := c.Plans[b].Lines
				if c.Plans[b].Kind != "tiling" {
					base = c09Tiling(r, int64(c.Blobs[b].Size), max(2, len(base)))
				}
				st.Plans[b] = c09Break(r, kit.Pick(r, c09BrokenKinds), int64(c.Blobs[b].Size), base)
				if r.Chance(1, 3) {
					c09GenFaults(r, c, &st, 1, c09ChunkFaults)
				}
				break
			}
			fallthrough
		case 3, 4: // cancellation at a completion step or at a byte count
			if st.Order != "free" && r.Chance(2, 3) {
				st.CancelAtStep = r.Intn(8)
			} else {
				tot := 0
				for _, b := range c.blobsOf(v) {
					tot += c.Blobs[b].Size
				}
				st.CancelAtBytes = int64(1 + r.Intn(tot))
			}
		default:
			c09GenFaults(r, c, &st, r.Range(1, 3), c09ChunkFaults)
		}
		return st
	}
	del := func(v int) c09Step {
		st := c09Step{Op: "delete", Version: v, CancelAtStep: -1}
		bs := c.blobsOf(v)
		switch r.Intn(3) {
		case 0:
			st.Delete = bs
		case 1:
			st.Delete = []int{kit.Pick(r, bs)}
		default:
			for _, b := range bs {
				if r.Bool() {
					st.Delete = append(st.Delete, b)
				}
			}
			if len(st.Delete) == 0 {
				st.Delete = []int{bs[0]}
			}
		}
		return st
	}
	if r.Chance(1, 20) {
		// a manifest that lists one blob twice, and one of the two transfers of it is damaged: the two
		// downloads share a file
		c.Shape = "dup-layer"
		c.Blobs[0] = c09MakeBlob(r, r.Range(80<<10, 200<<10)) // transfers of more than one 32 KiB piece
		delete(c.Plans, 0)
		if c.chunked(0) {
			c.Plans[0] = c09Plan{Kind: "tiling", Lines: c09Tiling(r, int64(c.Blobs[0].Size), r.Range(1, 2))}
		}
		c.MaxStreams = kit.Pick(r, []int{2, 4, 8, 8})
		c.Versions = []c09Version{{Layers: []int{0, 1, 0}, Config: -1}}
		st := c09Step{Op: "pull", Version: 0}
		order(&st)
		st.Faults = []c09Fault{{Target: fmt.Sprintf("chunk:0:%d", r.Intn(len(c.plan(nil, 0).Lines))), Kind: kit.Pick(r, []string{"corrupt-first", "corrupt-first", "rotate", "rotate", "corrupt-last", "short"}), Times: 1}}
		c.Steps = []c09Step{st, clean(0), clean(0)}
		c.finish()
		return c
	}
	switch r.Intn(10) {
	case 0, 1, 2:
		c.Shape = "fail-retry"
		c.Steps = []c09Step{faulty(0, false), clean(0)}
		if r.Chance(1, 3) {
			c.Steps = []c09Step{faulty(0, false), faulty(0, false), clean(0), clean(0)}
		}
	case 3, 4:
		c.Shape = "pull-delete-pull"
		c.Steps = []c09Step{clean(0), del(0), clean(0)}
		if r.Chance(1, 3) {
			c.Steps = []c09Step{clean(0), del(0), faulty(0, false), clean(0)}
		}
	case 5, 6:
		c.Shape = "update"
		c.Steps = []c09Step{clean(0), faulty(1, r.Chance(1, 3)), clean(1)}
		if r.Chance(1, 3) {
			c.Steps = []c09Step{clean(0), clean(1), del(1), clean(0)}
		} else if c.SiblingOf > 0 && r.Chance(1, 2) {
			c.Steps = []c09Step{clean(0), clean(1), clean(0)}
		}
	case 7, 8:
		c.Shape = "auto-retry"
		c.Steps = []c09Step{faulty(0, true), clean(0)}
	default:
		c.Shape = "mixed"
		v := 0
		n := r.Range(2, 4)
		for i := 0; i < n; i++ {
			switch r.Intn(5) {
			case 0:
				c.Steps = append(c.Steps, clean(v))
			case 1:
				c.Steps = append(c.Steps, faulty(v, true))
			case 2:
				if i > 0 {
					c.Steps = append(c.Steps, del(v))
					break
				}
				fallthrough
			case 3:
				v = 1 - v
				fallthrough
			default:
				c.Steps = append(c.Steps, faulty(v, false))
			}
		}
		c.Steps = append(c.Steps, clean(v))
	}
	c.finish()
	return c
}

// ---- enumerated block: one chunked layer of k chunks, every completion order, every failing chunk,
// every fault kind (or every cancellation step), followed by a clean retry.

type c09Enum struct {
	K          int
	Perm       []int
	Fail       int    // failing chunk (fault cases)
	Kind       string // fault kind, or "cancel-step"
	CancelStep int
	MaxStreams int
}

func c09Perms(k int) [][]int {
	var out [][]int
	var rec func(p []int, used int)
	rec = func(p []int, used int) {
		if len(p) == k {
			out = append(out, append([]int(nil), p...))
			return
		}
		for i := 0; i < k; i++ {
			if used&(1<<i) == 0 {
				rec(append(p, i), used|1<<i)
			}
		}
	}
	rec(nil, 0)
	return out
}

func c09EnumList(tier string) []c09Enum {
	kinds := []string{"status500", "corrupt-first", "short", "reset-mid"}
	streams := []int{8}
	if tier == "thorough" {
		kinds = append(kinds, "status404", "corrupt-last", "short-abort", "rotate", "stall-mid")
		streams = []int{8, 2, 1}
	}
	var out []c09Enum
	for _, ms := range streams {
		for k := 2; k <= 4; k++ {
			for _, p := range c09Perms(k) {
				for f := 0; f < k; f++ {
					for _, kind := range kinds {
						out = append(out, c09Enum{K: k, Perm: p, Fail: f, Kind: kind, CancelStep: -1, MaxStreams: ms})
					}
				}
				for s := 0; s <= k; s++ {
					out = append(out, c09Enum{K: k, Perm: p, Fail: -1, Kind: "cancel-step", CancelStep: s, MaxStreams: ms})
				}
			}
		}
	}
	return out
}

func c09GenEnum(r *kit.Rand, idx int, e c09Enum) *c09Case {
	c := &c09Case{Index: idx, Mode: "enum", Shape: "fail-retry", Threshold: 4 << 10, MaxStreams: e.MaxStreams, ReadTimeoutMs: 40, Plans: map[int]c09Plan{}}
	size := (4 << 10) + r.Intn(8<<10)
	c.Blobs = []c09Blob{c09MakeBlob(r, size), c09MakeBlob(r, r.Range(1, 2000))}
	c.Versions = []c09Version{{Layers: []int{0, 1}, Config: -1}}
	c.Plans[0] = c09Plan{Kind: "tiling", Lines: c09Tiling(r, int64(size), e.K)}
	st := c09Step{Op: "pull", Version: 0, Order: "perm", Perm: e.Perm, PermBlob: 0, CancelAtStep: -1}
	if e.Kind == "cancel-step" {
		st.CancelAtStep = e.CancelStep
	} else {
		st.Faults = []c09Fault{{Target: fmt.Sprintf("chunk:0:%d", e.Fail), Kind: e.Kind, Times: 1}}
	}
	c.Steps = []c09Step{st, {Op: "pull", Version: 0, Order: "free", CancelAtStep: -1}}
	c.finish()
	return c
}

// ---------------------------------------------------------------------------------------------
// the world of one case: cache, client, fake registry, watcher

type c09Held struct {
	blob, ci int
	release  chan bool
	done     chan struct{}
}

type c09Gate struct {
	mu      sync.Mutex
	pending []*c09Held
	last    time.Time
	stopped bool
}

func (g *c09Gate) touch() {
	g.mu.Lock()
	g.last = time.Now()
	g.mu.Unlock()
}

// enter blocks the calling handler until the controller releases it. false = do not respond.
func (g *c09Gate) enter(ctx context.Context, h *c09Held) bool {
	g.mu.Lock()
	if g.stopped {
		g.mu.Unlock()
		return true
	}
	g.pending = append(g.pending, h)
	g.last = time.Now()
	g.mu.Unlock()
	select {
	case ok := <-h.release:
		return ok
	case <-ctx.Done():
		g.mu.Lock()
		for i, p := range g.pending {
			if p == h {
				g.pending = append(g.pending[:i], g.pending[i+1:]...)
				break
			}
		}
		g.last = time.Now()
		g.mu.Unlock()
		return false
	}
}

func (g *c09Gate) stop() {
	g.mu.Lock()
	g.stopped = true
	p := g.pending
	g.pending = nil
	g.mu.Unlock()
	for _, h := range p {
		select {
		case h.release <- true:
		default:
		}
	}
}

type c09LinkObs struct {
	Attempt int      `json:"attempt"`
	Source  string   `json:"source"`
	Version int      `json:"version"` // -1: the manifest file holds something that was never served
	Bad     []string `json:"bad,omitempty"`
}

type c09Attempt struct {
	n        int // attempt number within the case (sub-attempts of a retry loop count)
	si       int
	st       *c09Step
	ver      int
	cancel   context.CancelFunc
	gate     *c09Gate
	auto     bool // a retry made by the mirrored handlePull loop
	mu       sync.Mutex
	fired    []string
	okRanges map[int][][2]int64
	reqs     []string
	recv     atomic.Int64
	trace    []string
	chunkReq int
	preSize  map[int]int64
	listReq  map[int]int        // chunksums requests per blob
	dirty    map[int][][2]int64 // ranges for which the registry delivered wrong bytes (corrupting fault, or a lying list's content)
	rangeReq map[int][][2]int64 // ranges requested per blob
}

type c09World struct {
	t     *testing.T
	rep   *kit.Report
	c     *c09Case
	dir   string
	cache *blob.DiskCache
	rc    *Registry
	srv   *httptest.Server
	tr    *http.Transport
	mfile string

	fsMu sync.RWMutex // delete steps (write) vs. link observations (read)

	mu       sync.Mutex
	att      *c09Attempt
	attempts int
	faults   map[int][]*c09Fault // step -> remaining faults
	obs      []c09LinkObs
	unknownM int

	inf      *os.File
	syncCh   chan string
	syncN    int
	watchEnd chan struct{}

	// facts for signatures
	fetched      map[int][][2]int64
	partial      map[int]bool
	deletedAfter map[int]bool
	overwritten  map[int]bool // in a failed attempt wrong bytes were delivered for a range that touches one stored and marked before

	violated     bool
	inconclusive bool
	outcomes     []string
	firedAll     map[string]bool
	multiChunk   bool
	events       int
}

func c09NewWorld(t *testing.T, rep *kit.Report, c *c09Case, base string) (*c09World, error) {
	dir, err := os.MkdirTemp(base, "case")
	if err != nil {
		return nil, err
	}
	w := &c09World{t: t, rep: rep, c: c, dir: dir, faults: map[int][]*c09Fault{}, syncCh: make(chan string, 16), watchEnd: make(chan struct{}),
		fetched: map[int][][2]int64{}, partial: map[int]bool{}, deletedAfter: map[int]bool{}, overwritten: map[int]bool{}, firedAll: map[string]bool{}}
	if w.cache, err = blob.Open(dir); err != nil {
		return nil, err
	}
	mdir := filepath.Join(dir, "manifests", c09Host, c09NS, c09Model)
	if err := os.MkdirAll(mdir, 0o777); err != nil {
		return nil, err
	}
	w.mfile = filepath.Join(mdir, c09Tag)
	w.srv = httptest.NewUnstartedServer(http.HandlerFunc(w.serve))
	w.srv.Config.ErrorLog = log.New(io.Discard, "", 0)
	w.srv.Start()
	addr := w.srv.Listener.Addr().String()
	w.tr = &http.Transport{Dial: func(network, _ string) (net.Conn, error) { return net.Dial(network, addr) }}
	w.rc = &Registry{Cache: w.cache, HTTPClient: &http.Client{Transport: c09Stamp{w}}, MaxStreams: c.MaxStreams, ChunkingThreshold: c.Threshold,
		ReadTimeout: time.Duration(c.ReadTimeoutMs) * time.Millisecond}
	for si := range c.Steps {
		for fi := range c.Steps[si].Faults {
			f := c.Steps[si].Faults[fi]
			w.faults[si] = append(w.faults[si], &f)
		}
	}
	// inotify watcher on the model's manifest directory
	fd, err := syscall.InotifyInit1(syscall.IN_NONBLOCK | syscall.IN_CLOEXEC)
	if err != nil {
		return nil, err
	}
	if _, err := syscall.InotifyAddWatch(fd, mdir, syscall.IN_CREATE|syscall.IN_MOVED_TO|syscall.IN_MODIFY|syscall.IN_CLOSE_WRITE); err != nil {
		syscall.Close(fd)
		return nil, err
	}
	w.inf = os.NewFile(uintptr(fd), "inotify")
	go w.watch()
	return w, nil
}

func (w *c09World) close() {
	w.inf.Close()
	<-w.watchEnd
	w.srv.CloseClientConnections()
	w.srv.Close()
	w.tr.CloseIdleConnections()
	os.RemoveAll(w.dir)
}

func (w *c09World) watch() {
	defer close(w.watchEnd)
	buf := make([]byte, 16<<10)
	for {
		n, err := w.inf.Read(buf)
		if err != nil || n <= 0 {
			return
		}
		off := 0
		for off+syscall.SizeofInotifyEvent <= n {
			ev := (*syscall.InotifyEvent)(unsafe.Pointer(&buf[off]))
			name := strings.TrimRight(string(buf[off+syscall.SizeofInotifyEvent:off+syscall.SizeofInotifyEvent+int(ev.Len)]), "\x00")
			off += syscall.SizeofInotifyEvent + int(ev.Len)
			switch {
			case name == c09Tag:
				w.observeLink("inotify")
			case strings.HasPrefix(name, "zz-sync-") && ev.Mask&syscall.IN_CREATE != 0:
				w.syncCh <- name
			}
		}
	}
}

// syncWatcher returns when the watcher has processed every event that preceded the call.
func (w *c09World) syncWatcher() bool {
	w.syncN++
	name := fmt.Sprintf("zz-sync-%d", w.syncN)
	p := filepath.Join(filepath.Dir(w.mfile), name)
	if err := os.WriteFile(p, nil, 0o666); err != nil {
		return false
	}
	defer os.Remove(p)
	dl := time.After(10 * time.Second)
	for {
		select {
		case got := <-w.syncCh:
			if got == name {
				return true
			}
		case <-dl:
			return false
		}
	}
}

func (w *c09World) versionOf(data []byte) int {
	for i, v := range w.c.Versions {
		if bytes.Equal(v.data, data) {
			return i
		}
	}
	return -1
}

// checkBlob re-hashes the file of blob b. "" = present with the manifest's size and SHA-256.
func (w *c09World) checkBlob(b int) string {
	bl := &w.c.Blobs[b]
	got, err := os.ReadFile(w.cache.GetFile(bl.dig))
	if err != nil {
		return fmt.Sprintf("blob %d (%d bytes, chunked=%v): file missing", b, bl.Size, w.c.chunked(b))
	}
	if len(got) != bl.Size {
		return fmt.Sprintf("blob %d (chunked=%v): file has %d bytes, manifest says %d", b, w.c.chunked(b), len(got), bl.Size)
	}
	if sha256.Sum256(got) == bl.dig.Sum() {
		return ""
	}
	first, nd, zero := -1, 0, true
	for i := range got {
		if got[i] != bl.data[i] {
			if first < 0 {
				first = i
			}
			nd++
			if got[i] != 0 {
				zero = false
			}
		}
	}
	what := "corrupt bytes"
	if zero {
		what = "a zero-filled hole"
	}
	return fmt.Sprintf("blob %d (chunked=%v): file has the manifest's size %d but not its SHA-256: %s, %d differing bytes from offset %d", b, w.c.chunked(b), bl.Size, what, nd, first)
}

func (w *c09World) badLayers(v int) []string {
	var bad []string
	seen := map[int]bool{}
	for _, b := range w.c.blobsOf(v) {
		if seen[b] {
			continue
		}
		seen[b] = true
		if s := w.checkBlob(b); s != "" {
			bad = append(bad, s)
		}
	}
	return bad
}

// observeLink is the "linked only after" observation: whenever the manifest file of the name holds a
// served manifest, every layer of that manifest must be complete on disk at that very moment.
func (w *c09World) observeLink(source string) {
	w.fsMu.RLock()
	defer w.fsMu.RUnlock()
	data, err := os.ReadFile(w.mfile)
	if err != nil {
		return
	}
	o := c09LinkObs{Source: source, Version: w.versionOf(data)}
	if o.Version >= 0 {
		o.Bad = w.badLayers(o.Version)
	}
	w.mu.Lock()
	o.Attempt = w.attempts
	w.events++
	if o.Version < 0 {
		w.unknownM++
	}
	if len(o.Bad) > 0 || len(w.obs) < 8 {
		w.obs = append(w.obs, o)
	}
	w.mu.Unlock()
	w.rep.Count("link_observations_"+source, 1)
}

// ---------------------------------------------------------------------------------------------
// the fake registry

// c09Stamp marks every request with the attempt it was made in, so that a request of a cancelled
// attempt that reaches the server late is not mistaken for one of the attempt then running.
type c09Stamp struct{ w *c09World }

func (s c09Stamp) RoundTrip(r *http.Request) (*http.Response, error) {
	r2 := r.Clone(r.Context())
	n := 0
	if a := s.w.current(); a != nil {
		n = a.n
	}
	r2.Header.Set("X-C09-Attempt", strconv.Itoa(n))
	return s.w.tr.RoundTrip(r2)
}

func (w *c09World) current() *c09Attempt {
	w.mu.Lock()
	defer w.mu.Unlock()
	return w.att
}

func (w *c09World) takeFault(a *c09Attempt, target string) string {
	w.mu.Lock()
	defer w.mu.Unlock()
	for _, f := range w.faults[a.si] {
		if f.Target == target && f.Times > 0 {
			f.Times--
			a.mu.Lock()
			a.fired = append(a.fired, target+"="+f.Kind)
			a.mu.Unlock()
			w.firedAll[f.Kind] = true
			return f.Kind
		}
	}
	return ""
}

func c09ErrBody(rw http.ResponseWriter, status int, code string) {
	rw.Header().Set("Content-Type", "application/json")
	rw.WriteHeader(status)
	fmt.Fprintf(rw, `{"errors":[{"code":%q,"message":"c09 injected fault"}]}`, code)
}

// c09Reset closes the connection with an RST (after flushing whatever the handler has written).
func c09Reset(rw http.ResponseWriter) {
	hj, ok := rw.(http.Hijacker)
	if !ok {
		panic(http.ErrAbortHandler)
	}
	conn, _, err := hj.Hijack()
	if err != nil {
		panic(http.ErrAbortHandler)
	}
	if tc, ok := conn.(*net.TCPConn); ok {
		tc.SetLinger(0)
	}
	conn.Close()
}

func c09Stall(r *http.Request) {
	select {
	case <-r.Context().Done():
	case <-time.After(10 * time.Second):
	}
}

func (w *c09World) serve(rw http.ResponseWriter, r *http.Request) {
	a := w.current()
	if a == nil || r.Header.Get("X-C09-Attempt") != strconv.Itoa(a.n) {
		w.rep.Count("stale_requests_of_finished_attempts", 1)
		http.Error(rw, "request of an attempt that is over", 599)
		return
	}
	pre := "/v2/" + c09NS + "/" + c09Model + "/"
	if !strings.HasPrefix(r.URL.Path, pre) {
		http.Error(rw, "unexpected path", 598)
		return
	}
	rest := strings.TrimPrefix(r.URL.Path, pre)
	kind, arg, _ := strings.Cut(rest, "/")
	a.mu.Lock()
	if len(a.reqs) < 200 {
		a.reqs = append(a.reqs, r.Method+" "+rest+" "+r.Header.Get("Range"))
	}
	a.mu.Unlock()
	switch {
	case r.Method == "GET" && kind == "manifests":
		w.serveManifest(a, rw, r)
	case r.Method == "GET" && kind == "chunksums":
		w.serveChunksums(a, rw, r, arg)
	case r.Method == "GET" && kind == "blobs":
		w.serveBlob(a, rw, r, arg)
	default:
		http.Error(rw, "unexpected request", 597)
	}
}

func (w *c09World) serveManifest(a *c09Attempt, rw http.ResponseWriter, r *http.Request) {
	data := w.c.Versions[a.ver].data
	switch w.takeFault(a, "manifest") {
	case "status500":
		c09ErrBody(rw, 500, "INTERNAL_ERROR")
	case "status404":
		c09ErrBody(rw, 404, "MANIFEST_UNKNOWN")
	case "garbage":
		io.WriteString(rw, "<html>hello</html>")
	case "truncated-json":
		rw.Write(data[:len(data)/2])
	case "no-layers":
		io.WriteString(rw, `{"layers":[]}`)
	case "null-layer":
		io.WriteString(rw, `{"layers":[null]}`)
	case "reset":
		c09Reset(rw)
	default:
		rw.Write(data)
	}
}

func (w *c09World) blobByDigest(s string) int {
	for i := range w.c.Blobs {
		if w.c.Blobs[i].Digest == s {
			return i
		}
	}
	return -1
}

func (w *c09World) serveChunksums(a *c09Attempt, rw http.ResponseWriter, r *http.Request, dig string) {
	b := w.blobByDigest(dig)
	if b < 0 {
		c09ErrBody(rw, 404, "BLOB_UNKNOWN")
		return
	}
	p := w.c.plan(a.st, b)
	a.mu.Lock()
	a.listReq[b]++
	a.mu.Unlock()
	f := w.takeFault(a, fmt.Sprintf("chunksums:%d", b))
	switch f {
	case "status500":
		c09ErrBody(rw, 500, "INTERNAL_ERROR")
		return
	case "status404":
		c09ErrBody(rw, 404, "BLOB_UNKNOWN")
		return
	case "status204":
		rw.WriteHeader(204)
		return
	case "reset":
		c09Reset(rw)
		return
	}
	if !p.NoLocation {
		rw.Header().Set("Content-Location", "http://"+c09Host+"/v2/"+c09NS+"/"+c09Model+"/blobs/"+dig)
	}
	bl := &w.c.Blobs[b]
	fl, _ := rw.(http.Flusher)
	for i, l := range p.Lines {
		if f == "reset-mid" && i == (len(p.Lines)+1)/2 {
			fl.Flush()
			c09Reset(rw)
			return
		}
		d := blob.DigestFromBytes(w.rangeBytes(bl, p, l.S, l.E)).String()
		switch {
		case l.Raw != "":
			io.WriteString(rw, strings.ReplaceAll(l.Raw, "@DIGEST@", d))
			if i < len(p.Lines)-1 {
				io.WriteString(rw, "\n")
			}
		default:
			fmt.Fprintf(rw, "%s %d-%d\n", d, l.S, l.E)
		}
		if p.Flush {
			fl.Flush()
		}
	}
	if p.Abort || f == "reset-mid" {
		fl.Flush()
		c09Reset(rw)
	}
}

// rangeBytes is what the registry holds for [s,e] under plan p (a "lying" line gets corrupted bytes
// that match the digest the list announced for it; ranges beyond the blob are cut).
func (w *c09World) rangeBytes(bl *c09Blob, p c09Plan, s, e int64) []byte {
	if s < 0 {
		s = 0
	}
	if e >= int64(bl.Size) {
		e = int64(bl.Size) - 1
	}
	if s > e {
		return nil
	}
	out := append([]byte(nil), bl.data[s:e+1]...)
	for _, l := range p.Lines {
		if l.Lie && l.S == s && l.E == e && len(out) > 0 {
			out[len(out)/2] ^= 0x41
		}
	}
	return out
}

func c09ParseRange(h string) (s, e int64, ok bool) {
	h, ok = strings.CutPrefix(h, "bytes=")
	if !ok {
		return 0, 0, false
	}
	a, b, ok := strings.Cut(h, "-")
	if !ok {
		return 0, 0, false
	}
	s, err1 := strconv.ParseInt(a, 10, 64)
	e, err2 := strconv.ParseInt(b, 10, 64)
	return s, e, err1 == nil && err2 == nil
}

func (w *c09World) serveBlob(a *c09Attempt, rw http.ResponseWriter, r *http.Request, dig string) {
	b := w.blobByDigest(dig)
	if b < 0 {
		c09ErrBody(rw, 404, "BLOB_UNKNOWN")
		return
	}
	bl := &w.c.Blobs[b]
	s, e, ok := c09ParseRange(r.Header.Get("Range"))
	if !ok {
		s, e = 0, int64(bl.Size)-1
	}
	p := w.c.plan(a.st, b)
	ci := -1
	for i, l := range p.Lines {
		if l.Raw == "" && l.S == s && l.E == e {
			ci = i
			break
		}
	}
	a.mu.Lock()
	a.chunkReq++
	a.rangeReq[b] = append(a.rangeReq[b], [2]int64{s, e})
	a.mu.Unlock()
	f := w.takeFault(a, fmt.Sprintf("chunk:%d:%d", b, ci))
	if a.gate != nil {
		h := &c09Held{blob: b, ci: ci, release: make(chan bool, 1), done: make(chan struct{})}
		defer close(h.done)
		if !a.gate.enter(r.Context(), h) {
			return
		}
	}
	data := w.rangeBytes(bl, p, s, e)
	if len(data) == 0 {
		rw.WriteHeader(416)
		return
	}
	fl, _ := rw.(http.Flusher)
	full := func(d []byte) {
		rw.Header().Set("Content-Length", strconv.Itoa(len(d)))
		rw.WriteHeader(206)
		rw.Write(d)
	}
	half := func() {
		rw.Header().Set("Content-Length", strconv.Itoa(len(data)))
		rw.WriteHeader(206)
		rw.Write(data[:len(data)/2])
		if fl != nil {
			fl.Flush()
		}
	}
	switch f {
	case "status500":
		c09ErrBody(rw, 500, "INTERNAL_ERROR")
	case "status502":
		rw.WriteHeader(502)
		io.WriteString(rw, "<html>Bad Gateway</html>")
	case "status404":
		c09ErrBody(rw, 404, "BLOB_UNKNOWN")
	case "short":
		full(data[:max(0, len(data)-1-len(data)/3)])
	case "short-abort":
		half()
		panic(http.ErrAbortHandler)
	case "corrupt-first":
		d := append([]byte(nil), data...)
		d[0] ^= 0x55
		full(d)
	case "corrupt-last":
		d := append([]byte(nil), data...)
		d[len(d)-1] ^= 0x55
		full(d)
	case "rotate": // the registry ignores the range start: right length, wrong bytes
		d := append(append([]byte(nil), data[1:]...), data[0]^0x33)
		full(d)
	case "reset":
		c09Reset(rw)
	case "reset-mid":
		half()
		c09Reset(rw)
	case "stall":
		rw.Header().Set("Content-Length", strconv.Itoa(len(data)))
		rw.WriteHeader(206)
		if fl != nil {
			fl.Flush()
		}
		c09Stall(r)
	case "stall-mid":
		half()
		c09Stall(r)
	case "cancel":
		a.cancel()
		full(data)
	case "cancel-mid":
		half()
		a.cancel()
		rw.Write(data[len(data)/2:])
	default:
		full(data)
		lie := false
		for _, l := range p.Lines {
			lie = lie || (l.Lie && l.S == s && l.E == e)
		}
		a.mu.Lock()
		switch {
		case lie:
			a.dirty[b] = append(a.dirty[b], [2]int64{s, e})
		case len(data) == int(e-s+1):
			a.okRanges[b] = append(a.okRanges[b], [2]int64{s, e})
		}
		a.mu.Unlock()
	}
	if f == "rotate" || f == "corrupt-first" || f == "corrupt-last" {
		a.mu.Lock()
		a.dirty[b] = append(a.dirty[b], [2]int64{s, e})
		a.mu.Unlock()
	}
}

// ---------------------------------------------------------------------------------------------
// running attempts

// runGate is the completion-order controller of one attempt: it lets exactly one held chunk response go
// at a time, after the client went quiet, in the planned order.
func (w *c09World) runGate(a *c09Attempt, stop <-chan struct{}, done chan<- struct{}) {
	defer close(done)
	g := a.gate
	var rnd *kit.Rand
	if a.st.Order == "seeded" {
		rnd = kit.NewRand(a.st.OrderSeed, "c09gate", a.n)
	}
	rank := map[int]int{}
	for i, ci := range a.st.Perm {
		rank[ci] = i
	}
	step := 0
	for {
		select {
		case <-stop:
			g.stop()
			return
		default:
		}
		g.mu.Lock()
		n := len(g.pending)
		idle := time.Since(g.last)
		g.mu.Unlock()
		if n == 0 || idle < c09Settle {
			time.Sleep(100 * time.Microsecond)
			continue
		}
		// nothing moves until a response is released: a stable moment to look at the link
		w.observeLink("held")
		if a.st.CancelAtStep == step {
			a.cancel()
			a.mu.Lock()
			a.fired = append(a.fired, fmt.Sprintf("cancel-at-step-%d", step))
			a.mu.Unlock()
		}
		step++
		g.mu.Lock()
		if len(g.pending) == 0 {
			g.mu.Unlock()
			continue
		}
		pick := 0
		if rnd != nil {
			pick = rnd.Intn(len(g.pending))
		} else {
			best := 1 << 30
			for i, h := range g.pending {
				rk := -1 // requests outside the permuted layer go first
				if h.blob == a.st.PermBlob {
					rk = rank[h.ci]
				}
				if rk < best {
					best, pick = rk, i
				}
			}
		}
		h := g.pending[pick]
		g.pending = append(g.pending[:pick], g.pending[pick+1:]...)
		g.mu.Unlock()
		h.release <- true
		select {
		case <-h.done:
		case <-stop:
			g.stop()
			return
		}
		g.touch()
	}
}

// pullOnce performs one Registry.Pull of the step's version. watchdog=true: the call did not return.
func (w *c09World) pullOnce(parent context.Context, si int, auto bool) (a *c09Attempt, err error, watchdog bool) {
	st := &w.c.Steps[si]
	ctx, cancel := context.WithCancel(parent)
	defer cancel()
	w.mu.Lock()
	w.attempts++
	a = &c09Attempt{n: w.attempts, si: si, st: st, ver: st.Version, cancel: cancel, auto: auto, okRanges: map[int][][2]int64{}, preSize: map[int]int64{}, listReq: map[int]int{}, rangeReq: map[int][][2]int64{}, dirty: map[int][][2]int64{}}
	if st.Order != "free" {
		a.gate = &c09Gate{last: time.Now()}
	}
	w.att = a
	w.mu.Unlock()
	for _, b := range w.c.blobsOf(st.Version) {
		a.preSize[b] = -1
		if fi, err := os.Stat(w.cache.GetFile(w.c.Blobs[b].dig)); err == nil {
			a.preSize[b] = fi.Size()
		}
	}
	ctx = WithTrace(ctx, &Trace{Update: func(l *Layer, n int64, err error) {
		if err != nil {
			a.mu.Lock()
			if len(a.trace) < 40 {
				a.trace = append(a.trace, fmt.Sprintf("%s n=%d err=%v", l.Digest.Short(), n, err))
			}
			a.mu.Unlock()
			if errors.Is(err, ErrCached) {
				w.rep.Count("trace_cached_updates", 1)
			}
			return
		}
	}})
	if st.CancelAtBytes > 0 {
		var tot atomic.Int64
		var last sync.Map
		ctx = WithTrace(ctx, &Trace{Update: func(l *Layer, n int64, err error) {
			if err != nil || n == 0 {
				return
			}
			prev, _ := last.Swap(l.Digest, n)
			pv, _ := prev.(int64)
			if tot.Add(n-pv) >= st.CancelAtBytes {
				cancel()
			}
		}})
	}
	stop := make(chan struct{})
	gdone := make(chan struct{})
	if a.gate != nil {
		go w.runGate(a, stop, gdone)
	} else {
		close(gdone)
	}
	res := make(chan error, 1)
	go func() {
		defer func() {
			if p := recover(); p != nil {
				res <- fmt.Errorf("c09-PANIC: %v", p)
			}
		}()
		res <- w.rc.Pull(ctx, c09Name)
	}()
	select {
	case err = <-res:
	case <-time.After(60 * time.Second):
		watchdog = true
		cancel()
	}
	close(stop)
	<-gdone
	w.mu.Lock()
	w.att = nil
	w.mu.Unlock()
	if watchdog {
		return a, nil, true
	}
	if !w.syncWatcher() {
		return a, err, true
	}
	return a, err, false
}

// c09CanRetry is a verbatim copy of canRetry in server/internal/registry/server.go (that package
// imports this one, so it cannot be called from here).
func c09CanRetry(err error) bool {
	if err == nil {
		return false
	}
	var oe *Error
	if errors.As(err, &oe) {
		return oe.Temporary()
	}
	s := err.Error()
	return cmp.Or(
		errors.Is(err, context.DeadlineExceeded),
		strings.Contains(s, "unreachable"),
		strings.Contains(s, "no route to host"),
		strings.Contains(s, "connection reset by peer"),
	)
}

func c09ErrClass(err error) string {
	var oe *Error
	switch {
	case err == nil:
		return "ok"
	case errors.Is(err, ErrIncomplete):
		return "incomplete"
	case errors.Is(err, context.Canceled):
		return "canceled"
	case errors.Is(err, context.DeadlineExceeded):
		return "deadline"
	case errors.Is(err, ErrModelNotFound):
		return "model-not-found"
	case errors.Is(err, ErrManifestInvalid):
		return "manifest-invalid"
	case errors.As(err, &oe):
		return fmt.Sprintf("status-%d", oe.status)
	case errors.Is(err, io.ErrUnexpectedEOF):
		return "unexpected-eof"
	case strings.Contains(err.Error(), "connection reset"):
		return "conn-reset"
	case strings.Contains(err.Error(), "changed underfoot"):
		return "digest-mismatch"
	case strings.Contains(err.Error(), "EOF"):
		return "eof"
	}
	return "other"
}

// cause names, for a bad layer b seen after attempt a, the circumstances (signature shape):
// <what the history did to the layer before>:<what the client asked the registry about the layer in this attempt>.
func (w *c09World) cause(a *c09Attempt, b int) string {
	p := w.c.plan(a.st, b)
	a.mu.Lock()
	lists, ranges := a.listReq[b], a.rangeReq[b]
	a.mu.Unlock()
	asked := "all-ranges-requested"
	distinct := map[[2]int64]bool{}
	for _, r := range ranges {
		distinct[r] = true
	}
	want := 1
	if w.c.chunked(b) {
		want = 0
		for _, l := range p.Lines {
			if l.Raw == "" {
				want++
			}
		}
	}
	switch {
	case lists == 0 && len(ranges) == 0 && a.preSize[b] == int64(w.c.Blobs[b].Size):
		asked = "layer-not-requested" // a file of the manifest's size was there: accepted through the size check of c.Get
	case len(distinct) < want:
		asked = "ranges-skipped" // accepted through 'v1 pull chunksum' markers
	}
	listed := 0
	for _, x := range w.c.blobsOf(a.ver) {
		if x == b {
			listed++
		}
	}
	switch {
	case w.c.chunked(b) && p.broken() && lists > 0 && asked == "all-ranges-requested":
		return "chunk-list-" + p.Kind // everything the broken list named was fetched
	case listed > 1:
		return "same-blob-listed-twice:" + asked // two transfers of one blob shared a file
	case asked == "layer-not-requested" && w.partial[b]:
		return "retry-after-partial-download:" + asked
	case asked == "ranges-skipped" && w.deletedAfter[b]:
		return "after-layer-blob-deleted:" + asked
	case asked == "ranges-skipped" && w.overwritten[b]:
		return "retry-after-marked-chunk-overwritten:" + asked
	case w.c.chunked(b) && p.broken() && lists > 0:
		return "chunk-list-" + p.Kind
	case w.partial[b]:
		return "retry-after-partial-download:" + asked
	case w.deletedAfter[b]:
		return "after-layer-blob-deleted:" + asked
	}
	return "unexplained:" + asked
}

func (w *c09World) witness(a *c09Attempt, err error, bad []string) map[string]any {
	a.mu.Lock()
	defer a.mu.Unlock()
	w.mu.Lock()
	defer w.mu.Unlock()
	return map[string]any{"attempt": a.n, "step": a.si, "auto_retry": a.auto, "pull_error": fmt.Sprint(err), "bad_layers": bad, "faults_fired": a.fired,
		"requests": a.reqs, "trace_errors": a.trace, "outcomes_so_far": w.outcomes, "file_sizes_before_attempt": fmt.Sprint(a.preSize), "link_observations": w.obs}
}

// judge applies the oracle after one attempt.
func (w *c09World) judge(a *c09Attempt, err error) {
	c := w.c
	w.outcomes = append(w.outcomes, c09ErrClass(err))
	w.rep.Count("pull_"+c09ErrClass(err), 1)
	if err != nil && strings.HasPrefix(err.Error(), "c09-PANIC") {
		w.violated = true
		w.rep.Violate("c09:panic:Registry.Pull", err.Error(), c, w.witness(a, err, nil))
		return
	}
	// bookkeeping for signatures
	a.mu.Lock()
	okr := map[int][][2]int64{}
	for b, rs := range a.okRanges {
		okr[b] = append([][2]int64(nil), rs...)
	}
	a.mu.Unlock()
	for b, rs := range okr {
		w.fetched[b] = append(w.fetched[b], rs...)
		if len(rs) >= 2 && c.chunked(b) {
			w.multiChunk = true
		}
	}
	d, rerr := w.cache.Resolve(c09FQ)
	linked := -2 // not linked
	if rerr == nil {
		linked = -1
		for i := range c.Versions {
			if c.Versions[i].dig == d {
				linked = i
			}
		}
	}
	if err == nil {
		w.rep.Count("attempts_success", 1)
		if a.auto {
			w.rep.Count("auto_retry_success", 1)
		}
		if linked != a.ver {
			w.violated = true
			w.rep.Violate("c09:pull-success-name-not-linked-to-served-manifest", fmt.Sprintf("Pull returned nil for version %d but the name resolves to %d (-2 = not at all, -1 = something never served; resolve error %v)", a.ver, linked, rerr), c, w.witness(a, err, nil))
			return
		}
		if bad := w.badLayers(a.ver); len(bad) > 0 {
			w.violated = true
			var b int
			fmt.Sscanf(bad[0], "blob %d", &b)
			w.rep.Violate("c09:pull-success-bad-layer:"+w.cause(a, b), "Pull returned nil and linked the name, but "+strings.Join(bad, "; "), c, w.witness(a, err, bad))
			return
		}
		for _, b := range c.blobsOf(a.ver) {
			w.partial[b] = false
			w.deletedAfter[b] = false
			w.overwritten[b] = false
		}
	} else {
		w.rep.Count("attempts_failed", 1)
		if linked == -1 {
			w.violated = true
			w.rep.Violate("c09:failed-pull-name-linked-to-unserved-manifest", "after a failed Pull the name resolves to a manifest the registry never served", c, w.witness(a, err, nil))
			return
		}
		if linked >= 0 {
			if bad := w.badLayers(linked); len(bad) > 0 {
				w.violated = true
				var b int
				fmt.Sscanf(bad[0], "blob %d", &b)
				w.rep.Violate("c09:failed-pull-name-linked-to-incomplete-model:"+w.cause(a, b), fmt.Sprintf("Pull failed (%v) and the name resolves to version %d, but %s", err, linked, strings.Join(bad, "; ")), c, w.witness(a, err, bad))
				return
			}
		}
		for _, b := range c.blobsOf(a.ver) {
			// the failed attempt left a non-empty file that is not the layer
			if fi, serr := os.Stat(w.cache.GetFile(c.Blobs[b].dig)); serr == nil && fi.Size() > 0 && w.checkBlob(b) != "" {
				w.partial[b] = true
			}
			// wrong bytes were delivered for a range that touches a range stored (and therefore marked)
			// before, under other boundaries or under another digest: whatever part of them was written
			// (the pieces of a corrupt chunk before its digest check fails; all of a lying chunk) now sits
			// under a marker that says "fetched and verified"
			a.mu.Lock()
			for _, d := range a.dirty[b] {
				for _, q := range append(append([][2]int64(nil), w.fetched[b]...), a.okRanges[b]...) {
					if d[0] <= q[1] && q[0] <= d[1] {
						w.overwritten[b] = true
					}
				}
			}
			a.mu.Unlock()
		}
	}
	// "linked only after": observations taken while the attempt ran
	w.mu.Lock()
	var early *c09LinkObs
	for i := range w.obs {
		if w.obs[i].Attempt == a.n && len(w.obs[i].Bad) > 0 {
			early = &w.obs[i]
			break
		}
	}
	w.mu.Unlock()
	if early != nil {
		w.violated = true
		w.rep.Violate("c09:linked-before-layers-complete:"+early.Source, fmt.Sprintf("while attempt %d (pull error: %v) was running the manifest file of the name held version %d although %s", a.n, err, early.Version, strings.Join(early.Bad, "; ")), c, w.witness(a, err, early.Bad))
	}
}

func (w *c09World) doDelete(st *c09Step) {
	w.fsMu.Lock()
	defer w.fsMu.Unlock()
	w.rc.Unlink(c09FQ)
	for _, b := range st.Delete {
		if fi, err := os.Stat(w.cache.GetFile(w.c.Blobs[b].dig)); err == nil && fi.Size() > 0 {
			w.deletedAfter[b] = true // something of it had been stored, so markers exist
		}
		os.Remove(w.cache.GetFile(w.c.Blobs[b].dig))
		w.fetched[b] = nil
		w.partial[b] = false
		w.overwritten[b] = false
	}
	w.rep.Count("deletes", 1)
}

func c09RunPullCase(t *testing.T, rep *kit.Report, c *c09Case, base string) {
	if j, err := json.Marshal(c); err == nil {
		rep.Journal(j)
	}
	w, err := c09NewWorld(t, rep, c, base)
	if err != nil {
		rep.Inconclusive("harness: " + err.Error())
		return
	}
	defer w.close()
	kinds := map[string]bool{}
	for si := range c.Steps {
		st := &c.Steps[si]
		switch st.Op {
		case "delete":
			w.doDelete(st)
			w.outcomes = append(w.outcomes, "delete")
		case "pull":
			a, err, wd := w.pullOnce(context.Background(), si, false)
			if wd {
				w.inconclusive = true
				rep.Inconclusive(fmt.Sprintf("case %d step %d: Pull did not return within the watchdog (or the watcher did not sync)", c.Index, si))
				break
			}
			w.judge(a, err)
			if len(st.Faults) == 0 && st.CancelAtStep < 0 && st.CancelAtBytes == 0 && len(st.Plans) == 0 && err != nil {
				rep.Count("clean_pull_failed_"+c09ErrClass(err), 1)
			}
		case "retry-pull":
			// Mirror of the goroutine in registry.Local.handlePull:
			//   for _, err := range backoff.Loop(ctx, 3*time.Second) { if err != nil { return err }
			//       err := s.Client.Pull(ctx, p.model()); if canRetry(err) { continue }; return err }
			// with the oracle applied after every Pull of the loop.
			sub := 0
			for _, lerr := range backoff.Loop(context.Background(), 3*time.Second) {
				if lerr != nil {
					break
				}
				a, err, wd := w.pullOnce(context.Background(), si, sub > 0)
				if wd {
					w.inconclusive = true
					rep.Inconclusive(fmt.Sprintf("case %d step %d: Pull did not return within the watchdog", c.Index, si))
					break
				}
				w.judge(a, err)
				if w.violated {
					break
				}
				if c09CanRetry(err) {
					sub++
					rep.Count("auto_retries", 1)
					if sub > 6 {
						rep.Count("auto_retry_loops_cut", 1)
						break
					}
					continue
				}
				break
			}
		}
		for _, p := range st.Plans {
			kinds[p.Kind] = true
		}
		if w.violated || w.inconclusive {
			break
		}
	}
	w.mu.Lock()
	if w.unknownM > 0 {
		rep.Count("link_observations_unparsed_manifest", w.unknownM)
	}
	w.mu.Unlock()
	// non-trivial: a chunked layer was fetched in >= 2 chunks and the history contains a disturbance
	disturbed := len(w.firedAll) > 0 || len(kinds) > 0 || strings.Contains(c.Shape, "delete") || c.Shape == "update" || c.Shape == "mixed"
	if w.multiChunk && disturbed && !w.inconclusive {
		fk := make([]string, 0, len(w.firedAll))
		for k := range w.firedAll {
			fk = append(fk, k)
		}
		sort.Strings(fk)
		pk := make([]string, 0, len(kinds))
		for k := range kinds {
			pk = append(pk, k)
		}
		sort.Strings(pk)
		sig := fmt.Sprint(c.Mode, c.Shape, c.Threshold, c.MaxStreams, fk, pk, w.outcomes)
		if c.Mode == "enum" {
			sig = fmt.Sprint("enum", len(c.Plans[0].Lines), c.Steps[0].Perm, c.Steps[0].Faults, c.Steps[0].CancelAtStep, c.MaxStreams)
		}
		rep.Distinct(sig)
		rep.Count("nontrivial_cases", 1)
	}
	rep.Count("cases_"+c.Mode, 1)
	rep.Count("shape_"+c.Shape, 1)
	if c.SiblingOf > 0 {
		rep.Count("cases_with_a_revised_layer_sharing_leading_chunks", 1)
	}
	if c.Mode == "enum" {
		// which part of the enumerated sub-space a violation falls in
		cls := "cancel-step"
		if fs := c.Steps[0].Faults; len(fs) > 0 {
			cls = "failing-chunk-not-last"
			if strings.HasSuffix(fs[0].Target, fmt.Sprintf(":%d", len(c.Plans[0].Lines)-1)) {
				cls = "failing-chunk-last"
			}
		}
		rep.Count("enum_"+cls, 1)
		if w.violated {
			rep.Count("enum_"+cls+"_violated", 1)
		}
	}
	if rep.NeedSample() && len(c.Steps) <= 3 && (c.Blobs[0].Size < 6000 || c.Mode == "enum") {
		rep.Sample(c)
	}
}

// ---------------------------------------------------------------------------------------------
// push

type c09PushCase struct {
	Index        int        `json:"index"`
	Mode         string     `json:"mode"` // push
	MaxStreams   int        `json:"max_streams"`
	Blobs        []c09Blob  `json:"blobs"`
	Layers       []int      `json:"layers"`
	Config       int        `json:"config"`  // -1: the manifest carries the all-zero config object Manifest.MarshalJSON writes
	Present      []int      `json:"present"` // blobs the registry already has (POST is answered without a Location)
	Faults       []c09Fault `json:"faults,omitempty"`
	CorruptLocal int        `json:"corrupt_local"` // blob whose cache file is damaged (same size) before the push; -1 none
	Order        string     `json:"order"`
	OrderSeed    uint64     `json:"order_seed"`
}

func c09GenPush(r *kit.Rand, idx int) *c09PushCase {
	c := &c09PushCase{Index: idx, Mode: "push", Config: -1, CorruptLocal: -1}
	c.MaxStreams = kit.Pick(r, []int{1, 2, 3, 4, 8})
	nb := r.Range(1, 5)
	for i := 0; i < nb; i++ {
		c.Blobs = append(c.Blobs, c09MakeBlob(r, r.Range(1, kit.Pick(r, []int{200, 5000, 70000}))))
		c.Layers = append(c.Layers, i)
	}
	if r.Chance(1, 2) {
		c.Blobs = append(c.Blobs, c09MakeBlob(r, r.Range(2, 400)))
		c.Config = len(c.Blobs) - 1
	}
	for b := range c.Blobs {
		if r.Chance(1, 4) {
			c.Present = append(c.Present, b)
		}
	}
	if r.Chance(1, 2) {
		n := r.Range(1, 2)
		for range n {
			b := r.Intn(len(c.Blobs))
			switch r.Intn(7) {
			case 0:
				c.Faults = append(c.Faults, c09Fault{Target: fmt.Sprintf("post:%d", b), Kind: kit.Pick(r, []string{"status500", "status403", "reset"}), Times: 1})
			case 1:
				c.Faults = append(c.Faults, c09Fault{Target: "manifest", Kind: kit.Pick(r, []string{"status500", "reset"}), Times: 1})
			case 2:
				c.CorruptLocal = b
			default:
				c.Faults = append(c.Faults, c09Fault{Target: fmt.Sprintf("put:%d", b), Kind: kit.Pick(r, []string{"status500", "status400", "reset", "reset-mid", "bad-location", "status307", "status308", "status302"}), Times: 1})
			}
		}
	}
	c.Order = "seeded"
	if r.Chance(1, 4) {
		c.Order = "free"
	}
	c.OrderSeed = r.Uint64()
	return c
}

type c09PushWorld struct {
	c        *c09PushCase
	mu       sync.Mutex
	gate     *c09Gate
	faults   []*c09Fault
	fired    []string
	accepted map[int]string // blob -> how
	state    map[int]string // blob -> last thing that happened to it
	log      []string
	manifest []string // one entry per manifest PUT: "" or what was missing
	sess     int
}

func (w *c09PushWorld) take(target string) string {
	w.mu.Lock()
	defer w.mu.Unlock()
	for _, f := range w.faults {
		if f.Target == target && f.Times > 0 {
			f.Times--
			w.fired = append(w.fired, target+"="+f.Kind)
			return f.Kind
		}
	}
	return ""
}

func (w *c09PushWorld) note(b int, s string) {
	w.mu.Lock()
	if b >= 0 {
		w.state[b] = s
	}
	if len(w.log) < 200 {
		w.log = append(w.log, fmt.Sprintf("blob %d: %s", b, s))
	}
	w.mu.Unlock()
}

func (w *c09PushWorld) hold(r *http.Request, b int) bool {
	if w.gate == nil {
		return true
	}
	h := &c09Held{blob: b, release: make(chan bool, 1), done: make(chan struct{})}
	ok := w.gate.enter(r.Context(), h)
	close(h.done)
	return ok
}

func (w *c09PushWorld) serve(rw http.ResponseWriter, r *http.Request) {
	c := w.c
	pre := "/v2/" + c09NS + "/" + c09Model + "/"
	rest := strings.TrimPrefix(r.URL.Path, pre)
	blobOf := func(d string) int {
		for i := range c.Blobs {
			if c.Blobs[i].Digest == d {
				return i
			}
		}
		return -1
	}
	switch {
	case r.Method == "POST" && rest == "blobs/uploads/":
		b := blobOf(r.URL.Query().Get("digest"))
		if b < 0 {
			c09ErrBody(rw, 400, "DIGEST_INVALID")
			return
		}
		w.note(b, "upload-requested")
		f := w.take(fmt.Sprintf("post:%d", b))
		if !w.hold(r, b) {
			return
		}
		switch f {
		case "status500":
			w.note(b, "upload-request-failed")
			c09ErrBody(rw, 500, "INTERNAL_ERROR")
			return
		case "status403":
			w.note(b, "upload-request-failed")
			c09ErrBody(rw, 403, "DENIED")
			return
		case "reset":
			w.note(b, "upload-request-failed")
			c09Reset(rw)
			return
		}
		for _, p := range c.Present {
			if p == b {
				w.mu.Lock()
				w.accepted[b] = "present"
				w.mu.Unlock()
				w.note(b, "answered-present")
				rw.WriteHeader(200)
				return
			}
		}
		w.mu.Lock()
		w.sess++
		loc := fmt.Sprintf("http://%s%sblobs/uploads/s%d-b%d", c09Host, pre, w.sess, b)
		w.mu.Unlock()
		w.note(b, "session-open")
		rw.Header().Set("Location", loc)
		rw.WriteHeader(202)
	case r.Method == "PUT" && strings.HasPrefix(rest, "blobs/uploads/s"):
		var s, b int
		if _, err := fmt.Sscanf(strings.TrimPrefix(rest, "blobs/uploads/"), "s%d-b%d", &s, &b); err != nil || b < 0 || b >= len(c.Blobs) {
			c09ErrBody(rw, 404, "BLOB_UPLOAD_UNKNOWN")
			return
		}
		f := w.take(fmt.Sprintf("put:%d", b))
		if f == "reset" {
			w.note(b, "upload-failed")
			c09Reset(rw)
			return
		}
		var body []byte
		var rerr error
		if f == "reset-mid" {
			body, rerr = io.ReadAll(io.LimitReader(r.Body, int64(c.Blobs[b].Size/2)))
			w.note(b, "upload-failed")
			c09Reset(rw)
			return
		}
		body, rerr = io.ReadAll(r.Body)
		w.note(b, fmt.Sprintf("upload-received-%d-bytes", len(body)))
		if !w.hold(r, b) {
			return
		}
		switch {
		case f == "status500":
			w.note(b, "upload-failed")
			c09ErrBody(rw, 500, "INTERNAL_ERROR")
		case f == "status400":
			w.note(b, "upload-failed")
			c09ErrBody(rw, 400, "BLOB_UPLOAD_INVALID")
		case strings.HasPrefix(f, "status3"):
			// the registry sends the upload on to its storage backend: nothing is accepted yet; a client that
			// can replay the body may follow (the PUT to the new location is then served like any other)
			code, _ := strconv.Atoi(strings.TrimPrefix(f, "status"))
			w.note(b, "upload-redirected")
			rw.Header().Set("Location", fmt.Sprintf("http://%s%s%s-storage", c09Host, pre, strings.TrimSuffix(rest, "-storage")))
			rw.WriteHeader(code)
		case rerr != nil || len(body) != c.Blobs[b].Size || sha256.Sum256(body) != c.Blobs[b].dig.Sum():
			w.note(b, "upload-rejected-digest-mismatch")
			c09ErrBody(rw, 400, "DIGEST_INVALID")
		default:
			w.mu.Lock()
			w.accepted[b] = "committed"
			w.mu.Unlock()
			w.note(b, "committed")
			rw.WriteHeader(201)
		}
	case r.Method == "PUT" && rest == "manifests/"+c09Tag:
		io.Copy(io.Discard, r.Body)
		// the observation: is every blob the manifest refers to accepted at this moment?
		need := append([]int(nil), c.Layers...)
		if c.Config >= 0 {
			need = append(need, c.Config)
		}
		var missing []string
		w.mu.Lock()
		for _, b := range need {
			if _, ok := w.accepted[b]; !ok {
				st := cmp.Or(w.state[b], "never-offered")
				role := "layer"
				if b == c.Config {
					role = "config"
				}
				missing = append(missing, fmt.Sprintf("%s:%s", role, st))
			}
		}
		w.manifest = append(w.manifest, strings.Join(missing, ","))
		w.mu.Unlock()
		w.note(-1, "manifest PUT; missing: "+strings.Join(missing, ","))
		switch w.take("manifest") {
		case "status500":
			c09ErrBody(rw, 500, "INTERNAL_ERROR")
		case "reset":
			c09Reset(rw)
		default:
			rw.WriteHeader(201)
		}
	default:
		http.Error(rw, "unexpected request", 597)
	}
}

func c09RunPushCase(t *testing.T, rep *kit.Report, c *c09PushCase, base string) {
	if j, err := json.Marshal(c); err == nil {
		rep.Journal(j)
	}
	dir, err := os.MkdirTemp(base, "push")
	if err != nil {
		rep.Inconclusive("harness: " + err.Error())
		return
	}
	defer os.RemoveAll(dir)
	cache, err := blob.Open(dir)
	if err != nil {
		rep.Inconclusive("harness: " + err.Error())
		return
	}
	var layers []*Layer
	for _, b := range c.Layers {
		layers = append(layers, &Layer{Digest: c.Blobs[b].dig, Size: int64(c.Blobs[b].Size), MediaType: "application/vnd.ollama.image.model"})
	}
	m := Manifest{Layers: layers}
	var mdata []byte
	if c.Config >= 0 {
		type lay struct {
			Digest    string `json:"digest"`
			MediaType string `json:"mediaType"`
			Size      int    `json:"size"`
		}
		v := struct {
			Layers []*Layer `json:"layers"`
			Config lay      `json:"config"`
		}{layers, lay{c.Blobs[c.Config].Digest, "application/vnd.docker.container.image.v1+json", c.Blobs[c.Config].Size}}
		mdata, err = json.Marshal(v)
	} else {
		mdata, err = json.Marshal(m)
	}
	if err != nil {
		rep.Inconclusive("harness: " + err.Error())
		return
	}
	for i := range c.Blobs {
		if err := blob.PutBytes(cache, c.Blobs[i].dig, c.Blobs[i].data); err != nil {
			rep.Inconclusive("harness: " + err.Error())
			return
		}
	}
	md := blob.DigestFromBytes(mdata)
	if err := blob.PutBytes(cache, md, mdata); err != nil {
		rep.Inconclusive("harness: " + err.Error())
		return
	}
	if err := cache.Link(c09FQ, md); err != nil {
		rep.Inconclusive("harness: " + err.Error())
		return
	}
	if c.CorruptLocal >= 0 {
		d := append([]byte(nil), c.Blobs[c.CorruptLocal].data...)
		d[len(d)/2] ^= 0x77
		os.WriteFile(cache.GetFile(c.Blobs[c.CorruptLocal].dig), d, 0o666)
	}
	w := &c09PushWorld{c: c, accepted: map[int]string{}, state: map[int]string{}}
	for i := range c.Faults {
		f := c.Faults[i]
		w.faults = append(w.faults, &f)
	}
	if c.Order != "free" {
		w.gate = &c09Gate{last: time.Now()}
	}
	srv := httptest.NewUnstartedServer(http.HandlerFunc(w.serve))
	srv.Config.ErrorLog = log.New(io.Discard, "", 0)
	srv.Start()
	addr := srv.Listener.Addr().String()
	tr := &http.Transport{Dial: func(network, _ string) (net.Conn, error) { return net.Dial(network, addr) }}
	defer func() {
		srv.CloseClientConnections()
		srv.Close()
		tr.CloseIdleConnections()
	}()
	rc := &Registry{Cache: cache, HTTPClient: &http.Client{Transport: tr}, MaxStreams: c.MaxStreams}
	stop := make(chan struct{})
	gdone := make(chan struct{})
	if w.gate != nil {
		go func() {
			defer close(gdone)
			rnd := kit.NewRand(c.OrderSeed, "c09pushgate")
			g := w.gate
			for {
				select {
				case <-stop:
					g.stop()
					return
				default:
				}
				g.mu.Lock()
				n := len(g.pending)
				idle := time.Since(g.last)
				g.mu.Unlock()
				if n == 0 || idle < c09Settle {
					time.Sleep(100 * time.Microsecond)
					continue
				}
				g.mu.Lock()
				if len(g.pending) == 0 {
					g.mu.Unlock()
					continue
				}
				pick := rnd.Intn(len(g.pending))
				h := g.pending[pick]
				g.pending = append(g.pending[:pick], g.pending[pick+1:]...)
				g.mu.Unlock()
				h.release <- true
				select {
				case <-h.done:
				case <-stop:
					g.stop()
					return
				}
				g.touch()
			}
		}()
	} else {
		close(gdone)
	}
	ctx, cancel := context.WithCancel(context.Background())
	defer cancel()
	res := make(chan error, 1)
	go func() {
		defer func() {
			if p := recover(); p != nil {
				res <- fmt.Errorf("c09-PANIC: %v", p)
			}
		}()
		res <- rc.Push(ctx, c09Name, nil)
	}()
	var perr error
	select {
	case perr = <-res:
	case <-time.After(60 * time.Second):
		cancel()
		close(stop)
		<-gdone
		rep.Inconclusive(fmt.Sprintf("case %d: Push did not return within the watchdog", c.Index))
		return
	}
	close(stop)
	<-gdone
	w.mu.Lock()
	defer w.mu.Unlock()
	wit := map[string]any{"push_error": fmt.Sprint(perr), "registry_log": w.log, "faults_fired": w.fired, "accepted": fmt.Sprint(w.accepted), "manifest_puts": w.manifest}
	rep.Count("push_"+c09ErrClass(perr), 1)
	rep.Count("push_manifest_puts", len(w.manifest))
	if perr != nil && strings.HasPrefix(perr.Error(), "c09-PANIC") {
		rep.Violate("c09:panic:Registry.Push", perr.Error(), c, wit)
		return
	}
	for _, miss := range w.manifest {
		if miss != "" {
			first, _, _ := strings.Cut(miss, ",")
			role, st, _ := strings.Cut(first, ":")
			st = strings.TrimRight(st, "0123456789-bytes")
			rep.Violate("c09:push-manifest-before-"+role+"-accepted:"+st, fmt.Sprintf("Registry.Push (error %v) sent the manifest while the registry had not accepted: %s", perr, miss), c, wit)
			break
		}
	}
	if perr == nil && len(w.manifest) == 0 {
		rep.Violate("c09:push-success-without-manifest", "Registry.Push returned nil but never sent the manifest", c, wit)
	}
	uploads := 0
	for _, how := range w.accepted {
		if how == "committed" {
			uploads++
		}
	}
	if uploads >= 2 || (uploads >= 1 && len(w.fired) > 0) {
		rep.Distinct(fmt.Sprint("push", c.MaxStreams, len(c.Layers), c.Config >= 0, len(c.Present), w.fired, c.CorruptLocal >= 0, c09ErrClass(perr)))
		rep.Count("nontrivial_cases", 1)
	}
	rep.Count("cases_push", 1)
	rep.Count("push_uploads_committed", uploads)
}

// ---------------------------------------------------------------------------------------------

func TestVerifC09(t *testing.T) {
	slog.SetDefault(slog.New(slog.NewTextHandler(io.Discard, nil)))
	rep := kit.NewReport("C09")
	cfg := rep.Cfg()
	defer rep.Flush()
	rep.Set("rule", "case i = PRNG(seed,'C09',i) (the enumerated block does not depend on the seed except for contents and chunk boundaries). Pull cases: a history of 1-4 attempts of the real Registry.Pull (ChunkingThreshold 1-64 KiB, MaxStreams 1-8, real DiskCache) against a fake registry with a chunk plan per chunked layer, a fault plan per request and a completion-order plan for the held chunk responses; in a third of the two-version cases the replaced layer's successor is a revision of it (same size and chunk list, same bytes up to a chunk boundary, so that two layers share chunks of equal content and range); after every attempt every layer file is re-hashed and the name is resolved; the manifest file is watched with inotify and looked at every time chunk responses are held. Push cases: the real Registry.Push against a fake registry that records acceptance per blob and checks it when the manifest PUT arrives. Non-trivial = (pull) some chunked layer was served in >= 2 chunk responses in one attempt and the history contains a fired fault / cancellation / broken chunk list / delete / version update; (push) >= 2 blobs uploaded and committed, or >= 1 with a fired fault. Distinct = distinct (mode, shape, threshold, MaxStreams, fired fault kinds, broken-list kinds, outcome sequence) resp. distinct enumerated tuples (k, completion order, failing chunk, fault kind | cancel step, MaxStreams).")
	rep.Set("assumptions", []string{
		"the retry loop of registry.Local.handlePull is mirrored in the harness (real backoff.Loop, verbatim copy of canRetry, same context for every Pull of the loop); the real HTTP handler is not driven from this package (import cycle)",
		"manifests are well-formed and honest about layer sizes; layer sizes >= 1; one ChunkingThreshold per case",
		"delete = Registry.Unlink followed by removal of layer blob files by digest (what `ollama rm` does); the 'v1 pull chunksum' marker blobs are left alone, as nothing in ollama removes them together with a layer",
		"completion order is steered by holding responses in the fake registry and releasing one after the client went quiet for 300us; the order the client processes them in is therefore the planned one up to scheduling noise (verdicts never depend on it)",
		"a registry 'accepts' a blob at the moment its handler decides to answer 2xx to the upload PUT (digest and size verified) or to answer the upload POST without a Location (already present)",
		"the config object of a manifest counts as a layer for push, as Registry.Pull itself treats it for pull",
	})
	enum := c09EnumList(cfg.Tier)
	nRandom := cfg.N(1500, 100000)
	nPush := cfg.N(400, 20000)
	total := len(enum) + nRandom + nPush
	rep.Set("enumerated_subspaces", map[string]any{"one chunked layer, k=2..4 chunks: every completion order x every failing chunk x fault kinds, and every completion order x every cancellation step; then a clean retry": len(enum)})
	replayIdx := -1
	if cfg.Replay != "" {
		var rc struct {
			Index int `json:"index"`
		}
		if err := kit.LoadReplay(cfg.Replay, &rc); err != nil {
			t.Fatal(err)
		}
		replayIdx = rc.Index
	}
	base := t.TempDir()
	only := os.Getenv("VERIF_C09_ONLY")
	for i := 0; i < total; i++ {
		if replayIdx >= 0 && i != replayIdx {
			continue
		}
		if replayIdx < 0 && !cfg.Mine(i) {
			continue
		}
		// rep.Enough() ignores violations that match a listed known finding, so D13/D14 firing in every
		// other enumerated case do not end the run before the sampled histories and the push plans ran
		if replayIdx < 0 && ((rep.Enough() && os.Getenv("VERIF_C09_NOSTOP") == "") || rep.OverBudget()) {
			break
		}
		blk := "push"
		if i < len(enum) {
			blk = "enum"
		} else if i < len(enum)+nRandom {
			blk = "random"
		}
		if only != "" && replayIdx < 0 && blk != only { // development aid: run one block only
			continue
		}
		r := kit.NewRand(cfg.Seed, "C09", i)
		rep.Eval(1)
		switch {
		case i < len(enum):
			c09RunPullCase(t, rep, c09GenEnum(r, i, enum[i]), base)
		case i < len(enum)+nRandom:
			c09RunPullCase(t, rep, c09Gen(r, i), base)
		default:
			c09RunPushCase(t, rep, c09GenPush(r, i), base)
		}
	}
	if replayIdx >= 0 {
		t.Logf("replay of case %d: %d violation(s)", replayIdx, rep.Violations())
	}
}
