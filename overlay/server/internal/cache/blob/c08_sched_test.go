//go:build verif

package blob

// C08 workload "sched": concurrent writers of one digest, progress gated by their source readers.
//
// A writer's step = one gated Read call returning (one chunk, or the EOF/error that ends a failing source) plus
// everything the writer does until it blocks in its next gated Read or returns from Put. The first step also
// contains the Stat/OpenFile at the start of Put. Only one writer runs at a time, so a step order determines
// the execution exactly, and the blob is observed (Get + content hash) between any two steps.

import (
	"fmt"
	"io"
	"sync/atomic"
	"time"

	kit "verifkit"
)

type c08WSpec struct {
	Kind string `json:"kind"`        // good import (good content through Import) short err corrupt long straddle
	J    int    `json:"j,omitempty"` // short/err: chunks delivered before the EOF/error; corrupt: 1-based chunk carrying the flipped byte
}

func (w c08WSpec) steps(k int) int {
	switch w.Kind {
	case "short", "err":
		return w.J + 1
	case "long":
		return k + 1
	}
	return k
}

func (w c08WSpec) String() string {
	if w.Kind == "good" || w.Kind == "import" || w.Kind == "long" || w.Kind == "straddle" {
		return w.Kind
	}
	return fmt.Sprintf("%s@%d", w.Kind, w.J)
}

type c08SchedStep struct {
	Step   int    `json:"step"`
	Writer int    `json:"writer"`
	Event  string `json:"event"`
	Obs    c08Obs `json:"blob"`
}

type c08SchedCase struct {
	K          int        `json:"chunks"`
	Writers    []c08WSpec `json:"writers"`
	Order      []int      `json:"order"` // writer index of every step
	Enumerated bool       `json:"enumerated"`
	// filled while running
	Size   int            `json:"size,omitempty"`
	Bounds []int          `json:"chunk_ends,omitempty"`
	Trace  []c08SchedStep `json:"trace,omitempty"`
}

// c08Interleavings appends every sequence with sa zeros and sb ones.
func c08Interleavings(sa, sb int) [][]int {
	var res [][]int
	var rec func(a, b int, cur []int)
	rec = func(a, b int, cur []int) {
		if a == 0 && b == 0 {
			res = append(res, append([]int(nil), cur...))
			return
		}
		if a > 0 {
			rec(a-1, b, append(cur, 0))
		}
		if b > 0 {
			rec(a, b-1, append(cur, 1))
		}
	}
	rec(sa, sb, nil)
	return res
}

func c08BadSpecs(k int) []c08WSpec {
	var l []c08WSpec
	for j := 0; j < k; j++ {
		l = append(l, c08WSpec{Kind: "short", J: j})
	}
	for j := 0; j <= k; j++ {
		l = append(l, c08WSpec{Kind: "err", J: j})
	}
	for j := 1; j <= k; j++ {
		l = append(l, c08WSpec{Kind: "corrupt", J: j})
	}
	l = append(l, c08WSpec{Kind: "long"}, c08WSpec{Kind: "straddle"})
	return l
}

// c08Sched2List enumerates the 2-writer sub-space: independent of seed and tier.
func c08Sched2List() []c08SchedCase {
	var l []c08SchedCase
	add := func(k int, a, b c08WSpec) {
		for _, ord := range c08Interleavings(a.steps(k), b.steps(k)) {
			l = append(l, c08SchedCase{K: k, Writers: []c08WSpec{a, b}, Order: ord, Enumerated: true})
		}
	}
	good := c08WSpec{Kind: "good"}
	for k := 1; k <= 4; k++ {
		add(k, good, good)
		for _, b := range c08BadSpecs(k) {
			add(k, good, b)
		}
	}
	imp := c08WSpec{Kind: "import"}
	for k := 1; k <= 3; k++ {
		add(k, good, imp)
		add(k, imp, imp)
		add(k, imp, c08WSpec{Kind: "err", J: k - 1})
		add(k, imp, c08WSpec{Kind: "corrupt", J: k})
	}
	for k := 2; k <= 3; k++ {
		add(k, c08WSpec{Kind: "corrupt", J: 1}, c08WSpec{Kind: "err", J: 1})
		add(k, c08WSpec{Kind: "short", J: 1}, c08WSpec{Kind: "corrupt", J: k})
		add(k, c08WSpec{Kind: "err", J: k}, c08WSpec{Kind: "err", J: 0})
		add(k, c08WSpec{Kind: "long"}, c08WSpec{Kind: "corrupt", J: k})
		add(k, c08WSpec{Kind: "corrupt", J: 1}, c08WSpec{Kind: "corrupt", J: k})
	}
	return l
}

func c08GenSchedN(r *kit.Rand) c08SchedCase {
	k := r.Range(1, 4)
	nw := r.Range(3, 4)
	sc := c08SchedCase{K: k}
	bad := c08BadSpecs(k)
	for i := 0; i < nw; i++ {
		if i == 0 || r.Chance(2, 5) {
			sc.Writers = append(sc.Writers, c08WSpec{Kind: "good"})
		} else if r.Chance(1, 6) {
			sc.Writers = append(sc.Writers, c08WSpec{Kind: "import"})
		} else {
			sc.Writers = append(sc.Writers, kit.Pick(r, bad))
		}
	}
	for i, w := range sc.Writers {
		for s := 0; s < w.steps(k); s++ {
			sc.Order = append(sc.Order, i)
		}
	}
	kit.Shuffle(r, sc.Order)
	return sc
}

type c08Gate struct {
	chunks    [][]byte
	termGated bool
	term      error // nil = io.EOF
	ev        chan string
	grant     chan struct{}
	abort     chan struct{}
	calls     int
}

var errC08Aborted = fmt.Errorf("c08: schedule aborted")

func (g *c08Gate) wait() bool {
	select {
	case g.ev <- "gate":
	case <-g.abort:
		return false
	}
	select {
	case <-g.grant:
		return true
	case <-g.abort:
		return false
	}
}

func (g *c08Gate) Read(p []byte) (int, error) {
	i := g.calls
	g.calls++
	if i < len(g.chunks) {
		if !g.wait() {
			return 0, errC08Aborted
		}
		return copy(p, g.chunks[i]), nil
	}
	if i == len(g.chunks) && g.termGated {
		if !g.wait() {
			return 0, errC08Aborted
		}
	}
	if g.term != nil {
		return 0, g.term
	}
	return 0, io.EOF
}

type c08Writer struct {
	spec      c08WSpec
	gate      *c08Gate
	stream    []byte // everything this writer's source can deliver, by offset
	started   bool
	done      bool
	err       error
	panicked  string
	startStep int
	endStep   int
	delivered int // chunks delivered so far
	firstWr   int // step of the first delivered chunk (-1: none)
}

const c08StepWatchdog = 10 * time.Second

// c08SchedWatchdogs counts schedule cases in which a granted writer neither came back to its source reader
// nor returned. If writers block each other (say, a per-blob lock was added to Put) gating cannot drive them;
// after three such cases the remaining schedule cases are reported inconclusive at once instead of waiting.
var c08SchedWatchdogs atomic.Int32

func c08RunSched(sc *c08SchedCase, seed uint64, sub int, r *kit.Rand, dir string) (out c08Out) {
	out.Spec = sc
	if c08SchedWatchdogs.Load() >= 3 {
		out.Inconclusive = "skipped: in three earlier schedules a granted writer blocked on something other than its source reader, gating cannot drive this implementation"
		return
	}
	c, err := Open(dir)
	if err != nil {
		out.Inconclusive = "harness: " + err.Error()
		return
	}
	// content and chunk boundaries
	k := sc.K
	sizes := make([]int, k)
	n := 0
	for i := range sizes {
		sizes[i] = r.Range(1, 6)
		n += sizes[i]
		sc.Bounds = append(sc.Bounds, n)
	}
	sc.Size = n
	blob := c08NewBlob("x", c08Content(seed, sub, n, byte(r.Intn(256))))
	abort := make(chan struct{})
	ws := make([]*c08Writer, len(sc.Writers))
	for i, spec := range sc.Writers {
		content := append([]byte(nil), blob.data...)
		if spec.Kind == "corrupt" {
			lo := sc.Bounds[spec.J-1] - sizes[spec.J-1]
			content[lo+r.Intn(sizes[spec.J-1])] ^= 0x5A
		}
		var chunks [][]byte
		off := 0
		for j := 0; j < k; j++ {
			chunks = append(chunks, content[off:off+sizes[j]])
			off += sizes[j]
		}
		g := &c08Gate{ev: make(chan string, 2), grant: make(chan struct{}), abort: abort}
		switch spec.Kind {
		case "good", "import", "corrupt":
			g.chunks = chunks
		case "short":
			g.chunks, g.termGated = chunks[:spec.J], true
		case "err":
			g.chunks, g.termGated, g.term = chunks[:spec.J], true, errC08Source
		case "long":
			extra := []byte{0xEE, 0xEE, 0xEE}
			g.chunks = append(chunks, extra)
			content = append(content, extra...)
		case "straddle":
			last := append(append([]byte(nil), chunks[k-1]...), 0xEE, 0xEE)
			g.chunks = append(chunks[:k-1:k-1], last)
			content = append(content, 0xEE, 0xEE)
		}
		ws[i] = &c08Writer{spec: spec, gate: g, stream: content, startStep: -1, endStep: -1, firstWr: -1}
	}
	waitEv := func(w *c08Writer) (string, bool) {
		select {
		case ev := <-w.gate.ev:
			return ev, true
		case <-time.After(c08StepWatchdog):
			return "", false
		}
	}
	start := func(w *c08Writer) {
		w.started = true
		go func() {
			defer func() {
				if p := recover(); p != nil {
					w.panicked = fmt.Sprintf("%v at %s", p, c08PanicSite())
				}
				w.gate.ev <- "done"
			}()
			if w.spec.Kind == "import" {
				var d Digest
				if d, w.err = c.Import(w.gate, blob.n); w.err == nil && d != blob.d {
					w.err = fmt.Errorf("Import returned another digest: %s", d.Short())
				}
				return
			}
			w.err = c.Put(blob.d, w.gate, blob.n)
		}()
	}
	cleanup := func() {
		if out.Inconclusive != "" {
			c08SchedWatchdogs.Add(1)
		}
		close(abort)
		for _, w := range ws {
			for w.started && !w.done {
				ev, ok := waitEv(w)
				if !ok {
					return
				}
				if ev == "done" {
					w.done = true
				}
			}
		}
	}
	stored := -1 // writer that returned nil first
	storedStep := -1

	// shape of a full-size-wrong-content observation made after step `now`
	classify := func(now int, o c08Obs) string {
		startedN := 0
		for _, w := range ws {
			if w.started {
				startedN++
			}
		}
		if startedN <= 1 {
			return "single-writer"
		}
		if len(o.content) != len(blob.data) {
			return "unexplained"
		}
		// was there a failing writer whose terminating step (the one that truncates) fell between the first
		// write and the last step of another writer?
		truncShape := false
		for fi, f := range ws {
			if !f.done || f.err == nil {
				continue
			}
			for gi, g := range ws {
				if gi != fi && g.firstWr >= 0 && g.firstWr < f.endStep && (g.endStep < 0 || g.endStep > f.endStep) {
					truncShape = true
				}
			}
		}
		usedTrunc, usedOver := false, false
		for i := range o.content {
			if o.content[i] == blob.data[i] {
				continue
			}
			switch {
			case o.content[i] == 0 && truncShape:
				usedTrunc = true
			default:
				byCorrupt := false
				for _, x := range ws {
					if x.spec.Kind == "corrupt" && x.delivered > 0 && o.content[i] == x.stream[i] {
						byCorrupt = true
					}
				}
				if !byCorrupt {
					return "unexplained"
				}
				usedOver = true
			}
		}
		switch {
		case usedTrunc && usedOver:
			return "concurrent-failing-writer-truncate+corrupt-writer-overwrite"
		case usedTrunc:
			return "concurrent-failing-writer-truncate"
		case usedOver:
			return "concurrent-corrupt-writer-overwrite"
		}
		return "unexplained"
	}

	for step, wi := range sc.Order {
		w := ws[wi]
		if w.done {
			out.count("sched_steps_skipped_writer_already_returned", 1)
			continue
		}
		event := ""
		if !w.started {
			for _, o := range ws {
				if o.started && !o.done {
					// non-trivial: this writer starts while another one is in the middle of its Put
					out.Distinct = fmt.Sprint("sched", sc.K, sc.Writers, sc.Order)
				}
			}
			w.startStep = step
			start(w)
			ev, ok := waitEv(w)
			if !ok {
				out.Inconclusive = fmt.Sprintf("watchdog: writer %d did not reach its source reader nor return", wi)
				cleanup()
				return
			}
			if ev == "done" {
				w.done, w.endStep = true, step
				event = "returned without reading: err=" + c08ErrStr(w.err)
			}
		}
		if !w.done {
			willDeliver := w.delivered < len(w.gate.chunks)
			select {
			case w.gate.grant <- struct{}{}:
			case <-time.After(c08StepWatchdog):
				out.Inconclusive = fmt.Sprintf("watchdog: writer %d not at its gate", wi)
				cleanup()
				return
			}
			if willDeliver {
				w.delivered++
				if w.firstWr < 0 {
					w.firstWr = step
				}
				event = fmt.Sprintf("chunk %d delivered", w.delivered)
			} else {
				event = "source ends"
			}
			ev, ok := waitEv(w)
			if !ok {
				out.Inconclusive = fmt.Sprintf("watchdog: writer %d neither came back to its source reader nor returned (blocked on a lock held by another writer?)", wi)
				cleanup()
				return
			}
			if ev == "done" {
				w.done, w.endStep = true, step
				event += "; Put returned err=" + c08ErrStr(w.err)
			}
		}
		o := c08Observe(c, blob)
		sc.Trace = append(sc.Trace, c08SchedStep{Step: step, Writer: wi, Event: event, Obs: o})
		out.count("sched_steps", 1)
		if w.panicked != "" {
			out.violate("panic:"+w.panicked, "panic in a concurrent Put: "+w.panicked, sc.Trace)
			cleanup()
			return
		}
		if o.Full && !o.HashOK {
			shape := classify(step, o)
			out.violate("full-size-wrong-content:"+shape, fmt.Sprintf("after step %d (writer %d %s: %s) Get reports the stored size %d but the file does not hash to the digest: %s; writers %v", step, wi, w.spec, event, n, o.Diff, sc.Writers), sc.Trace)
			cleanup()
			return
		}
		if w.done && w.endStep == step {
			if w.err != nil && (w.spec.Kind == "good" || w.spec.Kind == "import") {
				out.violate("good-put-failed:concurrent", fmt.Sprintf("writer %d has a correct source but Put returns %v", wi, w.err), sc.Trace)
				cleanup()
				return
			}
			if w.err == nil && !o.Full {
				out.violate("stored-blob-not-retrievable:concurrent", fmt.Sprintf("writer %d (%s) returned nil at step %d but Get reports size %d err %q", wi, w.spec, step, o.GetSize, o.GetErr), sc.Trace)
				cleanup()
				return
			}
			if w.err == nil && stored < 0 {
				stored, storedStep = wi, step
			}
		}
		if stored >= 0 && !o.Full {
			shape := "unexplained"
			if w.done && w.endStep == step && w.err != nil && w.startStep < storedStep {
				shape = "concurrent-failing-writer-truncate"
			}
			out.violate("stored-blob-lost:"+shape, fmt.Sprintf("writer %d returned nil at step %d (blob was retrievable), after step %d (writer %d %s: %s) Get reports size %d err %q", stored, storedStep, step, wi, w.spec, event, o.GetSize, o.GetErr), sc.Trace)
			cleanup()
			return
		}
	}
	// every writer has consumed its steps; sources that are still asked deliver their end without gating
	for wi, w := range ws {
		for w.started && !w.done {
			select {
			case w.gate.grant <- struct{}{}:
				out.count("sched_extra_grants", 1)
			case ev := <-w.gate.ev:
				if ev == "done" {
					w.done, w.endStep = true, len(sc.Order)
				}
			case <-time.After(c08StepWatchdog):
				out.Inconclusive = fmt.Sprintf("watchdog: writer %d never returned", wi)
				cleanup()
				return
			}
		}
	}
	close(abort)
	// the good Put that follows
	o := c08Observe(c, blob)
	if err := c08Put(c, blob, c08Src{Kind: "good", Per: kit.Pick(r, []int{0, -1, 2})}, r); err != nil {
		out.violate("good-put-failed:after-schedule", fmt.Sprintf("the good Put after the schedule fails: %v (blob before: %+v)", err, o), sc.Trace)
		return
	}
	if o2 := c08Observe(c, blob); !o2.Full || !o2.HashOK {
		out.violate("stored-blob-not-retrievable:after-schedule", fmt.Sprintf("the good Put after the schedule returned nil but the blob is %+v (before: %+v)", o2, o), sc.Trace)
		return
	}
	return
}
