//go:build verif

package blob

// C08 workload "crash": one Put/Import in a child process that dies at an enumerated point.

import (
	"context"
	"encoding/json"
	"errors"
	"fmt"
	"os"
	"os/exec"
	"path/filepath"
	"sort"
	"strings"
	"syscall"
	"testing"
	"time"

	kit "verifkit"
)

const c08ChildEnv = "VERIF_C08_CHILD"

// c08ChildSpec is everything the child needs; the content is regenerated from (Seed, Idx, Size, First).
type c08ChildSpec struct {
	Dir   string `json:"dir"`
	Op    string `json:"op"` // put | import
	Seed  uint64 `json:"seed"`
	Idx   int    `json:"idx"`
	Size  int    `json:"size"`
	First byte   `json:"first"`
	Src   c08Src `json:"src"`
	Kill  int    `json:"kill"` // die at the first Read call after this many delivered bytes; -1 = never
	Hook  bool   `json:"hook"` // die inside testHookBeforeFinalWrite
	Rand  uint64 `json:"rand"`
}

func c08Die() {
	syscall.Kill(syscall.Getpid(), syscall.SIGKILL)
	for {
		time.Sleep(time.Hour)
	}
}

// TestVerifC08Child is the crashing writer. It does nothing unless the parent harness set VERIF_C08_CHILD.
func TestVerifC08Child(t *testing.T) {
	raw := os.Getenv(c08ChildEnv)
	if raw == "" {
		return
	}
	var s c08ChildSpec
	if err := json.Unmarshal([]byte(raw), &s); err != nil {
		fmt.Println("C08CHILD-HARNESS-ERROR", err)
		os.Exit(3)
	}
	c, err := Open(s.Dir)
	if err != nil {
		fmt.Println("C08CHILD-HARNESS-ERROR", err)
		os.Exit(3)
	}
	b := c08NewBlob("x", c08Content(s.Seed, s.Idx, s.Size, s.First))
	if s.Hook {
		c.testHookBeforeFinalWrite = func(*os.File) { c08Die() }
	}
	rd := c08NewReader(s.Src, b.data, kit.NewRand(s.Rand, "C08-child"))
	rd.kill = s.Kill
	switch s.Op {
	case "put":
		err = c.Put(b.d, rd, b.n)
	case "import":
		_, err = c.Import(rd, b.n)
	}
	fmt.Printf("C08CHILD-RETURNED err=%v\n", err)
}

type c08Attempt struct {
	What    string       `json:"what"`
	Child   c08ChildSpec `json:"child"`
	Strace  bool         `json:"strace,omitempty"`
	Killed  bool         `json:"killed"`
	Outcome string       `json:"outcome"`
	After   c08Obs       `json:"blob_after"`
}

// c08RunChild re-executes the test binary as the crashing writer.
func c08RunChild(s c08ChildSpec, strace bool, tmp string) (killed bool, outcome string, err error) {
	js, _ := json.Marshal(s)
	args := []string{"-test.run", "^TestVerifC08Child$", "-test.count=1", "-test.timeout=60s"}
	ctx, cancel := context.WithTimeout(context.Background(), 90*time.Second)
	defer cancel()
	var cmd *exec.Cmd
	if strace {
		sa := []string{"-f", "-qq", "-o", "/dev/null", "-e", "trace=ftruncate", "-e", "inject=ftruncate:signal=SIGKILL:when=1", os.Args[0]}
		cmd = exec.CommandContext(ctx, "strace", append(sa, args...)...)
	} else {
		cmd = exec.CommandContext(ctx, os.Args[0], args...)
	}
	for _, e := range os.Environ() {
		k, _, _ := strings.Cut(e, "=")
		switch k {
		case "VERIF_OUT", "VERIF_REPLAY", "VERIF_SHARD", "TMPDIR", c08ChildEnv:
			continue
		}
		cmd.Env = append(cmd.Env, e)
	}
	cmd.Env = append(cmd.Env, c08ChildEnv+"="+string(js), "TMPDIR="+tmp)
	outb, rerr := cmd.CombinedOutput()
	if ctx.Err() != nil {
		return false, "", errors.New("child watchdog fired")
	}
	text := string(outb)
	if strings.Contains(text, "C08CHILD-HARNESS-ERROR") {
		return false, "", fmt.Errorf("child harness error: %s", text)
	}
	if i := strings.Index(text, "C08CHILD-RETURNED"); i >= 0 {
		line, _, _ := strings.Cut(text[i:], "\n")
		return false, strings.TrimPrefix(line, "C08CHILD-RETURNED "), nil
	}
	var ee *exec.ExitError
	if errors.As(rerr, &ee) {
		if ws, ok := ee.Sys().(syscall.WaitStatus); ok {
			if (ws.Signaled() && ws.Signal() == syscall.SIGKILL) || (ws.Exited() && ws.ExitStatus() == 128+int(syscall.SIGKILL)) {
				return true, "SIGKILL", nil
			}
		}
	}
	return false, "", fmt.Errorf("child ended unexpectedly: %v: %s", rerr, c08Tail(text, 600))
}

func c08Tail(s string, n int) string {
	if len(s) > n {
		return s[len(s)-n:]
	}
	return s
}

// c08CrashSpec is one enumerated crash case. Fields below the marker are drawn by the case PRNG while running.
type c08CrashSpec struct {
	Class string `json:"class"` // good-sweep corrupt-sweep garbage-sweep hook pre-truncate import-sweep
	Op    string `json:"op"`
	Size  int    `json:"size"`
	B     int    `json:"b"`    // bytes delivered before death (-1: not a byte-position point)
	Kind  string `json:"kind"` // source kind of the dying attempt
	// --- PRNG
	Debris    string       `json:"debris,omitempty"`
	LinkProbe bool         `json:"link_probe,omitempty"`
	M0Extends bool         `json:"linked_manifest_extends_blob,omitempty"`
	Attempts  []c08Attempt `json:"attempts,omitempty"`
}

func c08CrashBs(n int) []int {
	set := map[int]bool{}
	if n <= 256 {
		for b := 0; b <= n; b++ {
			set[b] = true
		}
	} else {
		for k := 0; k <= 8; k++ {
			set[k] = true
			set[n-k] = true
		}
		for _, e := range []int{4096, 32768, 65536} {
			for _, b := range []int{e - 1, e, e + 1} {
				if b >= 0 && b <= n {
					set[b] = true
				}
			}
		}
		for b := 0; b <= n; b += n/61 + 1 {
			set[b] = true
		}
	}
	bs := make([]int, 0, len(set))
	for b := range set {
		bs = append(bs, b)
	}
	sort.Ints(bs)
	return bs
}

func c08CrashList(thorough bool) []c08CrashSpec {
	goodSizes := []int{1, 2, 3, 5, 8, 13, 33, 96}
	corruptSizes := []int{2, 5, 13}
	importSizes := []int{1, 4, 9}
	hookSizes := []int{1, 2, 7, 33, 96}
	preSizes := []int{1, 6, 40}
	if thorough {
		goodSizes = []int{1, 2, 3, 4, 5, 6, 7, 8, 13, 21, 33, 64, 96, 200, 256, 1000, 4097, 32768, 32769, 65537}
		corruptSizes = []int{1, 2, 3, 5, 8, 13, 33, 96, 32769}
		importSizes = []int{1, 2, 4, 9, 33, 40000}
		hookSizes = []int{1, 2, 3, 7, 8, 33, 96, 1000, 32768, 32769, 65537}
		preSizes = []int{1, 2, 6, 40, 257, 32769, 65537}
	}
	var l []c08CrashSpec
	for _, n := range goodSizes {
		for _, b := range c08CrashBs(n) {
			l = append(l, c08CrashSpec{Class: "good-sweep", Op: "put", Size: n, B: b, Kind: "good"})
		}
	}
	for _, n := range corruptSizes {
		for _, b := range c08CrashBs(n) {
			l = append(l, c08CrashSpec{Class: "corrupt-sweep", Op: "put", Size: n, B: b, Kind: "corrupt"})
			l = append(l, c08CrashSpec{Class: "garbage-sweep", Op: "put", Size: n, B: b, Kind: "garbage"})
		}
	}
	for _, n := range importSizes {
		for _, b := range c08CrashBs(n) {
			l = append(l, c08CrashSpec{Class: "import-sweep", Op: "import", Size: n, B: b, Kind: "good"})
		}
	}
	for _, n := range hookSizes {
		for rep := 0; rep < 2; rep++ { // two PRNG chunkings each
			l = append(l, c08CrashSpec{Class: "hook", Op: "put", Size: n, B: -1, Kind: "good"})
		}
	}
	for _, n := range preSizes {
		for _, k := range []string{"corrupt", "garbage", "short", "err", "long"} {
			l = append(l, c08CrashSpec{Class: "pre-truncate", Op: "put", Size: n, B: -1, Kind: k})
		}
	}
	return l
}

var c08StraceOK = func() bool {
	_, err := exec.LookPath("strace")
	return err == nil
}()

func c08PickPer(r *kit.Rand, n int) int {
	if n > 4096 {
		return kit.Pick(r, []int{0, 0, 1000, 4096, 7})
	}
	return kit.Pick(r, []int{0, 0, -1, -1, 1, 2, 3, 7})
}

func c08RunCrash(cs c08CrashSpec, seed uint64, sub int, r *kit.Rand, dir string) (out c08Out) {
	defer func() { out.Spec = cs }()
	cdir := filepath.Join(dir, "cache")
	tmp := filepath.Join(dir, "tmp")
	os.MkdirAll(tmp, 0o777)
	c, err := Open(cdir)
	if err != nil {
		out.Inconclusive = "harness: " + err.Error()
		return
	}
	n := cs.Size
	first := byte(r.Intn(256))
	blob := c08NewBlob("x", c08Content(seed, sub, n, first))
	// a stable link whose fate is observed when Link is tried on the debris
	m0 := c08NewBlob("m0", c08Content(seed, sub+1<<20, kit.Pick(r, []int{n, n + 3, 20}), first+1))
	// In a third of the cases, and always when the writer dies one byte short, the manifest linked before is
	// the blob's content plus trailing bytes: anything that compares only a prefix is then fooled by the debris.
	nearlyDone := cs.Op == "put" && cs.B == n-1 && n >= 2
	if cs.M0Extends = nearlyDone || r.Chance(1, 3); cs.M0Extends {
		m0 = c08NewBlob("m0", append(append([]byte(nil), blob.data...), kit.NewRand(seed, "C08-m0", sub).Bytes(r.Range(1, 9))...))
	}
	const name0 = "h/n/m:t"
	if err := PutBytes(c, m0.d, m0.data); err != nil {
		out.Inconclusive = "harness: setup Put: " + err.Error()
		return
	}
	if err := c.Link(name0, m0.d); err != nil {
		out.Inconclusive = "harness: setup Link: " + err.Error()
		return
	}
	child := func(what string, s c08ChildSpec, strace bool) (c08Attempt, bool) {
		s.Dir, s.Seed, s.Idx, s.Size, s.First, s.Rand = cdir, seed, sub, n, first, r.Uint64()
		killed, outcome, err := c08RunChild(s, strace, tmp)
		a := c08Attempt{What: what, Child: s, Strace: strace, Killed: killed, Outcome: outcome}
		if err != nil {
			out.Inconclusive = err.Error()
			return a, false
		}
		out.count("crash_children", 1)
		if killed {
			out.count("crash_children_killed", 1)
		}
		a.After = c08Observe(c, blob)
		cs.Attempts = append(cs.Attempts, a)
		return a, true
	}
	checkInvariant := func(when string) bool {
		o := c08Observe(c, blob)
		if o.Full && !o.HashOK {
			out.violate("full-size-wrong-content:crash:"+cs.Class, fmt.Sprintf("%s: Get reports the stored size %d but the file does not hash to the digest (%s)", when, n, o.Diff), o)
			return false
		}
		return true
	}

	// ---- debris of earlier attempts
	if cs.Op == "put" {
		opts := []string{"none", "none", "failed-attempt", "longer-planted", "extension-planted"}
		if n >= 2 {
			opts = append(opts, "garbage-prefix-crash", "garbage-prefix-crash", "good-prefix-crash", "good-then-garbage-crash")
		}
		cs.Debris = kit.Pick(r, opts)
		switch cs.Debris {
		case "failed-attempt":
			c08Put(c, blob, c08Src{Kind: "err", At: r.Intn(n + 1)}, r)
		case "longer-planted":
			os.WriteFile(c.GetFile(blob.d), kit.NewRand(seed, "C08-planted", sub).Bytes(n+r.Range(1, 9)), 0o666)
		case "extension-planted": // the right content followed by trailing bytes: every prefix check passes
			os.WriteFile(c.GetFile(blob.d), append(append([]byte(nil), blob.data...), kit.NewRand(seed, "C08-planted", sub).Bytes(r.Range(1, 9))...), 0o666)
		case "garbage-prefix-crash":
			if _, ok := child("debris", c08ChildSpec{Op: "put", Src: c08Src{Kind: "garbage", Per: c08PickPer(r, n)}, Kill: r.Range(1, n-1)}, false); !ok {
				return
			}
		case "good-prefix-crash":
			if _, ok := child("debris", c08ChildSpec{Op: "put", Src: c08Src{Kind: "good", Per: c08PickPer(r, n)}, Kill: r.Range(1, n-1)}, false); !ok {
				return
			}
		case "good-then-garbage-crash": // a long good prefix partly overwritten by a shorter garbage one
			if _, ok := child("debris", c08ChildSpec{Op: "put", Src: c08Src{Kind: "good", Per: c08PickPer(r, n)}, Kill: n - 1}, false); !ok {
				return
			}
			if _, ok := child("debris", c08ChildSpec{Op: "put", Src: c08Src{Kind: "garbage", Per: c08PickPer(r, n)}, Kill: r.Range(1, n-1)}, false); !ok {
				return
			}
		}
		if !checkInvariant("after the debris attempts (" + cs.Debris + ")") {
			return
		}
	}

	// ---- the enumerated crash
	src := c08Src{Kind: cs.Kind, Per: c08PickPer(r, n)}
	switch cs.Kind {
	case "corrupt":
		src.At = r.Intn(n)
		if r.Chance(1, 3) {
			src.At = n - 1
		}
	case "short":
		src.At = r.Intn(n)
	case "err":
		src.At = r.Intn(n + 1)
	case "long":
		src.Extra = r.Range(1, 9)
	}
	spec := c08ChildSpec{Op: cs.Op, Src: src, Kill: cs.B, Hook: cs.Class == "hook"}
	strace := cs.Class == "pre-truncate"
	if strace && !c08StraceOK {
		out.Inconclusive = "strace not available: the point before ftruncate is not explored"
		out.count("crash_strace_unavailable", 1)
		return
	}
	a, ok := child("crash", spec, strace)
	if !ok {
		return
	}
	out.count("crash_"+cs.Class, 1)
	if a.Killed {
		out.Distinct = fmt.Sprint("crash", cs.Class, cs.Op, cs.Kind, n, cs.B, cs.Debris)
		out.count("crash_"+cs.Class+"_killed", 1)
	}

	// ---- the parent looks at what is left
	c, err = Open(cdir)
	if err != nil {
		out.violate("open-after-crash-failed", "Open of the cache directory after the crash: "+err.Error(), nil)
		return
	}
	if !checkInvariant("after the crash") {
		return
	}
	o := c08Observe(c, blob)
	out.count("crash_left_"+c08Leftover(c, blob), 1)
	if cs.Op == "import" && o.FileSize >= 0 && !o.Full {
		out.violate("import-left-partial-blob:crash", fmt.Sprintf("a crashed Import left a blob file of %d bytes (want none or all %d)", o.FileSize, n), o)
		return
	}
	if !o.Full && (r.Chance(1, 3) || nearlyDone) {
		// linking to the debris must fail and must not disturb the name
		cs.LinkProbe = true
		leftover := c08Leftover(c, blob)
		lerr := c.Link(name0, blob.d)
		d, rerr := c.Resolve(name0)
		switch {
		case lerr == nil:
			out.violate("link-to-absent-blob-succeeded:"+leftover, fmt.Sprintf("after the crash the blob file is %s (%d of %d bytes), Link(%q) returns nil", leftover, o.FileSize, n, name0), o)
		case rerr != nil || d != m0.d:
			got := "error " + c08ErrStr(rerr)
			if rerr == nil {
				got = d.Short()
				if d == DigestFromBytes("") {
					got = "the digest of the empty string"
				}
			}
			out.violate("resolve-wrong-digest:failed-link:"+leftover, fmt.Sprintf("Link(%q) to the crash debris (%s) failed (%v) as it must, but Resolve(%q) now gives %s instead of the manifest linked before (%s)", name0, leftover, lerr, name0, got, m0.d.Short()), o)
		}
		if len(out.Viols) > 0 {
			// re-establish the link so that the rest of the case is still meaningful
			os.Remove(filepath.Join(cdir, "manifests", "h", "n", "m", "t"))
			c.Link(name0, m0.d)
		}
	}
	// ---- recovery: a good write must succeed and make the blob retrievable
	var rerr error
	if cs.Op == "import" {
		var d Digest
		d, rerr = c.Import(c08NewReader(c08Src{Kind: "good", Per: c08PickPer(r, n)}, blob.data, r), blob.n)
		if rerr == nil && d != blob.d {
			rerr = fmt.Errorf("Import returned %s", d.Short())
		}
	} else {
		rerr = c08Put(c, blob, c08Src{Kind: "good", Per: c08PickPer(r, n)}, r)
	}
	if rerr != nil {
		out.violate("good-put-failed:after-crash", fmt.Sprintf("the good %s after the crash fails: %v", cs.Op, rerr), o)
		return
	}
	o2 := c08Observe(c, blob)
	if o2.Full && !o2.HashOK {
		out.violate("full-size-wrong-content:crash:"+cs.Class+":after-recovery", fmt.Sprintf("after crash and a successful good %s: full size, wrong content (%s)", cs.Op, o2.Diff), o2)
		return
	}
	if !o2.Full {
		out.violate("stored-blob-not-retrievable:after-crash", fmt.Sprintf("the good %s after the crash returned nil but Get reports size %d err %q (want %d); the crash left %d bytes", cs.Op, o2.GetSize, o2.GetErr, n, o.FileSize), o2)
		return
	}
	if d, err := c.Resolve(name0); len(out.Viols) == 0 && (err != nil || d != m0.d) {
		out.violate("resolve-wrong-digest:crash-bystander", fmt.Sprintf("a name linked before the crash no longer resolves to its manifest: %v %v", d.Short(), err), nil)
	}
	return
}
