//go:build verif

package blob

// C08 workload "hist": free-running goroutines, recorded call/return history, porcupine per digest and per
// case-folded name against the sequential specification
//
//	digest:  present(bool).  good Put/Import -> nil, present.  bad Put -> nil only if present, an error changes nothing
//	         (except that a source which delivers the whole content before misbehaving may leave the blob behind).
//	         bad Import -> error, no change.  Get -> stored size iff present.
//	name:    linked(digest|none).  Link(stored blob) -> nil, linked=d.  Link(never stored blob) -> error, no change.
//	         Unlink -> (linked != none, nil), none.  Resolve -> linked, error iff none.
//
// Link targets are blobs stored before the concurrent phase (or never stored), so the two kinds of partition
// are independent. A Get that reports the stored size additionally hashes the file.

import (
	"bytes"
	"crypto/sha256"
	"fmt"
	"os"
	"sort"
	"strings"
	"sync"
	"sync/atomic"
	"time"

	"github.com/anishathalye/porcupine"

	kit "verifkit"
)

type c08HOp struct {
	Kind string  `json:"op"` // put import get link unlink resolve
	Blob int     `json:"blob"`
	Name string  `json:"name,omitempty"`
	Src  *c08Src `json:"src,omitempty"`
}

type c08HRec struct {
	G      int    `json:"g"`
	Op     c08HOp `json:"op"`
	Call   int64  `json:"call"`
	Ret    int64  `json:"ret"`
	Err    string `json:"err,omitempty"`
	Full   bool   `json:"full,omitempty"`    // get: reported the stored size
	HashOK bool   `json:"hash_ok,omitempty"` // get, when Full
	Torn   bool   `json:"torn,omitempty"`    // get: the file no longer had the stored size when it was read (content not judged)
	Size   int64  `json:"size,omitempty"`
	OK     bool   `json:"ok,omitempty"`     // unlink
	Digest int    `json:"digest,omitempty"` // resolve: blob index, -1 unknown digest, -2 digest of the empty string
	Diff   string `json:"diff,omitempty"`
}

type c08HistCase struct {
	BadConcurrent bool       `json:"bad_sources_may_overlap_other_writers"`
	DistinctSizes bool       `json:"distinct_manifest_sizes"`
	Hot           bool       `json:"hot"`
	NDyn          int        `json:"dyn_blobs"`
	NStable       int        `json:"stable_blobs"`
	Sizes         []int      `json:"blob_sizes"`               // dyn..., stable..., absent
	Rels          []c08Rel   `json:"blob_relations,omitempty"` // stable blobs may be prefixes / extensions / variants of one another
	Owner         []int      `json:"dyn_owner"`                // -1: shared (good sources only unless BadConcurrent)
	Threads       [][]c08HOp `json:"threads"`
	Records       []c08HRec  `json:"records,omitempty"`
}

func c08GenHist(r *kit.Rand) c08HistCase {
	hc := c08HistCase{BadConcurrent: r.Chance(1, 2), DistinctSizes: r.Chance(1, 2), Hot: r.Chance(1, 5)}
	hc.NDyn = r.Range(1, 3)
	hc.NStable = r.Range(2, 4)
	ng := r.Range(2, 4)
	if hc.Hot {
		ng = 4
	}
	for i := 0; i < hc.NDyn; i++ {
		hc.Sizes = append(hc.Sizes, kit.Pick(r, []int{3, 8, 20, 64, 200, 200, 1000}))
		if r.Chance(1, 12) {
			hc.Sizes[i] = 40000
		}
		hc.Owner = append(hc.Owner, kit.Pick(r, []int{-1, -1, r.Intn(ng)}))
	}
	pool := []int{kit.Pick(r, c08SeqSizes[3:]), kit.Pick(r, c08SeqSizes[3:])}
	used := map[int]bool{}
	for i := 0; i < hc.NStable; i++ {
		s := kit.Pick(r, pool)
		if hc.DistinctSizes {
			for {
				s = kit.Pick(r, c08SeqSizes[3:])
				if !used[s] {
					break
				}
			}
			used[s] = true
		}
		hc.Sizes = append(hc.Sizes, s)
	}
	if !hc.DistinctSizes && r.Chance(2, 3) {
		hc.Rels = c08GenRels(r, hc.Sizes, hc.NDyn, hc.NDyn+hc.NStable)
	}
	hc.Sizes = append(hc.Sizes, 17) // the never-stored blob
	absent := hc.NDyn + hc.NStable
	names := []string{c08GenName(r)}
	if !hc.Hot && r.Bool() {
		names = append(names, c08GenName(r))
	}
	for g := 0; g < ng; g++ {
		nops := r.Range(4, 12)
		if hc.Hot {
			nops = r.Range(20, 40)
		}
		var ops []c08HOp
		for i := 0; i < nops; i++ {
			name := c08CaseVariant(r, kit.Pick(r, names))
			k := r.Intn(100)
			if hc.Hot {
				k = 55 + r.Intn(45)
			}
			switch {
			case k < 38: // put / import on a dynamic blob
				b := r.Intn(hc.NDyn)
				if hc.Owner[b] >= 0 && hc.Owner[b] != g && !hc.BadConcurrent {
					ops = append(ops, c08HOp{Kind: "get", Blob: b})
					continue
				}
				s := c08Src{Kind: "good", Per: kit.Pick(r, []int{0, -1, -1, 1, 3})}
				mayBad := hc.BadConcurrent || hc.Owner[b] == g
				kind := "put"
				if k >= 30 {
					kind = "import"
				}
				if mayBad && r.Chance(1, 2) {
					for {
						s = c08GenBadSrc(r, hc.Sizes[b])
						if kind == "put" || s.Kind != "corrupt" {
							break
						}
					}
				}
				if hc.Sizes[b] > 4096 {
					s.Per = kit.Pick(r, []int{0, 1000, 4096})
				}
				ops = append(ops, c08HOp{Kind: kind, Blob: b, Src: &s})
			case k < 55:
				b := r.Intn(hc.NDyn)
				if r.Chance(1, 5) {
					b = hc.NDyn + r.Intn(hc.NStable+1)
				}
				ops = append(ops, c08HOp{Kind: "get", Blob: b})
			case k < 75:
				b := hc.NDyn + r.Intn(hc.NStable)
				if r.Chance(1, 7) {
					b = absent
				}
				ops = append(ops, c08HOp{Kind: "link", Blob: b, Name: name})
			case k < 82:
				ops = append(ops, c08HOp{Kind: "unlink", Name: name})
			default:
				ops = append(ops, c08HOp{Kind: "resolve", Name: name})
			}
		}
		hc.Threads = append(hc.Threads, ops)
	}
	return hc
}

type c08HIn struct {
	kind      string
	bad       bool
	completes bool   // bad source that delivers the complete correct content first (long, err after the last byte)
	target    string // link: "stable" | "absent"
	blob      int
}

type c08HOut struct {
	errNil bool
	full   bool
	ok     bool
	digest int
}

var c08DigestNModel = porcupine.NondeterministicModel{
	Init: func() []any { return []any{false} },
	Step: func(state, input, output any) []any {
		present := state.(bool)
		in, o := input.(c08HIn), output.(c08HOut)
		switch in.kind {
		case "put":
			switch {
			case !in.bad && o.errNil:
				return []any{true}
			case !in.bad:
				return nil
			case o.errNil && present:
				return []any{true} // nothing was read, or it was read and rejected without harm
			case o.errNil:
				return nil // "stored" from a source that cannot have delivered the blob
			case !present && in.completes:
				// a failing source that delivers the whole correct content before it misbehaves may
				// leave the complete blob behind or not; the statement does not say
				return []any{false, true}
			}
			return []any{present} // an error changes nothing, whether or not the blob was there
		case "import":
			switch {
			case !in.bad && o.errNil:
				return []any{true}
			case in.bad && !o.errNil:
				return []any{present}
			}
			return nil
		case "get":
			if o.full == present {
				return []any{present}
			}
		}
		return nil
	},
}

var c08DigestModel = c08DigestNModel.ToModel()

var c08NameModel = porcupine.Model{
	Init: func() any { return -1 },
	Step: func(state, input, output any) (bool, any) {
		linked := state.(int)
		in, o := input.(c08HIn), output.(c08HOut)
		switch in.kind {
		case "link":
			if in.target == "absent" {
				return !o.errNil, linked
			}
			return o.errNil, in.blob
		case "unlink":
			return o.errNil && o.ok == (linked >= 0), -1
		case "resolve":
			if linked < 0 {
				return !o.errNil, linked
			}
			return o.errNil && o.digest == linked, linked
		}
		return false, state
	},
}

func c08Overlap(a, b c08HRec) bool { return a.Call <= b.Ret && b.Call <= a.Ret }

func c08RunHist(hc *c08HistCase, seed uint64, sub int, r *kit.Rand, dir string) (out c08Out) {
	out.Spec = hc
	c, err := Open(dir)
	if err != nil {
		out.Inconclusive = "harness: " + err.Error()
		return
	}
	perm := r.Perm(256)
	blobs := c08BuildBlobs(seed, sub*16, hc.Sizes, hc.Rels, perm)
	byDigest := map[Digest]int{}
	for i := range blobs {
		byDigest[blobs[i].d] = i
	}
	absent := hc.NDyn + hc.NStable
	for i := hc.NDyn; i < absent; i++ {
		if err := PutBytes(c, blobs[i].d, blobs[i].data); err != nil {
			out.Inconclusive = "harness: setup Put: " + err.Error()
			return
		}
	}
	var clock atomic.Int64
	recs := make([][]c08HRec, len(hc.Threads)+1)
	panics := make([]string, len(hc.Threads))
	exec := func(g int, op c08HOp, rr *kit.Rand) c08HRec {
		rec := c08HRec{G: g, Op: op}
		b := blobs[op.Blob]
		var rd *c08Reader
		if op.Src != nil && op.Src.Kind != "bytes" {
			rd = c08NewReader(*op.Src, b.data, rr)
			rd.yield = true
		}
		rec.Call = clock.Add(1)
		switch op.Kind {
		case "put":
			if rd == nil {
				rec.Err = c08ErrStr(PutBytes(c, b.d, b.data))
			} else {
				rec.Err = c08ErrStr(c.Put(b.d, rd, b.n))
			}
			rec.Ret = clock.Add(1)
		case "import":
			d, err := c.Import(rd, b.n)
			rec.Ret = clock.Add(1)
			rec.Err = c08ErrStr(err)
			if err == nil && d != b.d {
				rec.Err = "harness-visible: Import returned another digest " + d.Short()
			}
		case "get":
			e, err := c.Get(b.d)
			rec.Ret = clock.Add(1)
			rec.Err, rec.Size = c08ErrStr(err), e.Size
			if err == nil && e.Size == b.n {
				rec.Full = true
				data, _ := os.ReadFile(c.GetFile(b.d))
				rec.HashOK = sha256.Sum256(data) == b.d.sum
				if !rec.HashOK && int64(len(data)) != b.n {
					// Get and the read are two looks at a file that may legitimately shrink in between (a
					// source that delivers everything and then fails: complete, verified, truncated again).
					// Only a read of the full size is judged.
					rec.HashOK, rec.Torn = true, true
				}
				if !rec.HashOK {
					rec.Diff = c08DiffDesc(data, b.data)
				}
			}
		case "link":
			rec.Err = c08ErrStr(c.Link(op.Name, b.d))
			rec.Ret = clock.Add(1)
		case "unlink":
			ok, err := c.Unlink(op.Name)
			rec.Ret = clock.Add(1)
			rec.OK, rec.Err = ok, c08ErrStr(err)
		case "resolve":
			d, err := c.Resolve(op.Name)
			rec.Ret = clock.Add(1)
			rec.Err = c08ErrStr(err)
			rec.Digest = -1
			if i, ok := byDigest[d]; ok {
				rec.Digest = i
			} else if d == DigestFromBytes("") {
				rec.Digest = -2
			}
		}
		return rec
	}
	var wg sync.WaitGroup
	startc := make(chan struct{})
	seeds := make([]uint64, len(hc.Threads))
	for g := range seeds {
		seeds[g] = r.Uint64()
	}
	for g := range hc.Threads {
		wg.Add(1)
		go func() {
			defer wg.Done()
			defer func() {
				if p := recover(); p != nil {
					panics[g] = fmt.Sprintf("%v at %s", p, c08PanicSite())
				}
			}()
			rr := kit.NewRand(seeds[g], "C08-hist-thread", g)
			<-startc
			for _, op := range hc.Threads[g] {
				recs[g] = append(recs[g], exec(g, op, rr))
			}
		}()
	}
	close(startc)
	done := make(chan struct{})
	go func() { wg.Wait(); close(done) }()
	select {
	case <-done:
	case <-time.After(120 * time.Second):
		out.Inconclusive = "watchdog: history did not finish"
		return
	}
	for g, p := range panics {
		if p != "" {
			out.violate("panic:"+p, fmt.Sprintf("panic in history goroutine %d: %s", g, p), nil)
			return
		}
	}
	// quiescent tail: one Get per blob, one Resolve per name
	tail := len(hc.Threads)
	nameSet := map[string]string{}
	for _, ops := range hc.Threads {
		for _, op := range ops {
			if op.Name != "" {
				nameSet[c08Fold(op.Name)] = op.Name
			}
		}
	}
	for i := range blobs {
		recs[tail] = append(recs[tail], exec(-1, c08HOp{Kind: "get", Blob: i}, nil))
	}
	folded := make([]string, 0, len(nameSet))
	for f := range nameSet {
		folded = append(folded, f)
	}
	sort.Strings(folded)
	for _, f := range folded {
		recs[tail] = append(recs[tail], exec(-1, c08HOp{Kind: "resolve", Name: nameSet[f]}, nil))
	}
	var all []c08HRec
	for _, l := range recs {
		all = append(all, l...)
	}
	sort.Slice(all, func(i, j int) bool { return all[i].Call < all[j].Call })
	hc.Records = all
	out.count("hist_ops", len(all))

	// ---- partitions
	isWrite := func(k string) bool { return k == "put" || k == "import" }
	digestShape := func(b int) string {
		for _, f := range all {
			if f.Op.Blob != b || !isWrite(f.Op.Kind) || f.Err == "" {
				continue
			}
			for _, g := range all {
				if g.Op.Blob == b && isWrite(g.Op.Kind) && (g.Call != f.Call) && c08Overlap(f, g) {
					return "overlapping-failing-writer"
				}
			}
		}
		return "no-overlapping-failing-writer"
	}
	overlapKinds := map[string]int{}
	noteOverlaps := func(part []c08HRec) {
		for i := range part {
			for j := i + 1; j < len(part); j++ {
				if part[i].G != part[j].G && c08Overlap(part[i], part[j]) {
					a, b := part[i].Op.Kind, part[j].Op.Kind
					if a > b {
						a, b = b, a
					}
					overlapKinds[a+"|"+b]++
				}
			}
		}
	}
	check := func(model porcupine.Model, part []c08HRec, conv func(c08HRec) (c08HIn, c08HOut)) porcupine.CheckResult {
		ops := make([]porcupine.Operation, 0, len(part))
		for _, p := range part {
			in, o := conv(p)
			cid := p.G
			if cid < 0 {
				cid = tail
			}
			ops = append(ops, porcupine.Operation{ClientId: cid, Input: in, Call: p.Call, Output: o, Return: p.Ret})
		}
		return porcupine.CheckOperationsTimeout(model, ops, 30*time.Second)
	}
	// non-trivial: some partition has operations of different goroutines that overlap in logical time
	for b := 0; b < hc.NDyn; b++ {
		noteOverlaps(c08PartOf(all, b, ""))
	}
	for _, f := range folded {
		noteOverlaps(c08PartOf(all, -1, f))
	}
	if len(overlapKinds) > 0 {
		ks := make([]string, 0, len(overlapKinds))
		for k, n := range overlapKinds {
			out.count("hist_overlap_"+k, n)
			ks = append(ks, fmt.Sprintf("%s*%d", k, min(n, 3)))
		}
		sort.Strings(ks)
		var shape []string
		for _, ops := range hc.Threads {
			s := ""
			for _, op := range ops {
				s += op.Kind[:1]
			}
			shape = append(shape, s)
		}
		out.Distinct = fmt.Sprint("hist", ks, shape)
	}
	if len(all) > 60 {
		hc.Records = all[:60] // keep samples small; violations carry the partition as witness
	}
	// direct checks on every Get
	for _, p := range all {
		if p.Op.Kind != "get" {
			continue
		}
		b := p.Op.Blob
		if p.Torn {
			out.count("hist_get_torn_observation", 1)
		}
		switch {
		case p.Full && !p.HashOK:
			shape := "stable-blob"
			if b < hc.NDyn {
				shape = digestShape(b)
			}
			out.violate("full-size-wrong-content:history:"+shape, fmt.Sprintf("Get(%s) at logical time %d reports the stored size %d but the file does not hash to the digest (%s)", blobs[b].Label, p.Call, blobs[b].n, p.Diff), c08PartOf(all, b, ""))
			return
		case b >= hc.NDyn && b < absent && !p.Full:
			out.violate("stored-blob-lost:history:stable-blob", fmt.Sprintf("Get(%s) of a blob stored before the concurrent phase reports size %d err %q", blobs[b].Label, p.Size, p.Err), c08PartOf(all, b, ""))
			return
		case b == absent && p.Full:
			out.violate("never-stored-blob-present:history", "Get of a blob that nobody stored reports it as present", nil)
			return
		}
	}
	for b := 0; b < hc.NDyn; b++ {
		completes := func(p c08HRec) bool {
			src := p.Op.Src
			return p.Op.Kind == "put" && src != nil && (src.Kind == "long" || (src.Kind == "err" && src.At >= int(blobs[b].n)))
		}
		// A failing Put whose source delivers the whole content first makes the blob present (verified) for a
		// moment and then truncates it. No sequential model has that intermediate state, so a Get that saw
		// the stored size while such a Put was running is left out of the linearizability check (its content
		// was still judged above).
		var part []c08HRec
		for _, p := range c08PartOf(all, b, "") {
			transient := false
			if p.Op.Kind == "get" && p.Full {
				for _, q := range all {
					if q.Op.Blob == b && completes(q) && q.Err != "" && c08Overlap(p, q) {
						transient = true
					}
				}
			}
			if transient {
				out.count("hist_get_during_transiently_complete_put", 1)
				continue
			}
			part = append(part, p)
		}
		res := check(c08DigestModel, part, func(p c08HRec) (c08HIn, c08HOut) {
			in := c08HIn{kind: p.Op.Kind, blob: b}
			if src := p.Op.Src; src != nil {
				in.bad = src.Bad()
				in.completes = completes(p)
			}
			return in, c08HOut{errNil: p.Err == "", full: p.Full}
		})
		out.count("hist_digest_partitions", 1)
		switch res {
		case porcupine.Illegal:
			out.violate("history-digest-not-linearizable:"+digestShape(b), fmt.Sprintf("the Put/Import/Get history of %s (%d bytes) has no sequential explanation (good write => nil and present; Put from a bad source => nil only if present, an error changes nothing; Get => stored size iff present)", blobs[b].Label, blobs[b].n), part)
			return
		case porcupine.Unknown:
			out.Inconclusive = "porcupine timeout on a digest partition"
			return
		}
	}
	for _, f := range folded {
		part := c08PartOf(all, -1, f)
		res := check(c08NameModel, part, func(p c08HRec) (c08HIn, c08HOut) {
			target := "stable"
			if p.Op.Blob == absent {
				target = "absent"
			}
			return c08HIn{kind: p.Op.Kind, target: target, blob: p.Op.Blob}, c08HOut{errNil: p.Err == "", ok: p.OK, digest: p.Digest}
		})
		out.count("hist_name_partitions", 1)
		switch res {
		case porcupine.Illegal:
			shape := c08NameShape(c, part, f, blobs)
			var odd []string
			for _, p := range part {
				if p.Op.Kind == "resolve" && p.Digest < 0 && p.Err == "" {
					odd = append(odd, fmt.Sprintf("Resolve at %d returned %s", p.Call, map[int]string{-1: "a digest nobody linked", -2: "the digest of the empty string"}[p.Digest]))
				}
			}
			out.violate("history-name-not-linearizable:"+shape, fmt.Sprintf("the Link/Unlink/Resolve history of name %q has no sequential explanation (Resolve must return the digest last linked) %s", f, strings.Join(odd, "; ")), part)
			return
		case porcupine.Unknown:
			out.Inconclusive = "porcupine timeout on a name partition"
			return
		}
	}
	return
}

// c08NameShape names the circumstances of a name partition that is not linearizable, from direct evidence
// first (what Resolve returned, what is on disk) and from the shape of the history otherwise.
func c08NameShape(c *DiskCache, part []c08HRec, folded string, blobs []c08Blob) string {
	for _, p := range part {
		if p.Op.Kind == "resolve" && p.Err == "" && p.Digest == -2 {
			return "resolve-saw-empty-manifest"
		}
	}
	for _, p := range part {
		if p.Op.Kind == "resolve" && p.Err == "" && p.Digest == -1 {
			return "resolve-saw-torn-manifest"
		}
	}
	files := 0
	for l, err := range c.Links() {
		if err == nil && c08Fold(l) == folded {
			files++
		}
	}
	if files > 1 {
		return "case-variant-duplicate-manifests"
	}
	concurrent := false
	for i := range part {
		for j := range part {
			if i != j && part[i].G != part[j].G && c08Overlap(part[i], part[j]) && (part[i].Op.Kind == "link" || part[i].Op.Kind == "unlink") {
				concurrent = true
			}
		}
	}
	sameSize := false
	linked := map[int64]int{}
	for _, p := range part {
		if p.Op.Kind == "link" && p.Err == "" {
			n := blobs[p.Op.Blob].n
			if b, ok := linked[n]; ok && b != p.Op.Blob {
				sameSize = true
			}
			linked[n] = p.Op.Blob
		}
	}
	prefixPair := false
	var linkedBlobs []int
	for _, p := range part {
		if p.Op.Kind == "link" && p.Err == "" {
			linkedBlobs = append(linkedBlobs, p.Op.Blob)
		}
	}
	for _, a := range linkedBlobs {
		for _, b := range linkedBlobs {
			if blobs[a].n < blobs[b].n && bytes.HasPrefix(blobs[b].data, blobs[a].data) {
				prefixPair = true
			}
		}
	}
	switch {
	case !concurrent && prefixPair && !sameSize:
		return "sequential:prefix-relink"
	case !concurrent && sameSize:
		return "sequential:same-size-relink"
	case !concurrent:
		return "sequential"
	case sameSize:
		return "concurrent-link-unlink:same-size-relink"
	case prefixPair:
		return "concurrent-link-unlink:prefix-relink"
	}
	return "concurrent-link-unlink"
}

// c08PartOf selects the records of one digest (blob >= 0: put/import/get) or one folded name.
func c08PartOf(all []c08HRec, blob int, folded string) []c08HRec {
	var part []c08HRec
	for _, p := range all {
		if blob >= 0 {
			if p.Op.Blob == blob && (p.Op.Kind == "put" || p.Op.Kind == "import" || p.Op.Kind == "get") {
				part = append(part, p)
			}
		} else if p.Op.Name != "" && c08Fold(p.Op.Name) == folded {
			part = append(part, p)
		}
	}
	return part
}
