//go:build verif

package blob

// C08: blob cache entries of the right size always have the right content.
//
// Runtime monitor in four workloads over the real DiskCache (see DESIGN.md section 4, C08):
//
//	seq    fault sequences: Put/Import from short/long/corrupt/erroring/1-7-bytes-per-Read sources mixed with
//	       Get/Link/Unlink/Resolve, checked step by step against the sequential specification, then a good Put.
//	crash  a child process (this test binary re-executed, TestVerifC08Child) performs one Put/Import and is
//	       SIGKILLed by its own source reader after b delivered bytes, for every b in 0..size, or inside
//	       testHookBeforeFinalWrite, or (strace) just before the first ftruncate of a failing write; on top of
//	       the debris of earlier crashed attempts. The parent re-opens the directory and checks it.
//	sched  concurrent writers of one digest whose progress is gated by their source readers; every chunk-level
//	       interleaving of 2 writers is enumerated, 3-4 writers are sampled. Observed after every step.
//	hist   free-running goroutines issue Put/Import/Link/Unlink/Resolve/Get; the recorded history is checked
//	       with porcupine per digest and per case-folded name.
//
// The files c08_crash_test.go, c08_sched_test.go and c08_hist_test.go hold the last three workloads.

import (
	"bytes"
	"crypto/sha256"
	"encoding/hex"
	"encoding/json"
	"errors"
	"fmt"
	"io"
	"log/slog"
	"os"
	"path/filepath"
	"runtime"
	rtdebug "runtime/debug"
	"sort"
	"strings"
	"testing"

	kit "verifkit"
)

// ------------------------------------------------------------------------------------------------
// blobs, sources, observations (shared by all workloads)

type c08Blob struct {
	Label string
	data  []byte
	d     Digest
	n     int64
}

func c08NewBlob(label string, data []byte) c08Blob {
	return c08Blob{Label: label, data: data, d: Digest{sha256.Sum256(data)}, n: int64(len(data))}
}

// c08Content is the content of a blob as a pure function of (seed, idx, size), so that a child process can
// regenerate it. The first byte is forced to `first` to keep contents of one case distinct even at size 1.
func c08Content(seed uint64, idx, size int, first byte) []byte {
	b := kit.NewRand(seed, "C08-content", idx, size).Bytes(size)
	if size > 0 {
		b[0] = first
	}
	return b
}

// c08Rel relates the content of a blob to an earlier blob of the same case, so that manifests are frequently
// byte prefixes / extensions / same-length variants of one another (what a hand edit or a re-publish produces).
type c08Rel struct {
	Kind string `json:"kind"`         // fresh | prefix (first N bytes of Of) | ext (Of + N PRNG bytes) | ext-newline (Of + "\n") | flip (Of with byte N changed)
	Of   int    `json:"of,omitempty"` // index of the related earlier blob
	N    int    `json:"n,omitempty"`
}

// c08GenRels draws relations for blobs lo..hi-1 (blob lo stays fresh) and rewrites their sizes accordingly.
func c08GenRels(r *kit.Rand, sizes []int, lo, hi int) []c08Rel {
	rels := make([]c08Rel, len(sizes))
	for i := range rels {
		rels[i] = c08Rel{Kind: "fresh"}
	}
	for i := lo + 1; i < hi; i++ {
		of := r.Range(lo, i-1)
		switch k := r.Intn(10); {
		case k < 3 && sizes[of] >= 2:
			n := r.Range(1, sizes[of]-1)
			if r.Chance(1, 3) {
				n = sizes[of] - 1 // the old manifest minus its last byte (a trailing newline, say)
			}
			rels[i], sizes[i] = c08Rel{Kind: "prefix", Of: of, N: n}, n
		case k < 5:
			rels[i], sizes[i] = c08Rel{Kind: "ext-newline", Of: of}, sizes[of]+1
		case k < 7:
			n := r.Range(1, 9)
			rels[i], sizes[i] = c08Rel{Kind: "ext", Of: of, N: n}, sizes[of]+n
		case k < 9:
			rels[i], sizes[i] = c08Rel{Kind: "flip", Of: of, N: r.Intn(sizes[of])}, sizes[of]
		}
	}
	return rels
}

// c08BuildBlobs materialises the blobs of a case: a pure function of its arguments. Contents are pairwise
// distinct (a related content that collides with an earlier blob is replaced by fresh bytes of the same size).
func c08BuildBlobs(seed uint64, idxBase int, sizes []int, rels []c08Rel, perm []int) []c08Blob {
	blobs := make([]c08Blob, len(sizes))
	seen := map[Digest]bool{}
	for i, n := range sizes {
		var data []byte
		rel := c08Rel{Kind: "fresh"}
		if i < len(rels) {
			rel = rels[i]
		}
		switch rel.Kind {
		case "prefix":
			data = append([]byte(nil), blobs[rel.Of].data[:rel.N]...)
		case "ext-newline":
			data = append(append([]byte(nil), blobs[rel.Of].data...), '\n')
		case "ext":
			data = append(append([]byte(nil), blobs[rel.Of].data...), kit.NewRand(seed, "C08-ext", idxBase+i).Bytes(rel.N)...)
		case "flip":
			data = append([]byte(nil), blobs[rel.Of].data...)
			data[rel.N] ^= 0x33
		}
		for attempt := 0; data == nil || len(data) != n || seen[Digest{sha256.Sum256(data)}]; attempt++ {
			data = c08Content(seed, idxBase+i+attempt*4099, n, byte(perm[(i+attempt*16)%256]))
		}
		blobs[i] = c08NewBlob(fmt.Sprintf("b%d", i), data)
		seen[blobs[i].d] = true
	}
	return blobs
}

// c08ContentRelation says how the content got relates to want (for violation shapes).
func c08ContentRelation(got, want []byte) string {
	switch {
	case len(got) > len(want) && bytes.HasPrefix(got, want):
		return "returned-manifest-extends-linked-one"
	case len(got) < len(want) && bytes.HasPrefix(want, got):
		return "returned-manifest-is-prefix-of-linked-one"
	case len(got) == len(want):
		return "same-size-manifest"
	}
	return "other"
}

var errC08Source = errors.New("c08: injected source error")

// c08Src describes how a source reader (mis)behaves relative to the blob it claims to deliver.
type c08Src struct {
	Kind  string `json:"kind"`            // good | bytes (PutBytes: one Write) | short | long | corrupt | err
	At    int    `json:"at,omitempty"`    // short/err: bytes delivered before EOF/error; corrupt: index of the flipped byte
	Extra int    `json:"extra,omitempty"` // long: surplus bytes after the full content
	Per   int    `json:"per,omitempty"`   // bytes per Read: 0 = whatever fits, k>0 = k, -1 = PRNG 1..7 per Read
}

func (s c08Src) Bad() bool { return s.Kind != "good" && s.Kind != "bytes" }

func (s c08Src) String() string {
	return fmt.Sprintf("%s(at=%d,extra=%d,per=%d)", s.Kind, s.At, s.Extra, s.Per)
}

// stream returns the bytes the source delivers and the error that ends it (nil = io.EOF).
func (s c08Src) stream(content []byte) ([]byte, error) {
	switch s.Kind {
	case "good", "bytes":
		return content, nil
	case "short":
		return content[:min(max(s.At, 0), len(content))], nil
	case "err":
		return content[:min(max(s.At, 0), len(content))], errC08Source
	case "long":
		extra := bytes.Repeat([]byte{0xEE}, max(s.Extra, 1))
		return append(append([]byte(nil), content...), extra...), nil
	case "corrupt":
		c := append([]byte(nil), content...)
		if len(c) > 0 {
			c[min(max(s.At, 0), len(c)-1)] ^= 0x5A
		}
		return c, nil
	case "garbage": // right length, every byte wrong
		c := append([]byte(nil), content...)
		for i := range c {
			c[i] ^= 0xA5
		}
		return c, nil
	}
	panic("c08: unknown source kind " + s.Kind)
}

// c08GenBadSrc draws a misbehaving source for a blob of n >= 1 bytes.
func c08GenBadSrc(r *kit.Rand, n int) c08Src {
	s := c08Src{Per: kit.Pick(r, []int{0, 0, -1, -1, 1, 2, 3, 7})}
	switch r.Intn(5) {
	case 0:
		s.Kind, s.At = "short", r.Intn(n) // 0..n-1 bytes
	case 1:
		s.Kind, s.At = "err", r.Intn(n+1) // error after 0..n bytes (n = after the complete content)
	case 2:
		s.Kind, s.Extra = "long", r.Range(1, 9)
	case 3:
		s.Kind, s.At = "corrupt", r.Intn(n)
	case 4:
		s.Kind, s.At = "corrupt", n-1 // the byte of the final write
	}
	return s
}

type c08Reader struct {
	data  []byte
	pos   int
	term  error
	per   int
	r     *kit.Rand
	yield bool // runtime.Gosched before every Read (history workload)
	kill  int  // >=0: SIGKILL the own process at the first Read call made after `kill` bytes were delivered
	reads int
}

func c08NewReader(s c08Src, content []byte, r *kit.Rand) *c08Reader {
	data, term := s.stream(content)
	return &c08Reader{data: data, term: term, per: s.Per, r: r, kill: -1}
}

func (x *c08Reader) Read(p []byte) (int, error) {
	x.reads++
	if x.yield {
		runtime.Gosched()
	}
	if x.kill >= 0 && x.pos >= x.kill {
		c08Die()
	}
	if x.pos >= len(x.data) {
		if x.term != nil {
			return 0, x.term
		}
		return 0, io.EOF
	}
	n := len(p)
	switch {
	case x.per > 0:
		n = min(n, x.per)
	case x.per < 0 && x.r != nil:
		n = min(n, x.r.Range(1, 7))
	}
	n = min(n, len(x.data)-x.pos)
	if x.kill >= 0 {
		n = min(n, x.kill-x.pos)
	}
	copy(p, x.data[x.pos:x.pos+n])
	x.pos += n
	return n, nil
}

// c08Put performs one Put with the described source.
func c08Put(c *DiskCache, b c08Blob, s c08Src, r *kit.Rand) error {
	if s.Kind == "bytes" {
		return PutBytes(c, b.d, b.data)
	}
	return c.Put(b.d, c08NewReader(s, b.data, r), b.n)
}

// c08Obs is what the cache says about one blob, plus what is really in the file.
type c08Obs struct {
	GetErr   string `json:"get_err,omitempty"`
	GetSize  int64  `json:"get_size"`
	FileSize int64  `json:"file_size"` // -1: no file
	Full     bool   `json:"full"`      // Get reported exactly the size the digest is stored under
	HashOK   bool   `json:"hash_ok"`   // content hashes to the digest (only evaluated when Full)
	Diff     string `json:"diff,omitempty"`
	content  []byte
}

func c08Observe(c *DiskCache, b c08Blob) c08Obs {
	o := c08Obs{FileSize: -1}
	e, err := c.Get(b.d)
	if err != nil {
		o.GetErr = err.Error()
	} else {
		o.GetSize = e.Size
	}
	if st, err := os.Stat(c.GetFile(b.d)); err == nil {
		o.FileSize = st.Size()
	}
	if err == nil && e.Size == b.n {
		o.Full = true
		data, rerr := os.ReadFile(c.GetFile(b.d))
		o.content = data
		sum := sha256.Sum256(data)
		o.HashOK = rerr == nil && sum == b.d.sum
		if !o.HashOK {
			o.Diff = c08DiffDesc(data, b.data)
		}
	}
	return o
}

// c08DiffDesc summarises where got differs from want (first ranges only).
func c08DiffDesc(got, want []byte) string {
	if len(got) != len(want) {
		return fmt.Sprintf("length %d, want %d", len(got), len(want))
	}
	var parts []string
	zero := true
	for i := 0; i < len(got); {
		if got[i] == want[i] {
			i++
			continue
		}
		j := i
		for j < len(got) && got[j] != want[j] {
			if got[j] != 0 {
				zero = false
			}
			j++
		}
		if len(parts) < 4 {
			parts = append(parts, fmt.Sprintf("[%d,%d)", i, j))
		}
		i = j
	}
	return fmt.Sprintf("differs at %s of %d bytes; differing bytes all zero: %v", strings.Join(parts, ","), len(want), zero)
}

// c08DiffAllZero: got has want's length, differs somewhere, and every differing byte of got is 0.
func c08DiffAllZero(got, want []byte) bool {
	if len(got) != len(want) {
		return false
	}
	diff := false
	for i := range got {
		if got[i] != want[i] {
			diff = true
			if got[i] != 0 {
				return false
			}
		}
	}
	return diff
}

type c08Viol struct {
	Sig     string
	What    string
	Witness any
}

// c08Out is the result of running one case.
type c08Out struct {
	Spec         any       // JSON-able description of the case (goes into violations / samples)
	Viols        []c08Viol // empty = held
	Distinct     string    // "" = trivial by the workload's rule
	Inconclusive string    // "" = conclusive
	Counts       map[string]int
}

func (o *c08Out) count(k string, n int) {
	if o.Counts == nil {
		o.Counts = map[string]int{}
	}
	o.Counts[k] += n
}

func (o *c08Out) violate(sig, what string, witness any) {
	o.Viols = append(o.Viols, c08Viol{Sig: "c08:" + sig, What: what, Witness: witness})
}

func c08Hex(b []byte, n int) string {
	if len(b) > n {
		return hex.EncodeToString(b[:n]) + "..."
	}
	return hex.EncodeToString(b)
}

func c08ErrStr(err error) string {
	if err == nil {
		return ""
	}
	return err.Error()
}

// c08PanicSite returns the innermost frame of this package that is not harness code.
func c08PanicSite() string {
	st := string(rtdebug.Stack())
	lines := strings.Split(st, "\n")
	for i := 0; i+1 < len(lines); i++ {
		l := strings.TrimSpace(lines[i])
		if strings.HasPrefix(l, "github.com/ollama/ollama/") && !strings.Contains(lines[i+1], "zz_verif_") && !strings.Contains(l, "c08") {
			if k := strings.LastIndex(l, "("); k > 0 {
				l = l[:k]
			}
			return strings.TrimPrefix(l, "github.com/ollama/ollama/")
		}
	}
	return "unknown"
}

// ------------------------------------------------------------------------------------------------
// workload "seq": fault sequences against the sequential specification

type c08SeqOp struct {
	Op   string  `json:"op"` // put import get link unlink resolve edit (manifest file rewritten by hand)
	Blob int     `json:"blob,omitempty"`
	Name string  `json:"name,omitempty"`
	Src  *c08Src `json:"src,omitempty"`
	Res  string  `json:"res,omitempty"` // filled while running
}

type c08SeqCase struct {
	Sizes []int      `json:"blob_sizes"`
	Rels  []c08Rel   `json:"blob_relations,omitempty"`
	Ops   []c08SeqOp `json:"ops"`
	seed  uint64
	idx   int
}

var (
	c08Hosts  = []string{"h", "registry.example.com", "localhost:5000", "H0st_1"}
	c08NSs    = []string{"n", "library", "My_NS"}
	c08Models = []string{"m", "Model-1", "a.b"}
	c08Tags   = []string{"t", "latest", "V1.0"}
)

func c08GenName(r *kit.Rand) string {
	return kit.Pick(r, c08Hosts) + "/" + kit.Pick(r, c08NSs) + "/" + kit.Pick(r, c08Models) + ":" + kit.Pick(r, c08Tags)
}

// c08CaseVariant returns name in another letter case (names are ASCII).
func c08CaseVariant(r *kit.Rand, name string) string {
	switch r.Intn(4) {
	case 0:
		return name
	case 1:
		return strings.ToUpper(name)
	case 2:
		return strings.ToLower(name)
	}
	b := []byte(name)
	for i := range b {
		if r.Bool() {
			b[i] = strings.ToUpper(string(b[i]))[0]
		} else {
			b[i] = strings.ToLower(string(b[i]))[0]
		}
	}
	return string(b)
}

var c08SeqSizes = []int{1, 2, 3, 5, 7, 8, 13, 31, 64, 100, 257, 1000}

func c08GenSizes(r *kit.Rand, nb int, distinct bool) []int {
	pool := []int{kit.Pick(r, c08SeqSizes), kit.Pick(r, c08SeqSizes)}
	if r.Chance(1, 10) {
		pool[0] = kit.Pick(r, []int{32768, 32769, 70001}) // more than one io.Copy buffer
	}
	sizes := make([]int, nb)
	used := map[int]bool{}
	for i := range sizes {
		if distinct {
			for {
				sizes[i] = kit.Pick(r, c08SeqSizes)
				if !used[sizes[i]] {
					break
				}
			}
			used[sizes[i]] = true
		} else {
			sizes[i] = kit.Pick(r, pool)
		}
	}
	return sizes
}

func c08GenSeq(r *kit.Rand, seed uint64, idx int) c08SeqCase {
	nb := r.Range(3, 5)
	cs := c08SeqCase{Sizes: c08GenSizes(r, nb, r.Chance(1, 3)), seed: seed, idx: idx}
	if r.Chance(1, 2) {
		cs.Rels = c08GenRels(r, cs.Sizes, 0, nb)
	}
	names := []string{c08GenName(r), c08GenName(r)}
	nops := r.Range(6, 22)
	for i := 0; i < nops; i++ {
		b := r.Intn(nb)
		name := c08CaseVariant(r, kit.Pick(r, names))
		var op c08SeqOp
		switch k := r.Intn(100); {
		case k < 38:
			op = c08SeqOp{Op: "put", Blob: b}
			var s c08Src
			switch j := r.Intn(10); {
			case j < 3:
				s = c08Src{Kind: "good", Per: kit.Pick(r, []int{0, -1, 1, 5})}
			case j < 4:
				s = c08Src{Kind: "bytes"}
			default:
				s = c08GenBadSrc(r, cs.Sizes[b])
			}
			op.Src = &s
		case k < 46:
			op = c08SeqOp{Op: "import", Blob: b}
			s := c08Src{Kind: "good", Per: kit.Pick(r, []int{0, -1, 3})}
			if r.Chance(1, 2) {
				for {
					s = c08GenBadSrc(r, cs.Sizes[b])
					if s.Kind != "corrupt" { // a same-length different content is simply another blob for Import
						break
					}
				}
			}
			op.Src = &s
		case k < 53:
			op = c08SeqOp{Op: "get", Blob: b}
		case k < 75:
			op = c08SeqOp{Op: "link", Blob: b, Name: name}
		case k < 82:
			op = c08SeqOp{Op: "unlink", Name: name}
		case k < 86:
			op = c08SeqOp{Op: "edit", Blob: b, Name: name}
		default:
			op = c08SeqOp{Op: "resolve", Name: name}
		}
		cs.Ops = append(cs.Ops, op)
	}
	return cs
}

func c08Fold(name string) string { return strings.ToLower(name) }

// c08Leftover classifies the blob file of b before an operation that needs the blob.
func c08Leftover(c *DiskCache, b c08Blob) string {
	st, err := os.Stat(c.GetFile(b.d))
	switch {
	case err != nil:
		return "no-blob-file"
	case st.Size() == 0:
		return "empty-leftover-of-failed-put"
	case st.Size() < b.n:
		return "partial-blob-file"
	case st.Size() == b.n:
		return "full-size-blob-file"
	}
	return "oversize-blob-file"
}

func c08RunSeq(cs *c08SeqCase, r *kit.Rand, dir string) (out c08Out) {
	out.Spec = cs
	c, err := Open(dir)
	if err != nil {
		out.Inconclusive = "harness: " + err.Error()
		return
	}
	perm := r.Perm(256)
	blobs := c08BuildBlobs(cs.seed, cs.idx*16, cs.Sizes, cs.Rels, perm)
	byDigest := map[Digest]int{}
	for i, b := range blobs {
		byDigest[b.d] = i
	}
	present := make([]bool, len(blobs))
	link := map[string]int{} // folded name -> blob index
	failedWrites, linkOps, sameSizeRelink := 0, 0, 0
	faultKinds := map[string]bool{}

	// sweep: the invariant and durability for every blob
	sweep := func(after string) bool {
		for i, b := range blobs {
			o := c08Observe(c, b)
			if o.Full && !o.HashOK {
				out.violate("full-size-wrong-content:sequential", fmt.Sprintf("after %s: Get(%s) reports the stored size %d but the file does not hash to the digest (%s)", after, b.Label, b.n, o.Diff), o)
				return false
			}
			if o.GetErr == "" && o.FileSize >= 0 && o.GetSize != o.FileSize {
				out.violate("get-size-differs-from-file", fmt.Sprintf("after %s: Get(%s) reports size %d, the file has %d", after, b.Label, o.GetSize, o.FileSize), o)
				return false
			}
			if present[i] && !o.Full {
				out.violate("stored-blob-lost:sequential", fmt.Sprintf("after %s: %s was stored successfully earlier but Get now reports size %d err %q (want %d)", after, b.Label, o.GetSize, o.GetErr, b.n), o)
				return false
			}
		}
		return true
	}
	// resolveCheck: Resolve(name) against the model
	resolveCheck := func(name, after string, shapeHint string) bool {
		d, err := c.Resolve(name)
		want, linked := link[c08Fold(name)]
		suffix := ""
		if shapeHint != "" {
			suffix = ":" + shapeHint
		}
		switch {
		case !linked && err == nil:
			out.violate("resolve-of-unlinked-name-succeeded"+suffix, fmt.Sprintf("after %s: Resolve(%q) = %s, nil but the name is not linked", after, name, d.Short()), nil)
			return false
		case linked && err != nil:
			out.violate("resolve-failed-for-linked-name"+suffix, fmt.Sprintf("after %s: Resolve(%q) fails (%v) but the name was linked to %s", after, name, err, blobs[want].Label), nil)
			return false
		case linked && d != blobs[want].d:
			shape := shapeHint
			gotLabel := "a digest that was never stored (" + d.Short() + ")"
			if d == DigestFromBytes("") {
				gotLabel = "the digest of the empty string"
			}
			if gi, ok := byDigest[d]; ok {
				gotLabel = fmt.Sprintf("%s (%d bytes)", blobs[gi].Label, blobs[gi].n)
				if shape == "" {
					shape = c08ContentRelation(blobs[gi].data, blobs[want].data)
				}
			}
			if shape == "" {
				shape = "other"
			}
			out.violate("resolve-wrong-digest:"+shape, fmt.Sprintf("after %s: Resolve(%q) returns %s, but the bytes last linked under that name are %s (%d bytes)", after, name, gotLabel, blobs[want].Label, blobs[want].n), nil)
			return false
		}
		if linked {
			// resolving makes the manifest addressable as a blob
			if o := c08Observe(c, blobs[want]); !o.Full || !o.HashOK {
				out.violate("resolved-digest-not-retrievable", fmt.Sprintf("after %s: Resolve(%q) returned %s but Get of it reports %+v", after, name, blobs[want].Label, o), o)
				return false
			}
		}
		return true
	}

	run := func(i int, op *c08SeqOp) bool {
		after := fmt.Sprintf("op %d %s", i, op.Op)
		switch op.Op {
		case "put":
			b := blobs[op.Blob]
			err := c08Put(c, b, *op.Src, r)
			op.Res = c08ErrStr(err)
			after += "(" + b.Label + "," + op.Src.String() + ")"
			out.count("seq_put_"+op.Src.Kind, 1)
			if err != nil {
				failedWrites++
				faultKinds[op.Src.Kind] = true
				if !op.Src.Bad() {
					out.violate("good-put-failed:sequential", fmt.Sprintf("%s: a Put from a correct source fails: %v", after, err), nil)
					return false
				}
			} else {
				o := c08Observe(c, b)
				if o.Full && !o.HashOK {
					out.violate("full-size-wrong-content:sequential", fmt.Sprintf("%s returned nil; Get reports the stored size but the content does not hash to the digest (%s)", after, o.Diff), o)
					return false
				}
				if !o.Full {
					out.violate("stored-blob-not-retrievable:sequential", fmt.Sprintf("%s returned nil but Get reports size %d err %q (want %d)", after, o.GetSize, o.GetErr, b.n), o)
					return false
				}
				present[op.Blob] = true
			}
		case "import":
			b := blobs[op.Blob]
			d, err := c.Import(c08NewReader(*op.Src, b.data, r), b.n)
			op.Res = c08ErrStr(err)
			after += "(" + b.Label + "," + op.Src.String() + ")"
			out.count("seq_import_"+op.Src.Kind, 1)
			if err != nil {
				failedWrites++
				faultKinds["import-"+op.Src.Kind] = true
				if !op.Src.Bad() {
					out.violate("good-import-failed:sequential", fmt.Sprintf("%s: Import from a correct source fails: %v", after, err), nil)
					return false
				}
			} else {
				// whatever digest Import returns must be retrievable with matching content
				data, _ := os.ReadFile(c.GetFile(d))
				if e, gerr := c.Get(d); gerr != nil || e.Size != int64(len(data)) || sha256.Sum256(data) != d.sum {
					out.violate("import-digest-content-mismatch", fmt.Sprintf("%s returned %s but Get/the stored file do not match it (Get: %+v, %v; file %d bytes)", after, d.Short(), e, gerr, len(data)), nil)
					return false
				}
				if d == b.d {
					present[op.Blob] = true
				} else {
					out.count("seq_import_accepted_other_content", 1)
				}
			}
		case "get":
			// covered by the sweep below (every blob is observed after every operation)
		case "link":
			linkOps++
			b := blobs[op.Blob]
			leftover := c08Leftover(c, b)
			old, wasLinked := link[c08Fold(op.Name)]
			err := c.Link(op.Name, b.d)
			op.Res = c08ErrStr(err)
			after += fmt.Sprintf("(%q,%s)", op.Name, b.Label)
			out.count("seq_link_"+leftover, 1)
			// "exists" is what Get says: a failed Put may legitimately leave a complete, correct blob behind
			// (a source that delivers the whole content and only then misbehaves)
			if pre := c08Observe(c, b); present[op.Blob] || (pre.Full && pre.HashOK) {
				if err != nil {
					out.violate("link-failed-on-present-blob", fmt.Sprintf("%s fails (%v) although the blob is stored", after, err), nil)
					return false
				}
				if wasLinked && old != op.Blob && blobs[old].n == b.n {
					sameSizeRelink++
				}
				link[c08Fold(op.Name)] = op.Blob
				if !resolveCheck(op.Name, after, "") {
					return false
				}
			} else {
				if err == nil {
					out.violate("link-to-absent-blob-succeeded:"+leftover, fmt.Sprintf("%s returns nil although Get(%s) reports the blob as absent (%s)", after, b.Label, leftover), nil)
					return false
				}
				if !resolveCheck(op.Name, after+" (failed: "+err.Error()+")", "failed-link:"+leftover) {
					return false
				}
				if !wasLinked {
					for l, lerr := range c.Links() {
						if lerr == nil && c08Fold(l) == c08Fold(op.Name) {
							out.violate("failed-link-left-manifest-file:"+leftover, fmt.Sprintf("%s failed (%v) but Links() now lists %q", after, err, l), nil)
							return false
						}
					}
				}
			}
		case "unlink":
			linkOps++
			_, wasLinked := link[c08Fold(op.Name)]
			ok, err := c.Unlink(op.Name)
			op.Res = fmt.Sprintf("%v %s", ok, c08ErrStr(err))
			after += fmt.Sprintf("(%q)", op.Name)
			if err != nil || ok != wasLinked {
				out.violate("unlink-result", fmt.Sprintf("%s = (%v, %v); the name was linked: %v", after, ok, err, wasLinked), nil)
				return false
			}
			delete(link, c08Fold(op.Name))
			if !resolveCheck(op.Name, after, "") {
				return false
			}
		case "edit":
			// a hand edit (the case Resolve's own comment describes): the manifest file of the name is
			// rewritten outside the API; from then on these are "the bytes linked", and Resolve stores them
			linkOps++
			b := blobs[op.Blob]
			file, err := c.manifestPath(op.Name)
			if err == nil {
				if err = os.MkdirAll(filepath.Dir(file), 0o777); err == nil {
					err = os.WriteFile(file, b.data, 0o666)
				}
			}
			if err != nil {
				out.Inconclusive = "harness: hand edit: " + err.Error()
				return false
			}
			after += fmt.Sprintf("(%q := %s)", op.Name, b.Label)
			link[c08Fold(op.Name)] = op.Blob
			if !resolveCheck(op.Name, after, "") {
				return false
			}
			present[op.Blob] = true // resolveCheck saw it retrievable
		case "resolve":
			linkOps++
			after += fmt.Sprintf("(%q)", op.Name)
			if !resolveCheck(op.Name, after, "") {
				return false
			}
		}
		return sweep(after)
	}
	ok := true
	for i := range cs.Ops {
		if ok = run(i, &cs.Ops[i]); !ok {
			break
		}
	}
	if ok {
		// the good Put that follows every fault sequence
		for i := range blobs {
			op := c08SeqOp{Op: "put", Blob: i, Src: &c08Src{Kind: "good", Per: kit.Pick(r, []int{0, -1, 2})}}
			if ok = run(len(cs.Ops)+i, &op); !ok {
				break
			}
		}
	}
	if ok {
		for name := range link {
			if !resolveCheck(name, "the final good Puts", "") {
				break
			}
		}
	}
	out.count("seq_failed_writes", failedWrites)
	out.count("seq_same_size_relinks", sameSizeRelink)
	if failedWrites > 0 && linkOps > 0 {
		ks := make([]string, 0, len(faultKinds))
		for k := range faultKinds {
			ks = append(ks, k)
		}
		sort.Strings(ks)
		shape := make([]string, 0, len(cs.Ops))
		for _, op := range cs.Ops {
			shape = append(shape, op.Op[:2])
		}
		out.Distinct = fmt.Sprint("seq", ks, shape, sameSizeRelink > 0)
	}
	return
}

// ------------------------------------------------------------------------------------------------
// driver

type c08Workload struct {
	name string
	n    int
	run  func(sub int, r *kit.Rand, dir string) c08Out
}

type c08CaseDesc struct {
	Index    int    `json:"index"`
	Workload string `json:"workload"`
	Sub      int    `json:"sub"`
	Spec     any    `json:"spec"`
}

func TestVerifC08(t *testing.T) {
	slog.SetDefault(slog.New(slog.NewTextHandler(io.Discard, nil)))
	rep := kit.NewReport("C08")
	cfg := rep.Cfg()
	defer rep.Flush()
	thorough := cfg.Tier == "thorough"

	rep.Set("rule", "Four workloads over the real DiskCache, case i fixed by (tier, seed, i). "+
		"seq: PRNG fault sequences (Put/Import from good/short/long/corrupt/erroring sources delivering whole buffers or 1-7 bytes per Read, Get, Link/Unlink/Resolve and hand edits of the manifest file under case variants of 2 names, 3-5 blobs with frequent equal sizes; in half of the cases blob contents are proper prefixes / +newline / +bytes extensions / same-length variants of one another) checked after every operation against the sequential specification, then a good Put of every blob; non-trivial = at least one write really failed and a Link/Unlink/Resolve ran; distinct by (fault kinds, operation-kind sequence, same-size relink seen). "+
		"crash: ENUMERATED (size, b) for every b in 0..size: a child process runs one Put and its source SIGKILLs the process after b delivered bytes (good and corrupt sources), plus the testHookBeforeFinalWrite point, plus (strace) the point before the first ftruncate of a failing write, plus Import; on top of debris of earlier really-crashed attempts or a planted longer file; non-trivial = the child was observed to die by SIGKILL at the requested point; distinct by (class, op, source kind, size, b, debris). "+
		"sched2: ENUMERATED every interleaving of the gated steps of 2 writers of one digest (k = 1..4 chunks each; good x {good, short@j, err@j, corrupt@j, long, long-straddle}, Import x {good, Import, err, corrupt} for k<=3 and a fixed list of bad x bad pairs), blob observed after every step; schedN: PRNG-sampled interleavings of 3-4 such writers; non-trivial = at least two writers were active at the same time (one started before another finished); distinct by (writer specs, step order). "+
		"hist: free-running goroutines (2-4) issue Put/Import/Get/Link/Unlink/Resolve, the call/return history is checked with porcupine per digest and per case-folded name; non-trivial = some partition contains two operations that overlap in logical time; distinct by the multiset of overlapping operation-kind pairs and the per-goroutine operation kinds.")
	rep.Set("assumptions", []string{
		"a digest is always written under one declared size, the length of its preimage (a Put of the same digest under another size is outside the statement: 'the size it was stored under' would be ambiguous)",
		"blob sizes >= 1 (the cache reports an empty file as absent by design, pinned by TestPutGetZero/TestPutZero)",
		"crash = death of the writing process (SIGKILL); completed write(2) calls survive, no power-loss model",
		"the file system under the cache is a local POSIX file system with working rename/ftruncate (ext4 or tmpfs here); no I/O errors are injected",
		"blob contents are distinct within a case (PRNG bytes with a distinct first byte)",
		"Chunker (chunked.go) is exercised by C09, not here",
	})

	// ---- the case list of this tier
	var wls []c08Workload
	nseq := cfg.N(1200, 100000)
	wls = append(wls, c08Workload{"seq", nseq, func(sub int, r *kit.Rand, dir string) c08Out {
		cs := c08GenSeq(r, cfg.Seed, sub)
		return c08RunSeq(&cs, r, dir)
	}})
	crash := c08CrashList(thorough)
	wls = append(wls, c08Workload{"crash", len(crash), func(sub int, r *kit.Rand, dir string) c08Out {
		return c08RunCrash(crash[sub], cfg.Seed, sub, r, dir)
	}})
	s2 := c08Sched2List()
	wls = append(wls, c08Workload{"sched2", len(s2), func(sub int, r *kit.Rand, dir string) c08Out {
		sc := s2[sub]
		return c08RunSched(&sc, cfg.Seed, sub, r, dir)
	}})
	wls = append(wls, c08Workload{"schedN", cfg.N(400, 40000), func(sub int, r *kit.Rand, dir string) c08Out {
		sc := c08GenSchedN(r)
		return c08RunSched(&sc, cfg.Seed, 1<<24+sub, r, dir)
	}})
	wls = append(wls, c08Workload{"hist", cfg.N(300, 12000), func(sub int, r *kit.Rand, dir string) c08Out {
		hc := c08GenHist(r)
		return c08RunHist(&hc, cfg.Seed, sub, r, dir)
	}})
	sizes := map[string]any{}
	for _, w := range wls {
		sizes[w.name] = w.n
	}
	rep.Set("workload_sizes_whole_run", sizes)
	rep.Set("enumerated_subspaces", map[string]any{
		"crash":  "every (size, b) with b in 0..size for the listed sizes and source kinds (see crash_* counters); PRNG only picks chunking and debris",
		"sched2": "every interleaving of the gated steps for every listed 2-writer mix with k<=4 chunks; PRNG only picks content and chunk boundaries",
		"note":   "exhaustive only over these sub-spaces, not over the property's quantifier",
	})

	replayIdx := -1
	if cfg.Replay != "" {
		var rc struct {
			Index int `json:"index"`
		}
		if err := kit.LoadReplay(cfg.Replay, &rc); err != nil {
			t.Fatal(err)
		}
		replayIdx = rc.Index
	}

	root := t.TempDir()
	sampled := map[string]bool{}
	idx := -1
	for _, w := range wls {
		for sub := 0; sub < w.n; sub++ {
			idx++
			if replayIdx >= 0 && idx != replayIdx {
				continue
			}
			if replayIdx < 0 && !cfg.Mine(idx) {
				continue
			}
			r := kit.NewRand(cfg.Seed, "C08", idx)
			dir := filepath.Join(root, fmt.Sprintf("c%d", idx))
			jd, _ := json.Marshal(map[string]any{"index": idx, "workload": w.name, "sub": sub})
			rep.Journal(jd)
			out := c08RunCase(w, sub, r, dir)
			os.RemoveAll(dir)
			rep.Eval(1)
			rep.Count("cases_"+w.name, 1)
			for k, n := range out.Counts {
				rep.Count(k, n)
			}
			desc := c08CaseDesc{Index: idx, Workload: w.name, Sub: sub, Spec: out.Spec}
			for _, v := range out.Viols {
				rep.Violate(v.Sig, v.What, desc, v.Witness)
				if replayIdx >= 0 {
					t.Logf("replay: %s: %s", v.Sig, v.What)
				}
			}
			if out.Inconclusive != "" {
				rep.Inconclusive(fmt.Sprintf("case %d (%s/%d): %s", idx, w.name, sub, out.Inconclusive))
				rep.Count("inconclusive_"+w.name, 1)
			}
			if out.Distinct != "" {
				rep.Distinct(out.Distinct)
				rep.Count("nontrivial_"+w.name, 1)
				if !sampled[w.name] && len(out.Viols) == 0 && w.name != "schedN" { // at most 4 samples are kept: one per other workload
					sampled[w.name] = true
					rep.Sample(desc)
				}
			}
		}
	}
	if replayIdx >= 0 && rep.Violations() == 0 {
		t.Logf("replay: case %d holds", replayIdx)
	}
}

// c08RunCase isolates one case: a panic of the code under test on the calling goroutine becomes a violation.
func c08RunCase(w c08Workload, sub int, r *kit.Rand, dir string) (out c08Out) {
	defer func() {
		if p := recover(); p != nil {
			site := c08PanicSite()
			out.violate("panic:"+site, fmt.Sprintf("panic in %s case %d: %v", w.name, sub, p), string(rtdebug.Stack()))
		}
	}()
	if err := os.MkdirAll(dir, 0o777); err != nil {
		out.Inconclusive = "harness: " + err.Error()
		return
	}
	return w.run(sub, r, dir)
}
