//go:build verif

package server

// C09 (push clause, legacy implementation): server.PushModel / uploadBlob / blobUpload.Run against a fake
// registry that records, per blob, HEAD / upload session / received bytes / commit, and checks at the
// manifest PUT that every layer and the config have been accepted.

import (
	"context"
	"crypto/sha256"
	"encoding/json"
	"fmt"
	"io"
	"log"
	"log/slog"
	"net"
	"net/http"
	"net/http/httptest"
	"os"
	"path/filepath"
	"strings"
	"sync"
	"testing"
	"time"

	kit "verifkit"

	"github.com/ollama/ollama/api"
)

type c09pBlob struct {
	Size   int    `json:"size"`
	Digest string `json:"digest"`
	data   []byte
}

type c09pFault struct {
	Target string `json:"target"` // head:<b> | post:<b> | patch:<b> | commit:<b> | manifest
	Kind   string `json:"kind"`   // status500 | status403 | reset
	Times  int    `json:"times"`
}

type c09pCase struct {
	Index        int         `json:"index"`
	Blobs        []c09pBlob  `json:"blobs"`
	Layers       []int       `json:"layers"`
	Config       int         `json:"config"`
	Present      []int       `json:"present"`
	Faults       []c09pFault `json:"faults,omitempty"`
	CorruptLocal int         `json:"corrupt_local"`
}

func c09pGen(r *kit.Rand, idx int, thorough bool) *c09pCase {
	c := &c09pCase{Index: idx, Config: -1, CorruptLocal: -1}
	nb := r.Range(1, 4)
	for i := 0; i < nb; i++ {
		d := r.Bytes(r.Range(1, kit.Pick(r, []int{300, 5000, 70000})))
		c.Blobs = append(c.Blobs, c09pBlob{Size: len(d), data: d, Digest: fmt.Sprintf("sha256:%x", sha256.Sum256(d))})
		c.Layers = append(c.Layers, i)
	}
	if r.Chance(3, 4) {
		d := r.Bytes(r.Range(2, 400))
		c.Blobs = append(c.Blobs, c09pBlob{Size: len(d), data: d, Digest: fmt.Sprintf("sha256:%x", sha256.Sum256(d))})
		c.Config = len(c.Blobs) - 1
	}
	for b := range c.Blobs {
		if r.Chance(1, 4) {
			c.Present = append(c.Present, b)
		}
	}
	if thorough && r.Chance(1, 150) {
		// an upload that never succeeds: blobUpload.Run gives up after 1+2+4+8+16+32 s of sleeps.
		// Thorough tier only; the only plan in which blobUpload.err reaches blobUpload.Wait.
		b := r.Intn(len(c.Blobs))
		c.Present = nil
		c.Faults = append(c.Faults, c09pFault{Target: fmt.Sprintf("patch:%d", b), Kind: "status500", Times: 1000})
		return c
	}
	if r.Chance(3, 5) {
		b := r.Intn(len(c.Blobs))
		switch r.Intn(7) {
		case 0, 1:
			c.Faults = append(c.Faults, c09pFault{Target: fmt.Sprintf("head:%d", b), Kind: kit.Pick(r, []string{"status500", "status403", "reset"}), Times: 1})
		case 2, 3:
			c.Faults = append(c.Faults, c09pFault{Target: fmt.Sprintf("post:%d", b), Kind: kit.Pick(r, []string{"status500", "status403", "reset"}), Times: 1})
		case 4:
			// costs the client's 1 s retry sleep
			c.Faults = append(c.Faults, c09pFault{Target: fmt.Sprintf("patch:%d", b), Kind: kit.Pick(r, []string{"status500", "reset"}), Times: 1})
		case 5:
			// one failed commit = one 1 s sleep; a commit that keeps failing would cost 1+2+4+8+16+32 s
			c.Faults = append(c.Faults, c09pFault{Target: fmt.Sprintf("commit:%d", b), Kind: "status500", Times: 1})
		default:
			c.Faults = append(c.Faults, c09pFault{Target: "manifest", Kind: "status500", Times: 1})
		}
	}
	return c
}

type c09pWorld struct {
	c        *c09pCase
	mu       sync.Mutex
	faults   []*c09pFault
	fired    []string
	accepted map[int]string
	state    map[int]string
	recv     map[string][]byte // session -> bytes
	sessBlob map[string]int
	log      []string
	manifest []string
	sess     int
	lastHead int
}

func (w *c09pWorld) take(target string) string {
	w.mu.Lock()
	defer w.mu.Unlock()
	for _, f := range w.faults {
		if f.Target == target && f.Times > 0 {
			f.Times--
			w.fired = append(w.fired, target+"="+f.Kind)
			return f.Kind
		}
	}
	return ""
}

func (w *c09pWorld) note(b int, s string) {
	w.mu.Lock()
	if b >= 0 {
		w.state[b] = s
	}
	if len(w.log) < 300 {
		w.log = append(w.log, fmt.Sprintf("blob %d: %s", b, s))
	}
	w.mu.Unlock()
}

func (w *c09pWorld) fault(rw http.ResponseWriter, f string) bool {
	switch f {
	case "status500":
		rw.WriteHeader(500)
		io.WriteString(rw, `{"errors":[{"code":"INTERNAL_ERROR","message":"c09 injected"}]}`)
	case "status403":
		rw.WriteHeader(403)
		io.WriteString(rw, `{"errors":[{"code":"DENIED","message":"c09 injected"}]}`)
	case "reset":
		conn, _, err := rw.(http.Hijacker).Hijack()
		if err != nil {
			panic(http.ErrAbortHandler)
		}
		if tc, ok := conn.(*net.TCPConn); ok {
			tc.SetLinger(0)
		}
		conn.Close()
	default:
		return false
	}
	return true
}

func (w *c09pWorld) serve(rw http.ResponseWriter, r *http.Request) {
	c := w.c
	rest, ok := strings.CutPrefix(r.URL.Path, "/v2/ns/m/")
	if !ok {
		http.Error(rw, "unexpected", 597)
		return
	}
	blobOf := func(d string) int {
		for i := range c.Blobs {
			if c.Blobs[i].Digest == d {
				return i
			}
		}
		return -1
	}
	switch {
	case r.Method == "HEAD" && strings.HasPrefix(rest, "blobs/sha256:"):
		b := blobOf(strings.TrimPrefix(rest, "blobs/"))
		if b < 0 {
			rw.WriteHeader(404)
			return
		}
		w.note(b, "head")
		w.mu.Lock()
		w.lastHead = b
		w.mu.Unlock()
		if w.fault(rw, w.take(fmt.Sprintf("head:%d", b))) {
			w.note(b, "head-failed")
			return
		}
		w.mu.Lock()
		_, acc := w.accepted[b]
		w.mu.Unlock()
		for _, p := range c.Present {
			if p == b {
				acc = true
			}
		}
		if acc {
			w.mu.Lock()
			if _, ok := w.accepted[b]; !ok {
				w.accepted[b] = "present-on-head"
			}
			w.mu.Unlock()
			w.note(b, "answered-present")
			rw.WriteHeader(200)
			return
		}
		rw.WriteHeader(404)
	case r.Method == "POST" && rest == "blobs/uploads/":
		// the legacy client does not say which blob the session is for; sessions are bound at commit
		w.mu.Lock()
		w.sess++
		id := fmt.Sprintf("s%d", w.sess)
		w.recv[id] = nil
		// the session belongs to the blob that was HEADed last (PushModel uploads one blob after the other)
		b := w.lastHead
		w.sessBlob[id] = b
		w.mu.Unlock()
		if w.fault(rw, w.take(fmt.Sprintf("post:%d", b))) {
			w.note(b, "session-refused")
			return
		}
		w.note(b, "session-open")
		rw.Header().Set("Location", "http://"+r.Host+"/v2/ns/m/blobs/uploads/"+id)
		rw.WriteHeader(202)
	case r.Method == "PATCH" && strings.HasPrefix(rest, "blobs/uploads/s"):
		id := strings.TrimPrefix(rest, "blobs/uploads/")
		w.mu.Lock()
		b, ok := w.sessBlob[id]
		w.mu.Unlock()
		if !ok {
			rw.WriteHeader(404)
			return
		}
		f := w.take(fmt.Sprintf("patch:%d", b))
		if f == "reset" {
			w.note(b, "part-failed")
			w.fault(rw, f)
			return
		}
		body, _ := io.ReadAll(r.Body)
		if w.fault(rw, f) {
			w.note(b, "part-failed")
			return
		}
		w.mu.Lock()
		w.recv[id] = append(w.recv[id], body...)
		w.mu.Unlock()
		w.note(b, "part-received")
		rw.Header().Set("Location", "http://"+r.Host+"/v2/ns/m/blobs/uploads/"+id)
		rw.WriteHeader(202)
	case r.Method == "PUT" && strings.HasPrefix(rest, "blobs/uploads/s"):
		id := strings.TrimPrefix(rest, "blobs/uploads/")
		b := blobOf(r.URL.Query().Get("digest"))
		if b < 0 {
			rw.WriteHeader(400)
			return
		}
		if w.fault(rw, w.take(fmt.Sprintf("commit:%d", b))) {
			w.note(b, "commit-failed")
			return
		}
		w.mu.Lock()
		got := w.recv[id]
		w.mu.Unlock()
		if len(got) != c.Blobs[b].Size || fmt.Sprintf("sha256:%x", sha256.Sum256(got)) != c.Blobs[b].Digest {
			w.note(b, "commit-rejected-digest-mismatch")
			rw.WriteHeader(400)
			io.WriteString(rw, `{"errors":[{"code":"DIGEST_INVALID","message":"c09"}]}`)
			return
		}
		w.mu.Lock()
		w.accepted[b] = "committed"
		w.mu.Unlock()
		w.note(b, "committed")
		rw.WriteHeader(201)
	case r.Method == "PUT" && rest == "manifests/v":
		io.Copy(io.Discard, r.Body)
		need := append([]int(nil), c.Layers...)
		if c.Config >= 0 {
			need = append(need, c.Config)
		}
		var missing []string
		w.mu.Lock()
		for _, b := range need {
			if _, ok := w.accepted[b]; !ok {
				role := "layer"
				if b == c.Config {
					role = "config"
				}
				st := w.state[b]
				if st == "" {
					st = "never-offered"
				}
				missing = append(missing, role+":"+st)
			}
		}
		w.manifest = append(w.manifest, strings.Join(missing, ","))
		w.mu.Unlock()
		w.note(-1, "manifest PUT; missing: "+strings.Join(missing, ","))
		if !w.fault(rw, w.take("manifest")) {
			rw.WriteHeader(201)
		}
	default:
		http.Error(rw, "unexpected "+r.Method+" "+rest, 597)
	}
}

func c09pRun(t *testing.T, rep *kit.Report, c *c09pCase, base string) {
	if j, err := json.Marshal(c); err == nil {
		rep.Journal(j)
	}
	dir, err := os.MkdirTemp(base, "push")
	if err != nil {
		rep.Inconclusive("harness: " + err.Error())
		return
	}
	defer os.RemoveAll(dir)
	t.Setenv("OLLAMA_MODELS", dir)
	w := &c09pWorld{c: c, accepted: map[int]string{}, state: map[int]string{}, recv: map[string][]byte{}, sessBlob: map[string]int{}}
	for i := range c.Faults {
		f := c.Faults[i]
		w.faults = append(w.faults, &f)
	}
	srv := httptest.NewUnstartedServer(http.HandlerFunc(w.serve))
	srv.Config.ErrorLog = log.New(io.Discard, "", 0)
	srv.Start()
	defer func() {
		srv.CloseClientConnections()
		srv.Close()
	}()
	name := "http://" + srv.Listener.Addr().String() + "/ns/m:v"
	mp := ParseModelPath(name)
	m := Manifest{SchemaVersion: 2, MediaType: "application/vnd.docker.distribution.manifest.v2+json"}
	for _, b := range c.Layers {
		m.Layers = append(m.Layers, Layer{MediaType: "application/vnd.ollama.image.model", Digest: c.Blobs[b].Digest, Size: int64(c.Blobs[b].Size)})
	}
	if c.Config >= 0 {
		m.Config = Layer{MediaType: "application/vnd.docker.container.image.v1+json", Digest: c.Blobs[c.Config].Digest, Size: int64(c.Blobs[c.Config].Size)}
	}
	for i, b := range c.Blobs {
		p, err := GetBlobsPath(b.Digest)
		if err != nil {
			rep.Inconclusive("harness: " + err.Error())
			return
		}
		d := b.data
		if i == c.CorruptLocal {
			d = append([]byte(nil), d...)
			d[len(d)/2] ^= 0x77
		}
		if err := os.WriteFile(p, d, 0o644); err != nil {
			rep.Inconclusive("harness: " + err.Error())
			return
		}
	}
	mpath, err := mp.GetManifestPath()
	if err != nil {
		rep.Inconclusive("harness: manifest path: " + err.Error())
		return
	}
	os.MkdirAll(filepath.Dir(mpath), 0o755)
	mj, _ := json.Marshal(m)
	if err := os.WriteFile(mpath, mj, 0o644); err != nil {
		rep.Inconclusive("harness: " + err.Error())
		return
	}
	ctx, cancel := context.WithCancel(context.Background())
	defer cancel()
	res := make(chan error, 1)
	go func() {
		defer func() {
			if p := recover(); p != nil {
				res <- fmt.Errorf("c09-PANIC: %v", p)
			}
		}()
		res <- PushModel(ctx, name, &registryOptions{Insecure: true}, func(api.ProgressResponse) {})
	}()
	var perr error
	select {
	case perr = <-res:
	case <-time.After(120 * time.Second):
		cancel()
		rep.Inconclusive(fmt.Sprintf("case %d: PushModel did not return within the watchdog", c.Index))
		return
	}
	w.mu.Lock()
	defer w.mu.Unlock()
	wit := map[string]any{"push_error": fmt.Sprint(perr), "registry_log": w.log, "faults_fired": w.fired, "accepted": fmt.Sprint(w.accepted), "manifest_puts": w.manifest}
	if perr == nil {
		rep.Count("push_ok", 1)
	} else {
		rep.Count("push_failed", 1)
	}
	rep.Count("push_manifest_puts", len(w.manifest))
	if perr != nil && strings.HasPrefix(perr.Error(), "c09-PANIC") {
		rep.Violate("c09p:panic:PushModel", perr.Error(), c, wit)
		return
	}
	for _, miss := range w.manifest {
		if miss != "" {
			first, _, _ := strings.Cut(miss, ",")
			role, st, _ := strings.Cut(first, ":")
			rep.Violate("c09p:legacy-push-manifest-before-"+role+"-accepted:"+st, fmt.Sprintf("PushModel (error %v) sent the manifest while the registry had not accepted: %s", perr, miss), c, wit)
			break
		}
	}
	if perr == nil && len(w.manifest) == 0 {
		rep.Violate("c09p:legacy-push-success-without-manifest", "PushModel returned nil but never sent the manifest", c, wit)
	}
	uploads := 0
	for _, how := range w.accepted {
		if how == "committed" {
			uploads++
		}
	}
	if uploads >= 2 || (uploads >= 1 && len(w.fired) > 0) || (len(w.fired) > 0 && len(c.Blobs) >= 2) {
		rep.Distinct(fmt.Sprint(len(c.Layers), c.Config >= 0, len(c.Present), w.fired, c.CorruptLocal >= 0, perr == nil))
		rep.Count("nontrivial_cases", 1)
	}
	rep.Count("uploads_committed", uploads)
	if rep.NeedSample() {
		rep.Sample(c)
	}
}

func TestVerifC09Push(t *testing.T) {
	slog.SetDefault(slog.New(slog.NewTextHandler(io.Discard, nil)))
	rep := kit.NewReport("C09P")
	cfg := rep.Cfg()
	defer rep.Flush()
	rep.Set("rule", "case i = PRNG(seed,'C09P',i): a model of 1-4 layers (+config in 3/4 of the cases) in a legacy store is pushed with the real server.PushModel (uploadBlob, blobUpload.Prepare/Run/Wait) to a fake registry in which some blobs are already present (HEAD 200) and one request of the plan fails (HEAD/POST/PATCH/commit/manifest: 5xx, 403, connection reset) or one local blob file is damaged (digest mismatch at commit). At the manifest PUT the registry checks that every layer and the config were accepted (committed with matching digest and size, or answered present on HEAD). Non-trivial = >= 2 blobs committed, or a fault fired on a push of >= 2 blobs. Distinct = distinct (layer count, config?, present count, fired fault, damaged blob?, outcome).")
	rep.Set("assumptions", []string{
		"single-part uploads only (blobs < 100 MB): the multi-part / redirect (307) upload path of blobUpload.uploadPart is not driven",
		"no authentication challenge (401) in the plans",
		"a PATCH or commit fault costs the client's fixed 1 s retry sleep, so at most one per case; an upload that fails for good costs 63 s and is planned in 1/150 of the thorough-tier cases only (so an error lost between blobUpload.Run and blobUpload.Wait is visible in the thorough tier only)",
	})
	n := cfg.N(120, 3000)
	replayIdx := -1
	if cfg.Replay != "" {
		var rc struct {
			Index int `json:"index"`
		}
		if err := kit.LoadReplay(cfg.Replay, &rc); err != nil {
			t.Fatal(err)
		}
		replayIdx = rc.Index
	}
	base := t.TempDir()
	for i := 0; i < n; i++ {
		if replayIdx >= 0 && i != replayIdx {
			continue
		}
		if replayIdx < 0 && !cfg.Mine(i) {
			continue
		}
		if replayIdx < 0 && (rep.Enough() || rep.OverBudget()) {
			break
		}
		rep.Eval(1)
		c09pRun(t, rep, c09pGen(kit.NewRand(cfg.Seed, "C09P", i), i, cfg.Tier == "thorough"), base)
	}
	if replayIdx >= 0 {
		t.Logf("replay of case %d: %d violation(s)", replayIdx, rep.Violations())
	}
}
