//go:build verif

package server

// C09 (push clause, legacy implementation): server.PushModel / uploadBlob / blobUpload.Run against a fake
// registry that records, per blob, HEAD / upload session / received bytes / commit, and checks at the
// manifest PUT that every layer and the config have been accepted.

import (
	"context"
	"crypto/sha256"
	"encoding/json"
	"fmt"
	"io"
	"log"
	"log/slog"
	"net"
	"net/http"
	"net/http/httptest"
	"os"
	"path/filepath"
	"strings"
	"sync"
	"testing"
	"time"

	kit "verifkit"

	"github.com/ollama/ollama/api"
)

type c09pBlob struct {
	Size   int    `json:"size"`
	Digest string `json:"digest"`
	data   []byte
}

type c09pFault struct {
	Target string `json:"target"` // head:<b> | post:<b> | patch:<b> | commit:<b> | manifest
	Kind   string `json:"kind"`   // status500 | status403 | reset
	Times  int    `json:"times"`
}

type c09pCase struct {
	Index        int         `json:"index"`
	Blobs        []c09pBlob  `json:"blobs"`
	Layers       []int       `json:"layers"`
	Config       int         `json:"config"`
	Present      []int       `json:"present"`
	Faults       []c09pFault `json:"faults,omitempty"`
	CorruptLocal int         `json:"corrupt_local"`
	Two          *c09pTwo    `json:"two_pushes,omitempty"`
}

// c09pTwo is a plan with two pushes of the same model around one disturbed upload: the upload of Blob gets
// its part (PATCH) or its commit (final PUT) refused Refusals times; blobUpload.Run then sleeps 1 s (2 s, ...)
// before the next try, and in that window the first push may be abandoned by its client and a second push
// may arrive and join the upload that is still registered in blobUploadManager.
type c09pTwo struct {
	Blob     int    `json:"blob"`
	At       string `json:"at"`       // patch | commit
	Refusals int    `json:"refusals"` // refused that many times, then accepted
	Cancel1  bool   `json:"cancel_first"`
	// when the second push starts, relative to the first refusal:
	//   none            no second push
	//   after-cancel    after the first push returned "context canceled" (the upload is abandoned but still registered and asleep)
	//   before-cancel   at the refusal; the first push is cancelled (if at all) once the second has asked for the blob (HEAD), so the upload keeps a waiter
	//   after-run-ended after the first push returned and the upload has left blobUploadManager
	Join string `json:"second_push"`
}

func c09pGen(r *kit.Rand, idx int, thorough bool) *c09pCase {
	c := &c09pCase{Index: idx, Config: -1, CorruptLocal: -1}
	nb := r.Range(1, 4)
	for i := 0; i < nb; i++ {
		d := r.Bytes(r.Range(1, kit.Pick(r, []int{300, 5000, 70000})))
		c.Blobs = append(c.Blobs, c09pBlob{Size: len(d), data: d, Digest: fmt.Sprintf("sha256:%x", sha256.Sum256(d))})
		c.Layers = append(c.Layers, i)
	}
	if r.Chance(3, 4) {
		d := r.Bytes(r.Range(2, 400))
		c.Blobs = append(c.Blobs, c09pBlob{Size: len(d), data: d, Digest: fmt.Sprintf("sha256:%x", sha256.Sum256(d))})
		c.Config = len(c.Blobs) - 1
	}
	for b := range c.Blobs {
		if r.Chance(1, 4) {
			c.Present = append(c.Present, b)
		}
	}
	if r.Chance(1, 5) {
		c.Present = nil
		tw := &c09pTwo{Blob: r.Intn(len(c.Blobs)), At: kit.Pick(r, []string{"commit", "commit", "patch"}), Refusals: 1, Cancel1: true}
		switch r.Intn(8) {
		case 0, 1, 2, 3:
			tw.Join = "after-cancel"
		case 4:
			tw.Join = "before-cancel"
			tw.Cancel1 = r.Chance(2, 3)
		case 5:
			tw.Join = "after-run-ended"
		case 6:
			tw.Join = "none"
		default:
			tw.Join, tw.Cancel1 = "none", false
			tw.Refusals = 2 // refused twice (1 s + 2 s of client sleeps), then accepted
		}
		c.Two = tw
		c.Faults = []c09pFault{{Target: fmt.Sprintf("%s:%d", tw.At, tw.Blob), Kind: "status500", Times: tw.Refusals}}
		return c
	}
	if thorough && r.Chance(1, 150) {
		// an upload that never succeeds: blobUpload.Run gives up after 1+2+4+8+16+32 s of sleeps.
		// Thorough tier only; the only plan in which blobUpload.err reaches blobUpload.Wait.
		b := r.Intn(len(c.Blobs))
		c.Present = nil
		c.Faults = append(c.Faults, c09pFault{Target: fmt.Sprintf("patch:%d", b), Kind: "status500", Times: 1000})
		return c
	}
	if r.Chance(3, 5) {
		b := r.Intn(len(c.Blobs))
		switch r.Intn(7) {
		case 0, 1:
			c.Faults = append(c.Faults, c09pFault{Target: fmt.Sprintf("head:%d", b), Kind: kit.Pick(r, []string{"status500", "status403", "reset"}), Times: 1})
		case 2, 3:
			c.Faults = append(c.Faults, c09pFault{Target: fmt.Sprintf("post:%d", b), Kind: kit.Pick(r, []string{"status500", "status403", "reset"}), Times: 1})
		case 4:
			// costs the client's 1 s retry sleep
			c.Faults = append(c.Faults, c09pFault{Target: fmt.Sprintf("patch:%d", b), Kind: kit.Pick(r, []string{"status500", "reset"}), Times: 1})
		case 5:
			// one failed commit = one 1 s sleep; a commit that keeps failing would cost 1+2+4+8+16+32 s
			c.Faults = append(c.Faults, c09pFault{Target: fmt.Sprintf("commit:%d", b), Kind: "status500", Times: 1})
		default:
			c.Faults = append(c.Faults, c09pFault{Target: "manifest", Kind: "status500", Times: 1})
		}
	}
	return c
}

type c09pWorld struct {
	c        *c09pCase
	mu       sync.Mutex
	faults   []*c09pFault
	fired    []string
	accepted map[int]string
	state    map[int]string
	recv     map[string][]byte // session -> bytes
	sessBlob map[string]int
	log      []string
	manifest []string
	sess     int
	lastHead int
	refused  chan int // blob whose part/commit was just refused (two-push plans)
	heads    map[int]int
	headSeen chan int // blob that was asked for (HEAD) a second time
}

func (w *c09pWorld) take(target string) string {
	w.mu.Lock()
	defer w.mu.Unlock()
	for _, f := range w.faults {
		if f.Target == target && f.Times > 0 {
			f.Times--
			w.fired = append(w.fired, target+"="+f.Kind)
			return f.Kind
		}
	}
	return ""
}

func (w *c09pWorld) note(b int, s string) {
	w.mu.Lock()
	if b >= 0 {
		if prev := w.state[b]; s == "head" && prev != "" && prev != "head" {
			// a later push asks for a blob whose upload was disturbed: keep what happened to the upload
			if !strings.HasSuffix(prev, "+asked-again") {
				prev += "+asked-again"
			}
			w.state[b] = prev
		} else {
			w.state[b] = s
		}
	}
	if len(w.log) < 300 {
		w.log = append(w.log, fmt.Sprintf("blob %d: %s", b, s))
	}
	w.mu.Unlock()
}

func (w *c09pWorld) fault(rw http.ResponseWriter, f string) bool {
	switch f {
	case "status500":
		rw.WriteHeader(500)
		io.WriteString(rw, `{"errors":[{"code":"INTERNAL_ERROR","message":"c09 injected"}]}`)
	case "status403":
		rw.WriteHeader(403)
		io.WriteString(rw, `{"errors":[{"code":"DENIED","message":"c09 injected"}]}`)
	case "reset":
		conn, _, err := rw.(http.Hijacker).Hijack()
		if err != nil {
			panic(http.ErrAbortHandler)
		}
		if tc, ok := conn.(*net.TCPConn); ok {
			tc.SetLinger(0)
		}
		conn.Close()
	default:
		return false
	}
	return true
}

func (w *c09pWorld) serve(rw http.ResponseWriter, r *http.Request) {
	c := w.c
	rest, ok := strings.CutPrefix(r.URL.Path, "/v2/ns/m/")
	if !ok {
		http.Error(rw, "unexpected", 597)
		return
	}
	blobOf := func(d string) int {
		for i := range c.Blobs {
			if c.Blobs[i].Digest == d {
				return i
			}
		}
		return -1
	}
	switch {
	case r.Method == "HEAD" && strings.HasPrefix(rest, "blobs/sha256:"):
		b := blobOf(strings.TrimPrefix(rest, "blobs/"))
		if b < 0 {
			rw.WriteHeader(404)
			return
		}
		w.note(b, "head")
		w.mu.Lock()
		w.lastHead = b
		w.heads[b]++
		second := w.heads[b] == 2
		w.mu.Unlock()
		if second {
			select {
			case w.headSeen <- b:
			default:
			}
		}
		if w.fault(rw, w.take(fmt.Sprintf("head:%d", b))) {
			w.note(b, "head-failed")
			return
		}
		w.mu.Lock()
		_, acc := w.accepted[b]
		w.mu.Unlock()
		for _, p := range c.Present {
			if p == b {
				acc = true
			}
		}
		if acc {
			w.mu.Lock()
			if _, ok := w.accepted[b]; !ok {
				w.accepted[b] = "present-on-head"
			}
			w.mu.Unlock()
			w.note(b, "answered-present")
			rw.WriteHeader(200)
			return
		}
		rw.WriteHeader(404)
	case r.Method == "POST" && rest == "blobs/uploads/":
		// the legacy client does not say which blob the session is for; sessions are bound at commit
		w.mu.Lock()
		w.sess++
		id := fmt.Sprintf("s%d", w.sess)
		w.recv[id] = nil
		// the session belongs to the blob that was HEADed last (PushModel uploads one blob after the other)
		b := w.lastHead
		w.sessBlob[id] = b
		w.mu.Unlock()
		if w.fault(rw, w.take(fmt.Sprintf("post:%d", b))) {
			w.note(b, "session-refused")
			return
		}
		w.note(b, "session-open")
		rw.Header().Set("Location", "http://"+r.Host+"/v2/ns/m/blobs/uploads/"+id)
		rw.WriteHeader(202)
	case r.Method == "PATCH" && strings.HasPrefix(rest, "blobs/uploads/s"):
		id := strings.TrimPrefix(rest, "blobs/uploads/")
		w.mu.Lock()
		b, ok := w.sessBlob[id]
		w.mu.Unlock()
		if !ok {
			rw.WriteHeader(404)
			return
		}
		f := w.take(fmt.Sprintf("patch:%d", b))
		if f == "reset" {
			w.note(b, "part-failed")
			w.fault(rw, f)
			return
		}
		body, _ := io.ReadAll(r.Body)
		if w.fault(rw, f) {
			w.note(b, "part-failed")
			select {
			case w.refused <- b:
			default:
			}
			return
		}
		w.mu.Lock()
		w.recv[id] = append(w.recv[id], body...)
		w.mu.Unlock()
		w.note(b, "part-received")
		rw.Header().Set("Location", "http://"+r.Host+"/v2/ns/m/blobs/uploads/"+id)
		rw.WriteHeader(202)
	case r.Method == "PUT" && strings.HasPrefix(rest, "blobs/uploads/s"):
		id := strings.TrimPrefix(rest, "blobs/uploads/")
		b := blobOf(r.URL.Query().Get("digest"))
		if b < 0 {
			rw.WriteHeader(400)
			return
		}
		if w.fault(rw, w.take(fmt.Sprintf("commit:%d", b))) {
			w.note(b, "commit-failed")
			select {
			case w.refused <- b:
			default:
			}
			return
		}
		w.mu.Lock()
		got := w.recv[id]
		w.mu.Unlock()
		if len(got) != c.Blobs[b].Size || fmt.Sprintf("sha256:%x", sha256.Sum256(got)) != c.Blobs[b].Digest {
			w.note(b, "commit-rejected-digest-mismatch")
			rw.WriteHeader(400)
			io.WriteString(rw, `{"errors":[{"code":"DIGEST_INVALID","message":"c09"}]}`)
			return
		}
		w.mu.Lock()
		w.accepted[b] = "committed"
		w.mu.Unlock()
		w.note(b, "committed")
		rw.WriteHeader(201)
	case r.Method == "PUT" && rest == "manifests/v":
		io.Copy(io.Discard, r.Body)
		need := append([]int(nil), c.Layers...)
		if c.Config >= 0 {
			need = append(need, c.Config)
		}
		var missing []string
		w.mu.Lock()
		for _, b := range need {
			if _, ok := w.accepted[b]; !ok {
				role := "layer"
				if b == c.Config {
					role = "config"
				}
				st := w.state[b]
				if st == "" {
					st = "never-offered"
				}
				missing = append(missing, role+":"+st)
			}
		}
		w.manifest = append(w.manifest, strings.Join(missing, ","))
		w.mu.Unlock()
		w.note(-1, "manifest PUT; missing: "+strings.Join(missing, ","))
		if !w.fault(rw, w.take("manifest")) {
			rw.WriteHeader(201)
		}
	default:
		http.Error(rw, "unexpected "+r.Method+" "+rest, 597)
	}
}

func c09pRun(t *testing.T, rep *kit.Report, c *c09pCase, base string) {
	if j, err := json.Marshal(c); err == nil {
		rep.Journal(j)
	}
	dir, err := os.MkdirTemp(base, "push")
	if err != nil {
		rep.Inconclusive("harness: " + err.Error())
		return
	}
	defer os.RemoveAll(dir)
	t.Setenv("OLLAMA_MODELS", dir)
	w := &c09pWorld{c: c, accepted: map[int]string{}, state: map[int]string{}, recv: map[string][]byte{}, sessBlob: map[string]int{},
		refused: make(chan int, 64), heads: map[int]int{}, headSeen: make(chan int, 64)}
	for i := range c.Faults {
		f := c.Faults[i]
		w.faults = append(w.faults, &f)
	}
	srv := httptest.NewUnstartedServer(http.HandlerFunc(w.serve))
	srv.Config.ErrorLog = log.New(io.Discard, "", 0)
	srv.Start()
	defer func() {
		srv.CloseClientConnections()
		srv.Close()
	}()
	name := "http://" + srv.Listener.Addr().String() + "/ns/m:v"
	mp := ParseModelPath(name)
	m := Manifest{SchemaVersion: 2, MediaType: "application/vnd.docker.distribution.manifest.v2+json"}
	for _, b := range c.Layers {
		m.Layers = append(m.Layers, Layer{MediaType: "application/vnd.ollama.image.model", Digest: c.Blobs[b].Digest, Size: int64(c.Blobs[b].Size)})
	}
	if c.Config >= 0 {
		m.Config = Layer{MediaType: "application/vnd.docker.container.image.v1+json", Digest: c.Blobs[c.Config].Digest, Size: int64(c.Blobs[c.Config].Size)}
	}
	for i, b := range c.Blobs {
		p, err := GetBlobsPath(b.Digest)
		if err != nil {
			rep.Inconclusive("harness: " + err.Error())
			return
		}
		d := b.data
		if i == c.CorruptLocal {
			d = append([]byte(nil), d...)
			d[len(d)/2] ^= 0x77
		}
		if err := os.WriteFile(p, d, 0o644); err != nil {
			rep.Inconclusive("harness: " + err.Error())
			return
		}
	}
	mpath, err := mp.GetManifestPath()
	if err != nil {
		rep.Inconclusive("harness: manifest path: " + err.Error())
		return
	}
	os.MkdirAll(filepath.Dir(mpath), 0o755)
	mj, _ := json.Marshal(m)
	if err := os.WriteFile(mpath, mj, 0o644); err != nil {
		rep.Inconclusive("harness: " + err.Error())
		return
	}
	push := func(ctx context.Context) chan error {
		res := make(chan error, 1)
		go func() {
			defer func() {
				if p := recover(); p != nil {
					res <- fmt.Errorf("c09-PANIC: %v", p)
				}
			}()
			res <- PushModel(ctx, name, &registryOptions{Insecure: true}, func(api.ProgressResponse) {})
		}()
		return res
	}
	// watchdogs below only ever produce "inconclusive"; the verdict is what the registry had accepted
	// when a manifest PUT arrived
	wait := func(res chan error, what string) (error, bool) {
		select {
		case err := <-res:
			return err, true
		case <-time.After(150 * time.Second):
			rep.Inconclusive(fmt.Sprintf("case %d: %s did not return within the watchdog", c.Index, what))
			return nil, false
		}
	}
	ctx, cancel := context.WithCancel(context.Background())
	defer cancel()
	var perr error
	var errs []string
	if tw := c.Two; tw == nil {
		var ok bool
		if perr, ok = wait(push(ctx), "PushModel"); !ok {
			return
		}
	} else {
		ctx2, cancel2 := context.WithCancel(context.Background())
		defer cancel2()
		res1 := push(ctx)
		var res2 chan error
		window := "refusal-seen"
		select {
		case <-w.refused:
		case perr = <-res1:
			window = "first-push-ended-before-the-refusal"
			res1 = nil
		case <-time.After(150 * time.Second):
			rep.Inconclusive(fmt.Sprintf("case %d: the planned refusal never happened", c.Index))
			return
		}
		registered := func() bool { _, ok := blobUploadManager.Load(c.Blobs[tw.Blob].Digest); return ok }
		if res1 != nil {
			// blobUpload.Run now sleeps (1 s) before its next try
			switch tw.Join {
			case "after-cancel", "after-run-ended":
				cancel()
				var ok bool
				if perr, ok = wait(res1, "the abandoned first push"); !ok {
					return
				}
				res1 = nil
				if tw.Join == "after-run-ended" {
					for i := 0; registered() && i < 2000; i++ {
						time.Sleep(5 * time.Millisecond)
					}
					if registered() {
						window = "upload-still-registered-after-10s"
					} else {
						window = "upload-gone"
					}
				} else if registered() {
					window = "joined-abandoned-upload-asleep"
				} else {
					window = "missed:upload-already-gone"
				}
				res2 = push(ctx2)
			case "before-cancel":
				res2 = push(ctx2)
				select {
				case <-w.headSeen: // the second push asked for the blob; it joins the registered upload next
					time.Sleep(30 * time.Millisecond)
					window = "second-push-joined-live-upload"
				case <-time.After(800 * time.Millisecond):
					window = "missed:second-push-not-seen-in-time"
				}
				if tw.Cancel1 {
					cancel()
				}
			default:
				if tw.Cancel1 {
					cancel()
				}
			}
		}
		rep.Count("two_push_window_"+window, 1)
		if res1 != nil {
			var ok bool
			if perr, ok = wait(res1, "the first push"); !ok {
				return
			}
		}
		errs = append(errs, "first: "+fmt.Sprint(perr))
		if res2 != nil {
			err2, ok := wait(res2, "the second push")
			if !ok {
				return
			}
			errs = append(errs, "second: "+fmt.Sprint(err2))
			if perr != nil && !strings.HasPrefix(perr.Error(), "c09-PANIC") {
				perr = err2 // the push whose outcome is judged below (nil => a manifest must have been sent)
			}
		}
		// let the upload goroutine of this case end before the next case changes OLLAMA_MODELS
		for i := 0; registered() && i < 600; i++ {
			time.Sleep(5 * time.Millisecond)
		}
	}
	w.mu.Lock()
	defer w.mu.Unlock()
	wit := map[string]any{"push_error": fmt.Sprint(perr), "pushes": errs, "registry_log": w.log, "faults_fired": w.fired, "accepted": fmt.Sprint(w.accepted), "manifest_puts": w.manifest}
	if perr == nil {
		rep.Count("push_ok", 1)
	} else {
		rep.Count("push_failed", 1)
	}
	rep.Count("push_manifest_puts", len(w.manifest))
	if perr != nil && strings.HasPrefix(perr.Error(), "c09-PANIC") {
		rep.Violate("c09p:panic:PushModel", perr.Error(), c, wit)
		return
	}
	for _, miss := range w.manifest {
		if miss != "" {
			first, _, _ := strings.Cut(miss, ",")
			role, st, _ := strings.Cut(first, ":")
			rep.Violate("c09p:legacy-push-manifest-before-"+role+"-accepted:"+st, fmt.Sprintf("PushModel (error %v) sent the manifest while the registry had not accepted: %s", perr, miss), c, wit)
			break
		}
	}
	if perr == nil && len(w.manifest) == 0 {
		rep.Violate("c09p:legacy-push-success-without-manifest", "PushModel returned nil but never sent the manifest", c, wit)
	}
	uploads := 0
	for _, how := range w.accepted {
		if how == "committed" {
			uploads++
		}
	}
	if uploads >= 2 || (uploads >= 1 && len(w.fired) > 0) || (len(w.fired) > 0 && len(c.Blobs) >= 2) {
		two := ""
		if c.Two != nil {
			two = fmt.Sprint(*c.Two)
		}
		rep.Distinct(fmt.Sprint(len(c.Layers), c.Config >= 0, len(c.Present), w.fired, c.CorruptLocal >= 0, perr == nil, two))
		rep.Count("nontrivial_cases", 1)
	}
	rep.Count("uploads_committed", uploads)
	if c.Two != nil {
		rep.Count("cases_two_push_"+c.Two.At+"_"+c.Two.Join, 1)
	}
	if rep.NeedSample() {
		rep.Sample(c)
	}
}

func TestVerifC09Push(t *testing.T) {
	slog.SetDefault(slog.New(slog.NewTextHandler(io.Discard, nil)))
	rep := kit.NewReport("C09P")
	cfg := rep.Cfg()
	defer rep.Flush()
	rep.Set("rule", "case i = PRNG(seed,'C09P',i): a model of 1-4 layers (+config in 3/4 of the cases) in a legacy store is pushed with the real server.PushModel (uploadBlob, blobUpload.Prepare/Run/Wait) to a fake registry in which some blobs are already present (HEAD 200) and one request of the plan fails (HEAD/POST/PATCH/commit/manifest: 5xx, 403, connection reset) or one local blob file is damaged (digest mismatch at commit). At the manifest PUT the registry checks that every layer and the config were accepted (committed with matching digest and size, or answered present on HEAD). In 1/5 of the cases TWO pushes of the same model run around one disturbed upload: the part or the commit of one blob is refused once (or twice), and while blobUpload.Run sleeps in its backoff the first push is cancelled by its client and/or a second push arrives and joins the upload still registered in blobUploadManager (second push after the cancel / before it / after the upload has gone / none), sequenced by registry events, not by time. Non-trivial = >= 2 blobs committed, or a fault fired on a push of >= 2 blobs. Distinct = distinct (layer count, config?, present count, fired fault, damaged blob?, outcome, two-push plan).")
	rep.Set("assumptions", []string{
		"single-part uploads only (blobs < 100 MB): the multi-part / redirect (307) upload path of blobUpload.uploadPart is not driven",
		"no authentication challenge (401) in the plans",
		"a PATCH or commit fault costs the client's fixed 1 s retry sleep, so at most one per case; an upload that fails for good costs 63 s and is planned in 1/150 of the thorough-tier cases only; an error lost between blobUpload.Run and blobUpload.Wait is visible in the quick tier through the two-push plans (an abandoned upload that ends cancelled while a second push waits on it)",
		"two-push plans: timers only sequence the pushes (30 ms after the second push's HEAD was seen, polling blobUploadManager) or act as watchdogs (inconclusive); which window was hit is counted (two_push_window_*), the verdict is what the registry had accepted when a manifest PUT arrived",
	})
	n := cfg.N(120, 3000)
	replayIdx := -1
	if cfg.Replay != "" {
		var rc struct {
			Index int `json:"index"`
		}
		if err := kit.LoadReplay(cfg.Replay, &rc); err != nil {
			t.Fatal(err)
		}
		replayIdx = rc.Index
	}
	base := t.TempDir()
	for i := 0; i < n; i++ {
		if replayIdx >= 0 && i != replayIdx {
			continue
		}
		if replayIdx < 0 && !cfg.Mine(i) {
			continue
		}
		if replayIdx < 0 && (rep.Enough() || rep.OverBudget()) {
			break
		}
		rep.Eval(1)
		c09pRun(t, rep, c09pGen(kit.NewRand(cfg.Seed, "C09P", i), i, cfg.Tier == "thorough"), base)
	}
	if replayIdx >= 0 {
		t.Logf("replay of case %d: %d violation(s)", replayIdx, rep.Violations())
	}
}
