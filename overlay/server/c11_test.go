//go:build verif

package server

// C11: loaded-runner limit, one runner per model, reuse when compatible, start with the request's
// options when not, idle-first eviction, and "fits in what the loaded models leave free" before co-loading.
// (b) instant invariants on the boundary log of concurrent histories; (a) a sequential differential run
// against a small reference scheduler.

import (
	"fmt"
	"reflect"
	"sort"
	"strings"
	"sync"
	"testing"

	"github.com/ollama/ollama/api"
	"github.com/ollama/ollama/discover"
	"github.com/ollama/ollama/fs/ggml"
	"github.com/ollama/ollama/llm"

	kit "verifkit"
)

var (
	vGGMLOnce sync.Once
	vGGML     *ggml.GGML
)

func vModelGGML(t testing.TB) *ggml.GGML {
	vGGMLOnce.Do(func() {
		f, err := llm.LoadModel(vModelFiles(t)[0], 0)
		if err != nil {
			t.Fatal(err)
		}
		vGGML = f
	})
	return vGGML
}

// vNormCtx is the request's context size as the scheduler normalises it.
func vNormCtx(a vAction) int {
	if a.NumCtx < 4 {
		return 4
	}
	return a.NumCtx
}

func vAdapters(a vAction) []string {
	if a.Adapter == 0 {
		return nil
	}
	return []string{fmt.Sprintf("/nonexistent/adapter-%d", a.Adapter)}
}

// vCompatible: may a runner started as m serve request a without a reload? (the documented rule)
func vCompatible(m *vMock, a vAction) (bool, string) {
	par := m.numParallel
	if par < 1 {
		par = 1
	}
	if m.opts.NumCtx/par != vNormCtx(a) {
		return false, fmt.Sprintf("context: runner started with num_ctx %d / parallel %d, request wants %d", m.opts.NumCtx, par, vNormCtx(a))
	}
	if a.NumGPU >= 0 && m.opts.NumGPU != a.NumGPU {
		return false, fmt.Sprintf("num_gpu: runner started with %d, request wants %d", m.opts.NumGPU, a.NumGPU)
	}
	wantBatch := api.DefaultOptions().NumBatch
	if a.NumBatch > 0 {
		wantBatch = a.NumBatch
	}
	if m.opts.NumBatch != wantBatch {
		return false, fmt.Sprintf("num_batch: runner started with %d, request wants %d", m.opts.NumBatch, wantBatch)
	}
	if !reflect.DeepEqual(append([]string(nil), m.adapters...), append([]string(nil), vAdapters(a)...)) && !(len(m.adapters) == 0 && a.Adapter == 0) {
		return false, fmt.Sprintf("adapters: runner started with %v, request wants %v", m.adapters, vAdapters(a))
	}
	return true, ""
}

func vCheckC11Instant(t testing.TB, h *vHistory, out *vOutcome, rep *kit.Report) []vViol {
	var vs []vViol
	evs := out.Events
	byID := map[int]*vMock{}
	for _, m := range out.Mocks {
		byID[m.id] = m
	}
	f := vModelGGML(t)
	closeEnd := map[int]int64{}
	for _, e := range evs {
		if e.Kind == "close-end" {
			closeEnd[e.Runner] = e.Seq
		}
	}
	reported := map[string]discover.GpuInfo{}
	for _, g := range h.gpuList() {
		reported[g.ID] = g
	}
	for _, e := range evs {
		switch e.Kind {
		case "start":
			m := byID[e.Runner]
			if m == nil {
				continue
			}
			var live []*vMock
			for _, o := range out.Mocks {
				if o.startSeq < e.Seq && o.id != m.id {
					if ce, ok := closeEnd[o.id]; !ok || ce > e.Seq {
						live = append(live, o)
					}
				}
			}
			rep.Count("starts_checked", 1)
			if len(live) > 0 {
				rep.Count("starts_with_other_runners_live", 1)
			}
			if m.maxAtStart > 0 && len(live)+1 > m.maxAtStart {
				vs = append(vs, vViol{"c11:max-loaded-exceeded", fmt.Sprintf("runner %d (model %d) started while %d runners were live: limit %d", m.id, m.model, len(live), m.maxAtStart), vSlice(evs, e.Seq)})
			}
			for _, o := range live {
				if o.modelPath == m.modelPath {
					vs = append(vs, vViol{"c11:two-runners-one-model", fmt.Sprintf("runner %d started for model %d while runner %d of the same model was still live", m.id, m.model, o.id), vSlice(evs, o.startSeq, e.Seq)})
				}
			}
			// started for request q: it must be started with q's options
			if rs := out.World.reqs[m.startedFor]; rs != nil {
				if ok, why := vCompatible(m, rs.act); !ok {
					vs = append(vs, vViol{"c11:started-with-other-options", fmt.Sprintf("runner %d was started for request %d but not with its options (%s)", m.id, m.startedFor, why), vSlice(evs, e.Seq)})
				}
			}
			// fit clause
			if len(live) > 0 && len(m.gpus) > 0 {
				if m.gpus[0].Library == "cpu" {
					est := llm.EstimateGPULayers(m.gpus, f, nil, m.opts, m.numParallel)
					rep.Count("fit_checks_cpu", 1)
					if est.TotalSize > m.gpus[0].FreeMemory {
						vs = append(vs, vViol{"c11:started-without-fit:cpu", fmt.Sprintf("runner %d co-loaded on CPU needing %d bytes with %d free", m.id, est.TotalSize, m.gpus[0].FreeMemory), vSlice(evs, e.Seq)})
					}
				} else {
					rep.Count("fit_checks_gpu", 1)
					for _, g := range m.gpus {
						rg, ok := reported[g.ID]
						if !ok {
							continue
						}
						var used uint64
						for _, o := range live {
							used += o.EstimatedVRAMByGPU(g.ID)
						}
						bound := rg.FreeMemory
						if used > rg.TotalMemory {
							bound = 0
						} else if rg.TotalMemory-used < bound {
							bound = rg.TotalMemory - used
						}
						if g.FreeMemory > bound {
							vs = append(vs, vViol{"c11:free-memory-overestimated", fmt.Sprintf("runner %d placed on gpu %s assuming %d bytes free; reported free %d, total %d, live runners use %d there", m.id, g.ID, g.FreeMemory, rg.FreeMemory, rg.TotalMemory, used), vSlice(evs, e.Seq)})
						}
						if used > 0 {
							rep.Count("fit_checks_with_vram_pressure", 1)
						}
					}
					if ok, need := llm.PredictServerFit(m.gpus, f, m.adapters, nil, m.opts, m.numParallel); !ok {
						vs = append(vs, vViol{"c11:started-without-fit", fmt.Sprintf("runner %d (model %d) started next to %d live runner(s) although it is not predicted to fit on the GPUs it was given (needs %d)", m.id, m.model, len(live), need), vSlice(evs, e.Seq)})
					}
				}
			}
		case "grant":
			if e.Runner <= 0 {
				continue
			}
			m := byID[e.Runner]
			rs := out.World.reqs[e.Req]
			if m == nil || rs == nil {
				continue
			}
			rep.Count("grants_checked", 1)
			if m.startedFor != e.Req {
				rep.Count("grants_reusing_a_runner", 1)
			}
			if m.model != rs.act.Model {
				vs = append(vs, vViol{"c11:wrong-model", fmt.Sprintf("request %d for model %d was handed runner %d of model %d", e.Req, rs.act.Model, m.id, m.model), vSlice(evs, e.Seq)})
				continue
			}
			if ok, why := vCompatible(m, rs.act); !ok {
				vs = append(vs, vViol{"c11:incompatible-runner-reused", fmt.Sprintf("request %d was handed runner %d whose load options are incompatible (%s)", e.Req, m.id, why), vSlice(evs, m.startSeq, e.Seq)})
			}
		}
	}
	return vs
}

var vProfileC11 = vProfile{name: "c11", blockLoads: false, queueFull: 0, multiGPU: 60, optVariants: true, vramPressure: true}

// ---------------------------------------------------------------------------------------------
// (a) sequential differential run against a reference scheduler

type vRefRunner struct {
	id    int
	model int
	mock  *vMock
	held  int
	ka0   bool // the request served last asked for keep_alive 0: the runner goes away when its last user finishes
}

// vSeqHistory: one client; requests with forever keep-alive; some grants kept open and released later.
func vGenSeq(r *kit.Rand, idx int) *vHistory {
	h := &vHistory{Index: idx, Profile: "c11/sequential", Procs: kit.Pick(r, []int{1, 4, 16}), ReschedUs: 1000, Delays: map[string]int{}}
	h.Models = r.Range(2, 5)
	h.MaxLoaded = kit.Pick(r, []int{1, 2, 2, 3, 3, 0})
	h.NumParallel = kit.Pick(r, []int{1, 2, 4})
	h.MaxQueue = 512
	h.GPUs = []vGPU{{"metal", "0", 24576, 24576}}
	h.MockPlans = []vMockPlan{{VRAMMB: 10}}
	h.FinalUnload = true
	n := r.Range(4, 30)
	if r.Chance(1, 6) {
		// spread placement over two GPUs (the all-GPUs path of pickBestFullFitByLibrary); every unload of a
		// multi-GPU runner costs >= 250 ms of real time in waitForVRAMRecovery, so these histories are short
		h.Profile = "c11/sequential-spread"
		h.Spread = true
		h.GPUs = []vGPU{{"metal", "0", 24576, 24576}, {"metal", "1", 24576, 24576}}
		h.NumParallel = kit.Pick(r, []int{2, 4})
		h.MockPlans = []vMockPlan{{VRAMMB: 0}}
		n = r.Range(3, 7)
	}
	cpu := false
	if !h.Spread && r.Chance(1, 6) {
		// CPU inference under system-memory pressure: every request asks for num_gpu 0, each runner holds 1000 MB
		// of system memory and only one or two fit, while the loaded-model limit (4) is never the reason to evict
		h.Profile = "c11/sequential-cpu"
		cpu = true
		h.MaxLoaded = 4
		h.Models = r.Range(3, 4)
		h.MockPlans = []vMockPlan{{VRAMMB: 1000}}
		h.CPUFreeMB = 1000 * r.Range(1, 2)
	}
	var script []vAction
	for i := 1; i <= n; i++ {
		a := vAction{Op: "req", Req: i, Model: r.Intn(h.Models), NumCtx: 8, NumGPU: -1, KeepAliveUs: -1, LoadMode: "ok"}
		switch r.Intn(6) {
		case 0, 1:
			a.NumCtx = kit.Pick(r, []int{8, 16, 2})
			a.NumGPU = kit.Pick(r, []int{-1, -1, 1, 2})
			a.NumBatch = kit.Pick(r, []int{0, 64})
			a.Adapter = kit.Pick(r, []int{0, 0, 1})
		case 2:
			// one option pinned, everything else default
			switch r.Intn(3) {
			case 0:
				a.NumGPU = kit.Pick(r, []int{1, 2})
			case 1:
				a.NumCtx = kit.Pick(r, []int{16, 2})
			case 2:
				a.NumBatch = 64
			}
		case 3:
			// come back to the model and options of an earlier request (e.g. pinned, default, pinned again)
			if len(script) > 0 {
				p := script[r.Intn(len(script))]
				a.Model, a.NumCtx, a.NumGPU, a.NumBatch, a.Adapter = p.Model, p.NumCtx, p.NumGPU, p.NumBatch, p.Adapter
			}
		}
		if len(script) > 0 && r.Chance(1, 3) {
			a.Model = script[len(script)-1].Model // stay on the model of the previous request
		}
		if cpu {
			a.NumGPU = 0
		}
		a.KeepOpen = r.Chance(1, 4)
		a.PingFails = r.Chance(1, 10)
		if !h.Spread && r.Chance(1, 5) {
			a.KeepAliveUs = 0 // unload as soon as this (and every other) user of the runner is done
		}
		script = append(script, a)
	}
	h.Clients = [][]vAction{script}
	h.NReq = n
	return h
}

// vRunSeq executes the sequential history itself (it needs to interleave prediction and observation).
func vRunSeq(t testing.TB, h *vHistory, rep *kit.Report) (vs []vViol, skipped int) {
	w := newVWorld(t, h)
	defer func() {
		w.cancel()
		vSlogH.plan.Store(nil)
	}()
	f := vModelGGML(t)
	loaded := map[int]*vRefRunner{} // model -> runner
	type open struct {
		cancel func()
		model  int
	}
	var opens []open
	maxLoaded := h.MaxLoaded
	nextRunner := 1
	script := h.Clients[0]
	var expired []int // runners predicted to have expired (keep_alive 0) since the last check
	// settle: the scheduler has processed every release: its reference counts equal the grants still held and
	// its runner map has the size the reference predicts (expired runners are gone, i.e. closed and removed)
	settle := func() bool {
		for k := 0; k < 20000; k++ {
			held := 0
			for _, x := range loaded {
				held += x.held
			}
			if _, n, refs, lok := w.pendingTimers(); lok && refs == held && n == len(loaded) {
				return true
			}
			vYield(4)
		}
		return false
	}
	for i, a := range script {
		// release some kept-open grants first (always release when the request would need a busy runner gone)
		ref := loaded[a.Model]
		needGone := func() bool {
			if ref != nil {
				if ok, _ := vCompatible(ref.mock, a); !ok || a.PingFails {
					return ref.held > 0
				}
				return false
			}
			idle := 0
			for _, rr := range loaded {
				if rr.held == 0 {
					idle++
				}
			}
			return len(loaded) > 0 && idle == 0
		}
		if needGone() || (len(opens) > 0 && i%3 == 2) {
			for _, o := range opens {
				o.cancel()
				if rr := loaded[o.model]; rr != nil {
					if rr.held--; rr.held == 0 && rr.ka0 {
						delete(loaded, o.model) // keep_alive 0: expires with its last user
						expired = append(expired, rr.id)
						rep.Count("seq_keepalive0_expiries_predicted", 1)
					}
				}
			}
			opens = nil
			// the finish events (and the expiries they cause) must have been processed before the next decision is predicted
			if !settle() {
				return nil, 1
			}
		}
		// ---- prediction
		var expectClose []int // runner ids that must be closed (exactly these, in any order), -1 = "one idle runner"
		expectStart := false
		ref = loaded[a.Model]
		if ref != nil {
			compat, _ := vCompatible(ref.mock, a)
			if compat && a.PingFails {
				ref.mock.failPing.Store(true)
			}
			if !compat || a.PingFails {
				expectClose = append(expectClose, ref.id)
				delete(loaded, a.Model)
				expectStart = true
			}
		} else {
			expectStart = true
			if maxLoaded > 0 && len(loaded) >= maxLoaded {
				expectClose = append(expectClose, -1)
			} else if h.CPUFreeMB > 0 && len(loaded) > 0 && len(loaded) >= h.CPUFreeMB/h.MockPlans[0].VRAMMB {
				// no system memory left for one more CPU runner: exactly one (idle) runner has to go
				expectClose = append(expectClose, -1)
				rep.Count("seq_cpu_memory_evictions_predicted", 1)
			}
		}
		before := w.log.snapshot()
		for _, id := range expired {
			n := 0
			for _, e := range before {
				if e.Kind == "close-begin" && e.Runner == id {
					n++
				}
			}
			if n != 1 {
				vs = append(vs, vViol{"c11:seq:keepalive0-runner-not-closed", fmt.Sprintf("runner %d served its last request with keep_alive 0 and left the scheduler's map, but was closed %d times", id, n), nil})
			}
		}
		expired = nil
		// ---- execution
		m := w.modelFor(a)
		opts := api.DefaultOptions()
		opts.NumCtx, opts.NumGPU, opts.Seed = a.NumCtx, a.NumGPU, a.Req
		if a.NumBatch > 0 {
			opts.NumBatch = a.NumBatch
		}
		ctx, cancel := contextWithCancel(w)
		keep := &api.Duration{Duration: 1 << 40}
		if a.KeepAliveUs == 0 {
			keep = &api.Duration{Duration: 0}
		}
		okCh, errCh := w.s.GetRunner(ctx, m, opts, keep)
		var got *runnerRef
		res, _ := w.await(func() bool {
			select {
			case got = <-okCh:
				return true
			case err := <-errCh:
				vs = append(vs, vViol{"c11:seq:unexpected-error", fmt.Sprintf("sequential request %d answered with error %v", a.Req, err), nil})
				return true
			default:
				return false
			}
		}, map[int]bool{})
		if res != vOK {
			cancel()
			vs = append(vs, vViol{"c11:seq:no-reply", fmt.Sprintf("sequential request %d (model %d) never answered", a.Req, a.Model), w.log.snapshot()})
			return vs, 0
		}
		if got == nil {
			cancel()
			return vs, 0
		}
		after := w.log.snapshot()
		var closes []int
		var starts []int
		for _, e := range after[len(before):] {
			switch e.Kind {
			case "close-begin":
				closes = append(closes, e.Runner)
			case "start":
				starts = append(starts, e.Runner)
			}
		}
		gid := vRunnerID(got)
		evSlice := after[max(0, len(before)-4):]
		// auto MAX_LOADED: read what the scheduler chose on the first load
		if maxLoaded == 0 && len(starts) > 0 {
			w.mu.Lock()
			maxLoaded = w.mocks[len(w.mocks)-1].maxAtStart
			w.mu.Unlock()
		}
		// ---- comparison
		if !expectStart {
			if len(starts) != 0 || len(closes) != 0 {
				vs = append(vs, vViol{"c11:seq:needless-reload", fmt.Sprintf("request %d (model %d) is compatible with the healthy loaded runner %d, yet runners %v were closed and %v started", a.Req, a.Model, ref.id, closes, starts), evSlice})
			} else if gid != ref.id {
				vs = append(vs, vViol{"c11:seq:wrong-runner", fmt.Sprintf("request %d expected runner %d, got %d", a.Req, ref.id, gid), evSlice})
			}
			rep.Count("seq_reuse_predicted", 1)
		} else {
			if len(starts) != 1 {
				vs = append(vs, vViol{"c11:seq:start-count", fmt.Sprintf("request %d (model %d): expected exactly one runner start, saw %v", a.Req, a.Model, starts), evSlice})
				cancel()
				return vs, 0
			}
			// closes: named ones must be there; "-1" = exactly one idle victim; fit-driven evictions are not
			// expected here because the GPU is large and mock VRAM tiny
			named := 0
			for _, id := range expectClose {
				if id > 0 {
					named++
					found := false
					for _, c := range closes {
						found = found || c == id
					}
					if !found {
						vs = append(vs, vViol{"c11:seq:reload-without-close", fmt.Sprintf("request %d needed a reload of runner %d, which was not closed (closed %v)", a.Req, id, closes), evSlice})
					}
				}
			}
			wantVictims := len(expectClose) - named
			victims := []int{}
			for _, c := range closes {
				isNamed := false
				for _, id := range expectClose {
					isNamed = isNamed || id == c
				}
				if !isNamed {
					victims = append(victims, c)
				}
			}
			if len(victims) != wantVictims {
				vs = append(vs, vViol{"c11:seq:eviction-count", fmt.Sprintf("request %d (model %d): expected %d eviction(s) (loaded %d, limit %d), saw %v", a.Req, a.Model, wantVictims, len(loaded), maxLoaded, victims), evSlice})
			}
			for _, v := range victims {
				var vr *vRefRunner
				for _, rr := range loaded {
					if rr.id == v {
						vr = rr
					}
				}
				if vr == nil {
					vs = append(vs, vViol{"c11:seq:evicted-unknown", fmt.Sprintf("request %d: runner %d closed but not known as loaded", a.Req, v), evSlice})
					continue
				}
				if vr.held > 0 {
					idle := 0
					for _, rr := range loaded {
						if rr.held == 0 {
							idle++
						}
					}
					if idle > 0 {
						vs = append(vs, vViol{"c11:seq:busy-victim", fmt.Sprintf("request %d: busy runner %d evicted although %d idle runner(s) existed", a.Req, v, idle), evSlice})
					}
				}
				delete(loaded, vr.model)
				rep.Count("seq_evictions_checked", 1)
			}
			w.mu.Lock()
			mk := w.mocks[len(w.mocks)-1]
			w.mu.Unlock()
			if gid != mk.id {
				vs = append(vs, vViol{"c11:seq:wrong-runner", fmt.Sprintf("request %d expected the freshly started runner %d, got %d", a.Req, mk.id, gid), evSlice})
			}
			if ok, why := vCompatible(mk, a); !ok {
				vs = append(vs, vViol{"c11:started-with-other-options", fmt.Sprintf("request %d: runner started with other options (%s)", a.Req, why), evSlice})
			}
			loaded[a.Model] = &vRefRunner{id: mk.id, model: a.Model, mock: mk}
			nextRunner++
			rep.Count("seq_start_predicted", 1)
		}
		if maxLoaded > 0 && len(loaded) > maxLoaded {
			vs = append(vs, vViol{"c11:max-loaded-exceeded", fmt.Sprintf("after request %d: %d runners loaded, limit %d", a.Req, len(loaded), maxLoaded), evSlice})
		}
		if rr := loaded[a.Model]; rr != nil {
			rr.ka0 = a.KeepAliveUs == 0
			if a.KeepOpen {
				rr.held++
				opens = append(opens, open{cancel, a.Model})
			} else {
				cancel()
				if rr.held == 0 && rr.ka0 {
					delete(loaded, a.Model)
					expired = append(expired, rr.id)
					rep.Count("seq_keepalive0_expiries_predicted", 1)
				}
				// wait for the finish event so that "idle" is what the scheduler sees, too
				if !settle() {
					return vs, 1
				}
			}
		} else {
			cancel()
		}
		if len(vs) > 0 {
			break
		}
	}
	for _, o := range opens {
		o.cancel()
	}
	_ = f
	_ = sort.Ints
	return vs, 0
}

func TestVerifC11(t *testing.T) {
	vSilenceSlog()
	defer vCleanupModelFiles()
	rep := kit.NewReport("C11")
	cfg := rep.Cfg()
	defer rep.Flush()
	rep.Set("rule", "two workloads. (b) concurrent histories as for C01 (PRNG(seed,'C11',i)) with option/adapter variants, 1-3 GPUs and scripted per-runner VRAM so that co-loading sometimes does not fit; instant invariants at every Start (live runners + 1 <= limit, no live runner of the same model, started with the requester's options, predicted to fit on the GPUs handed over, whose assumed free memory never exceeds min(reported free, total - live runners' VRAM)) and at every grant (runner's load options compatible with the request by the documented rule). (a) sequential single-client histories (PRNG(seed,'C11seq',i)) with forever keep-alive (1 in 5 requests: keep_alive 0, so that busy runners that are about to expire exist next to idle ones) and some grants kept open, compared step by step with a reference scheduler: compatible+healthy => no Start/Close and the same runner; incompatible or failed ping => that runner closed and one Start with the request's options; at the limit => exactly one eviction, of an idle runner when one exists. Non-trivial & distinct = distinct (abstract order signature) of concurrent histories with a reuse or a co-load, plus distinct (prediction-kind sequence) of sequential histories with at least one reload and one eviction")
	rep.Set("assumptions", []string{
		"mock runners; VRAM use per runner scripted; fit predicted by the real llm.PredictServerFit on a tiny synthetic model",
		"the reference scheduler does not predict WHICH idle runner is evicted (tie-break not part of the statement)",
	})
	{
		big := discover.GpuInfo{Library: "metal", ID: "0"}
		big.FreeMemory, big.TotalMemory = 64<<30, 64<<30
		o := api.DefaultOptions()
		o.NumCtx, o.NumGPU = 32, -1
		_, need := llm.PredictServerFit(discover.GpuInfoList{big}, vModelGGML(t), nil, nil, o, 4)
		rep.Set("tiny_model_vram_need_bytes", need)
	}
	n := cfg.N(300, 24000)
	nseq := cfg.N(300, 24000)
	replayIdx, replaySeq := -1, false
	if cfg.Replay != "" {
		var rc struct {
			Index   int    `json:"index"`
			Profile string `json:"profile"`
		}
		if err := kit.LoadReplay(cfg.Replay, &rc); err != nil {
			t.Fatal(err)
		}
		replayIdx, replaySeq = rc.Index, strings.HasPrefix(rc.Profile, "c11/sequential")
	}
	ignore := map[int]bool{}
	for i := 0; i < n && !(replayIdx >= 0 && replaySeq); i++ {
		if replayIdx >= 0 && i != replayIdx {
			continue
		}
		if replayIdx < 0 && (!cfg.Mine(i) || rep.Enough() || rep.OverBudget()) {
			continue
		}
		h := vGenHistory(kit.NewRand(cfg.Seed, "C11", i), i, vProfileC11)
		out := vRunHistory(t, h, ignore)
		rep.Eval(1)
		if out.Inconcl != "" {
			rep.Inconclusive(fmt.Sprintf("history %d: %s", i, out.Inconcl))
			// the invariants at every Start and grant are safety clauses over what was recorded (snapshot taken before
			// the world is torn down): they are decided for a history that did not come to an end, too
			for _, v := range vCheckC11Instant(t, h, out, rep) {
				rep.Violate(v.Sig+":history-did-not-end", v.What, h, map[string]any{"events": v.Events})
			}
			continue
		}
		for _, v := range vCheckC11Instant(t, h, out, rep) {
			rep.Violate(v.Sig, v.What, h, map[string]any{"events": v.Events})
		}
		sig, _ := vAbstract(out.Events)
		reuse := false
		for _, e := range out.Events {
			if e.Kind == "grant" && e.Runner > 0 {
				for _, m := range out.Mocks {
					if m.id == e.Runner && m.startedFor != e.Req {
						reuse = true
					}
				}
			}
		}
		if reuse {
			rep.Distinct("b:" + sig)
		}
		if rep.NeedSample() && len(out.Events) > 20 && len(out.Events) < 70 {
			rep.Sample(map[string]any{"history": h, "events": out.Events})
		}
	}
	for i := 0; i < nseq && !(replayIdx >= 0 && !replaySeq); i++ {
		if replayIdx >= 0 && i != replayIdx {
			continue
		}
		if replayIdx < 0 && (!cfg.Mine(i) || rep.Enough() || rep.OverBudget()) {
			continue
		}
		h := vGenSeq(kit.NewRand(cfg.Seed, "C11seq", i), i)
		before := map[string]int64{}
		vs, skipped := vRunSeq(t, h, rep)
		_ = before
		rep.Eval(1)
		if skipped > 0 {
			rep.Inconclusive(fmt.Sprintf("sequential history %d: scheduler did not settle between steps", i))
			continue
		}
		for _, v := range vs {
			rep.Violate(v.Sig, v.What, h, map[string]any{"events": v.Events})
		}
		kinds := ""
		for _, a := range h.Clients[0] {
			kinds += fmt.Sprintf("%d%d%d%d%v;", a.Model, a.NumCtx, a.NumGPU, a.Adapter, a.KeepOpen)
		}
		rep.Distinct("a:" + kinds)
		if rep.NeedSample() && i%7 == 3 {
			rep.Sample(map[string]any{"history": h})
		}
	}
	rep.Set("delay_point_hits", vHitCounts())
}
