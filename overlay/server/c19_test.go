//go:build verif

package server

// C19: the prompt built for a chat contains the latest message, every system message that precedes the
// retained messages, and exactly the longest recent run of the conversation that fits the context length;
// each image of a retained message is tagged exactly once with its index in the returned image list and
// images of dropped messages are not sent.
//
// Runtime monitor: the real chatPrompt is run on PRNG-generated conversations (roles in any order, 0-200
// words, images anywhere, [img] placeholders) against real template.Template values of every style the
// template package supports (legacy System/Prompt/Response, messages-range, system-hoisting, tools-aware,
// index-aware, the pinned *.gotmpl files) with text / vision / mllama models and context lengths aimed at
// the fit boundaries.  Every message consists of unique marker words, every image of unique bytes, so
// presence, order and image ownership are decided from the returned prompt text and image list alone.
// The only thing the monitor recomputes is what the statement leaves to the implementation: whether a
// suffix "fits" (same template, same tokenizer, +768 (mllama: +1) per image of the suffix on models with a projector).

import (
	"bytes"
	"context"
	"encoding/json"
	"fmt"
	"image"
	"image/color"
	"image/png"
	"io"
	"log/slog"
	"os"
	"path/filepath"
	"regexp"
	"runtime/debug"
	"sort"
	"strconv"
	"strings"
	"testing"

	kit "verifkit"

	"github.com/ollama/ollama/api"
	"github.com/ollama/ollama/llm"
	"github.com/ollama/ollama/template"
)

// ------------------------------------------------------------------------------------------------
// templates

type c19Tmpl struct {
	Name        string
	Style       string // legacy | messages | hoist | tools | index | nonmonotone | pinned
	Src         string
	NonMonotone bool // a longer suffix can render to fewer tokens than a shorter one
	t           *template.Template
}

var c19Own = []c19Tmpl{
	{Name: "legacy-plain", Style: "legacy", Src: "{{- if .System }}{{ .System }} {{ end }}\n{{- if .Prompt }}{{ .Prompt }} {{ end }}\n{{- if .Response }}{{ .Response }} {{ end }}"},
	{Name: "legacy-inst", Style: "legacy", Src: "[INST] {{ if .System }}<<SYS>> {{ .System }} <</SYS>> {{ end }}{{ .Prompt }} [/INST] {{ .Response }} </s>"},
	{Name: "legacy-noresponse", Style: "legacy", Src: "{{ if .System }}SYSTEM: {{ .System }}\n{{ end }}{{ if .Prompt }}USER: {{ .Prompt }}\n{{ end }}ASSISTANT: "},
	{Name: "chatml-inplace", Style: "messages", Src: "{{ range .Messages }}<|im_start|>{{ .Role }}\n{{ .Content }}<|im_end|>\n{{ end }}<|im_start|>assistant\n"},
	{Name: "glued-inplace", Style: "messages", Src: "{{- range .Messages }}<start_{{ .Role }}>{{ .Content }}<end_message>{{- end }}<start_assistant>"},
	{Name: "hoist", Style: "hoist", Src: `{{- if .System }}<|system|>
{{ .System }}<|end|>
{{ end }}
{{- range .Messages }}
{{- if eq .Role "user" }}<|user|>
{{ .Content }}<|end|>
{{ else if eq .Role "assistant" }}<|assistant|>
{{ .Content }}<|end|>
{{ else if eq .Role "tool" }}<|tool|>
{{ .Content }}<|end|>
{{ end }}
{{- end }}<|assistant|>
`},
	{Name: "tools-hoist", Style: "tools", Src: `{{- if or .System .Tools }}<|system|>
{{ if .System }}{{ .System }}
{{ end }}
{{- if .Tools }}[AVAILABLE_TOOLS] {{ json .Tools }} [/AVAILABLE_TOOLS]
{{ end }}<|end|>
{{ end }}
{{- range .Messages }}{{ if ne .Role "system" }}<|{{ .Role }}|>
{{ .Content }}<|end|>
{{ end }}{{ end }}<|assistant|>
`},
	{Name: "index-aware", Style: "index", Src: `{{- range $i, $_ := .Messages }}
{{- $last := eq (len (slice $.Messages $i)) 1 }}
{{- if eq .Role "system" }}[SYSTEM_PROMPT] {{ .Content }} [/SYSTEM_PROMPT]
{{ else if eq .Role "user" }}
{{- if and $last $.Tools }}[AVAILABLE_TOOLS] {{ json $.Tools }} [/AVAILABLE_TOOLS] {{ end }}[INST] {{ .Content }} [/INST]
{{ else if eq .Role "assistant" }} {{ .Content }}</s>
{{ else if eq .Role "tool" }}[TOOL_RESULTS] {{ .Content }} [/TOOL_RESULTS]
{{ end }}
{{- end }}`},
	// Two deliberately non-monotone styles (see notes/C19.md, "which reading of longest run"): a few-shot
	// example that is only printed while the history has no assistant turn, and a banner for two-turn exchanges.
	{Name: "fewshot-nonmonotone", Style: "nonmonotone", NonMonotone: true, Src: `{{- $seen := false }}{{ range .Messages }}{{ if eq .Role "assistant" }}{{ $seen = true }}{{ end }}{{ end }}
{{- if not $seen }}Example exchange follows . User: what is two plus two ? Assistant: two plus two is four . End of the example .
{{ end }}
{{- range .Messages }}<{{ .Role }}> {{ .Content }} </{{ .Role }}>
{{ end }}<assistant>`},
	{Name: "banner-nonmonotone", Style: "nonmonotone", NonMonotone: true, Src: `{{- if eq (len .Messages) 2 }}Note : this is a short two turn exchange and it is shown with a long explanatory banner of filler words .
{{ end }}{{ range .Messages }}<{{ .Role }}> {{ .Content }} </{{ .Role }}>
{{ end }}<assistant>`},
}

// c19LoadTemplates parses the harness' own styles and the *.gotmpl files pinned in the repository's
// template package (read from the tree under test: the harness runs with cwd = <repo>/server).
func c19LoadTemplates() (own, pinned []c19Tmpl, err error) {
	for _, t := range c19Own {
		p, err := template.Parse(t.Src)
		if err != nil {
			return nil, nil, fmt.Errorf("template %s: %w", t.Name, err)
		}
		t.t = p
		own = append(own, t)
	}
	files, _ := filepath.Glob(filepath.Join("..", "template", "*.gotmpl"))
	sort.Strings(files)
	for _, f := range files {
		b, err := os.ReadFile(f)
		if err != nil {
			continue
		}
		p, err := template.Parse(string(bytes.ReplaceAll(b, []byte("\r\n"), []byte("\n"))))
		if err != nil {
			continue
		}
		pinned = append(pinned, c19Tmpl{Name: "pinned:" + strings.TrimSuffix(filepath.Base(f), ".gotmpl"), Style: "pinned", Src: string(b), t: p})
	}
	return own, pinned, nil
}

var c19ToolsJSON = `[{"type":"function","function":{"name":"get_weather","description":"Get the current weather for a city","parameters":{"type":"object","required":["city"],"properties":{"city":{"type":"string","description":"The name of the city"}}}}},
{"type":"function","function":{"name":"add","description":"Add two numbers","parameters":{"type":"object","required":["a","b"],"properties":{"a":{"type":"number","description":"first"},"b":{"type":"number","description":"second"}}}}}]`

// ------------------------------------------------------------------------------------------------
// tokenizers (deterministic, passed to chatPrompt and used by the monitor)

func c19TokWords(_ context.Context, s string) ([]int, error) {
	return make([]int, len(strings.Fields(s))), nil
}

func c19TokBytes3(_ context.Context, s string) ([]int, error) {
	return make([]int, (len(s)+2)/3), nil
}

// ------------------------------------------------------------------------------------------------
// cases

type c19Msg struct {
	Role         string `json:"role"`
	Words        int    `json:"words"`
	Images       int    `json:"images"`
	Placeholders int    `json:"placeholders"`
	Content      string `json:"content"` // abbreviated when long
}

type c19Case struct {
	Index     int      `json:"index"`
	Template  string   `json:"template"`
	Style     string   `json:"style"`
	Model     string   `json:"model"` // text | vision | mllama | mllama-vision | mllama-vision-png
	Tokenizer string   `json:"tokenizer"`
	Tools     int      `json:"tools"`
	NumCtx    int      `json:"num_ctx"`
	CtxClass  string   `json:"ctx_class"`
	Msgs      []c19Msg `json:"msgs"`

	tmpl   *c19Tmpl
	model  Model
	tok    tokenizeFunc
	tools  []api.Tool
	msgs   []api.Message
	counts []int // counts[i] = cost of system-before-i + msgs[i:], i <= len-2 (the monitor's recomputation of "fits")
	cerr   error
}

func c19Word(msg, k int) string { return "zq" + strconv.Itoa(msg) + "x" + strconv.Itoa(k) }

func c19PNG(r *kit.Rand, w, h int) []byte {
	img := image.NewRGBA(image.Rect(0, 0, w, h))
	for y := 0; y < h; y++ {
		for x := 0; x < w; x++ {
			img.Set(x, y, color.RGBA{uint8(r.Intn(256)), uint8(r.Intn(256)), uint8(r.Intn(256)), 255})
		}
	}
	var b bytes.Buffer
	png.Encode(&b, img)
	return b.Bytes()
}

func c19Abbrev(s string) string {
	f := strings.Fields(s)
	if len(f) <= 14 {
		return s
	}
	return strings.Join(f[:6], " ") + fmt.Sprintf(" …(%d words)… ", len(f)-12) + strings.Join(f[len(f)-6:], " ")
}

// c19Cost renders "system messages before i" + msgs[i:] with the case's template and counts tokens the way the
// task defines "fits": tokens of the rendering + a fixed cost per image of msgs[i:] on models with a projector.
func c19Cost(c *c19Case, msgs []api.Message, i int) (int, error) {
	list := make([]api.Message, 0, len(msgs))
	for j := 0; j < i; j++ {
		if msgs[j].Role == "system" {
			list = append(list, msgs[j])
		}
	}
	list = append(list, msgs[i:]...)
	var b bytes.Buffer
	if err := c.model.Template.Execute(&b, template.Values{Messages: list, Tools: c.tools}); err != nil {
		return 0, err
	}
	toks, err := c.tok(context.Background(), b.String())
	if err != nil {
		return 0, err
	}
	n := len(toks)
	if c.model.ProjectorPaths != nil {
		per := 768
		if strings.HasPrefix(c.Model, "mllama") {
			per = 1
		}
		for _, m := range msgs[i:] {
			n += per * len(m.Images)
		}
	}
	return n, nil
}

func c19Gen(r *kit.Rand, idx int, own, pinned []c19Tmpl, allTools []api.Tool) *c19Case {
	c := &c19Case{Index: idx}
	// template
	switch {
	case len(pinned) > 0 && r.Chance(1, 4):
		c.tmpl = &pinned[r.Intn(len(pinned))]
	default:
		c.tmpl = &own[r.Intn(len(own))]
	}
	c.Template, c.Style = c.tmpl.Name, c.tmpl.Style
	// model
	switch x := r.Intn(100); {
	case x < 30:
		c.Model = "text"
	case x < 80:
		c.Model = "vision"
	case x < 90:
		c.Model = "mllama"
	case x < 98:
		c.Model = "mllama-vision"
	default:
		c.Model = "mllama-vision-png"
	}
	c.model = Model{Template: c.tmpl.t}
	if c.Model == "vision" || strings.HasPrefix(c.Model, "mllama-vision") {
		c.model.ProjectorPaths = []string{"vision"}
	}
	if strings.HasPrefix(c.Model, "mllama") {
		c.model.Config = ConfigV2{ModelFamilies: []string{"mllama"}}
	}
	if r.Chance(1, 4) {
		c.Tokenizer, c.tok = "bytes3", c19TokBytes3
	} else {
		c.Tokenizer, c.tok = "words", c19TokWords
	}
	if r.Chance(1, 4) {
		c.Tools = r.Range(1, len(allTools))
		c.tools = allTools[:c.Tools]
	}

	// conversation shape
	var n int
	switch x := r.Intn(100); {
	case x < 4:
		n = 1
	case x < 12:
		n = 2
	case x < 75:
		n = r.Range(3, 8)
	case x < 94:
		n = r.Range(9, 16)
	default:
		n = r.Range(17, 30)
	}
	roles := make([]string, n)
	switch shape := r.Intn(10); {
	case shape < 4: // the usual shape: optional system prompt, then alternating turns
		k := 0
		if r.Chance(2, 3) {
			roles[0] = "system"
			k = 1
		}
		turn := r.Intn(2)
		for ; k < n; k++ {
			roles[k] = []string{"user", "assistant"}[(k+turn)%2]
		}
		if r.Chance(1, 3) { // a late system message somewhere
			roles[r.Intn(n)] = "system"
		}
	case shape < 8: // any order
		for k := range roles {
			switch x := r.Intn(100); {
			case x < 25:
				roles[k] = "system"
			case x < 60:
				roles[k] = "user"
			case x < 93:
				roles[k] = "assistant"
			default:
				roles[k] = "tool"
			}
		}
	default: // system-heavy
		for k := range roles {
			roles[k] = kit.Pick(r, []string{"system", "system", "user", "assistant"})
		}
	}
	if r.Chance(2, 3) {
		roles[n-1] = "user"
	}
	maxPNG := 2
	for k := 0; k < n; k++ {
		m := c19Msg{Role: roles[k]}
		switch x := r.Intn(10); {
		case x < 4:
			m.Words = r.Range(1, 5)
		case x < 8:
			m.Words = r.Range(6, 30)
		default:
			m.Words = r.Range(31, 200)
		}
		// images
		pi := 25
		if m.Role != "user" {
			pi = 5
		}
		if r.Intn(100) < pi {
			m.Images = kit.Pick(r, []int{1, 1, 1, 1, 2, 2, 3})
		}
		if strings.HasPrefix(c.Model, "mllama") && m.Images > 1 {
			m.Images = 1 // chatPrompt refuses more than one image per message for mllama (not this property)
		}
		if c.Model == "mllama-vision" {
			m.Images = 0 // images would need real decoding; see the -png kind
		}
		if c.Model == "mllama-vision-png" {
			if m.Images > maxPNG {
				m.Images = maxPNG
			}
			maxPNG -= m.Images
		}
		if m.Images > 0 && m.Role == "user" && r.Chance(1, 8) {
			m.Words = 0 // image-only turn
		}
		if r.Chance(3, 10) {
			m.Placeholders = r.Range(1, 3)
		}
		if m.Words == 0 {
			m.Placeholders = 0
			if r.Chance(1, 3) {
				m.Placeholders = 1
			}
		}
		// content: unique marker words, placeholders at PRNG-chosen positions
		ph := map[int]int{}
		for p := 0; p < m.Placeholders; p++ {
			ph[r.Intn(m.Words+1)]++
		}
		sep := " "
		if r.Chance(1, 10) {
			sep = "\n"
		}
		var sb strings.Builder
		put := func(s string, glue bool) {
			if sb.Len() > 0 && !glue {
				sb.WriteString(sep)
			}
			sb.WriteString(s)
		}
		for w := 0; w <= m.Words; w++ {
			for p := 0; p < ph[w]; p++ {
				put("[img]", w > 0 && r.Chance(1, 4))
			}
			if w < m.Words {
				put(c19Word(k, w), false)
			}
		}
		content := sb.String()
		m.Content = c19Abbrev(content)
		am := api.Message{Role: m.Role, Content: content}
		for j := 0; j < m.Images; j++ {
			if c.Model == "mllama-vision-png" {
				am.Images = append(am.Images, c19PNG(r, 3+j+k%5, 3+k%7))
			} else {
				am.Images = append(am.Images, append([]byte(fmt.Sprintf("IMG-%d-%d-", k, j)), r.Bytes(8)...))
			}
		}
		c.Msgs = append(c.Msgs, m)
		c.msgs = append(c.msgs, am)
	}

	// cost of every suffix (the last message alone is never measured), then a context length aimed at a boundary
	c.counts = make([]int, 0, n)
	for i := 0; i <= n-2; i++ {
		v, err := c19Cost(c, c.msgs, i)
		if err != nil {
			c.cerr = err
			break
		}
		c.counts = append(c.counts, v)
	}
	pick := func() int { return c.counts[r.Intn(len(c.counts))] }
	if len(c.counts) == 0 {
		c.NumCtx, c.CtxClass = r.Range(1, 64), "single-message"
		return c
	}
	if c.tmpl.NonMonotone && r.Chance(1, 2) {
		// aim at a dip: a suffix that costs less than the next shorter one
		var dips []int
		for i := 0; i+1 < len(c.counts); i++ {
			if c.counts[i] < c.counts[i+1] {
				dips = append(dips, i)
			}
		}
		if len(dips) > 0 {
			i := dips[r.Intn(len(dips))]
			c.NumCtx, c.CtxClass = r.Range(c.counts[i], c.counts[i+1]-1), "dip"
			return c
		}
	}
	switch x := r.Intn(100); {
	case x < 25:
		c.NumCtx, c.CtxClass = pick(), "exact"
	case x < 45:
		c.NumCtx, c.CtxClass = pick()-1, "one-short"
	case x < 55:
		c.NumCtx, c.CtxClass = pick()+1, "one-spare"
	case x < 65:
		c.NumCtx, c.CtxClass = pick()+r.Range(-5, 5), "near"
	case x < 80:
		c.NumCtx, c.CtxClass = r.Range(1, c.counts[0]+10), "uniform"
	case x < 90:
		c.NumCtx, c.CtxClass = c.counts[0]+r.Range(1, 1000), "ample"
	default:
		c.NumCtx, c.CtxClass = r.Range(1, 5), "tiny"
	}
	if c.NumCtx < 1 {
		c.NumCtx = 1
	}
	return c
}

// ------------------------------------------------------------------------------------------------
// reading the prompt

var c19ItemRe = regexp.MustCompile(`zq(\d+)x(\d+)|\[img-(\d+)\]`)

type c19Item struct {
	pos int
	msg int // marker word: message index; tag: -1
	k   int // marker word: word index; tag: tag number
}

func c19Scan(s string) []c19Item {
	var out []c19Item
	for _, m := range c19ItemRe.FindAllStringSubmatchIndex(s, -1) {
		if m[2] >= 0 {
			a, _ := strconv.Atoi(s[m[2]:m[3]])
			b, _ := strconv.Atoi(s[m[4]:m[5]])
			out = append(out, c19Item{pos: m[0], msg: a, k: b})
		} else {
			t, err := strconv.Atoi(s[m[6]:m[7]])
			if err != nil {
				t = 1 << 30
			}
			out = append(out, c19Item{pos: m[0], msg: -1, k: t})
		}
	}
	return out
}

// c19View answers presence questions about one rendering.
type c19View struct {
	items []c19Item
	byMsg map[int][]int // message -> word indices in textual order
	first map[int]int   // message -> position of the first complete in-order rendering
}

func c19NewView(s string, words []int) *c19View {
	v := &c19View{items: c19Scan(s), byMsg: map[int][]int{}, first: map[int]int{}}
	pos := map[int][]int{}
	for _, it := range v.items {
		if it.msg >= 0 {
			v.byMsg[it.msg] = append(v.byMsg[it.msg], it.k)
			pos[it.msg] = append(pos[it.msg], it.pos)
		}
	}
	for m, ks := range v.byMsg {
		if m >= len(words) || words[m] == 0 {
			continue
		}
		L := words[m]
		for p := 0; p+L <= len(ks); p++ {
			ok := true
			for j := 0; j < L; j++ {
				if ks[p+j] != j {
					ok = false
					break
				}
			}
			if ok {
				v.first[m] = pos[m][p]
				break
			}
		}
	}
	return v
}

func (v *c19View) full(m int) bool { _, ok := v.first[m]; return ok } // every word, in order, contiguous among its own
func (v *c19View) any(m int) bool  { return len(v.byMsg[m]) > 0 }

// ------------------------------------------------------------------------------------------------
// the monitor

type c19Witness struct {
	ExpectedFirstRetained int      `json:"expected_first_retained"`
	LongestFittingStart   int      `json:"longest_fitting_suffix_start"`
	Costs                 []int    `json:"suffix_costs"`
	NumCtx                int      `json:"num_ctx"`
	Missing               []int    `json:"missing,omitempty"`
	Unexpected            []int    `json:"unexpected,omitempty"`
	ImageIDs              []int    `json:"image_ids,omitempty"`
	ImageOwners           []string `json:"image_owners,omitempty"`
	Prompt                string   `json:"prompt"`
	Detail                string   `json:"detail,omitempty"`
}

type c19Result struct {
	sig, what string
	witness   *c19Witness
	skip      string // case not decidable (reason); never a verdict
	inconcl   string
	n, n2     int
	nonmono   bool
	kept      int // images expected in the list
	droppedIm int
}

func c19PanicSite() string {
	for _, l := range strings.Split(string(debug.Stack()), "\n") {
		l = strings.TrimSpace(l)
		if !strings.HasPrefix(l, "github.com/ollama/ollama/") {
			continue
		}
		if p := strings.LastIndexByte(l, '('); p > 0 {
			l = l[:p]
		}
		l = strings.TrimPrefix(l, "github.com/ollama/ollama/")
		if strings.Contains(l, ".c19") || strings.Contains(l, "TestVerif") {
			continue
		}
		return l
	}
	return "unknown"
}

func c19Trunc(s string) string {
	if len(s) > 3000 {
		return s[:1500] + " …… " + s[len(s)-1500:]
	}
	return s
}

func c19Check(c *c19Case) (res c19Result) {
	if c.cerr != nil {
		res.skip = "oracle-render-error"
		return
	}
	L := len(c.msgs)
	words := make([]int, L)
	for i, m := range c.Msgs {
		words[i] = m.Words
	}
	// ---- what the statement requires
	n := L - 1
	for i := L - 2; i >= 0; i-- {
		if c.counts[i] > c.NumCtx {
			break
		}
		n = i
	}
	n2 := L - 1 // start of the longest suffix that fits, regardless of the shorter ones
	for i := 0; i <= L-2; i++ {
		if c.counts[i] <= c.NumCtx {
			n2 = i
			break
		}
	}
	res.n, res.n2, res.nonmono = n, n2, n2 < n
	var required []int // indices whose text must be in the prompt
	for j := 0; j < n; j++ {
		if c.msgs[j].Role == "system" {
			required = append(required, j)
		}
	}
	for j := n; j < L; j++ {
		required = append(required, j)
		res.kept += len(c.msgs[j].Images)
	}
	for j := 0; j < n; j++ {
		res.droppedIm += len(c.msgs[j].Images)
	}
	// ---- guard: can this template show every required message of this list at all?
	orig := append([]api.Message(nil), c.msgs...) // chatPrompt rewrites Content in the caller's slice
	var list []api.Message
	for _, j := range required {
		list = append(list, orig[j])
	}
	var gb bytes.Buffer
	if err := c.model.Template.Execute(&gb, template.Values{Messages: list, Tools: c.tools}); err != nil {
		res.skip = "oracle-render-error"
		return
	}
	guard := c19NewView(gb.String(), words)
	for _, j := range required {
		if words[j] > 0 && !guard.full(j) {
			res.skip = "template-cannot-show-every-required-message"
			return
		}
	}

	// ---- the execution under observation
	w := &c19Witness{ExpectedFirstRetained: n, LongestFittingStart: n2, NumCtx: c.NumCtx}
	if len(c.counts) > 40 {
		w.Costs = c.counts[len(c.counts)-40:]
	} else {
		w.Costs = c.counts
	}
	res.witness = w
	var prompt string
	var images []llm.ImageData
	var err error
	func() {
		defer func() {
			if p := recover(); p != nil {
				res.sig = "panic:" + c19PanicSite()
				res.what = fmt.Sprint("chatPrompt panicked: ", p)
			}
		}()
		in := append([]api.Message(nil), c.msgs...)
		opts := api.Options{Runner: api.Runner{NumCtx: c.NumCtx}}
		prompt, images, err = chatPrompt(context.Background(), &c.model, c.tok, &opts, in, c.tools)
	}()
	if res.sig != "" {
		return
	}
	if err != nil {
		res.inconcl = "chatPrompt returned an error for a well-formed conversation: " + err.Error()
		return
	}
	w.Prompt = c19Trunc(prompt)
	v := c19NewView(prompt, words)
	fail := func(sig, what string) c19Result {
		res.sig, res.what = sig, what
		return res
	}

	// A-D: which messages does the prompt show?
	var missRun, missSys []int
	for j := 0; j < n; j++ {
		if c.msgs[j].Role != "system" && v.any(j) {
			w.Unexpected = append(w.Unexpected, j)
		}
	}
	for _, j := range required {
		if words[j] > 0 && !v.full(j) {
			if j >= n {
				missRun = append(missRun, j)
			} else {
				missSys = append(missSys, j)
			}
		}
	}
	// Root cause first: the system message that is the first message not to fit is gone and nothing else was
	// added. Whatever else is hidden then (some pinned templates show system text only in certain positions,
	// so removing one message can hide others, even the latest) is a consequence and is named in the text.
	if len(w.Unexpected) == 0 && len(missSys) == 1 && missSys[0] == n-1 {
		w.Missing = append(missSys, missRun...)
		also := ""
		if len(missRun) > 0 {
			also = fmt.Sprintf("; without it the template also hides retained messages %v", missRun)
		}
		return fail("system-message-missing:at-cut", fmt.Sprintf("system message #%d immediately precedes the retained run (#%d..#%d) and is not in the prompt; it is the first message that did not fit%s", n-1, n, L-1, also))
	}
	// A. the latest message
	if words[L-1] > 0 && !v.full(L-1) {
		return fail("latest-message-missing", fmt.Sprintf("the latest message (#%d, %s) is not in the prompt", L-1, c.msgs[L-1].Role))
	}
	// B. nothing that had to be dropped
	if len(w.Unexpected) > 0 {
		sig := "dropped-message-present"
		if res.nonmono && w.Unexpected[0] >= n2 {
			sig += ":longer-suffix-fits"
		}
		return fail(sig, fmt.Sprintf("messages %v are in the prompt but the run that fits starts at #%d (cost of the suffix starting at #%d is %d > num_ctx %d)", w.Unexpected, n, n-1, c.counts[n-1], c.NumCtx))
	}
	// C. every message of the run
	if len(missRun) > 0 {
		w.Missing = missRun
		cost := -1 // the latest message alone is never measured
		if n <= L-2 {
			cost = c.counts[n]
		}
		return fail("retained-message-missing", fmt.Sprintf("messages %v belong to the longest recent run that fits (it starts at #%d, cost %d, num_ctx %d) but are not in the prompt", missRun, n, cost, c.NumCtx))
	}
	// D. every earlier system message
	if len(missSys) > 0 {
		w.Missing = missSys
		return fail("system-message-missing", fmt.Sprintf("system messages %v precede the retained run (#%d..#%d) and are not in the prompt", missSys, n, L-1))
	}
	// E. original order among the retained messages (pairs the template itself keeps in order)
	for a := n; a < L; a++ {
		for b := a + 1; b < L; b++ {
			if words[a] == 0 || words[b] == 0 {
				continue
			}
			if guard.first[a] < guard.first[b] && !(v.first[a] < v.first[b]) {
				return fail("retained-order", fmt.Sprintf("retained message #%d appears after #%d in the prompt", a, b))
			}
		}
	}
	// F. images
	for _, im := range images {
		w.ImageIDs = append(w.ImageIDs, im.ID)
	}
	tagCount := map[int]int{}
	for _, it := range v.items {
		if it.msg < 0 {
			tagCount[it.k]++
		}
	}
	if c.Model == "mllama-vision-png" {
		// image bytes are re-encoded by the mllama preprocessor: only count, numbering and tags are decidable
		if len(images) != res.kept {
			return fail("image-list-length", fmt.Sprintf("%d images returned, the retained messages carry %d", len(images), res.kept))
		}
	} else {
		owner := map[string][2]int{}
		for j, m := range c.msgs {
			for x, d := range m.Images {
				owner[string(d)] = [2]int{j, x}
			}
		}
		seen := map[string]bool{}
		owners := make([]int, len(images))
		for k, im := range images {
			o, ok := owner[string(im.Data)]
			if !ok {
				return fail("image-data-unknown", fmt.Sprintf("image %d of the returned list is not an image of the conversation", k))
			}
			w.ImageOwners = append(w.ImageOwners, fmt.Sprintf("%d:msg%d.img%d", k, o[0], o[1]))
			if o[0] < n {
				return fail("dropped-image-sent", fmt.Sprintf("image %d of the returned list belongs to message #%d which is not retained (run starts at #%d)", k, o[0], n))
			}
			if seen[string(im.Data)] {
				return fail("image-sent-twice", fmt.Sprintf("image %d of the returned list (message #%d) occurs twice in the list", k, o[0]))
			}
			seen[string(im.Data)] = true
			owners[k] = o[0]
		}
		for j := n; j < L; j++ {
			for x, d := range c.msgs[j].Images {
				if !seen[string(d)] {
					return fail("retained-image-missing", fmt.Sprintf("image %d of retained message #%d is not in the returned list", x, j))
				}
			}
		}
		// every tag sits inside (or directly next to) the text of the message that owns the image it numbers
		for t, it := range v.items {
			if it.msg >= 0 || it.k >= len(images) {
				continue
			}
			own := owners[it.k]
			left, right := -1, -1
			skipSys := words[own] == 0
			for p := t - 1; p >= 0; p-- {
				if m := v.items[p].msg; m >= 0 && !(skipSys && c.msgs[m].Role == "system") {
					left = m
					break
				}
			}
			for p := t + 1; p < len(v.items); p++ {
				if m := v.items[p].msg; m >= 0 && !(skipSys && c.msgs[m].Role == "system") {
					right = m
					break
				}
			}
			ok := left == own || right == own
			if words[own] == 0 {
				ok = (left < 0 || left < own) && (right < 0 || right > own)
			}
			if !ok {
				return fail("image-tag-outside-message", fmt.Sprintf("[img-%d] numbers an image of message #%d but stands between the text of messages #%d and #%d", it.k, own, left, right))
			}
		}
	}
	for k, im := range images {
		if im.ID != k {
			return fail("image-id-not-index", fmt.Sprintf("image at index %d of the returned list has ID %d", k, im.ID))
		}
	}
	for t, cnt := range tagCount {
		if t >= len(images) {
			return fail("image-tag-unknown-index", fmt.Sprintf("the prompt contains [img-%d] but only %d images are returned", t, len(images)))
		}
		if cnt != 1 {
			return fail("image-tag-count", fmt.Sprintf("[img-%d] appears %d times in the prompt", t, cnt))
		}
	}
	for k := range images {
		if tagCount[k] != 1 {
			return fail("image-tag-count", fmt.Sprintf("[img-%d] appears %d times in the prompt (%d images returned)", k, tagCount[k], len(images)))
		}
	}
	res.witness = nil
	return res
}

func c19Bucket(n int, caps ...int) int {
	for i, c := range caps {
		if n <= c {
			return i
		}
	}
	return len(caps)
}

func TestVerifC19(t *testing.T) {
	slog.SetDefault(slog.New(slog.NewTextHandler(io.Discard, nil)))
	rep := kit.NewReport("C19")
	cfg := rep.Cfg()
	defer rep.Flush()
	rep.Set("rule", "case i = PRNG(seed,'C19',i): template (10 own styles: legacy x3, messages-range, glued, system-hoisting, tools, index-aware, 2 deliberately non-monotone; + the pinned template/*.gotmpl), model kind (text/vision/mllama with and without projector), tokenizer (words | bytes/3), 1-30 messages with roles in any order, 0-200 unique marker words each, 0-3 images of unique bytes per message, [img] placeholders, num_ctx aimed at a fit boundary (exact / one short / one spare / near / uniform / ample / tiny / a dip of a non-monotone template); the real chatPrompt is called and the returned prompt and image list are read back. Non-trivial = decided cases (the template can show every required message, no error) in which at least one message had to be dropped (expected run starts after message 0); distinct = distinct (template, model kind, tokenizer, start-of-run bucket, run-length bucket, role before the cut, role at the cut, earlier-system-message bucket, kept-image bucket, dropped-image bucket, ctx class)")
	rep.Set("assumptions", []string{
		"'fits' is what the task text defines: tokens of rendering (system messages before i + msgs[i:]) with the model's template and the runner's tokenizer, + 768 (mllama: 1) per image of msgs[i:] when the model has a projector, <= num_ctx",
		"'longest recent run that fits' is read as: extend the run backwards from the latest message while the extended run fits, stop at the first that does not (for monotone token counts this is the longest suffix that fits; the readings differ only for the two deliberately non-monotone template styles, reported under their own signature suffix)",
		"message contents are non-empty unique marker words (image-only user turns excepted), never contain the literal '[img-'",
		"a case is decided only if the template, given exactly the required messages, shows all of them (templates that cannot show a role, or defer system text to a later user turn that does not exist, are counted as undecided, never as violations)",
		"images of system messages that precede the retained run count as images of dropped messages",
		"mllama with a projector: image bytes are re-encoded by the preprocessor, so only the number of images, their IDs and tags are decided; mllama conversations carry at most one image per message",
		"tool calls inside assistant messages are not generated",
	})
	own, pinned, err := c19LoadTemplates()
	if err != nil {
		t.Fatal(err)
	}
	var names []string
	for _, p := range pinned {
		names = append(names, p.Name)
	}
	rep.Set("pinned_templates", names)
	var allTools []api.Tool
	if err := json.Unmarshal([]byte(c19ToolsJSON), &allTools); err != nil {
		t.Fatal(err)
	}

	n := cfg.N(40000, 2000000)
	replayIdx := -1
	if cfg.Replay != "" {
		var rc struct {
			Index int `json:"index"`
		}
		if err := kit.LoadReplay(cfg.Replay, &rc); err != nil {
			t.Fatal(err)
		}
		replayIdx = rc.Index
	}
	for i := 0; i < n; i++ {
		if replayIdx >= 0 && i != replayIdx {
			continue
		}
		if replayIdx < 0 && !cfg.Mine(i) {
			continue
		}
		r := kit.NewRand(cfg.Seed, "C19", i)
		c := c19Gen(r, i, own, pinned, allTools)
		rep.Eval(1)
		res := c19Check(c)
		rep.Count("style:"+c.Style, 1)
		rep.Count("model:"+c.Model, 1)
		switch {
		case res.skip != "":
			rep.Count("undecided:"+res.skip, 1)
			rep.Count("undecided_by_template:"+c.Template, 1)
			if replayIdx >= 0 {
				t.Logf("replay: case %d undecided: %s", i, res.skip)
			}
			continue
		case res.inconcl != "":
			rep.Inconclusive(fmt.Sprintf("case %d: %s", i, res.inconcl))
			continue
		case res.sig != "":
			rep.Violate("c19:"+res.sig, res.what, c, res.witness)
			if replayIdx >= 0 {
				t.Logf("replay: %s: %s", res.sig, res.what)
			}
		}
		L := len(c.msgs)
		rep.Count("decided", 1)
		rep.Count("ctx:"+c.CtxClass, 1)
		switch {
		case L == 1:
			rep.Count("run:single-message-conversation", 1)
		case res.n == 0:
			rep.Count("run:everything-fits", 1)
		case res.n == L-1:
			rep.Count("run:only-latest", 1)
		default:
			rep.Count("run:proper-suffix", 1)
		}
		if res.nonmono {
			rep.Count("nonmonotone_cases(longer_suffix_fits_beyond_a_nonfitting_one)", 1)
			rep.Count("nonmonotone_by_style:"+c.Style, 1)
		}
		sysBefore := 0
		for j := 0; j < res.n; j++ {
			if c.msgs[j].Role == "system" {
				sysBefore++
			}
		}
		if sysBefore > 0 {
			rep.Count("earlier_system_messages_required", 1)
		}
		if res.n > 0 && c.msgs[res.n-1].Role == "system" {
			rep.Count("first_nonfitting_message_is_system", 1)
		}
		if res.kept > 0 {
			rep.Count("images_retained_cases", 1)
		}
		if res.droppedIm > 0 {
			rep.Count("images_dropped_cases", 1)
		}
		if res.n > 0 && L-2 >= 0 {
			if c.counts[res.n-1] == c.NumCtx+1 {
				rep.Count("boundary:first_nonfitting_suffix_one_token_over", 1)
			}
			if res.n <= L-2 && c.counts[res.n] == c.NumCtx {
				rep.Count("boundary:run_fills_context_exactly", 1)
			}
		}
		if res.n > 0 {
			rep.Distinct(fmt.Sprint(c.Template, c.Model, c.Tokenizer, c19Bucket(res.n, 1, 2, 4, 8), c19Bucket(L-res.n, 1, 2, 4, 8),
				c.msgs[res.n-1].Role, c.msgs[res.n].Role, c19Bucket(sysBefore, 0, 1), c19Bucket(res.kept, 0, 1), c19Bucket(res.droppedIm, 0, 1), c.CtxClass))
			if rep.NeedSample() && L <= 5 && res.sig == "" && sysBefore > 0 {
				small := true
				for _, m := range c.Msgs {
					if m.Words > 8 {
						small = false
					}
				}
				if small {
					rep.Sample(c)
				}
			}
		}
	}
	if replayIdx >= 0 && rep.Violations() == 0 {
		t.Logf("replay: case %d holds", replayIdx)
	}
}
