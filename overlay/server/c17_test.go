//go:build verif

package server

// C17: for the same request and the same model output, the concatenation of the streamed response chunks
// equals the single non-streamed response (text, tool calls, finish reason, token counts) however the output
// was split into runner chunks; the OpenAI-compatible endpoints return the same content as the native ones;
// a stream ends with exactly one final message or one error.
//
// Runtime monitor (metamorphic): the real router from Server.GenerateRoutes (gin + the OpenAI middleware),
// a scheduler stubbed the way the pinned tests stub it (loadFn grants a scripted runner), two models created
// through the API in a temporary OLLAMA_MODELS. The scripted runner speaks the protocol of the real
// llmServer.Completion: one callback per non-empty content piece (content only), then one content-less
// Done callback that carries the done reason and the token counts; or it fails after piece k.
// One case = (request shape, model output, split of the output into pieces, fault plan). The reference is the
// native non-streamed response to the same request with the output delivered in ONE piece. Every variant
// (native stream / native non-stream through the real api.Client and, where the request is expressible,
// /v1/chat/completions or /v1/completions stream / non-stream through a raw SSE reader) run with the case's
// split must carry the reference's text, tool-call multiset (name, arguments), finish reason and token counts,
// and must end with exactly one terminal item and nothing after it.

import (
	"bytes"
	"context"
	"crypto/sha256"
	"encoding/json"
	"errors"
	"fmt"
	"io"
	"log/slog"
	"net/http"
	"net/http/httptest"
	"net/url"
	"regexp"
	"sort"
	"strings"
	"sync"
	"testing"
	"time"
	"unicode/utf8"

	kit "verifkit"

	"github.com/gin-gonic/gin"

	"github.com/ollama/ollama/api"
	"github.com/ollama/ollama/discover"
	"github.com/ollama/ollama/fs/ggml"
	"github.com/ollama/ollama/llm"
)

// ------------------------------------------------------------------------------------------------
// scripted runner

type c17Script struct {
	Chunks     []string
	Fault      string // "" | "error" | "silent" | "tokenize"
	FaultAfter int    // error/silent: number of content pieces delivered before the runner gives up
	Done       llm.DoneReason
	P, E       int
}

type c17Seen struct {
	Prompt     string   `json:"prompt"`
	Format     string   `json:"format"`
	Stop       []string `json:"stop"`
	NumPredict int      `json:"num_predict"`
	Calls      int      `json:"calls"`
}

type c17Runner struct {
	llm.LlamaServer // nil: any method the handlers are not expected to call panics
	mu              sync.Mutex
	script          c17Script
	seen            c17Seen
}

const c17ErrMsg = "c17 injected runner failure"

func (m *c17Runner) set(s c17Script) {
	m.mu.Lock()
	m.script = s
	m.seen = c17Seen{}
	m.mu.Unlock()
}

func (m *c17Runner) lastSeen() c17Seen {
	m.mu.Lock()
	defer m.mu.Unlock()
	return m.seen
}

func (m *c17Runner) Completion(ctx context.Context, req llm.CompletionRequest, fn func(llm.CompletionResponse)) error {
	m.mu.Lock()
	s := m.script
	m.seen.Calls++
	m.seen.Prompt = req.Prompt
	m.seen.Format = string(req.Format)
	if req.Options != nil {
		m.seen.Stop = append([]string(nil), req.Options.Stop...)
		m.seen.NumPredict = req.Options.NumPredict
	}
	m.mu.Unlock()
	for i, c := range s.Chunks {
		if i == s.FaultAfter {
			switch s.Fault {
			case "error":
				return errors.New(c17ErrMsg)
			case "silent":
				return nil
			}
		}
		fn(llm.CompletionResponse{Content: c})
	}
	if s.FaultAfter >= len(s.Chunks) {
		switch s.Fault {
		case "error":
			return errors.New(c17ErrMsg)
		case "silent":
			return nil
		}
	}
	fn(llm.CompletionResponse{
		Done: true, DoneReason: s.Done,
		PromptEvalCount: s.P, PromptEvalDuration: time.Duration(1000 + s.P),
		EvalCount: s.E, EvalDuration: time.Duration(2000 + s.E),
	})
	return nil
}

func (m *c17Runner) Tokenize(_ context.Context, s string) ([]int, error) {
	m.mu.Lock()
	f := m.script.Fault
	m.mu.Unlock()
	if f == "tokenize" {
		return nil, errors.New(c17ErrMsg)
	}
	var tokens []int
	for range strings.Fields(s) {
		tokens = append(tokens, len(tokens))
	}
	return tokens, nil
}

func (m *c17Runner) Detokenize(context.Context, []int) (string, error) { return "", nil }
func (m *c17Runner) Ping(context.Context) error                        { return nil }
func (m *c17Runner) WaitUntilRunning(context.Context) error            { return nil }
func (m *c17Runner) Close() error                                      { return nil }
func (m *c17Runner) EstimatedVRAM() uint64                             { return 0 }
func (m *c17Runner) EstimatedTotal() uint64                            { return 0 }
func (m *c17Runner) EstimatedVRAMByGPU(string) uint64                  { return 0 }

// ------------------------------------------------------------------------------------------------
// HTTP plumbing: the router is driven either in-process (a ResponseWriter that records the body) or
// over a real TCP connection (httptest.Server); both ways the complete body is captured first and the
// real api.Client then decodes that same body.

type c17Writer struct {
	hdr    http.Header
	status int
	body   bytes.Buffer
}

func (w *c17Writer) Header() http.Header { return w.hdr }
func (w *c17Writer) WriteHeader(code int) {
	if w.status == 0 {
		w.status = code
	}
}

func (w *c17Writer) Write(b []byte) (int, error) {
	if w.status == 0 {
		w.status = 200
	}
	return w.body.Write(b)
}
func (w *c17Writer) Flush()                   {}
func (w *c17Writer) CloseNotify() <-chan bool { return make(chan bool) }

type c17Capture struct {
	Status int
	CT     string
	Body   []byte
}

type c17Transport struct {
	direct http.Handler      // used when tcp == nil
	tcp    http.RoundTripper // real transport
	tcpURL *url.URL
	last   c17Capture
}

func (t *c17Transport) RoundTrip(req *http.Request) (*http.Response, error) {
	if t.tcp != nil {
		req = req.Clone(req.Context())
		req.URL.Scheme = t.tcpURL.Scheme
		req.URL.Host = t.tcpURL.Host
		req.Host = t.tcpURL.Host
		resp, err := t.tcp.RoundTrip(req)
		if err != nil {
			return nil, err
		}
		b, err := io.ReadAll(resp.Body)
		resp.Body.Close()
		if err != nil {
			return nil, err
		}
		t.last = c17Capture{Status: resp.StatusCode, CT: resp.Header.Get("Content-Type"), Body: b}
		resp.Body = io.NopCloser(bytes.NewReader(b))
		return resp, nil
	}
	w := &c17Writer{hdr: http.Header{}}
	t.direct.ServeHTTP(w, req)
	if w.status == 0 {
		w.status = 200
	}
	b := append([]byte(nil), w.body.Bytes()...)
	t.last = c17Capture{Status: w.status, CT: w.hdr.Get("Content-Type"), Body: b}
	return &http.Response{
		StatusCode: w.status, Status: fmt.Sprintf("%d %s", w.status, http.StatusText(w.status)),
		Proto: "HTTP/1.1", ProtoMajor: 1, ProtoMinor: 1,
		Header: w.hdr.Clone(), Body: io.NopCloser(bytes.NewReader(b)), Request: req,
	}, nil
}

type c17SyncBuf struct {
	mu sync.Mutex
	b  bytes.Buffer
}

func (s *c17SyncBuf) Write(p []byte) (int, error) {
	s.mu.Lock()
	defer s.mu.Unlock()
	if s.b.Len() < 1<<16 {
		s.b.Write(p)
	}
	return len(p), nil
}

func (s *c17SyncBuf) take() string {
	s.mu.Lock()
	defer s.mu.Unlock()
	o := s.b.String()
	s.b.Reset()
	return o
}

type c17World struct {
	runner   *c17Runner
	direct   *c17Transport
	tcp      *c17Transport
	recovery *c17SyncBuf
	refs     map[string]*c17Obs
}

func (w *c17World) transport(tcp bool) *c17Transport {
	if tcp {
		return w.tcp
	}
	return w.direct
}

// model templates: A renders tool calls with the keys name/arguments, B with function/parameters inside
// <tool_call> tags and has a default system prompt. Both know .Tools (tools capability) and .Suffix (insert).
const c17TemplateA = `{{- if .Suffix }}<PRE> {{ .Prompt }} <SUF>{{ .Suffix }} <MID>
{{- else }}
{{- if .System }}system: {{ .System }}
{{ end }}
{{- if .Tools }}tools: {{ .Tools }}
{{ end }}
{{- range .Messages }}{{ .Role }}: {{ .Content }}
{{- range .ToolCalls }}{"name": "{{ .Function.Name }}", "arguments": {{ .Function.Arguments }}}
{{- end }}
{{ end }}assistant: {{ end }}`

const c17TemplateB = `{{- if .Suffix }}[SUFFIX]{{ .Suffix }}[PREFIX]{{ .Prompt }}
{{- else }}
{{- if or .System .Tools }}<|system|>{{ .System }}{{ if .Tools }} You may call: {{ .Tools }}{{ end }}<|end|>
{{ end }}
{{- range .Messages }}<|{{ .Role }}|>{{ .Content }}
{{- range .ToolCalls }}<tool_call>{"function": "{{ .Function.Name }}", "parameters": {{ .Function.Arguments }}}</tool_call>
{{- end }}<|end|>
{{ end }}<|assistant|>{{ end }}`

var c17Keys = map[string][2]string{"c17a": {"name", "arguments"}, "c17b": {"function", "parameters"}}

func c17Setup(t *testing.T) *c17World {
	t.Setenv("OLLAMA_MODELS", t.TempDir())
	t.Setenv("HOME", t.TempDir())
	t.Setenv("OLLAMA_MAX_LOADED_MODELS", "3")
	t.Setenv("OLLAMA_NUM_PARALLEL", "1")
	gin.SetMode(gin.TestMode)
	w := &c17World{runner: &c17Runner{}, recovery: &c17SyncBuf{}, refs: map[string]*c17Obs{}}
	gin.DefaultWriter = io.Discard
	gin.DefaultErrorWriter = w.recovery
	cpu := func() discover.GpuInfoList {
		g := discover.GpuInfo{Library: "cpu"}
		g.TotalMemory = 64 << 30
		g.FreeMemory = 64 << 30
		return discover.GpuInfoList{g}
	}
	s := &Server{sched: &Scheduler{
		pendingReqCh:  make(chan *LlmRequest, 1),
		finishedReqCh: make(chan *LlmRequest, 1),
		expiredCh:     make(chan *runnerRef, 1),
		unloadedCh:    make(chan any, 1),
		loaded:        make(map[string]*runnerRef),
		newServerFn: func(discover.GpuInfoList, string, *ggml.GGML, []string, []string, api.Options, int) (llm.LlamaServer, error) {
			return w.runner, nil
		},
		getGpuFn:     cpu,
		getCpuFn:     cpu,
		reschedDelay: 250 * time.Millisecond,
		loadFn: func(req *LlmRequest, _ *ggml.GGML, _ discover.GpuInfoList, _ int) {
			req.successCh <- &runnerRef{llama: w.runner}
		},
	}}
	ctx, cancel := context.WithCancel(context.Background())
	t.Cleanup(cancel)
	go s.sched.Run(ctx)
	router, err := s.GenerateRoutes(nil)
	if err != nil {
		t.Fatal(err)
	}
	w.direct = &c17Transport{direct: router}
	srv := httptest.NewServer(router)
	t.Cleanup(srv.Close)
	u, _ := url.Parse(srv.URL)
	w.tcp = &c17Transport{tcp: srv.Client().Transport, tcpURL: u}

	// a tiny llama GGUF, uploaded and turned into two models through the API
	ws := &c17MemWS{}
	z := func() io.WriterTo { return bytes.NewReader(make([]byte, 4)) }
	var ts []ggml.Tensor
	for _, n := range []string{"token_embd.weight", "blk.0.attn_norm.weight", "blk.0.ffn_down.weight", "blk.0.ffn_gate.weight", "blk.0.ffn_up.weight", "blk.0.ffn_norm.weight", "blk.0.attn_k.weight", "blk.0.attn_output.weight", "blk.0.attn_q.weight", "blk.0.attn_v.weight", "output.weight"} {
		ts = append(ts, ggml.Tensor{Name: n, Shape: []uint64{1}, WriterTo: z()})
	}
	if err := ggml.WriteGGUF(ws, ggml.KV{
		"general.architecture": "llama", "llama.block_count": uint32(1), "llama.context_length": uint32(8192),
		"llama.embedding_length": uint32(4096), "llama.attention.head_count": uint32(32), "llama.attention.head_count_kv": uint32(8),
		"tokenizer.ggml.tokens": []string{""}, "tokenizer.ggml.scores": []float32{0}, "tokenizer.ggml.token_type": []int32{0},
	}, ts); err != nil {
		t.Fatal(err)
	}
	digest := fmt.Sprintf("sha256:%x", sha256.Sum256(ws.b))
	cl := api.NewClient(&url.URL{Scheme: "http", Host: "c17.local"}, &http.Client{Transport: w.direct})
	if err := cl.CreateBlob(context.Background(), digest, bytes.NewReader(ws.b)); err != nil {
		t.Fatalf("create blob: %v", err)
	}
	for _, m := range []struct{ name, tmpl, system string }{{"c17a", c17TemplateA, ""}, {"c17b", c17TemplateB, "You are B."}} {
		ok := false
		err := cl.Create(context.Background(), &api.CreateRequest{Model: m.name, Files: map[string]string{"model.gguf": digest}, Template: m.tmpl, System: m.system}, func(p api.ProgressResponse) error {
			if p.Status == "success" {
				ok = true
			}
			return nil
		})
		if err != nil || !ok {
			t.Fatalf("create model %s: ok=%v err=%v", m.name, ok, err)
		}
	}
	return w
}

type c17MemWS struct {
	b   []byte
	pos int64
}

func (m *c17MemWS) Write(p []byte) (int, error) {
	end := m.pos + int64(len(p))
	if end > int64(len(m.b)) {
		m.b = append(m.b, make([]byte, end-int64(len(m.b)))...)
	}
	copy(m.b[m.pos:], p)
	m.pos = end
	return len(p), nil
}

func (m *c17MemWS) Seek(off int64, whence int) (int64, error) {
	switch whence {
	case io.SeekStart:
		m.pos = off
	case io.SeekCurrent:
		m.pos += off
	case io.SeekEnd:
		m.pos = int64(len(m.b)) + off
	}
	return m.pos, nil
}

// ------------------------------------------------------------------------------------------------
// cases

type c17Msg struct {
	Role    string `json:"role"`
	Content string `json:"content"`
}

type c17Shape struct {
	Endpoint     string   `json:"endpoint"` // generate | chat
	Model        string   `json:"model"`
	Tools        bool     `json:"tools,omitempty"`
	Format       string   `json:"format,omitempty"` // "" | json | schema
	Stop         []string `json:"stop,omitempty"`
	NumPredict   int      `json:"num_predict,omitempty"`
	Raw          bool     `json:"raw,omitempty"`
	System       string   `json:"system,omitempty"`
	Template     string   `json:"template,omitempty"`
	Suffix       string   `json:"suffix,omitempty"`
	Prompt       string   `json:"prompt,omitempty"`
	Messages     []c17Msg `json:"messages,omitempty"`
	ToolHistory  bool     `json:"tool_history,omitempty"`  // the conversation already holds an assistant tool call and its tool result
	StreamNil    bool     `json:"stream_nil,omitempty"`    // native streaming requested by leaving "stream" out
	IncludeUsage bool     `json:"include_usage,omitempty"` // OpenAI stream_options.include_usage
}

type c17Case struct {
	Index      int      `json:"index"`
	Workload   string   `json:"workload"` // all-splits | upto-k-chunks | random
	Shape      c17Shape `json:"shape"`
	Class      string   `json:"output_class"`
	Output     string   `json:"output"`
	Cuts       []int    `json:"-"` // byte offsets (rune boundaries) at which the output is cut into runner pieces
	Chunks     []string `json:"pieces"`
	Fault      string   `json:"fault,omitempty"`
	FaultAfter int      `json:"fault_after,omitempty"`
	Done       string   `json:"done_reason"`
	P          int      `json:"prompt_eval_count"`
	E          int      `json:"eval_count"`
	TCP        bool     `json:"tcp,omitempty"`
	MidRune    []int    `json:"mid_rune_cuts,omitempty"` // extra cuts inside multi-byte characters: observed and counted, not judged (see assumptions)
}

const c17Schema = `{"type":"object","properties":{"answer":{"type":"string"}},"required":["answer"]}`

const c17ToolsJSON = `[{"type":"function","function":{"name":"get_weather","description":"Get the weather","parameters":{"type":"object","required":["city"],"properties":{"city":{"type":"string","description":"The city"},"unit":{"type":"string","description":"unit","enum":["c","f"]}}}}},{"type":"function","function":{"name":"add","description":"Add numbers","parameters":{"type":"object","required":["a","b"],"properties":{"a":{"type":"number","description":"a"},"b":{"type":"number","description":"b"}}}}}]`

var c17Words = []string{"the", "quick", "brown", "fox", "Hello", "world", "I", "can", "help", "with", "that.", "Sure!", "42", "is", "answer", "ok", "done", "Paris", "x", "y"}
var c17UniWords = []string{"héllo", "wörld", "☃", "日本語", "😀", "naïve", "Ω", "e\u0301", "👍🏽", "—", "ß", "ça"}

func c17Text(r *kit.Rand, n int, uni bool) string {
	var sb strings.Builder
	for i := 0; i < n; i++ {
		if i > 0 {
			sb.WriteString(kit.Pick(r, []string{" ", " ", " ", "\n", ", ", "  "}))
		}
		if uni && r.Chance(1, 2) {
			sb.WriteString(kit.Pick(r, c17UniWords))
		} else {
			sb.WriteString(kit.Pick(r, c17Words))
		}
	}
	return sb.String()
}

func c17JSONValue(r *kit.Rand, depth int, keys [2]string) any {
	k := r.Intn(9)
	if depth >= 3 && k >= 6 {
		k = r.Intn(6)
	}
	switch k {
	case 0:
		return kit.Pick(r, []string{"Paris", "a b", "", "x\"y", "back\\slash", "br{ace}", "[sq]", "tab\there", "line\nbreak", "<b>&amp;</b>", "héllo ☃", "😀", "日本", "\u2028", "}{", "\"}"})
	case 1:
		return float64(r.Range(-50, 1000))
	case 2:
		return kit.Pick(r, []float64{1.5, -0.25, 1e21, 3.14159, 0})
	case 3:
		return r.Bool()
	case 4:
		return nil
	case 5:
		return kit.Pick(r, c17Words)
	case 6:
		n := r.Range(0, 3)
		a := make([]any, n)
		for i := range a {
			a[i] = c17JSONValue(r, depth+1, keys)
		}
		return a
	case 7:
		return c17JSONObject(r, depth+1, keys)
	default:
		// an object that itself looks like a tool call (the parser collects nested objects)
		return map[string]any{keys[0]: kit.Pick(r, []string{"inner", "add"}), keys[1]: c17JSONObject(r, depth+2, keys)}
	}
}

func c17JSONObject(r *kit.Rand, depth int, keys [2]string) map[string]any {
	o := map[string]any{}
	n := r.Range(0, 3)
	for i := 0; i < n; i++ {
		o[kit.Pick(r, []string{"city", "unit", "a", "b", "q", "né", "k y", "x\"", "n"})] = c17JSONValue(r, depth, keys)
	}
	return o
}

// c17Marshal renders v the way a model might: compact or spaced, non-ASCII optionally \u-escaped.
func c17Marshal(r *kit.Rand, v any) string {
	var b bytes.Buffer
	enc := json.NewEncoder(&b)
	enc.SetEscapeHTML(false)
	if r.Chance(1, 4) {
		enc.SetIndent("", kit.Pick(r, []string{" ", "  ", "\t"}))
	}
	enc.Encode(v)
	s := strings.TrimRight(b.String(), "\n")
	if r.Chance(1, 5) {
		var sb strings.Builder
		for _, c := range s {
			if c > 127 && c < 0x10000 {
				fmt.Fprintf(&sb, "\\u%04x", c)
			} else {
				sb.WriteRune(c)
			}
		}
		s = sb.String()
	}
	return s
}

// c17Call renders one tool-call object; key order as a model would emit it (name first), not sorted.
func c17Call(r *kit.Rand, keys [2]string) string {
	name := kit.Pick(r, []string{"get_weather", "add", "f", "búsqueda", "no_such_tool"})
	args := c17Marshal(r, c17JSONObject(r, 0, keys))
	nb, _ := json.Marshal(name)
	sep := kit.Pick(r, []string{"", "", " "})
	if r.Chance(1, 8) {
		return fmt.Sprintf(`{"%s":%s%s,%s"%s":%s%s}`, keys[1], sep, args, sep, keys[0], sep, nb)
	}
	return fmt.Sprintf(`{"%s":%s%s,%s"%s":%s%s}`, keys[0], sep, nb, sep, keys[1], sep, args)
}

func c17GenOutput(r *kit.Rand, model string) (class, out string) {
	keys := c17Keys[model]
	if r.Chance(1, 10) { // the other model's spelling: not a tool call for this model
		keys = c17Keys[map[string]string{"c17a": "c17b", "c17b": "c17a"}[model]]
	}
	classes := []string{"ascii", "ascii", "unicode", "unicode", "json-plain", "tool1", "tool1", "tool2", "tool2", "tool2", "tool3", "tool-pre", "tool-post", "tool-mid", "tool-partial", "tool-tags", "empty", "html", "whitespace", "long", "long-tools"}
	class = kit.Pick(r, classes)
	switch class {
	case "ascii":
		out = c17Text(r, r.Range(1, 12), false)
	case "unicode":
		out = c17Text(r, r.Range(1, 12), true)
	case "json-plain":
		out = c17Marshal(r, map[string]any{"answer": c17JSONValue(r, 1, keys), "n": r.Intn(100)})
	case "tool1":
		out = c17Call(r, keys)
	case "tool2", "tool3":
		n := 2
		if class == "tool3" {
			n = r.Range(3, 5)
		}
		calls := make([]string, n)
		for i := range calls {
			calls[i] = c17Call(r, keys)
		}
		switch r.Intn(6) {
		case 0:
			out = strings.Join(calls, "")
		case 1:
			out = strings.Join(calls, "\n")
		case 2:
			out = "[" + strings.Join(calls, ",") + "]"
		case 3:
			out = `{"tool_calls": [` + strings.Join(calls, ", ") + `]}`
		case 4:
			out = strings.Join(calls, "; ")
		default:
			out = strings.Join(calls, " ")
		}
	case "tool-pre":
		out = c17Text(r, r.Range(1, 6), r.Bool()) + kit.Pick(r, []string{" ", "\n", ": ", ""}) + c17Call(r, keys)
	case "tool-post":
		out = c17Call(r, keys) + kit.Pick(r, []string{" ", "\n", ""}) + c17Text(r, r.Range(1, 6), r.Bool())
	case "tool-mid":
		out = c17Text(r, r.Range(1, 4), false) + " " + c17Call(r, keys) + " " + c17Text(r, r.Range(1, 4), r.Bool()) + " " + c17Call(r, keys)
	case "tool-partial":
		c := c17Call(r, keys)
		if r.Bool() {
			c = c17Call(r, keys) + kit.Pick(r, []string{"", "\n", " "}) + c
		}
		out = c[:c17RuneFloor(c, r.Range(1, len(c)-1))]
	case "tool-tags":
		out = kit.Pick(r, []string{"<tool_call>", "[TOOL_CALLS] ", "<|python_tag|>"}) + c17Call(r, keys) + kit.Pick(r, []string{"</tool_call>", "", "<|eom_id|>"})
		if r.Bool() {
			out += "\n<tool_call>" + c17Call(r, keys) + "</tool_call>"
		}
	case "empty":
		out = ""
	case "html":
		out = kit.Pick(r, []string{"<b>bold</b> & more", "a < b && c > d", "<script>alert(1)</script>", "\u2028 and \u2029", "tab\tquote\" back\\slash"})
	case "whitespace":
		out = kit.Pick(r, []string{" ", "\n", "  \n\n ", " a ", "\n\nHello\n", "\t"})
	case "long":
		out = c17Text(r, r.Range(60, 400), r.Bool())
	case "long-tools":
		var sb strings.Builder
		for i, n := 0, r.Range(4, 12); i < n; i++ {
			sb.WriteString(c17Call(r, keys))
			sb.WriteString(kit.Pick(r, []string{"", "\n", " ", ", "}))
		}
		out = sb.String()
	}
	return class, out
}

func c17RuneFloor(s string, i int) int {
	for i > 0 && i < len(s) && !utf8.RuneStart(s[i]) {
		i--
	}
	return i
}

// c17Boundaries: the byte offsets strictly inside s at which a new rune starts.
func c17Boundaries(s string) []int {
	var b []int
	for i := range s {
		if i > 0 {
			b = append(b, i)
		}
	}
	return b
}

func c17Cut(s string, cuts []int) []string {
	if s == "" {
		return nil
	}
	var out []string
	prev := 0
	for _, c := range cuts {
		out = append(out, s[prev:c])
		prev = c
	}
	return append(out, s[prev:])
}

func c17GenCuts(r *kit.Rand, s string) []int {
	b := c17Boundaries(s)
	if len(b) == 0 {
		return nil
	}
	pick := map[int]bool{}
	switch r.Intn(8) {
	case 0: // one piece
	case 1: // one rune per piece
		for _, p := range b {
			pick[p] = true
		}
	case 2, 3: // a few cuts anywhere
		for i, n := 0, r.Range(1, 6); i < n; i++ {
			pick[kit.Pick(r, b)] = true
		}
	case 4: // a density
		d := kit.Pick(r, []int{2, 3, 5, 10, 25})
		for _, p := range b {
			if r.Chance(1, d) {
				pick[p] = true
			}
		}
	case 5, 6: // around structural characters: right after or one to four bytes after a closing brace, quote, backslash ...
		var st []int
		for _, p := range b {
			switch s[p-1] {
			case '}', ']', '{', '[', '"', '\\', ',', ':':
				st = append(st, p)
			}
		}
		if len(st) == 0 {
			st = b
		}
		for i, n := 0, r.Range(1, 5); i < n; i++ {
			p := kit.Pick(r, st)
			if r.Chance(1, 2) {
				p = c17RuneFloor(s, p+r.Range(1, 6))
				if p <= 0 || p >= len(s) {
					continue
				}
			}
			pick[p] = true
		}
		if r.Chance(1, 3) {
			pick[kit.Pick(r, b)] = true
		}
	case 7: // token-like: cut before spaces and after punctuation
		for _, p := range b {
			c := s[p]
			if (c == ' ' || c == '\n' || c == '{' || c == '"') && r.Chance(3, 4) {
				pick[p] = true
			}
		}
	}
	cuts := make([]int, 0, len(pick))
	for p := range pick {
		if p > 0 && p < len(s) && utf8.RuneStart(s[p]) {
			cuts = append(cuts, p)
		}
	}
	sort.Ints(cuts)
	// the streaming tool path re-parses its whole buffer for every piece: keep the piece count bounded
	for len(cuts) > 250 {
		keep := cuts[:0]
		for i, p := range cuts {
			if i%2 == 0 {
				keep = append(keep, p)
			}
		}
		cuts = keep
	}
	return cuts
}

func c17GenShape(r *kit.Rand) c17Shape {
	sh := c17Shape{Model: kit.Pick(r, []string{"c17a", "c17a", "c17b"})}
	if r.Chance(2, 5) {
		sh.Endpoint = "generate"
		sh.Prompt = c17Text(r, r.Range(1, 6), r.Chance(1, 3))
		switch r.Intn(8) {
		case 0:
			sh.Raw = true
		case 1:
			sh.System = "Be terse."
		case 2:
			sh.Template = "{{ if .System }}S:{{ .System }} {{ end }}P:{{ .Prompt }} R:{{ .Response }}"
		case 3:
			sh.System = "Sys über alles"
			sh.Template = "<<{{ .System }}>> {{ .Prompt }} => "
		case 4:
			sh.Suffix = kit.Pick(r, []string{"return x", "}\n", " end"})
		}
	} else {
		sh.Endpoint = "chat"
		sh.Tools = r.Chance(3, 5)
		if r.Chance(1, 3) {
			sh.Messages = append(sh.Messages, c17Msg{"system", kit.Pick(r, []string{"You are helpful.", "Antworte kurz."})})
		}
		for i, n := 0, r.Range(0, 2); i < n; i++ {
			sh.Messages = append(sh.Messages, c17Msg{"user", c17Text(r, r.Range(1, 5), false)}, c17Msg{"assistant", c17Text(r, r.Range(1, 5), r.Chance(1, 3))})
		}
		sh.ToolHistory = sh.Tools && r.Chance(1, 4)
		sh.Messages = append(sh.Messages, c17Msg{"user", c17Text(r, r.Range(1, 8), r.Chance(1, 3))})
	}
	switch r.Intn(6) {
	case 0:
		sh.Format = "json"
	case 1:
		sh.Format = "schema"
	}
	switch r.Intn(5) {
	case 0:
		sh.Stop = []string{"\n\n"}
	case 1:
		sh.Stop = []string{"</s>", "User:"}
	}
	if r.Chance(1, 4) {
		sh.NumPredict = r.Range(1, 64)
	}
	sh.StreamNil = r.Chance(1, 3)
	sh.IncludeUsage = r.Chance(2, 3)
	return sh
}

func c17GenRandom(r *kit.Rand, idx int) c17Case {
	c := c17Case{Index: idx, Workload: "random"}
	c.Shape = c17GenShape(r)
	c.Class, c.Output = c17GenOutput(r, c.Shape.Model)
	c.Cuts = c17GenCuts(r, c.Output)
	c.Chunks = c17Cut(c.Output, c.Cuts)
	c.Done = kit.Pick(r, []string{"stop", "stop", "stop", "length"})
	c.P, c.E = r.Range(1, 500), r.Range(1, 500)
	c.TCP = r.Chance(1, 8)
	switch f := r.Intn(100); {
	case f < 18:
		c.Fault = "error"
		c.FaultAfter = c17FaultPos(r, len(c.Chunks))
	case f < 21:
		c.Fault = "silent"
		c.FaultAfter = c17FaultPos(r, len(c.Chunks))
	case f < 25 && c.Shape.Endpoint == "generate" && !c.Shape.Raw:
		c.Fault = "tokenize"
	}
	if c.Fault == "" && len(c.Output) > len([]rune(c.Output)) && r.Chance(1, 3) {
		for i := 1; i < len(c.Output); i++ {
			if !utf8.RuneStart(c.Output[i]) && r.Chance(1, 3) {
				c.MidRune = append(c.MidRune, i)
			}
		}
	}
	return c
}

func c17FaultPos(r *kit.Rand, n int) int {
	switch r.Intn(3) {
	case 0:
		return 0
	case 1:
		return n
	}
	return r.Range(0, n)
}

// ---- exhaustive sub-workloads (independent of the seed)

type c17ExhBase struct {
	Shape  c17Shape
	Output string
	Class  string
	MaxK   int // 0: every split; k: every split into at most k pieces
	Tier   int // 0 quick+thorough, 1 thorough only
}

func c17ChatShape(model string, tools bool) c17Shape {
	return c17Shape{Endpoint: "chat", Model: model, Tools: tools, Messages: []c17Msg{{"user", "What is the weather in Paris?"}}, IncludeUsage: true}
}

func c17GenShapeFixed(model string) c17Shape {
	return c17Shape{Endpoint: "generate", Model: model, Prompt: "Say hi", IncludeUsage: true}
}

var c17Exh = []c17ExhBase{
	// every split of outputs of at most 12 bytes
	{Shape: c17GenShapeFixed("c17a"), Output: "Hi there!", Class: "ascii"},
	{Shape: c17ChatShape("c17a", false), Output: "héllo ☃ ok", Class: "unicode"},
	{Shape: c17ChatShape("c17a", true), Output: `{"a":1} ok`, Class: "json-plain"},
	{Shape: c17ChatShape("c17b", true), Output: "Hi <b>&</b>", Class: "html"},
	{Shape: c17GenShapeFixed("c17b"), Output: "Hello world!", Class: "ascii", Tier: 1},
	{Shape: c17ChatShape("c17a", true), Output: `[1,{"b":2}] `, Class: "json-plain", Tier: 1},
	{Shape: c17ChatShape("c17a", false), Output: "日本語 😀", Class: "unicode", Tier: 1},
	// every split into at most 3 (quick) / 4 (thorough) pieces of tool-call outputs
	{Shape: c17ChatShape("c17a", true), Output: `{"name":"get_weather","arguments":{"city":"Paris"}}`, Class: "tool1", MaxK: 3},
	{Shape: c17ChatShape("c17a", true), Output: `{"name":"add","arguments":{"a":1,"b":2}}` + "\n" + `{"name":"f","arguments":{}}`, Class: "tool2", MaxK: 3},
	{Shape: c17ChatShape("c17b", true), Output: `<tool_call>{"function":"f","parameters":{"q":"né"}}</tool_call>`, Class: "tool-tags", MaxK: 3},
	{Shape: c17ChatShape("c17a", true), Output: `Sure! {"name":"f","arguments":{"x":"}{"}} done`, Class: "tool-mid", MaxK: 3},
	{Shape: c17ChatShape("c17a", true), Output: `[{"name":"f","arguments":{}},{"name":"g","arguments":{"k":[1]}}]`, Class: "tool2", MaxK: 3},
	{Shape: c17ChatShape("c17a", false), Output: `{"name":"f","arguments":{}}{"name":"g","arguments":{}}`, Class: "tool2", MaxK: 3},
	{Shape: c17ChatShape("c17a", true), Output: `{"name":"f","arguments":{}}{"name":"g","arguments":{}}`, Class: "tool2", MaxK: 4, Tier: 1},
	{Shape: c17ChatShape("c17a", true), Output: `{"name":"get_weather","arguments":{"city":"Paris"}}`, Class: "tool1", MaxK: 4, Tier: 1},
}

type c17ExhEntry struct {
	base  int
	count int
}

func c17Binom(n, k int) int {
	if k < 0 || k > n {
		return 0
	}
	res := 1
	for i := 0; i < k; i++ {
		res = res * (n - i) / (i + 1)
	}
	return res
}

// c17ExhPlan lists, for the tier, how many cases each exhaustive base contributes.
func c17ExhPlan(thorough bool) (plan []c17ExhEntry, total int) {
	for i, b := range c17Exh {
		if b.Tier == 1 && !thorough {
			continue
		}
		nb := len(c17Boundaries(b.Output))
		n := 0
		if b.MaxK == 0 {
			n = 1 << nb
		} else {
			for k := 0; k < b.MaxK; k++ {
				n += c17Binom(nb, k)
			}
		}
		plan = append(plan, c17ExhEntry{i, n})
		total += n
	}
	return plan, total
}

// c17ExhCase decodes exhaustive case number j.
func c17ExhCase(plan []c17ExhEntry, j, idx int) c17Case {
	for _, e := range plan {
		if j >= e.count {
			j -= e.count
			continue
		}
		b := c17Exh[e.base]
		bd := c17Boundaries(b.Output)
		var cuts []int
		wl := "all-splits"
		if b.MaxK == 0 {
			for k, p := range bd {
				if j>>uint(k)&1 == 1 {
					cuts = append(cuts, p)
				}
			}
		} else {
			wl = fmt.Sprintf("upto-%d-chunks", b.MaxK)
			k := 0
			for ; j >= c17Binom(len(bd), k); k++ {
				j -= c17Binom(len(bd), k)
			}
			// j-th k-subset of bd in lexicographic order
			start := 0
			for need := k; need > 0; need-- {
				for p := start; p < len(bd); p++ {
					c := c17Binom(len(bd)-p-1, need-1)
					if j < c {
						cuts = append(cuts, bd[p])
						start = p + 1
						break
					}
					j -= c
				}
			}
		}
		return c17Case{Index: idx, Workload: wl, Shape: b.Shape, Class: b.Class, Output: b.Output, Cuts: cuts,
			Chunks: c17Cut(b.Output, cuts), Done: "stop", P: 11, E: 7}
	}
	panic("c17: exhaustive index out of range")
}

// ------------------------------------------------------------------------------------------------
// observations

type c17Obs struct {
	Variant    string   `json:"variant"`
	Status     int      `json:"status"`
	Text       string   `json:"text"`
	Tools      []string `json:"tool_calls"` // sorted "name args-as-canonical-JSON"
	Finish     string   `json:"finish"`
	P          int      `json:"prompt_tokens"`
	E          int      `json:"completion_tokens"`
	HasUsage   bool     `json:"has_usage"`
	Items      int      `json:"items"`
	Finals     int      `json:"final_items"` // native: done:true messages; OpenAI: chunks with a finish_reason
	DoneMarks  int      `json:"done_markers"`
	Errors     int      `json:"error_items"`
	AfterTerm  int      `json:"items_after_terminal"`
	ErrMsg     string   `json:"error_message,omitempty"`
	Malformed  string   `json:"malformed,omitempty"`
	ClientErr  string   `json:"client_error,omitempty"`
	ClientDiff string   `json:"client_view_differs,omitempty"`
	ClientN    int      `json:"client_items"`
	Seen       c17Seen  `json:"runner_saw"`
	Panic      string   `json:"panic,omitempty"`
	Raw        string   `json:"raw_body_tail"`
}

func c17Canon(name string, args any) string {
	b, err := json.Marshal(args)
	if err != nil {
		return name + " !unmarshalable:" + err.Error()
	}
	return name + " " + string(b)
}

func c17Tail(b []byte) string {
	if len(b) > 1500 {
		return "..." + string(b[len(b)-1500:])
	}
	return string(b)
}

func c17NativeToolCalls(tcs []api.ToolCall) []string {
	var out []string
	for _, tc := range tcs {
		out = append(out, c17Canon(tc.Function.Name, map[string]any(tc.Function.Arguments)))
	}
	return out
}

func (w *c17World) script(c c17Case, chunks []string, fault string) {
	d := llm.DoneReasonStop
	if c.Done == "length" {
		d = llm.DoneReasonLength
	}
	w.runner.set(c17Script{Chunks: chunks, Fault: fault, FaultAfter: c.FaultAfter, Done: d, P: c.P, E: c.E})
}

func c17Options(sh c17Shape) map[string]any {
	o := map[string]any{}
	if len(sh.Stop) > 0 {
		o["stop"] = sh.Stop
	}
	if sh.NumPredict > 0 {
		o["num_predict"] = sh.NumPredict
	}
	return o
}

func c17Format(sh c17Shape) json.RawMessage {
	switch sh.Format {
	case "json":
		return json.RawMessage(`"json"`)
	case "schema":
		return json.RawMessage(c17Schema)
	}
	return nil
}

func c17Tools() api.Tools {
	var t api.Tools
	if err := json.Unmarshal([]byte(c17ToolsJSON), &t); err != nil {
		panic(err)
	}
	return t
}

// native runs /api/generate or /api/chat through the real api.Client and also decodes the raw body.
func (w *c17World) native(c c17Case, stream bool, chunks []string, fault string, tcp bool) (o *c17Obs) {
	sh := c.Shape
	o = &c17Obs{Variant: sh.Endpoint + map[bool]string{true: "-stream", false: "-nonstream"}[stream]}
	w.script(c, chunks, fault)
	tr := w.transport(tcp)
	tr.last = c17Capture{}
	cl := api.NewClient(&url.URL{Scheme: "http", Host: "c17.local"}, &http.Client{Transport: tr})
	var sp *bool
	if !stream {
		f := false
		sp = &f
	} else if !sh.StreamNil {
		t := true
		sp = &t
	}
	var clientText strings.Builder
	var clientTools []string
	var clientFinish string
	var clientP, clientE, clientDone int
	var err error
	if sh.Endpoint == "generate" {
		req := &api.GenerateRequest{Model: sh.Model, Prompt: sh.Prompt, Suffix: sh.Suffix, System: sh.System, Template: sh.Template, Raw: sh.Raw, Stream: sp, Format: c17Format(sh), Options: c17Options(sh)}
		err = cl.Generate(context.Background(), req, func(r api.GenerateResponse) error {
			o.ClientN++
			clientText.WriteString(r.Response)
			if r.Done {
				clientDone++
				clientFinish, clientP, clientE = r.DoneReason, r.PromptEvalCount, r.EvalCount
			}
			return nil
		})
	} else {
		req := &api.ChatRequest{Model: sh.Model, Stream: sp, Format: c17Format(sh), Options: c17Options(sh)}
		for i, m := range sh.Messages {
			if sh.ToolHistory && i == len(sh.Messages)-1 {
				req.Messages = append(req.Messages,
					api.Message{Role: "user", Content: "weather in Paris?"},
					api.Message{Role: "assistant", ToolCalls: []api.ToolCall{{Function: api.ToolCallFunction{Name: "get_weather", Arguments: api.ToolCallFunctionArguments{"city": "Paris"}}}}},
					api.Message{Role: "tool", Content: "22 C"})
			}
			req.Messages = append(req.Messages, api.Message{Role: m.Role, Content: m.Content})
		}
		if sh.Tools {
			req.Tools = c17Tools()
		}
		err = cl.Chat(context.Background(), req, func(r api.ChatResponse) error {
			o.ClientN++
			clientText.WriteString(r.Message.Content)
			clientTools = append(clientTools, c17NativeToolCalls(r.Message.ToolCalls)...)
			if r.Done {
				clientDone++
				clientFinish, clientP, clientE = r.DoneReason, r.PromptEvalCount, r.EvalCount
			}
			return nil
		})
	}
	if err != nil {
		o.ClientErr = err.Error()
	}
	o.Seen = w.runner.lastSeen()
	o.Panic = c17PanicSite(w.recovery.take())
	cap := tr.last
	o.Status = cap.Status
	o.Raw = c17Tail(cap.Body)
	// raw view: NDJSON lines
	var rawText strings.Builder
	var rawTools []string
	var preErrItems int
	var preErrText string
	termSeen := false
	for _, line := range bytes.Split(cap.Body, []byte("\n")) {
		if len(bytes.TrimSpace(line)) == 0 {
			continue
		}
		o.Items++
		if termSeen {
			o.AfterTerm++
		}
		var probe struct {
			Error *json.RawMessage `json:"error"`
			Done  bool             `json:"done"`
		}
		if e := json.Unmarshal(line, &probe); e != nil {
			o.Malformed = "line is not a JSON object: " + e.Error()
			continue
		}
		if probe.Error != nil {
			if o.Errors == 0 {
				preErrItems, preErrText = o.Items-1, rawText.String()
			}
			o.Errors++
			termSeen = true
			var s string
			if json.Unmarshal(*probe.Error, &s) == nil {
				o.ErrMsg = s
			} else {
				o.ErrMsg = string(*probe.Error)
			}
			continue
		}
		if sh.Endpoint == "generate" {
			var r api.GenerateResponse
			if e := json.Unmarshal(line, &r); e != nil {
				o.Malformed = "line does not decode as GenerateResponse: " + e.Error()
				continue
			}
			rawText.WriteString(r.Response)
			if r.Done {
				o.Finals++
				termSeen = true
				o.Finish, o.P, o.E, o.HasUsage = r.DoneReason, r.PromptEvalCount, r.EvalCount, true
			}
		} else {
			var r api.ChatResponse
			if e := json.Unmarshal(line, &r); e != nil {
				o.Malformed = "line does not decode as ChatResponse: " + e.Error()
				continue
			}
			rawText.WriteString(r.Message.Content)
			rawTools = append(rawTools, c17NativeToolCalls(r.Message.ToolCalls)...)
			if r.Done {
				o.Finals++
				termSeen = true
				o.Finish, o.P, o.E, o.HasUsage = r.DoneReason, r.PromptEvalCount, r.EvalCount, true
			}
		}
	}
	// the verdict on content uses what the api.Client delivered; the raw view must agree with it
	o.Text = clientText.String()
	o.Tools = clientTools
	sort.Strings(o.Tools)
	sort.Strings(rawTools)
	if o.Malformed == "" {
		switch {
		case o.Errors == 0 && cap.Status < 400 && (o.ClientErr != "" || o.ClientN != o.Items || o.Text != rawText.String() || !c17SameStrings(o.Tools, rawTools) || clientDone != o.Finals || (o.Finals > 0 && (clientFinish != o.Finish || clientP != o.P || clientE != o.E))):
			o.ClientDiff = fmt.Sprintf("api.Client view differs from the body: client err=%q items=%d text=%q tools=%v done=%d; body items=%d text=%q tools=%v done=%d", o.ClientErr, o.ClientN, o.Text, o.Tools, clientDone, o.Items, rawText.String(), rawTools, o.Finals)
		case (o.Errors > 0 || cap.Status >= 400) && o.ClientErr == "":
			o.ClientDiff = "body carries an error (or status >= 400) but api.Client returned no error"
		case o.Errors > 0 && cap.Status < 400 && (o.ClientN != preErrItems || o.Text != preErrText):
			o.ClientDiff = fmt.Sprintf("api.Client delivered %d responses (text %q) before returning the error; the body has %d items (text %q) before its error line", o.ClientN, o.Text, preErrItems, preErrText)
		}
	}
	return o
}

type c17OAIChunk struct {
	Error   *json.RawMessage `json:"error"`
	Object  string           `json:"object"`
	Choices []struct {
		Text  *string `json:"text"`
		Delta *struct {
			Content   any               `json:"content"`
			ToolCalls []json.RawMessage `json:"tool_calls"`
		} `json:"delta"`
		Message *struct {
			Content   any               `json:"content"`
			ToolCalls []json.RawMessage `json:"tool_calls"`
		} `json:"message"`
		FinishReason *string `json:"finish_reason"`
	} `json:"choices"`
	Usage *struct {
		PromptTokens     int `json:"prompt_tokens"`
		CompletionTokens int `json:"completion_tokens"`
		TotalTokens      int `json:"total_tokens"`
	} `json:"usage"`
}

func c17OAITool(raw json.RawMessage) (string, error) {
	var tc struct {
		Type     string `json:"type"`
		Function struct {
			Name      string `json:"name"`
			Arguments string `json:"arguments"`
		} `json:"function"`
	}
	if err := json.Unmarshal(raw, &tc); err != nil {
		return "", err
	}
	var args any
	if err := json.Unmarshal([]byte(tc.Function.Arguments), &args); err != nil {
		return "", fmt.Errorf("tool call arguments %q are not JSON: %v", tc.Function.Arguments, err)
	}
	return c17Canon(tc.Function.Name, args), nil
}

// c17Expressible: can the request be put to the OpenAI-compatible endpoint without losing a field?
func c17Expressible(sh c17Shape) bool {
	if sh.Endpoint == "chat" {
		return true
	}
	return !sh.Raw && sh.System == "" && sh.Template == "" && sh.Format == ""
}

func (w *c17World) openai(c c17Case, stream bool, chunks []string, fault string, tcp bool) (o *c17Obs) {
	sh := c.Shape
	body := map[string]any{"model": sh.Model, "stream": stream}
	path := "/v1/chat/completions"
	name := "openai-chat"
	if sh.Endpoint == "generate" {
		path, name = "/v1/completions", "openai-completions"
		body["prompt"] = sh.Prompt
		if sh.Suffix != "" {
			body["suffix"] = sh.Suffix
		}
	} else {
		var msgs []map[string]any
		for i, m := range sh.Messages {
			if sh.ToolHistory && i == len(sh.Messages)-1 {
				msgs = append(msgs,
					map[string]any{"role": "user", "content": "weather in Paris?"},
					map[string]any{"role": "assistant", "tool_calls": []any{map[string]any{"id": "call_c17", "type": "function", "function": map[string]any{"name": "get_weather", "arguments": `{"city":"Paris"}`}}}},
					map[string]any{"role": "tool", "content": "22 C", "tool_call_id": "call_c17"})
			}
			msgs = append(msgs, map[string]any{"role": m.Role, "content": m.Content})
		}
		body["messages"] = msgs
		if sh.Tools {
			body["tools"] = json.RawMessage(c17ToolsJSON)
		}
		switch sh.Format {
		case "json":
			body["response_format"] = map[string]any{"type": "json_object"}
		case "schema":
			body["response_format"] = map[string]any{"type": "json_schema", "json_schema": map[string]any{"schema": json.RawMessage(c17Schema)}}
		}
	}
	if len(sh.Stop) > 0 {
		body["stop"] = sh.Stop
	}
	if sh.NumPredict > 0 {
		body["max_tokens"] = sh.NumPredict
	}
	if stream && sh.IncludeUsage {
		body["stream_options"] = map[string]any{"include_usage": true}
	}
	o = &c17Obs{Variant: name + map[bool]string{true: "-stream", false: "-nonstream"}[stream]}
	w.script(c, chunks, fault)
	tr := w.transport(tcp)
	tr.last = c17Capture{}
	bb, _ := json.Marshal(body)
	req, _ := http.NewRequest(http.MethodPost, "http://c17.local"+path, bytes.NewReader(bb))
	req.Header.Set("Content-Type", "application/json")
	resp, err := (&http.Client{Transport: tr}).Do(req)
	if err != nil {
		o.Malformed = "request failed: " + err.Error()
		return o
	}
	resp.Body.Close()
	o.Seen = w.runner.lastSeen()
	o.Panic = c17PanicSite(w.recovery.take())
	cap := tr.last
	o.Status = cap.Status
	o.Raw = c17Tail(cap.Body)
	var text strings.Builder
	absorb := func(ch *c17OAIChunk, isStream bool) {
		if ch.Usage != nil && (!isStream || len(ch.Choices) == 0) {
			o.HasUsage = true
			o.P, o.E = ch.Usage.PromptTokens, ch.Usage.CompletionTokens
			if ch.Usage.TotalTokens != ch.Usage.PromptTokens+ch.Usage.CompletionTokens {
				o.Malformed = "usage.total_tokens is not the sum"
			}
		}
		for _, cc := range ch.Choices {
			var content any
			var tcs []json.RawMessage
			switch {
			case cc.Text != nil:
				content = *cc.Text
			case cc.Delta != nil:
				content, tcs = cc.Delta.Content, cc.Delta.ToolCalls
			case cc.Message != nil:
				content, tcs = cc.Message.Content, cc.Message.ToolCalls
			}
			switch v := content.(type) {
			case string:
				text.WriteString(v)
			case nil:
			default:
				o.Malformed = fmt.Sprintf("content is %T, not a string", v)
			}
			for _, t := range tcs {
				s, err := c17OAITool(t)
				if err != nil {
					o.Malformed = err.Error()
					continue
				}
				o.Tools = append(o.Tools, s)
			}
			if o.Finals > 0 && isStream {
				o.AfterTerm++ // a choice after the chunk that carried finish_reason
			}
			if cc.FinishReason != nil {
				o.Finals++
				o.Finish = *cc.FinishReason
			}
		}
	}
	if !stream || (len(cap.Body) > 0 && !strings.HasPrefix(cap.CT, "text/event-stream")) {
		// one JSON document (non-streamed answer, or an error sent before streaming began)
		o.Items = 1
		var ch c17OAIChunk
		if e := json.Unmarshal(cap.Body, &ch); e != nil {
			o.Malformed = "body is not one JSON document: " + e.Error()
			return o
		}
		if ch.Error != nil {
			o.Errors = 1
			o.ErrMsg = c17OAIErr(*ch.Error)
		} else {
			absorb(&ch, false)
		}
		if stream && o.Errors == 0 {
			o.Malformed = "streaming requested but the answer is not an event stream (content-type " + cap.CT + ")"
		}
		o.Text = text.String()
		sort.Strings(o.Tools)
		return o
	}
	// SSE: events separated by a blank line, each "data: <payload>"
	termSeen := false
	for _, ev := range strings.Split(string(cap.Body), "\n\n") {
		if strings.TrimSpace(ev) == "" {
			continue
		}
		o.Items++
		if termSeen {
			o.AfterTerm++
		}
		payload, ok := strings.CutPrefix(ev, "data: ")
		if !ok || strings.Contains(payload, "\n") {
			o.Malformed = fmt.Sprintf("event is not a single data line: %q", ev)
			continue
		}
		if payload == "[DONE]" {
			o.DoneMarks++
			termSeen = true
			continue
		}
		var ch c17OAIChunk
		if e := json.Unmarshal([]byte(payload), &ch); e != nil {
			o.Malformed = "event payload is not JSON: " + e.Error()
			continue
		}
		if ch.Error != nil {
			o.Errors++
			o.ErrMsg = c17OAIErr(*ch.Error)
			termSeen = true
			continue
		}
		absorb(&ch, true)
	}
	o.Text = text.String()
	sort.Strings(o.Tools)
	return o
}

func c17OAIErr(raw json.RawMessage) string {
	var e struct {
		Message string `json:"message"`
	}
	if json.Unmarshal(raw, &e) == nil && e.Message != "" {
		return e.Message
	}
	var s string
	if json.Unmarshal(raw, &s) == nil {
		return s
	}
	return string(raw)
}

// c17PanicSite extracts "panic value @ file" from gin's recovery log ("" when nothing was recovered).
func c17PanicSite(log string) string {
	if !strings.Contains(log, "panic recovered") {
		return ""
	}
	site := "unknown-site"
	for _, line := range strings.Split(log, "\n") {
		line = strings.TrimSpace(line)
		if (strings.Contains(line, "/server/") || strings.Contains(line, "/openai/") || strings.Contains(line, "/api/")) && strings.Contains(line, ".go:") && !strings.Contains(line, "zz_verif") && !strings.Contains(line, "gin-gonic") {
			f := line
			if i := strings.Index(f, ".go:"); i >= 0 {
				f = f[:i+3]
			}
			if j := strings.LastIndex(f, "/"); j >= 0 {
				if k := strings.LastIndex(f[:j], "/"); k >= 0 {
					f = f[k+1:]
				}
			}
			site = f
			break
		}
	}
	val := ""
	if i := strings.Index(log, "panic recovered:"); i >= 0 {
		rest := log[i+len("panic recovered:"):]
		for _, l := range strings.Split(rest, "\n") {
			l = strings.TrimSpace(l)
			if l != "" && !strings.Contains(l, "HTTP/1.1") && !strings.Contains(l, ": ") {
				val = l
				break
			}
		}
		if val == "" {
			val = strings.TrimSpace(strings.SplitN(rest, "\n", 3)[1])
		}
	}
	val = regexp.MustCompile(`0x[0-9a-f]+|\d+`).ReplaceAllString(val, "N")
	if len(val) > 60 {
		val = val[:60]
	}
	return site + ":" + strings.ReplaceAll(val, " ", "-")
}

func c17SameStrings(a, b []string) bool {
	if len(a) != len(b) {
		return false
	}
	for i := range a {
		if a[i] != b[i] {
			return false
		}
	}
	return true
}

// ------------------------------------------------------------------------------------------------
// oracle

type c17Finding struct {
	Sig  string
	What string
	Obs  *c17Obs
}

// c17SpansObjects: does some runner piece close a top-level JSON value of the output and also open the next one
// without closing it? (an independent bracket scan; used only to name the class of a tool-call violation)
func c17SpansObjects(out string, cuts []int) bool {
	depth, inStr, esc := 0, false, false
	cut := map[int]bool{}
	for _, c := range cuts {
		cut[c] = true
	}
	closedInPiece := false
	for i := 0; i < len(out); i++ {
		if cut[i] {
			if closedInPiece && depth > 0 {
				return true
			}
			closedInPiece = false
		}
		ch := out[i]
		if inStr {
			switch {
			case esc:
				esc = false
			case ch == '\\':
				esc = true
			case ch == '"':
				inStr = false
			}
			continue
		}
		switch ch {
		case '"':
			if depth > 0 {
				inStr = true
			}
		case '{', '[':
			depth++
		case '}', ']':
			if depth > 0 {
				depth--
				if depth == 0 {
					closedInPiece = true
				}
			}
		}
	}
	return false
}

func (w *c17World) reference(c c17Case) *c17Obs {
	kb, _ := json.Marshal(struct {
		S    c17Shape
		O, D string
		P, E int
	}{c.Shape, c.Output, c.Done, c.P, c.E})
	key := string(kb)
	if r, ok := w.refs[key]; ok {
		return r
	}
	var one []string
	if c.Output != "" {
		one = []string{c.Output}
	}
	r := w.native(c, false, one, "", false)
	r.Variant = "reference(" + r.Variant + ", one piece)"
	if len(w.refs) > 4096 {
		w.refs = map[string]*c17Obs{}
	}
	w.refs[key] = r
	return r
}

func c17ExpectFinish(ref *c17Obs, openai bool) string {
	if openai && len(ref.Tools) > 0 {
		return "tool_calls"
	}
	return ref.Finish
}

// judge compares one observation with the reference under the case's fault plan.
func c17Judge(c c17Case, ref, o *c17Obs, stream, openai bool, fault string) (fs []c17Finding) {
	add := func(kind, what string) {
		fs = append(fs, c17Finding{Sig: "c17:" + o.Variant + ":" + kind, What: o.Variant + ": " + what, Obs: o})
	}
	if o.Panic != "" {
		add("panic:"+o.Panic, "handler panicked (recovered by gin): "+o.Panic)
		return
	}
	if o.Malformed != "" {
		add("malformed", o.Malformed)
		return
	}
	if o.ClientDiff != "" {
		add("api-client-view-differs", o.ClientDiff)
		return
	}
	if o.Seen.Calls != 1 {
		add("runner-calls", fmt.Sprintf("the runner's Completion was called %d times for one request (status %d, error %q)", o.Seen.Calls, o.Status, o.ErrMsg))
		return
	}
	term := o.Finals + o.Errors
	if openai && stream {
		term = o.Errors
		if o.Finals > 0 || o.DoneMarks > 0 {
			term++
		}
	}
	cond := map[string]string{"": "", "error": ":runner-error", "tokenize": ":tokenize-error", "silent": ":runner-ended-without-done"}[fault]
	if stream {
		if o.Status != 200 {
			add("status"+cond, fmt.Sprintf("stream answered with status %d", o.Status))
			return
		}
		switch {
		case term == 0:
			add("no-terminal-item"+cond, fmt.Sprintf("the stream ended after %d items without a final message and without an error", o.Items))
			return
		case term > 1:
			add("multiple-terminal-items"+cond, fmt.Sprintf("final items %d, [DONE] markers %d, error items %d", o.Finals, o.DoneMarks, o.Errors))
			return
		case openai && o.Errors == 0 && (o.Finals != 1 || o.DoneMarks != 1):
			add("terminal-item-count"+cond, fmt.Sprintf("chunks with finish_reason %d, [DONE] markers %d (want 1 and 1)", o.Finals, o.DoneMarks))
			return
		case o.AfterTerm > 0:
			add("data-after-terminal"+cond, fmt.Sprintf("%d items follow the terminal item", o.AfterTerm))
			return
		}
		if openai && o.Errors == 0 {
			// finish_reason chunk, optional usage chunk, [DONE]: [DONE] must be the very last event
			if !strings.HasSuffix(strings.TrimRight(o.Raw, "\n"), "data: [DONE]") {
				add("data-after-terminal"+cond, "[DONE] is not the last event")
				return
			}
		}
	}
	switch fault {
	case "error", "tokenize":
		if o.Errors != 1 {
			add("success-on-error"+cond, fmt.Sprintf("the runner failed but the response carries no error (status %d, final items %d)", o.Status, o.Finals))
			return
		}
		if !stream && o.Status < 400 {
			add("status"+cond, fmt.Sprintf("error reported with status %d", o.Status))
		}
		if !strings.Contains(o.ErrMsg, c17ErrMsg) {
			add("error-message"+cond, fmt.Sprintf("error item does not carry the runner's message: %q", o.ErrMsg))
		}
		return
	case "silent":
		// a runner that ends without Done and without an error: only the terminal rule above is judged
		return
	}
	if o.Errors != 0 || o.Status != 200 {
		add("error-on-success", fmt.Sprintf("no fault injected but the response is an error: status %d %q", o.Status, o.ErrMsg))
		return
	}
	if !stream && o.Finals != 1 {
		add("no-terminal-item", fmt.Sprintf("non-streamed response is not final (done/finish_reason missing): finals=%d", o.Finals))
		return
	}
	if o.Text != ref.Text {
		add("text-differs", fmt.Sprintf("text %q, reference %q", o.Text, ref.Text))
	}
	if !c17SameStrings(o.Tools, ref.Tools) {
		cls := ":other"
		if c17SpansObjects(c.Output, c.Cuts) {
			cls = ":piece-closes-one-object-and-opens-next"
		}
		add("tool-calls-differ"+cls, fmt.Sprintf("tool calls %v, reference %v", o.Tools, ref.Tools))
	}
	if want := c17ExpectFinish(ref, openai); o.Finish != want {
		add("finish-reason-differs", fmt.Sprintf("finish reason %q, want %q (reference done_reason %q, %d tool calls)", o.Finish, want, ref.Finish, len(ref.Tools)))
	}
	if o.HasUsage && (o.P != ref.P || o.E != ref.E) {
		add("token-counts-differ", fmt.Sprintf("prompt/eval counts %d/%d, reference %d/%d", o.P, o.E, ref.P, ref.E))
	}
	if !o.HasUsage && !(openai && stream && !c.Shape.IncludeUsage) {
		add("token-counts-missing", "no token counts in the final item")
	}
	return
}

func c17JSONEqual(a, b string) bool {
	if a == b {
		return true
	}
	var x, y any
	if json.Unmarshal([]byte(a), &x) != nil || json.Unmarshal([]byte(b), &y) != nil {
		return false
	}
	xb, _ := json.Marshal(x)
	yb, _ := json.Marshal(y)
	return bytes.Equal(xb, yb)
}

// c17Run executes one case and returns its findings.
func (w *c17World) run(c c17Case, rep *kit.Report) (fs []c17Finding, ref *c17Obs) {
	ref = w.reference(c)
	// the reference itself: a final, error-free answer that reports the runner's counts and reason
	if ref.Panic != "" || ref.Malformed != "" || ref.Status != 200 || ref.Errors != 0 || ref.Finals != 1 {
		fs = append(fs, c17Finding{Sig: "c17:reference:not-a-final-answer", What: fmt.Sprintf("non-streamed one-piece run is not a final answer: status %d errors %d finals %d malformed %q panic %q", ref.Status, ref.Errors, ref.Finals, ref.Malformed, ref.Panic), Obs: ref})
		return
	}
	if ref.P != c.P || ref.E != c.E || ref.Finish != c.Done {
		fs = append(fs, c17Finding{Sig: "c17:reference:runner-metadata-lost", What: fmt.Sprintf("reference reports %d/%d %q, the runner reported %d/%d %q", ref.P, ref.E, ref.Finish, c.P, c.E, c.Done), Obs: ref})
	}
	if len(ref.Tools) == 0 && ref.Text != c.Output {
		fs = append(fs, c17Finding{Sig: "c17:reference:text-differs", What: fmt.Sprintf("no tool calls recognised, yet the non-streamed text %q is not the model output %q", ref.Text, c.Output), Obs: ref})
	}
	if len(ref.Tools) > 0 {
		rep.Count("ref_with_tool_calls", 1)
	}
	var nat [2]*c17Obs
	for si, stream := range []bool{true, false} {
		o := w.native(c, stream, c.Chunks, c.Fault, c.TCP)
		nat[si] = o
		rep.Count("requests:"+o.Variant, 1)
		rep.Count("stream_items:"+o.Variant, o.Items)
		fs = append(fs, c17Judge(c, ref, o, stream, false, c.Fault)...)
	}
	if c17Expressible(c.Shape) {
		for si, stream := range []bool{true, false} {
			o := w.openai(c, stream, c.Chunks, c.Fault, c.TCP)
			rep.Count("requests:"+o.Variant, 1)
			rep.Count("stream_items:"+o.Variant, o.Items)
			fs = append(fs, c17Judge(c, ref, o, stream, true, c.Fault)...)
			// the same request must reach the runner: prompt, format, stop, num_predict
			n := nat[si].Seen
			if o.Seen.Calls == 1 && n.Calls == 1 && (o.Seen.Prompt != n.Prompt || !c17JSONEqual(o.Seen.Format, n.Format) || !c17SameStrings(o.Seen.Stop, n.Stop) || o.Seen.NumPredict != n.NumPredict) {
				if !(c.Shape.NumPredict == 0 && o.Seen.Prompt == n.Prompt && c17JSONEqual(o.Seen.Format, n.Format) && c17SameStrings(o.Seen.Stop, n.Stop)) {
					fs = append(fs, c17Finding{Sig: "c17:" + o.Variant + ":runner-request-differs", What: fmt.Sprintf("the runner saw %+v through the OpenAI endpoint and %+v through the native one", o.Seen, n), Obs: o})
				}
			}
		}
	} else {
		rep.Count("openai_not_expressible", 1)
	}
	if len(c.MidRune) > 0 {
		// pieces that are not valid UTF-8 cannot come out of the real runner; what the handlers do with
		// them is recorded for the notes, only a panic counts
		cuts := append(append([]int(nil), c.Cuts...), c.MidRune...)
		sort.Ints(cuts)
		pieces := c17Cut(c.Output, cuts)
		for _, stream := range []bool{true, false} {
			o := w.native(c, stream, pieces, "", false)
			switch {
			case o.Panic != "":
				fs = append(fs, c17Finding{Sig: "c17:" + o.Variant + ":panic:" + o.Panic, What: "handler panicked on pieces cut inside a multi-byte character", Obs: o})
			case o.Text == ref.Text && c17SameStrings(o.Tools, ref.Tools):
				rep.Count("midrune:"+o.Variant+":same-result", 1)
			default:
				rep.Count("midrune:"+o.Variant+":different-result(not-judged)", 1)
			}
		}
	}
	return
}

func c17Bucket(n int) string {
	switch {
	case n <= 3:
		return fmt.Sprint(n)
	case n <= 8:
		return "4-8"
	case n <= 32:
		return "9-32"
	}
	return "33+"
}

func TestVerifC17(t *testing.T) {
	slog.SetDefault(slog.New(slog.NewTextHandler(io.Discard, nil)))
	rep := kit.NewReport("C17")
	cfg := rep.Cfg()
	defer rep.Flush()
	rep.Set("rule", "case = (request shape, model output, split, fault plan). Indices [0,X) enumerate the exhaustive sub-workloads (seed-independent): every split at rune boundaries of fixed outputs of <=12 bytes, and every split into <=3 (quick) / <=4 (thorough) pieces of fixed tool-call outputs; indices >= X are PRNG(seed,'C17',i): generate/chat x model c17a/c17b x tools x format none/json/schema x stop x num_predict x raw/system/template/suffix x 21 output classes (text, unicode, JSON, 1-5 tool calls in six layouts, text before/after/between calls, truncated calls, tagged calls, HTML, whitespace, long) x 8 cut strategies x fault none / runner error after piece k / runner ends without Done after piece k / tokenizer error at Done. Each case runs native stream + non-stream through api.Client and (if expressible) the OpenAI endpoint stream + non-stream, and compares with the native non-streamed one-piece reference. Non-trivial & distinct = distinct (endpoint, tools, format, stop, raw/system/template/suffix, output class, piece-count bucket, piece-spans-two-objects, fault kind and position class, reference-has-tool-calls, done reason, transport) among cases whose output was delivered in >=2 pieces or that had a fault injected. At most 3 violations per signature and shard are reported in full; further ones are counted under repeat:<sig>")
	rep.Set("assumptions", []string{
		"the scripted runner follows llmServer.Completion's protocol: one callback per non-empty content piece (content only), then one content-less Done callback with done reason stop|length and the token counts; a failing runner returns an error (or nil without Done) after k pieces",
		"runner pieces are valid UTF-8 strings (they cross a JSON boundary between runner process and server, and C14 covers the runner side); splits are therefore taken at rune boundaries",
		"tool calls are compared as a multiset of (name, arguments as canonical JSON); the streaming-only index and the random OpenAI call ids are ignored",
		"OpenAI finish_reason is expected to be tool_calls when the reference has tool calls, else the native done_reason; OpenAI streamed usage is only compared when stream_options.include_usage was requested",
		"templates whose tool-call object has exactly one string-valued and one object-valued key (parseToolCalls picks the keys by map iteration otherwise)",
	})
	w := c17Setup(t)
	plan, nExh := c17ExhPlan(cfg.Tier == "thorough")
	nRand := cfg.N(6000, 500000)
	total := nExh + nRand
	rep.Set("exhaustive_subworkload_cases", nExh)
	rep.Set("random_cases", nRand)
	replayIdx := -1
	if cfg.Replay != "" {
		var rc struct {
			Index int `json:"index"`
		}
		if err := kit.LoadReplay(cfg.Replay, &rc); err != nil {
			t.Fatal(err)
		}
		replayIdx = rc.Index
	}
	reported := map[string]int{}
	for i := 0; i < total; i++ {
		if replayIdx >= 0 && i != replayIdx {
			continue
		}
		if replayIdx < 0 && !cfg.Mine(i) {
			continue
		}
		if replayIdx < 0 && (rep.Enough() || rep.OverBudget()) {
			break
		}
		var c c17Case
		if i < nExh {
			c = c17ExhCase(plan, i, i)
		} else {
			c = c17GenRandom(kit.NewRand(cfg.Seed, "C17", i), i)
		}
		if jb, err := json.Marshal(c); err == nil {
			rep.Journal(jb)
		}
		rep.Eval(1)
		fs, ref := w.run(c, rep)
		seenSig := map[string]bool{}
		for _, f := range fs {
			if seenSig[f.Sig] {
				continue
			}
			seenSig[f.Sig] = true
			reported[f.Sig]++
			if reported[f.Sig] > 3 && replayIdx < 0 {
				rep.Count("repeat:"+f.Sig, 1)
				continue
			}
			rep.Violate(f.Sig, f.What, c, map[string]any{"observation": f.Obs, "reference": ref})
			if replayIdx >= 0 {
				t.Logf("replay: %s: %s", f.Sig, f.What)
			}
		}
		rep.Count("workload:"+c.Workload, 1)
		rep.Count("pieces_total", len(c.Chunks))
		if c.Fault != "" {
			rep.Count("fault:"+c.Fault, 1)
		}
		spans := c17SpansObjects(c.Output, c.Cuts)
		if spans {
			rep.Count("piece_spans_two_objects", 1)
		}
		if len(c.Chunks) >= 2 || c.Fault != "" {
			sh := c.Shape
			fpos := ""
			if c.Fault == "error" || c.Fault == "silent" {
				switch {
				case c.FaultAfter == 0:
					fpos = "first"
				case c.FaultAfter >= len(c.Chunks):
					fpos = "end"
				default:
					fpos = "mid"
				}
			}
			rep.Distinct(fmt.Sprint(sh.Endpoint, sh.Model, sh.Tools, sh.ToolHistory, sh.Format, len(sh.Stop) > 0, sh.Raw, sh.System != "", sh.Template != "", sh.Suffix != "", c.Class, c17Bucket(len(c.Chunks)), spans, c.Fault, fpos, ref != nil && len(ref.Tools) > 0, c.Done, c.TCP))
		}
		if rep.NeedSample() && i >= nExh && len(c.Chunks) >= 2 && len(c.Output) < 120 {
			rep.Sample(c)
		}
	}
	if replayIdx >= 0 && rep.Violations() == 0 {
		t.Logf("replay: case %d holds", replayIdx)
	}
}
