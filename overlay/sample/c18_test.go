//go:build verif

package sample

// C18: the sampler returns an admissible token, deterministically under a seed.
//
// Monitor: the real NewSampler(...).Sample(logits) (grammar == nil) is run on generated logit vectors and
// parameter combinations; every returned (id, err) is judged by a float64 reference of the statement:
//   - some finite logit, no NaN, no +Inf, finite parameters  ==> err == nil, 0 <= id < len, logits[id] > -Inf
//   - temperature == 0                                       ==> logits[id] == max
//   - temperature  > 0                                       ==> logits[id] >= k-th largest logit, and the token is
//     inside the top-p prefix and above the min-p threshold of the temperature-scaled softmax over the top-k
//     survivors (ties admit every tied token; thresholds carry a derived float32 error bound, see c18Ref)
//   - same seed, same inputs ==> same (id, err) sequence from a second sampler, also built and run concurrently.
// Outside that domain (NaN / +Inf logits, all -Inf, NaN or +Inf parameters) only: no panic; error, or id in range
// and, when some logit is finite, logits[id] != -Inf.

import (
	"fmt"
	"io"
	"log/slog"
	"math"
	"math/rand/v2"
	"regexp"
	"runtime/debug"
	"sort"
	"strconv"
	"strings"
	"sync"
	"testing"

	kit "verifkit"
)

const c18Eps = 1.0 / (1 << 24) // float32 unit round-off

// ---------------------------------------------------------------------------------------------
// case generation

type c18Case struct {
	Index      int      `json:"index"`
	N          int      `json:"n"`
	Style      []string `json:"style"`
	Temp       string   `json:"temperature"`
	TopK       int      `json:"top_k"`
	TopP       string   `json:"top_p"`
	MinP       string   `json:"min_p"`
	Seed       int      `json:"seed"`
	Draws      int      `json:"draws"`
	Concurrent bool     `json:"concurrent"`
	Logits     []string `json:"logits,omitempty"` // first vector, only when short
	TopLogits  []string `json:"top_logits,omitempty"`

	vecs             [][]float32
	temp, topP, minP float32
}

func c18F(f float32) string { return strconv.FormatFloat(float64(f), 'g', -1, 32) }

var (
	c18NaN    = float32(math.NaN())
	c18PosInf = float32(math.Inf(1))
	c18NegInf = float32(math.Inf(-1))
)

func c18LogUniform(r *kit.Rand, lo, hi float64) float32 {
	return float32(math.Exp(math.Log(lo) + r.Float64()*(math.Log(hi)-math.Log(lo))))
}

func c18GenLen(r *kit.Rand) int {
	switch x := r.Intn(100); {
	case x < 5:
		return 1
	case x < 40:
		return r.Range(2, 8)
	case x < 75:
		return r.Range(9, 64)
	case x < 93:
		return r.Range(65, 600)
	case x < 99:
		return r.Range(601, 4000)
	default:
		if r.Chance(1, 4) {
			return kit.Pick(r, []int{32000, 32768, 50257, 65536})
		}
		return r.Range(4001, 50000)
	}
}

// c18GenLogits returns one vector of length n and the name of the recipe.
func c18GenLogits(r *kit.Rand, n int) ([]float32, string) {
	v := make([]float32, n)
	var style string
	switch r.Intn(9) {
	case 0:
		style = "normal"
		sd := kit.Pick(r, []float64{0.01, 1, 3, 10, 30, 1000})
		for i := range v {
			v[i] = float32(r.NormFloat64() * sd)
		}
	case 1:
		style = "palette" // few distinct values: many ties, also at the top-k boundary
		pal := make([]float32, r.Range(1, 4))
		sd := kit.Pick(r, []float64{0.5, 2, 8})
		for i := range pal {
			pal[i] = float32(r.NormFloat64() * sd)
		}
		for i := range v {
			v[i] = kit.Pick(r, pal)
		}
	case 2:
		style = "peaked"
		for i := range v {
			v[i] = float32(r.NormFloat64())
		}
		for j := r.Range(1, 3); j > 0; j-- {
			v[r.Intn(n)] += float32(5 + 25*r.Float64())
		}
	case 3:
		style = "ulps" // values a few float32 ulps apart
		b := float32(r.NormFloat64() * 10)
		for i := range v {
			x := b
			for j := r.Intn(4); j > 0; j-- {
				x = math.Nextafter32(x, c18PosInf)
			}
			v[i] = x
		}
	case 4:
		style = "huge"
		mags := []float32{1e30, 1e31, 4e31, 1e32, 1e35, 1e38, 3e38, math.MaxFloat32}
		for i := range v {
			switch r.Intn(4) {
			case 0:
				v[i] = kit.Pick(r, mags)
			case 1:
				v[i] = -kit.Pick(r, mags)
			case 2:
				v[i] = kit.Pick(r, mags) * r.Float32()
			default:
				v[i] = float32(r.NormFloat64() * 5)
			}
		}
	case 5:
		style = "tiny" // denormals and near-zero
		for i := range v {
			switch r.Intn(4) {
			case 0:
				v[i] = math.SmallestNonzeroFloat32 * float32(r.Intn(1000))
			case 1:
				v[i] = -1e-40 * r.Float32()
			case 2:
				v[i] = 0
			default:
				v[i] = float32(r.NormFloat64() * 1e-6)
			}
		}
	case 6, 7:
		style = "llm" // bulk around 0, a handful of candidates well above
		for i := range v {
			v[i] = float32(r.NormFloat64() * 2.5)
		}
		for j := r.Range(1, 6); j > 0; j-- {
			v[r.Intn(n)] = float32(8 + 10*r.Float64())
		}
	default:
		style = "ladder" // evenly spaced, step chosen so that the filters cut inside the vector
		step := float32(kit.Pick(r, []float64{0.05, 0.25, 1, 3}))
		for i, p := range r.Perm(n) {
			v[i] = -step * float32(p)
		}
	}
	return v, style
}

func c18Overlay(r *kit.Rand, v []float32) string {
	n := len(v)
	switch x := r.Intn(100); {
	case x < 30: // masking with -Inf, as a grammar / logit bias would
		var keep int
		switch r.Intn(5) {
		case 0:
			keep = 1
		case 1:
			keep = 2
		case 2:
			keep = n / 2
		case 3:
			keep = n - 1
		default:
			keep = r.Range(1, n)
		}
		if keep < 1 {
			keep = 1
		}
		for _, i := range r.Perm(n)[min(keep, n):] {
			v[i] = c18NegInf
		}
		return "masked"
	case x < 34:
		for j := r.Range(1, 3); j > 0; j-- {
			v[r.Intn(n)] = c18NaN
		}
		if r.Bool() {
			for j := r.Range(1, n); j > 0; j-- {
				v[r.Intn(n)] = c18NegInf
			}
		}
		return "nan"
	case x < 37:
		for j := r.Range(1, 2); j > 0; j-- {
			v[r.Intn(n)] = c18PosInf
		}
		return "posinf"
	case x < 39:
		for i := range v {
			v[i] = c18NegInf
		}
		return "all-neginf"
	case x < 41:
		for i := range v {
			if r.Chance(1, 3) {
				v[i] = kit.Pick(r, []float32{c18NaN, c18PosInf, c18NegInf})
			}
		}
		return "mixed-hostile"
	}
	return ""
}

func c18GenTemp(r *kit.Rand) float32 {
	switch x := r.Intn(100); {
	case x < 11:
		return 0
	case x < 13:
		return float32(math.Copysign(0, -1))
	case x < 16:
		return kit.Pick(r, []float32{-1, -1e-9, -0.5, c18NegInf, -3e38})
	case x < 26:
		return kit.Pick(r, []float32{1e-45, 1e-30, 1e-9, 9.9e-8, 1e-7, 1.1e-7, 1e-6, 1e-5, 1e-4})
	case x < 38:
		return c18LogUniform(r, 1e-3, 0.3)
	case x < 74:
		return float32(0.3 + 1.2*r.Float64())
	case x < 84:
		return float32(1.5 + 8.5*r.Float64())
	case x < 91:
		return kit.Pick(r, []float32{100, 1e4, 1e10, 1e30, 3e38, math.MaxFloat32})
	case x < 97:
		return c18LogUniform(r, 1e-8, 1e8)
	default:
		return kit.Pick(r, []float32{c18NaN, c18PosInf})
	}
}

func c18GenTopK(r *kit.Rand, n int) int {
	switch x := r.Intn(100); {
	case x < 25:
		return kit.Pick(r, []int{0, 0, -1, -5})
	case x < 35:
		return 1
	case x < 60:
		return r.Range(2, min(max(n, 2), 10))
	case x < 72:
		return kit.Pick(r, []int{20, 40, 64, 100})
	case x < 82:
		return kit.Pick(r, []int{n - 1, n, n + 1})
	case x < 95:
		return r.Range(1, 2*n)
	default:
		return kit.Pick(r, []int{math.MaxInt, math.MinInt, math.MaxInt32})
	}
}

func c18GenTopP(r *kit.Rand) float32 {
	switch x := r.Intn(100); {
	case x < 22:
		return 1
	case x < 44:
		return kit.Pick(r, []float32{0.9, 0.95, 0.99, 0.5})
	case x < 72:
		return r.Float32()
	case x < 82:
		return kit.Pick(r, []float32{0, 1e-10, 1e-3, 0.999999, 0.99999994})
	case x < 90:
		return kit.Pick(r, []float32{1.5, 1e30, c18PosInf, 1.0000001})
	case x < 97:
		return kit.Pick(r, []float32{-0.1, c18NegInf, -1e-30})
	default:
		return c18NaN
	}
}

func c18GenMinP(r *kit.Rand) float32 {
	switch x := r.Intn(100); {
	case x < 33:
		return 0
	case x < 58:
		return kit.Pick(r, []float32{0.05, 0.1, 0.01, 0.2})
	case x < 80:
		return r.Float32()
	case x < 88:
		return kit.Pick(r, []float32{1, 0.999999, 1e-10, 0.5, 1e-30})
	case x < 93:
		return kit.Pick(r, []float32{1.5, c18PosInf})
	case x < 97:
		return kit.Pick(r, []float32{-0.5, c18NegInf})
	default:
		return c18NaN
	}
}

func c18GenSeed(r *kit.Rand) int {
	switch x := r.Intn(100); {
	case x < 4:
		return -1 // "no seed": the sampler uses the global generator, determinism is not promised
	case x < 14:
		return kit.Pick(r, []int{0, 1, 42})
	case x < 19:
		return -r.Range(2, 1<<30)
	case x < 24:
		return int(r.Uint64() >> 1)
	default:
		return r.Intn(1 << 31)
	}
}

func c18Gen(r *kit.Rand, idx int) *c18Case {
	c := &c18Case{Index: idx}
	n := c18GenLen(r)
	c.N = n
	nv := 1
	if r.Chance(1, 4) {
		nv = 2
	}
	for i := 0; i < nv; i++ {
		var v []float32
		var st string
		if i == 1 && r.Bool() {
			// second vector = permutation of the first (same multiset, other ids)
			v = append([]float32(nil), c.vecs[0]...)
			kit.Shuffle(r, v)
			st = "permuted"
		} else {
			v, st = c18GenLogits(r, n)
			if o := c18Overlay(r, v); o != "" {
				st += "+" + o
			}
		}
		c.vecs = append(c.vecs, v)
		c.Style = append(c.Style, st)
	}
	c.temp = c18GenTemp(r)
	c.TopK = c18GenTopK(r, n)
	c.topP = c18GenTopP(r)
	c.minP = c18GenMinP(r)
	c.Seed = c18GenSeed(r)
	c.Temp, c.TopP, c.MinP = c18F(c.temp), c18F(c.topP), c18F(c.minP)
	switch {
	case n <= 64:
		c.Draws = 64
	case n <= 4000:
		c.Draws = 24
	default:
		c.Draws = 6
	}
	c.Concurrent = r.Chance(1, 8)
	if n <= 48 {
		for _, x := range c.vecs[0] {
			c.Logits = append(c.Logits, c18F(x))
		}
	} else {
		s := append([]float32(nil), c.vecs[0]...)
		sort.Slice(s, func(i, j int) bool { return s[i] > s[j] || (s[i] == s[i] && s[j] != s[j]) })
		for _, x := range s[:12] {
			c.TopLogits = append(c.TopLogits, c18F(x))
		}
	}
	return c
}

// ---------------------------------------------------------------------------------------------
// reference

// c18Ref is the float64 reference for one (vector, parameters) pair.
//
// Tolerances (so that float32 rounding inside the sampler can never be an alarm): with T = max(temperature, 1e-7)
// (the code's clamp; a higher temperature only enlarges the admissible set) and x = logit/T, any float32 evaluation of
// the exponent x_r - x_0 — dividing first (the pinned code) or subtracting the maximum first — is within
// delta_r = 4*eps*(|x_r|+|x_0|) + 1e-6 of the exact value (0 for tokens tied with the maximum), eps = 2^-24. So the
// unnormalised weight of rank r lies in [lo_r, hi_r] = [exp(e_r-delta_r), exp(min(0, e_r+delta_r))].
//   - min-p: the code keeps a token only if p_r >= fl(p_0*minP); p_r/p_0 = w_r(1±4eps)  → inadmissible iff hi_r(1+16eps) + 1e-36*K < minP
//     (the absolute term covers probabilities in the float32 denormal range).
//   - top-p: the code keeps position j only if the float32 running sum over positions < j is <= topP; that sum is at least
//     the mass of the strictly larger logits, whose smallest possible value is S_lo = G/(G+R), G = Σ_{v>v_j} lo, R = Σ_{v<=v_j} hi,
//     up to (2K+16)eps of accumulated float32 summation error (K summands in the softmax denominator, ≤K in the running sum)
//     → inadmissible iff S_lo(1-(2K+16)eps) > topP.
//   - top-k: exact, logits[id] >= k-th largest logit (ties at the boundary admit every tied token).
type c18Ref struct {
	n                            int
	hasNaN, hasPosInf, anyFinite bool
	max                          float32 // NaN entries ignored
	paramsFinite                 bool
	domain                       bool
	greedy, negTemp              bool
	// temperature > 0 on the domain
	K        int
	sorted   []float64 // the K survivors, descending
	kth      float64
	next     float64 // the (K+1)-th largest logit, -Inf when top-k keeps everything
	T        float64
	p, m     float64
	gLo, rHi []float64
	hi       []float64
	tolS     float64
	overflow string // "", "max-to-+Inf", "all-to--Inf": what float32 logit/T does to the survivors
	// per-filter size of the admissible prefix of `sorted` (for coverage only)
	admitP, admitM, admitAll int
	finite                   int
}

func c18NewRef(logits []float32, temp float32, topK int, topP, minP float32) *c18Ref {
	ref := &c18Ref{n: len(logits), max: c18NegInf}
	for _, x := range logits {
		switch {
		case x != x:
			ref.hasNaN = true
			continue
		case math.IsInf(float64(x), 1):
			ref.hasPosInf = true
		case !math.IsInf(float64(x), -1):
			ref.anyFinite = true
			ref.finite++
		}
		if x > ref.max {
			ref.max = x
		}
	}
	// what NewSampler does with the parameters (documented clamps)
	if temp < 0 {
		ref.negTemp = true
		temp = 0
	}
	ref.greedy = temp == 0
	if topP < 0 {
		topP = 0
	}
	if topP >= 1 {
		topP = 1
	}
	if minP < 0 {
		minP = 0
	}
	if minP >= 1 {
		minP = 1
	}
	ref.paramsFinite = temp == temp && !math.IsInf(float64(temp), 0) && topP == topP && minP == minP
	if ref.greedy {
		// the filters and the generator are not consulted at temperature 0
		ref.domain = !ref.hasNaN && ref.anyFinite
		return ref
	}
	ref.domain = !ref.hasNaN && !ref.hasPosInf && ref.anyFinite && ref.paramsFinite
	if !ref.domain {
		return ref
	}
	s := make([]float64, len(logits))
	for i, x := range logits {
		s[i] = float64(x)
	}
	sort.Sort(sort.Reverse(sort.Float64Slice(s)))
	K := len(s)
	if topK > 0 && topK < K {
		K = topK
	}
	ref.next = math.Inf(-1)
	if K < len(s) {
		ref.next = s[K]
	}
	s = s[:K]
	ref.K, ref.sorted, ref.kth = K, s, s[K-1]
	t32 := max(temp, float32(1e-7))
	ref.T = float64(t32)
	ref.p, ref.m = float64(topP), float64(minP)
	ref.tolS = float64(2*K+16) * c18Eps
	if x0 := float32(s[0]) / t32; math.IsInf(float64(x0), 1) {
		ref.overflow = "max-to-+Inf"
	} else if math.IsInf(float64(x0), -1) {
		ref.overflow = "all-to--Inf"
	}
	v0 := s[0]
	lo := make([]float64, K)
	ref.hi = make([]float64, K)
	for r, v := range s {
		switch {
		case v == v0:
			lo[r], ref.hi[r] = 1, 1
		case math.IsInf(v, -1):
			lo[r], ref.hi[r] = 0, 0
		default:
			e := (v - v0) / ref.T
			d := 4*c18Eps*(math.Abs(v)+math.Abs(v0))/ref.T + 1e-6
			lo[r] = math.Exp(e - d)
			ref.hi[r] = math.Exp(math.Min(0, e+d))
		}
	}
	ref.gLo = make([]float64, K+1)
	for r := 0; r < K; r++ {
		ref.gLo[r+1] = ref.gLo[r] + lo[r]
	}
	ref.rHi = make([]float64, K+1)
	for r := K - 1; r >= 0; r-- {
		ref.rHi[r] = ref.rHi[r+1] + ref.hi[r]
	}
	// coverage: how many survivors each filter admits
	for r := 0; r < K; r++ {
		if math.IsInf(s[r], -1) {
			break
		}
		g := ref.firstLE(s[r])
		okP := !ref.cutByTopP(g)
		okM := !ref.cutByMinP(r)
		if okP {
			ref.admitP++
		}
		if okM {
			ref.admitM++
		}
		if okP && okM {
			ref.admitAll++
		}
	}
	return ref
}

// firstLE is the number of survivors strictly greater than v.
func (ref *c18Ref) firstLE(v float64) int {
	return sort.Search(ref.K, func(i int) bool { return ref.sorted[i] <= v })
}

func (ref *c18Ref) sLo(g int) float64 {
	G, R := ref.gLo[g], ref.rHi[g]
	if G+R == 0 {
		return 0
	}
	return G / (G + R)
}

func (ref *c18Ref) cutByTopP(g int) bool {
	return ref.p < 1 && g > 0 && ref.sLo(g)*(1-ref.tolS) > ref.p
}

func (ref *c18Ref) cutByMinP(rank int) bool {
	return ref.hi[rank]*(1+16*c18Eps)+1e-36*float64(ref.K) < ref.m // second term: float32 denormal probabilities
}

// judge returns "" when (id, err) is allowed for this vector, otherwise the violation kind and a description.
// lowest reports that the token is the smallest admissible logit value (the draw sat on the boundary of the set).
func (ref *c18Ref) judge(logits []float32, id int32, err error) (sig, what string, lowest bool) {
	if !ref.domain {
		if err != nil {
			return "", "", false
		}
		if id < 0 || int(id) >= ref.n {
			return "id-out-of-range", fmt.Sprintf("id %d returned without error for %d logits", id, ref.n), false
		}
		if ref.anyFinite && math.IsInf(float64(logits[id]), -1) {
			return "neg-inf-token", fmt.Sprintf("id %d has logit -Inf although %d logits are finite (input has NaN=%v +Inf=%v)", id, ref.finite, ref.hasNaN, ref.hasPosInf), false
		}
		return "", "", false
	}
	if err != nil {
		cls := "other-error"
		if strings.Contains(err.Error(), "NaN") {
			cls = "nan-without-overflow"
			if ref.overflow != "" {
				cls = "nan-after-temperature-overflow"
			}
		}
		return "error-on-finite-logits:" + cls, fmt.Sprintf("Sample returned error %q although %d logits are finite and none is NaN/+Inf (max logit %s, T=%g, float32 max/T: %s)", err, ref.finite, c18F(ref.max), ref.T, ref.overflow), false
	}
	if id < 0 || int(id) >= ref.n {
		return "id-out-of-range", fmt.Sprintf("id %d returned for %d logits", id, ref.n), false
	}
	x := logits[id]
	if math.IsInf(float64(x), -1) {
		return "neg-inf-token", fmt.Sprintf("id %d has logit -Inf although %d logits are finite", id, ref.finite), false
	}
	if ref.greedy {
		if ref.negTemp {
			return "", "", false // statement speaks of temperature zero only
		}
		if x != ref.max {
			return "greedy-not-max", fmt.Sprintf("temperature 0: id %d has logit %s, maximum is %s", id, c18F(x), c18F(ref.max)), false
		}
		return "", "", false
	}
	v := float64(x)
	if v < ref.kth {
		return "outside-top-k", fmt.Sprintf("id %d logit %s is below the %d-th largest logit %g", id, c18F(x), ref.K, ref.kth), false
	}
	g := ref.firstLE(v)
	if ref.cutByTopP(g) {
		return "outside-top-p", fmt.Sprintf("id %d logit %s: the %d strictly larger logits already hold probability >= %.9g (lower bound, tolerance %.3g) > top_p %g", id, c18F(x), g, ref.sLo(g), ref.tolS, ref.p), false
	}
	if ref.cutByMinP(g) {
		return "outside-min-p", fmt.Sprintf("id %d logit %s: p/p_max <= %.9g (upper bound) < min_p %g", id, c18F(x), ref.hi[g], ref.m), false
	}
	// boundary: the next smaller distinct finite value is excluded by top-p / min-p, or by top-k
	nx := sort.Search(ref.K, func(i int) bool { return ref.sorted[i] < v })
	if nx < ref.K && !math.IsInf(ref.sorted[nx], -1) {
		lowest = ref.cutByTopP(nx) || ref.cutByMinP(nx)
	} else if nx == ref.K {
		lowest = !math.IsInf(ref.next, -1) && ref.next < v // smallest survivor of a binding top-k
	}
	return "", "", lowest
}

// ---------------------------------------------------------------------------------------------
// running the code under test

type c18Src struct {
	vals []uint64
	i    int
}

func (s *c18Src) Uint64() uint64 { v := s.vals[s.i%len(s.vals)]; s.i++; return v }

var c18Digits = regexp.MustCompile(`0x[0-9a-f]+|-?\d+`)

// c18PanicSig names the innermost frame of package sample (harness frames excluded) and the panic kind.
func c18PanicSig(p any) string {
	st := string(debug.Stack())
	if i := strings.Index(st, "\npanic("); i >= 0 {
		st = st[i:]
	}
	site := "?"
	for _, line := range strings.Split(st, "\n") {
		if !strings.HasPrefix(line, "github.com/ollama/ollama/sample.") {
			continue
		}
		name := strings.TrimPrefix(line, "github.com/ollama/ollama/")
		if i := strings.LastIndex(name, "("); i > 0 {
			name = name[:i] // drop the argument list (hex words in it must not be mistaken for harness names)
		}
		if !strings.Contains(name, "c18") && !strings.Contains(name, "Verif") {
			site = name
			break
		}
	}
	kind := c18Digits.ReplaceAllString(fmt.Sprint(p), "N")
	if len(kind) > 60 {
		kind = kind[:60]
	}
	return "panic:" + site + ":" + kind
}

type c18Obs struct {
	id  int32
	err error
}

func (o c18Obs) String() string {
	if o.err != nil {
		return "err(" + o.err.Error() + ")"
	}
	return strconv.Itoa(int(o.id))
}

// c18Draw is one call of the real Sample with panics turned into a signature.
func c18Draw(s *Sampler, logits []float32) (o c18Obs, psig, pwhat string) {
	defer func() {
		if p := recover(); p != nil {
			psig, pwhat = c18PanicSig(p), fmt.Sprint("panic: ", p)
		}
	}()
	id, err := s.Sample(logits)
	return c18Obs{id, err}, "", ""
}

// c18Seq runs `draws` calls on a fresh sampler; draw d uses vector d mod len(vecs).
func c18Seq(c *c18Case) (seq []c18Obs, psig, pwhat string) {
	s := NewSampler(c.temp, c.TopK, c.topP, c.minP, c.Seed, nil)
	seq = make([]c18Obs, 0, c.Draws)
	for d := 0; d < c.Draws; d++ {
		o, ps, pw := c18Draw(&s, c.vecs[d%len(c.vecs)])
		if ps != "" {
			return seq, ps, fmt.Sprintf("draw %d: %s", d, pw)
		}
		seq = append(seq, o)
	}
	return seq, "", ""
}

func c18SameSeq(a, b []c18Obs) (int, bool) {
	for i := 0; i < len(a) || i < len(b); i++ {
		if i >= len(a) || i >= len(b) {
			return i, false
		}
		if a[i].id != b[i].id || (a[i].err == nil) != (b[i].err == nil) || (a[i].err != nil && a[i].err.Error() != b[i].err.Error()) {
			return i, false
		}
	}
	return 0, true
}

func c18SeqText(s []c18Obs) string {
	parts := make([]string, len(s))
	for i, o := range s {
		parts[i] = o.String()
	}
	return strings.Join(parts, " ")
}

// directed values of the 24-bit uniform variate: 0, the largest value, values just below 1 (they select the
// lowest-probability survivors, i.e. the tokens next to the boundary of the admissible set) and a few arbitrary ones.
func c18Directed(r *kit.Rand) []uint64 {
	const top = 1<<24 - 1
	v := []uint64{0, top, top - 1, top - (1 << 10), top - (1 << 17), top - (1 << 21), 1 << 23, 1}
	for i := 0; i < 4; i++ {
		v = append(v, r.Uint64()&top)
	}
	return v
}

type c18Stats struct {
	ids      map[int32]struct{}
	boundary int
}

func TestVerifC18(t *testing.T) {
	slog.SetDefault(slog.New(slog.NewTextHandler(io.Discard, nil)))
	rep := kit.NewReport("C18")
	cfg := rep.Cfg()
	defer rep.Flush()
	rep.Set("rule", "case i = PRNG(seed,'C18',i): 1-2 logit vectors of length 1..65536 (9 recipes: normal, few-valued with ties, peaked, ulp-apart, magnitudes up to MaxFloat32, denormals, llm-like, ladder; overlays: -Inf masking, NaN, +Inf, all -Inf) x temperature (0, -0, negative, 1e-45..MaxFloat32, NaN, +Inf) x top-k (<=0, 1, .., >len, MaxInt) x top-p, min-p (in and outside [0,1], NaN) x seed (incl. -1, 0, negative, 2^62). Every case: `draws` calls of the real NewSampler(..).Sample on a seeded sampler, the same again on a second sampler (1/8 of the cases: two more, built and run concurrently), then 12 calls with the sampler's generator replaced by scripted 24-bit variates (0, 2^24-1, just below 1, random). Every returned (id, err) is judged by the float64 reference. Non-trivial & distinct = distinct (length bucket, recipe, temperature bucket, which of top-k/top-p/min-p exclude at least one finite-logit token, -Inf masking present, tie at the top-k boundary, number of distinct ids returned bucket) among guaranteed-domain cases with temperature > 0 in which at least one filter excludes a finite-logit token, at least 2 tokens are admissible and the draws returned at least 2 distinct ids")
	rep.Set("assumptions", []string{
		"grammar == nil (grammar-constrained sampling is llama.cpp via cgo and needs a vocabulary file)",
		"guaranteed domain = no NaN logit, no +Inf logit (temperature > 0), at least one finite logit, finite temperature, top-p and min-p not NaN; outside it only: no panic, error or id in range whose logit is not -Inf when a finite logit exists",
		"temperatures in (0, 1e-7) are judged as 1e-7 (the code's documented clamp); a higher temperature only enlarges the admissible set, so this can hide nothing that the unclamped definition would allow",
		"top-k, top-p, min-p are composed in the code's (and llama.cpp's) order: top-p and min-p refer to the temperature-scaled softmax over the top-k survivors",
		"negative temperature: only the base property (id in range, logit not -Inf) is judged, the statement speaks of temperature zero",
		"seed -1 means 'unseeded' in NewSampler: admissibility is judged, reproducibility is not",
		"scripted-variate draws replace Sampler.rng (in-package access) by a source whose Float32 values are chosen by the harness; each is one of the 2^24 values rand.Float32 can return, and the call still goes through Sampler.Sample",
		"float32 rounding allowance in the top-p/min-p thresholds is the derived bound documented at c18Ref (4*eps*(|x_r|+|x_0|)+1e-6 on exponents, (2K+16)*eps on cumulative sums), replacing DESIGN's fixed 1e-4",
	})
	n := cfg.N(40000, 6000000)
	replayIdx := -1
	if cfg.Replay != "" {
		var rc struct {
			Index int `json:"index"`
		}
		if err := kit.LoadReplay(cfg.Replay, &rc); err != nil {
			t.Fatal(err)
		}
		replayIdx = rc.Index
	}
	type witness struct {
		Draw    string `json:"draw"`
		Vector  int    `json:"vector"`
		ID      int32  `json:"id"`
		Err     string `json:"err,omitempty"`
		Logit   string `json:"logit,omitempty"`
		SeqA    string `json:"sequence_a,omitempty"`
		SeqB    string `json:"sequence_b,omitempty"`
		FirstAt int    `json:"first_difference_at,omitempty"`
	}
	for i := 0; i < n; i++ {
		if replayIdx >= 0 && i != replayIdx {
			continue
		}
		if replayIdx < 0 && !cfg.Mine(i) {
			continue
		}
		r := kit.NewRand(cfg.Seed, "C18", i)
		c := c18Gen(r, i)
		rep.Eval(1)
		refs := make([]*c18Ref, len(c.vecs))
		for j, v := range c.vecs {
			refs[j] = c18NewRef(v, c.temp, c.TopK, c.topP, c.minP)
		}
		violated := map[string]bool{}
		viol := func(sig, what string, w any) {
			if violated[sig] {
				return // one report per kind and case
			}
			violated[sig] = true
			if replayIdx >= 0 {
				t.Logf("replay: %s: %s", sig, what)
			}
			rep.Violate("c18:"+sig, what, c, w)
		}
		st := c18Stats{ids: map[int32]struct{}{}}
		var nDraws, nErr, nErrOut int
		judge := func(kind string, d int, o c18Obs) {
			vi := d % len(c.vecs)
			sig, what, lowest := refs[vi].judge(c.vecs[vi], o.id, o.err)
			nDraws++
			if o.err != nil {
				nErr++
				if !refs[vi].domain {
					nErrOut++
				}
			} else if vi == 0 {
				st.ids[o.id] = struct{}{}
			}
			if lowest {
				st.boundary++
			}
			if sig != "" {
				w := witness{Draw: fmt.Sprintf("%s #%d", kind, d), Vector: vi, ID: o.id}
				if o.err != nil {
					w.Err = o.err.Error()
				} else if o.id >= 0 && int(o.id) < len(c.vecs[vi]) {
					w.Logit = c18F(c.vecs[vi][o.id])
				}
				viol(sig, what, w)
			}
		}

		// (1) seeded sequence, every draw judged
		seqA, ps, pw := c18Seq(c)
		if ps != "" {
			viol(ps, pw, nil)
		}
		for d, o := range seqA {
			judge("seeded", d, o)
		}
		// (2) reproducibility
		if c.Seed != -1 && ps == "" {
			seqB, ps2, pw2 := c18Seq(c)
			if ps2 != "" {
				viol(ps2, pw2, nil)
			} else if at, ok := c18SameSeq(seqA, seqB); !ok {
				viol("not-reproducible", fmt.Sprintf("two samplers with seed %d and identical inputs diverge at draw %d", c.Seed, at),
					witness{Draw: "second sampler", FirstAt: at, SeqA: c18SeqText(seqA), SeqB: c18SeqText(seqB)})
			}
			rep.Count("reproducibility_checks", 1)
			if c.Concurrent {
				var wg sync.WaitGroup
				var out [2][]c18Obs
				var pss [2]string
				for g := 0; g < 2; g++ {
					wg.Add(1)
					go func() {
						defer wg.Done()
						out[g], pss[g], _ = c18Seq(c)
					}()
				}
				wg.Wait()
				for g := 0; g < 2; g++ {
					if pss[g] != "" {
						viol(pss[g], "panic in concurrent sampler", nil)
					} else if at, ok := c18SameSeq(seqA, out[g]); !ok {
						viol("not-reproducible-concurrent", fmt.Sprintf("a sampler with seed %d run concurrently with another diverges from the sequential sequence at draw %d", c.Seed, at),
							witness{Draw: "concurrent sampler", FirstAt: at, SeqA: c18SeqText(seqA), SeqB: c18SeqText(out[g])})
					}
				}
				rep.Count("reproducibility_checks_concurrent", 1)
			}
		} else if c.Seed == -1 {
			rep.Count("cases_unseeded", 1)
		}
		// (3) scripted variates through the same entry point
		if !refs[0].greedy && ps == "" {
			s := NewSampler(c.temp, c.TopK, c.topP, c.minP, 0, nil)
			vals := c18Directed(r)
			src := &c18Src{}
			for d, u := range vals {
				src.vals, src.i = []uint64{u << 32}, 0
				s.rng = rand.New(src)
				o, ps3, pw3 := c18Draw(&s, c.vecs[d%len(c.vecs)])
				if ps3 != "" {
					viol(ps3, fmt.Sprintf("scripted variate %d/2^24: %s", u, pw3), nil)
					break
				}
				judge(fmt.Sprintf("scripted r=%d/2^24", u), d, o)
			}
		}

		// ---- coverage accounting
		rep.Count("draws", nDraws)
		rep.Count("draws_error", nErr)
		rep.Count("draws_error_outside_domain", nErrOut)
		ref := refs[0]
		switch {
		case !ref.domain:
			rep.Count("cases_outside_domain", 1)
		case ref.greedy && ref.negTemp:
			rep.Count("cases_negative_temperature", 1)
		case ref.greedy:
			rep.Count("cases_greedy", 1)
		default:
			rep.Count("cases_sampled_domain", 1)
			if ref.overflow != "" {
				rep.Count("cases_temperature_overflow_"+ref.overflow, 1)
			}
			exK := !math.IsInf(ref.next, -1)
			finK := 0
			for _, v := range ref.sorted {
				if !math.IsInf(v, -1) {
					finK++
				}
			}
			exP := ref.admitP < finK
			exM := ref.admitM < finK
			tieK := ref.K < ref.n && ref.next == ref.kth
			if exK {
				rep.Count("cases_topk_binding", 1)
			}
			if exP {
				rep.Count("cases_topp_binding", 1)
			}
			if exM {
				rep.Count("cases_minp_binding", 1)
			}
			if tieK {
				rep.Count("cases_tie_at_topk_boundary", 1)
			}
			if st.boundary > 0 {
				rep.Count("cases_boundary_token_returned", 1)
				rep.Count("draws_on_boundary_token", st.boundary)
			}
			if (exK || exP || exM) && ref.admitAll >= 2 && len(st.ids) >= 2 {
				tb := "mid"
				switch {
				case ref.T <= 1e-6:
					tb = "clamp"
				case ref.T < 0.3:
					tb = "small"
				case ref.T > 10:
					tb = "huge"
				case ref.T > 1.5:
					tb = "large"
				}
				nb := 0
				for m := ref.n; m > 1; m >>= 2 {
					nb++
				}
				db := len(st.ids)
				if db > 4 {
					db = 5
				}
				rep.Distinct(fmt.Sprint(nb, c.Style[0], tb, exK, exP, exM, ref.finite < ref.n, tieK, db))
				rep.Count("cases_nontrivial", 1)
				if rep.NeedSample() && ref.n <= 12 && exP && exM {
					rep.Sample(c)
				}
			}
		}
		rep.Count("cases_len_"+c18LenBucket(c.N), 1)
	}
	if replayIdx >= 0 && rep.Violations() == 0 {
		t.Logf("replay: case %d holds", replayIdx)
	}
}

func c18LenBucket(n int) string {
	switch {
	case n == 1:
		return "1"
	case n <= 8:
		return "2-8"
	case n <= 64:
		return "9-64"
	case n <= 600:
		return "65-600"
	case n <= 4000:
		return "601-4000"
	default:
		return "4001-65536"
	}
}
