//go:build verif

package model

// C20: tokenizing then detokenizing returns the original text (both tokenizer families),
// every produced id lies inside the vocabulary, and the literal form of a special (control)
// token encodes to that token's id.
//
// Runtime monitor: the real BytePairEncoding (pinned llama-3.2 vocabulary + the llama pre-tokenizer
// expression) and the real SentencePieceModel (synthetic, PRNG-built vocabularies that cover every
// byte) are driven with generated valid NUL-free UTF-8; the oracle looks only at Encode/Decode results.

import (
	"bufio"
	"encoding/json"
	"fmt"
	"io"
	"log/slog"
	"os"
	"path/filepath"
	"runtime"
	"strconv"
	"strings"
	"sync"
	"testing"
	"unicode/utf8"

	"github.com/dlclark/regexp2"

	kit "verifkit"
)

// ------------------------------------------------------------------------------------------------
// fixtures

const c20LlamaPre = `(?i:'s|'t|'re|'ve|'m|'ll|'d)|[^\r\n\p{L}\p{N}]?\p{L}+|\p{N}{1,3}| ?[^\s\p{L}\p{N}]+[\r\n]*|\s*[\r\n]+|\s+(?!\S)|\s+`

// c20Tok is one tokenizer under observation plus what the oracle knows about its vocabulary.
type c20Tok struct {
	family   string
	tp       TextProcessor
	vocab    *Vocabulary
	specials []string         // literals of the CONTROL-typed tokens (the property's "special tokens")
	specID   map[string]int32 // literal -> id
	// hard-coded extra "specials" of Vocabulary.SpecialVocabulary (ids 105 and 106) when they are not CONTROL
	hack []string
	// spm only
	byteSpell map[string]byte // "<0xNN>" spellings that are byte tokens of this vocabulary
	desc      *c20SPMDesc
}

type c20BPEFixture struct {
	tok    *c20Tok
	ranks  map[string]int // "left right" -> rank (reference merge table, diagnostic only)
	pre    *regexp2.Regexp
	corpus string
}

var (
	c20bpeOnce sync.Once
	c20bpeFix  *c20BPEFixture
	c20bpeFix0 *c20BPEFixture // control token at id 0
	c20bpeErr  error
)

// the 256 special tokens of the llama 3.x vocabulary, ids 128000..128255
func c20LlamaSpecials() []string {
	s := []string{"<|begin_of_text|>", "<|end_of_text|>", "<|reserved_special_token_0|>", "<|reserved_special_token_1|>",
		"<|finetune_right_pad_id|>", "<|reserved_special_token_2|>", "<|start_header_id|>", "<|end_header_id|>",
		"<|eom_id|>", "<|eot_id|>", "<|python_tag|>"}
	for i := 3; len(s) < 256; i++ {
		s = append(s, fmt.Sprintf("<|reserved_special_token_%d|>", i))
	}
	return s
}

func c20LoadBPE() (*c20BPEFixture, error) {
	c20bpeOnce.Do(func() {
		f, err := os.Open(filepath.Join("testdata", "llama3.2", "encoder.json"))
		if err != nil {
			c20bpeErr = err
			return
		}
		defer f.Close()
		vocab := make(map[string]int32)
		if err := json.NewDecoder(f).Decode(&vocab); err != nil {
			c20bpeErr = err
			return
		}
		types := make([]uint32, len(vocab))
		tokens := make([]string, len(vocab))
		for token, id := range vocab {
			if int(id) >= len(tokens) || id < 0 {
				c20bpeErr = fmt.Errorf("encoder.json: id %d outside 0..%d", id, len(tokens)-1)
				return
			}
			tokens[id] = token
			types[id] = TOKEN_TYPE_NORMAL
		}
		tk := &c20Tok{family: "bpe", specID: map[string]int32{}}
		for _, sp := range c20LlamaSpecials() {
			if _, ok := vocab[sp]; ok {
				continue
			}
			id := int32(len(tokens))
			tokens = append(tokens, sp)
			types = append(types, TOKEN_TYPE_CONTROL)
			vocab[sp] = id
			tk.specials = append(tk.specials, sp)
			tk.specID[sp] = id
		}
		mf, err := os.Open(filepath.Join("testdata", "llama3.2", "vocab.bpe"))
		if err != nil {
			c20bpeErr = err
			return
		}
		defer mf.Close()
		merges := make([]string, 0, 300000)
		sc := bufio.NewScanner(mf)
		for sc.Scan() {
			// the pinned vocab.bpe has no "#version" header: its 233 lines that start with '#' are real merges
			// ("# #", "## ##", "# include" ...); the repo's test fixture drops them, the real model has them
			if ln := sc.Text(); len(strings.Split(ln, " ")) == 2 {
				merges = append(merges, ln)
			}
		}
		v := &Vocabulary{Values: tokens, Types: types, Merges: merges,
			BOS: tk.specID["<|begin_of_text|>"], EOS: tk.specID["<|eot_id|>"], EOT: tk.specID["<|end_of_text|>"]}
		bpe := NewBytePairEncoding(c20LlamaPre, v)
		tk.tp = bpe
		tk.vocab = v
		for _, id := range []int{105, 106} {
			if id < len(tokens) && types[id] != TOKEN_TYPE_CONTROL {
				tk.hack = append(tk.hack, tokens[id])
			}
		}
		fx := &c20BPEFixture{tok: tk, ranks: make(map[string]int, len(merges))}
		for i, m := range merges {
			if _, dup := fx.ranks[m]; !dup {
				fx.ranks[m] = i
			}
		}
		fx.pre = regexp2.MustCompile(c20LlamaPre, regexp2.Unicode|regexp2.RE2)
		if b, err := os.ReadFile(filepath.Join("testdata", "war-and-peace.txt")); err == nil && utf8.Valid(b) {
			fx.corpus = strings.ReplaceAll(string(b), "\x00", "")
		}
		c20bpeFix = fx
		// the same vocabulary in the id layout of the families that keep a control token at id 0 (<unk>, <pad>, <s>
		// there): "<|begin_of_text|>" and the ordinary token of id 0 change places
		tokens0, types0 := append([]string(nil), tokens...), append([]uint32(nil), types...)
		b := tk.specID["<|begin_of_text|>"]
		tokens0[0], tokens0[b] = tokens0[b], tokens0[0]
		types0[0], types0[b] = types0[b], types0[0]
		tk0 := &c20Tok{family: "bpe", specID: map[string]int32{}, specials: tk.specials, hack: tk.hack}
		for sp, id := range tk.specID {
			tk0.specID[sp] = id
		}
		tk0.specID["<|begin_of_text|>"] = 0
		v0 := &Vocabulary{Values: tokens0, Types: types0, Merges: merges, BOS: 0, EOS: v.EOS, EOT: v.EOT}
		tk0.tp, tk0.vocab = NewBytePairEncoding(c20LlamaPre, v0), v0
		c20bpeFix0 = &c20BPEFixture{tok: tk0, ranks: fx.ranks, pre: fx.pre, corpus: fx.corpus}
	})
	return c20bpeFix, c20bpeErr
}

// ---- synthetic SentencePiece vocabularies

type c20SPMDesc struct {
	Layout   string   `json:"layout"`
	N        int      `json:"n_tokens"`
	NPieces  int      `json:"n_pieces"`
	Controls []string `json:"controls"`
	V105     string   `json:"id105"`
	V106     string   `json:"id106"`
	Chain    string   `json:"byte_spelling_reachable_by_merges,omitempty"`
	Alphabet string   `json:"alphabet"`
	// only filled in for violations
	Values []string  `json:"values,omitempty"`
	Types  []uint32  `json:"types,omitempty"`
	Scores []float32 `json:"scores,omitempty"`
}

var c20SPMAlphaPools = []string{
	"abcdefghijklmnopqrstuvwxyz", "etaoinshr", "ABCDEFXYZ", "0123456789", "0123456789ABCDEF",
	".,!?;:'\"-_()[]{}<>/\\|@#$%^&*+=~`", "éèüßñçøåÀÖ¬®¡¿", "абвгдежзийклмн", "αβγδεζηθ", "你好世界请考试我的软件中文",
	"こんにちはカタカナ", "한국어텍스트", "مرحبا", "שלום", "हिन्दी", "😀😂🤣👍🎉❤🔥", "\u0301\u0300\u0308\u200d\ufe0f", "─│┌┐▀▁▂▃█",
}

var c20SPMSpecialNames = []string{"<s>", "</s>", "<pad>", "<bos>", "<eos>", "<mask>", "<start_of_turn>", "<end_of_turn>",
	"[INST]", "[/INST]", "<|im_start|>", "<|im_end|>", "<|endoftext|>", "<|fim_prefix|>", "<|user|>", "<2mass>", "[@BOS@]", "<start_of_image>", "<end_of_image>", "<tool_call>"}

var c20ByteSpellings = func() (t [256]string) {
	for b := range t {
		t[b] = fmt.Sprintf("<0x%02X>", b)
	}
	return
}()

func c20ByteSpelling(b int) string { return c20ByteSpellings[b&0xff] }

func c20GenSPM(r *kit.Rand) *c20Tok {
	type ent struct {
		s     string
		typ   uint32
		score float32
	}
	// alphabet
	var alpha []rune
	seenR := map[rune]bool{}
	addR := func(c rune) {
		if !seenR[c] {
			seenR[c] = true
			alpha = append(alpha, c)
		}
	}
	npools := r.Range(1, 4)
	for i := 0; i < npools; i++ {
		pool := []rune(kit.Pick(r, c20SPMAlphaPools))
		if i == 0 && r.Chance(3, 4) {
			pool = []rune(c20SPMAlphaPools[r.Intn(2)])
		}
		k := r.Range(2, 10)
		for j := 0; j < k; j++ {
			addR(pool[r.Intn(len(pool))])
		}
	}
	chain := ""
	if r.Chance(1, 3) { // make one byte-token spelling reachable through pairwise merges
		chain = c20ByteSpelling(r.Range(1, 255))
		for _, c := range chain {
			addR(c)
		}
	}
	pieces := map[string]bool{}
	var plist []string
	addP := func(p string) bool {
		if p == "" || pieces[p] || strings.ContainsRune(p, ' ') {
			return false
		}
		pieces[p] = true
		plist = append(plist, p)
		return true
	}
	// every trained SentencePiece model has the whitespace symbol as a piece (see "assumptions")
	addP(spmWhitespaceSep)
	for _, c := range alpha {
		if r.Chance(4, 5) {
			addP(string(c))
		}
	}
	if chain != "" {
		for _, c := range chain {
			addP(string(c))
		}
		// "<0", "<0x", "<0xN", "<0xNN" : the last merge ("<0xNN" + ">") lands on the byte token itself
		for k := 2; k <= 5; k++ {
			addP(chain[:k])
		}
		if r.Bool() {
			addP(chain[4:]) // "N>"-style right half, gives a second merge route
		}
	}
	if len(plist) == 0 {
		addP("a")
	}
	nmulti := r.Range(5, 120)
	for i := 0; i < nmulti; i++ {
		a, b := kit.Pick(r, plist), kit.Pick(r, plist)
		if r.Chance(1, 4) {
			a = spmWhitespaceSep
		}
		if utf8.RuneCountInString(a)+utf8.RuneCountInString(b) <= 9 {
			addP(a + b)
		}
	}
	for i, n := 0, r.Range(0, 6); i < n; i++ { // pieces no merge sequence reaches (only the whole-fragment lookup can)
		var sb strings.Builder
		for j, k := 0, r.Range(3, 6); j < k; j++ {
			sb.WriteRune(kit.Pick(r, alpha))
		}
		addP(sb.String())
	}
	// byte spellings and control-literal shapes must only exist as the tokens the layout places
	// (Decode tests the shape after turning U+2581 into a space, so "<0xA▁>" would count as one as well)
	isByteShape := func(p string) bool {
		p = strings.ReplaceAll(p, spmWhitespaceSep, " ")
		return len(p) == 6 && strings.HasPrefix(p, "<0x") && strings.HasSuffix(p, ">")
	}
	var ents []ent
	var scores []float32
	// a piece spelled like a control token would be a duplicate vocabulary entry (no real vocabulary has two
	// tokens with one spelling): the delimiter shapes <...> and [...] are reserved for the tokens the layout places
	isReservedShape := func(p string) bool {
		return len(p) >= 3 && (p[0] == '<' || p[0] == '[') && (p[len(p)-1] == '>' || p[len(p)-1] == ']')
	}
	for _, p := range plist {
		if isByteShape(p) || isReservedShape(p) {
			continue
		}
		e := ent{s: p, typ: TOKEN_TYPE_NORMAL}
		switch {
		case len(scores) > 0 && r.Chance(1, 5):
			e.score = kit.Pick(r, scores) // ties
		case r.Chance(1, 12):
			e.score = 0
		default:
			e.score = float32(r.NormFloat64()*4 - 6 + float64(utf8.RuneCountInString(p)))
		}
		scores = append(scores, e.score)
		if r.Chance(1, 20) {
			e.typ = TOKEN_TYPE_USER_DEFINED
		} else if r.Chance(1, 40) {
			e.typ = TOKEN_TYPE_UNUSED
		}
		ents = append(ents, e)
	}
	var bytesE []ent
	for b := 0; b < 256; b++ {
		bytesE = append(bytesE, ent{s: c20ByteSpelling(b), typ: TOKEN_TYPE_BYTE})
	}
	// controls
	names := append([]string(nil), c20SPMSpecialNames...)
	kit.Shuffle(r, names)
	var out []ent
	var controls []string
	bos, eos := int32(-1), int32(-1)
	layout := kit.Pick(r, []string{"gemma", "gemma", "gemma", "llama2", "shuffled", "shuffled"})
	unusedN := 0
	unused := func() ent {
		unusedN++
		return ent{s: fmt.Sprintf("<unused%d>", unusedN-1), typ: TOKEN_TYPE_UNUSED}
	}
	ctl := func(s string) ent { controls = append(controls, s); return ent{s: s, typ: TOKEN_TYPE_CONTROL} }
	switch layout {
	case "llama2":
		out = append(out, ent{s: "<unk>", typ: TOKEN_TYPE_UNKNOWN}, ctl("<s>"), ctl("</s>"))
		bos, eos = 1, 2
		out = append(out, bytesE...)
		rest := ents
		for _, n := range names[:r.Range(0, 4)] {
			if n != "<s>" && n != "</s>" {
				rest = append(rest, ctl(n))
			}
		}
		kit.Shuffle(r, rest)
		out = append(out, rest...)
	case "gemma":
		out = append(out, ctl("<pad>"), ctl("<eos>"), ctl("<bos>"), ent{s: "<unk>", typ: TOKEN_TYPE_UNKNOWN}, ctl("<mask>"))
		eos, bos = 1, 2
		for len(out) < 105 {
			out = append(out, unused())
		}
		tt := uint32(TOKEN_TYPE_USER_DEFINED)
		if r.Chance(1, 3) {
			tt = TOKEN_TYPE_CONTROL
		}
		for _, n := range []string{"<start_of_turn>", "<end_of_turn>"} {
			if tt == TOKEN_TYPE_CONTROL {
				out = append(out, ctl(n))
			} else {
				out = append(out, ent{s: n, typ: tt})
			}
		}
		rest := ents
		for _, n := range names[:r.Range(0, 4)] {
			switch n {
			case "<pad>", "<eos>", "<bos>", "<mask>", "<start_of_turn>", "<end_of_turn>":
			default:
				rest = append(rest, ctl(n))
			}
		}
		kit.Shuffle(r, rest)
		cut := r.Intn(len(rest) + 1)
		out = append(out, rest[:cut]...)
		out = append(out, bytesE...)
		out = append(out, rest[cut:]...)
	default: // shuffled
		all := append([]ent{{s: "<unk>", typ: TOKEN_TYPE_UNKNOWN}}, ents...)
		all = append(all, bytesE...)
		for _, n := range names[:r.Range(1, 5)] {
			all = append(all, ctl(n))
		}
		kit.Shuffle(r, all)
		// ids 105/106 are special-cased by Vocabulary.SpecialVocabulary: keep them occupied the way real
		// layouts do (byte / control / unused), never by a normal piece (see "assumptions")
		for _, pos := range []int{105, 106} {
			if all[pos].typ == TOKEN_TYPE_BYTE || all[pos].typ == TOKEN_TYPE_CONTROL {
				continue
			}
			if r.Bool() {
				all = append(all, all[pos])
				all[pos] = unused()
				continue
			}
			for j := range all {
				if all[j].typ == TOKEN_TYPE_BYTE && j != 105 && j != 106 {
					all[pos], all[j] = all[j], all[pos]
					break
				}
			}
		}
		out = all
	}
	v := &Vocabulary{}
	tk := &c20Tok{family: "spm", specID: map[string]int32{}, byteSpell: map[string]byte{}}
	for i, e := range out {
		v.Values = append(v.Values, e.s)
		v.Types = append(v.Types, e.typ)
		v.Scores = append(v.Scores, e.score)
		switch e.typ {
		case TOKEN_TYPE_CONTROL:
			tk.specials = append(tk.specials, e.s)
			tk.specID[e.s] = int32(i)
		case TOKEN_TYPE_BYTE:
			n, _ := strconv.ParseUint(e.s[3:5], 16, 8)
			tk.byteSpell[e.s] = byte(n)
		}
	}
	if bos < 0 {
		bos = tk.specID[tk.specials[r.Intn(len(tk.specials))]]
		eos = tk.specID[tk.specials[r.Intn(len(tk.specials))]]
	}
	v.BOS, v.EOS, v.EOT = bos, eos, eos
	for _, id := range []int{105, 106} {
		if v.Types[id] != TOKEN_TYPE_CONTROL {
			tk.hack = append(tk.hack, v.Values[id])
		}
	}
	tk.vocab = v
	tk.tp = NewSentencePieceModel(v)
	tk.desc = &c20SPMDesc{Layout: layout, N: len(v.Values), NPieces: len(ents), Controls: controls,
		V105: v.Values[105], V106: v.Values[106], Chain: chain, Alphabet: string(alpha)}
	return tk
}

// ------------------------------------------------------------------------------------------------
// text generator: valid UTF-8, no NUL

var c20Words = strings.Fields(`the of and to in a is that for it as was with be by on not he I this are or his from at which but have an had they you were their one all we can her has there been if more when will would who so no out up said what its about into than them only other new some could time these two may then do first any my now such like our over man me even most made after also did many before must through back years where much your way well down should because each just those people Mr how too little state good very make world still own see men work long get here between both life being under never day same another know while last might us great old year off come since against go came right used take three Hello World Ollama model token`)

var c20Contractions = []string{"'s", "'t", "'re", "'ve", "'m", "'ll", "'d", "'S", "'T", "'RE", "'VE", "'M", "'LL", "'D", "'Ll", "'x", "''", "'"}

var c20WS = []string{" ", " ", " ", "\t", "\n", "\n", "\r", "\r\n", "\u00a0", "\u3000", "\u2028", "\u2029", "\v", "\f", "\u0085", "\u200b", "\u2003", "\u1680", "\ufeff"}

const c20Punct = "!\"#$%&'()*+,-./:;<=>?@[\\]^_`{|}~"

var c20Scripts = [][2]rune{
	{0x00A1, 0x00FF}, {0x0100, 0x017F}, {0x0180, 0x024F}, {0x0250, 0x02AF}, {0x0370, 0x03FF}, {0x0400, 0x04FF}, {0x0530, 0x058F},
	{0x0590, 0x05FF}, {0x0600, 0x06FF}, {0x0700, 0x074F}, {0x0900, 0x097F}, {0x0980, 0x09FF}, {0x0B80, 0x0BFF}, {0x0E00, 0x0E7F},
	{0x0F00, 0x0FFF}, {0x10A0, 0x10FF}, {0x1100, 0x11FF}, {0x1200, 0x137F}, {0x13A0, 0x13FF}, {0x1780, 0x17FF}, {0x1E00, 0x1EFF},
	{0x1F00, 0x1FFF}, {0x2000, 0x206F}, {0x2070, 0x209F}, {0x20A0, 0x20CF}, {0x2100, 0x214F}, {0x2150, 0x218F}, {0x2190, 0x21FF},
	{0x2200, 0x22FF}, {0x2300, 0x23FF}, {0x2460, 0x24FF}, {0x2500, 0x257F}, {0x2580, 0x259F}, {0x25A0, 0x25FF}, {0x2600, 0x26FF},
	{0x2700, 0x27BF}, {0x2E80, 0x2EFF}, {0x3000, 0x303F}, {0x3040, 0x309F}, {0x30A0, 0x30FF}, {0x3130, 0x318F}, {0x4E00, 0x9FFF},
	{0xA000, 0xA48F}, {0xAC00, 0xD7A3}, {0xE000, 0xE0FF}, {0xF900, 0xFAFF}, {0xFB00, 0xFB4F}, {0xFE00, 0xFE0F}, {0xFE70, 0xFEFF},
	{0xFF00, 0xFFEF}, {0xFFF0, 0xFFFF}, {0x10000, 0x1007F}, {0x10330, 0x1034F}, {0x12000, 0x123FF}, {0x1D400, 0x1D7FF}, {0x1F000, 0x1F02F},
	{0x1F1E6, 0x1F1FF}, {0x1F300, 0x1F5FF}, {0x1F600, 0x1F64F}, {0x1F680, 0x1F6FF}, {0x1F900, 0x1F9FF}, {0x20000, 0x2A6DF}, {0x2F800, 0x2FA1F},
	{0xE0000, 0xE007F}, {0xE0100, 0xE01EF}, {0xF0000, 0xF00FF}, {0x10FF00, 0x10FFFF},
}

var c20Combining = [][2]rune{{0x0300, 0x036F}, {0x1AB0, 0x1AFF}, {0x20D0, 0x20FF}, {0x0E31, 0x0E3A}, {0x093C, 0x094D}, {0x0591, 0x05BD}, {0x064B, 0x065F}, {0xFE20, 0xFE2F}, {0x1F3FB, 0x1F3FF}}

var c20Emoji = []string{"😀", "👍🏽", "👨‍👩‍👧‍👦", "🏳️‍🌈", "🇩🇪", "🇯🇵🇺🇸", "1️⃣", "#️⃣", "❤️", "👩🏿‍🚀", "🧑‍🤝‍🧑", "🫠", "☺", "☺️", "©️", "🏴󠁧󠁢󠁥󠁮󠁧󠁿", "🤦🏼‍♂️", "🐈‍⬛"}

var c20Code = []string{"func main() { fmt.Println(\"Hello World\") }", "a_b->c", "x = y*2;", "https://example.com/a?b=c&d=%20e#f", "{\"k\": [1, 2.5e-3, null]}",
	"<html><body class=\"x\">", "for (int i=0;i<10;++i) {}", "SELECT * FROM t WHERE a<>'b';", "C:\\Users\\x\\y.txt", "$HOME/.config", "2024-01-31T12:00:00Z",
	"3.14159", "1,000,000", "0xDEADBEEF", "<0x41>", "<0x0a>", "<0xG1>", "<|", "|>", "<|x|>", "<s", "s>", "[INST", "#include <stdio.h>", "a\tb\tc", "- [ ] todo\n- [x] done"}

func c20Rune(r *kit.Rand, lo, hi rune) rune {
	for {
		c := lo + rune(r.Intn(int(hi-lo)+1))
		if c != 0 && !(c >= 0xD800 && c <= 0xDFFF) && c <= 0x10FFFF {
			return c
		}
	}
}

func c20Case_(r *kit.Rand, w string) string {
	switch r.Intn(6) {
	case 0:
		return strings.ToUpper(w)
	case 1:
		return strings.ToUpper(w[:1]) + w[1:]
	default:
		return w
	}
}

type c20Gen struct {
	r      *kit.Rand
	tk     *c20Tok
	corpus string
	hot    int // 1/hot chance per fragment draw of a construct known to break the round trip (0 = never)
	alpha  []rune
	pieces []string
}

func (g *c20Gen) special() string {
	if len(g.tk.specials) == 0 {
		return "<s>"
	}
	r := g.r
	if g.tk.family == "bpe" && r.Chance(3, 4) { // the named ones more often than reserved_special_token_N
		return g.tk.specials[r.Intn(min(11, len(g.tk.specials)))]
	}
	return kit.Pick(r, g.tk.specials)
}

// frag returns one fragment of the given kind (-1 = PRNG choice) and the kind's name.
func (g *c20Gen) frag(kind int) (string, string) {
	r := g.r
	if kind < 0 {
		kind = r.Intn(20)
	}
	var sb strings.Builder
	switch kind {
	case 0, 1:
		n := r.Range(1, 6)
		for i := 0; i < n; i++ {
			if i > 0 {
				sb.WriteByte(' ')
			}
			sb.WriteString(c20Case_(r, kit.Pick(r, c20Words)))
		}
		return sb.String(), "words"
	case 2:
		n := r.Range(1, 14)
		for i := 0; i < n; i++ {
			c := byte('a' + r.Intn(26))
			if r.Chance(1, 6) {
				c = byte('A' + r.Intn(26))
			}
			sb.WriteByte(c)
		}
		return sb.String(), "letters"
	case 3, 4:
		n := r.Range(1, 8)
		if r.Chance(2, 3) {
			return strings.Repeat(kit.Pick(r, c20WS), n), "ws"
		}
		for i := 0; i < n; i++ {
			sb.WriteString(kit.Pick(r, c20WS))
		}
		return sb.String(), "ws"
	case 5:
		n := r.Range(1, 14)
		for i := 0; i < n; i++ {
			sb.WriteByte(byte('0' + r.Intn(10)))
		}
		return sb.String(), "digits"
	case 6, 7:
		n := r.Range(1, 5)
		p := c20Punct[r.Intn(len(c20Punct))]
		for i := 0; i < n; i++ {
			if r.Chance(1, 3) {
				p = c20Punct[r.Intn(len(c20Punct))]
			}
			sb.WriteByte(p)
		}
		return sb.String(), "punct"
	case 8, 9:
		sc := kit.Pick(r, c20Scripts)
		n := r.Range(1, 8)
		for i := 0; i < n; i++ {
			sb.WriteRune(c20Rune(r, sc[0], sc[1]))
		}
		return sb.String(), "script"
	case 10:
		sb.WriteString(kit.Pick(r, []string{"a", "e", "o", "n", "क", "ก", "א", "ع", "x", " ", "1"}))
		n := r.Range(1, 5)
		for i := 0; i < n; i++ {
			cm := kit.Pick(r, c20Combining)
			sb.WriteRune(c20Rune(r, cm[0], cm[1]))
		}
		return sb.String(), "combining"
	case 11:
		n := r.Range(1, 3)
		for i := 0; i < n; i++ {
			sb.WriteString(kit.Pick(r, c20Emoji))
		}
		return sb.String(), "emoji"
	case 12:
		n := r.Range(1, 4)
		for i := 0; i < n; i++ {
			sb.WriteRune(c20Rune(r, 1, 0x10FFFF))
		}
		return sb.String(), "anyrune"
	case 13:
		n := r.Range(1, 4)
		for i := 0; i < n; i++ {
			switch r.Intn(3) {
			case 0:
				sb.WriteRune(rune(r.Range(1, 0x1f)))
			case 1:
				sb.WriteRune(0x7f)
			default:
				sb.WriteRune(rune(r.Range(0x80, 0x9f)))
			}
		}
		return sb.String(), "control"
	case 14: // the runes the BPE byte alphabet is written in
		n := r.Range(1, 5)
		for i := 0; i < n; i++ {
			sb.WriteRune(c20Rune(r, 0x0100, 0x0143))
		}
		return sb.String(), "bpe-alphabet"
	case 15:
		return c20Case_(r, kit.Pick(r, c20Words)) + kit.Pick(r, c20Contractions), "contraction"
	case 16:
		if g.corpus != "" {
			return c20CorpusSlice(r, g.corpus, r.Range(5, 300)), "corpus"
		}
		return kit.Pick(r, c20Code), "code"
	case 17:
		return kit.Pick(r, c20Code), "code"
	case 18: // special literal, whole or cut
		sp := g.special()
		switch r.Intn(6) {
		case 0:
			return sp[:r.Range(1, len(sp)-1)], "special-partial"
		case 1:
			return sp[r.Range(1, len(sp)-1):], "special-partial"
		case 2:
			return sp + sp, "special"
		default:
			return sp, "special"
		}
	default: // 19: vocabulary-aware material
		if g.tk.family == "spm" {
			return g.spmFrag()
		}
		// bpe: runes of the Latin-1 block (bytes C2/C3 xx: exercises the remapped byte ranges)
		n := r.Range(1, 6)
		for i := 0; i < n; i++ {
			c := c20Rune(r, 0x80, 0xFF)
			if (c == 0xAC || c == 0xAE) && g.hot == 0 {
				c = 0xAD
			}
			sb.WriteRune(c)
		}
		return sb.String(), "latin1"
	}
}

func (g *c20Gen) spmFrag() (string, string) {
	r := g.r
	var sb strings.Builder
	switch r.Intn(4) {
	case 0: // concatenation of vocabulary pieces (whitespace symbol written as a space)
		n := r.Range(1, 6)
		for i := 0; i < n && len(g.pieces) > 0; i++ {
			sb.WriteString(strings.ReplaceAll(kit.Pick(r, g.pieces), spmWhitespaceSep, " "))
		}
		return sb.String(), "pieces"
	default:
		n := r.Range(1, 30)
		for i := 0; i < n; i++ {
			if r.Chance(1, 6) {
				sb.WriteByte(' ')
				continue
			}
			c := kit.Pick(r, g.alpha)
			if c == '▁' {
				c = ' '
			}
			sb.WriteRune(c)
		}
		return sb.String(), "alphabet"
	}
}

// hotFrag returns a construct that is known (D2, D18, D19, ids 105/106) to break the round trip.
func (g *c20Gen) hotFrag() (string, string) {
	r := g.r
	if g.tk.family == "bpe" {
		return kit.Pick(r, []string{"~", "~", "~~", "a~b", " ~ ", "¬", "®", "¬®", "(R)®"}), "hot"
	}
	switch r.Intn(6) {
	case 0, 1:
		return kit.Pick(r, []string{"▁", "▁▁", "a▁b", "▁ ", " ▁"}), "hot"
	case 2:
		return c20ByteSpelling(r.Range(1, 255)), "hot"
	case 3:
		if g.tk.desc.Chain != "" {
			return g.tk.desc.Chain, "hot"
		}
		return c20ByteSpelling(r.Range(0x41, 0x5a)), "hot"
	case 4:
		if len(g.tk.hack) > 0 {
			return kit.Pick(r, g.tk.hack), "hot"
		}
		return "▁", "hot"
	default: // the lower-case spelling is not a token of the vocabulary: must round-trip
		return strings.ToLower(c20ByteSpelling(r.Range(0xa0, 0xff))), "byte-spelling-lowercase"
	}
}

func c20CorpusSlice(r *kit.Rand, corpus string, n int) string {
	if len(corpus) <= n {
		return corpus
	}
	lo := r.Intn(len(corpus) - n)
	for lo > 0 && !utf8.RuneStart(corpus[lo]) {
		lo--
	}
	hi := lo + n
	for hi < len(corpus) && !utf8.RuneStart(corpus[hi]) {
		hi++
	}
	return corpus[lo:hi]
}

func c20InsertAtRune(r *kit.Rand, s, ins string) string {
	pos := 0
	if n := utf8.RuneCountInString(s); n > 0 {
		k := r.Intn(n + 1)
		if r.Chance(1, 6) {
			k = 0
		} else if r.Chance(1, 6) {
			k = n
		}
		for i := 0; i < k; i++ {
			_, sz := utf8.DecodeRuneInString(s[pos:])
			pos += sz
		}
	}
	return s[:pos] + ins + s[pos:]
}

// text generates the case's text; it returns the text and the generator class.
func (g *c20Gen) text(thorough bool) (string, string) {
	r := g.r
	mix := func(lo, hi int) string {
		var sb strings.Builder
		n := r.Range(lo, hi)
		for i := 0; i < n; i++ {
			var f string
			if g.hot > 0 && r.Chance(1, g.hot) {
				f, _ = g.hotFrag()
			} else {
				f, _ = g.frag(-1)
			}
			sb.WriteString(f)
			if r.Chance(1, 3) {
				sb.WriteByte(' ')
			}
		}
		return sb.String()
	}
	if r.Chance(1, 2000) {
		// a very long text without line breaks (64-200 KB: one line of CJK / Cyrillic / emoji prose): multi-byte
		// characters sit across every power-of-two byte offset an implementation might cut its input at
		var sb strings.Builder
		sb.WriteString(strings.Repeat("a", r.Intn(8)))
		target := r.Range(65000, 200000)
		for sb.Len() < target {
			unit, _ := g.frag(kit.Pick(r, []int{8, 9, 8, 9, 11}))
			unit = strings.ReplaceAll(strings.ReplaceAll(unit, "\n", ""), "\r", "")
			sb.WriteString(strings.Repeat(unit, r.Range(1, 400)))
			if r.Chance(1, 6) {
				sb.WriteByte(' ')
			}
		}
		s := sb.String()
		if r.Chance(1, 4) {
			// the only line break comes late
			p := len(s) - 1 - r.Intn(len(s)/10)
			for p > 0 && !utf8.RuneStart(s[p]) {
				p--
			}
			s = s[:p] + "\n" + s[p:]
		}
		return s, "very-long-line"
	}
	switch c := r.Intn(24); {
	case c < 9:
		return mix(1, 8), "mix"
	case c < 12: // special literals at PRNG rune positions of a mixed text
		s := mix(0, 5)
		n := r.Range(1, 4)
		sp := g.special()
		for i := 0; i < n; i++ {
			if r.Chance(1, 2) {
				sp = g.special()
			}
			s = c20InsertAtRune(r, s, sp)
		}
		return s, "special-embed"
	case c < 13: // every ASCII byte 0x01..0x7f once, PRNG order and separators
		p := r.Perm(127)
		var sb strings.Builder
		sep := kit.Pick(r, []string{"", "", " ", "a", "1", "\n"})
		for _, x := range p {
			b := byte(x + 1)
			sb.WriteByte(b)
			if r.Chance(1, 3) {
				sb.WriteString(sep)
			}
		}
		return sb.String(), "ascii-all"
	case c < 14: // every rune of U+0080..U+00FF once
		p := r.Perm(128)
		var sb strings.Builder
		sep := kit.Pick(r, []string{"", "", " ", "a", "1"})
		for _, x := range p {
			c := rune(0x80 + x)
			if g.tk.family == "bpe" && (c == 0xAC || c == 0xAE) && g.hot == 0 {
				continue
			}
			sb.WriteRune(c)
			if r.Chance(1, 3) {
				sb.WriteString(sep)
			}
		}
		return sb.String(), "latin1-all"
	case c < 16: // one punctuation byte in context
		p := c20Punct[r.Intn(len(c20Punct))]
		a, _ := g.frag(kit.Pick(r, []int{0, 2, 5, 8, 3}))
		b, _ := g.frag(kit.Pick(r, []int{0, 2, 5, 8, 3}))
		return a + kit.Pick(r, []string{"", " "}) + strings.Repeat(string(p), r.Range(1, 4)) + kit.Pick(r, []string{"", " ", "\n"}) + b, "punct-sweep"
	case c < 18: // one rune in a small context
		var cp rune
		switch r.Intn(3) {
		case 0:
			cp = c20Rune(r, 1, 0x7FF)
		case 1:
			cp = c20Rune(r, 0x800, 0xFFFF)
		default:
			cp = c20Rune(r, 0x10000, 0x10FFFF)
		}
		if g.hot == 0 && (cp == '▁' || (g.tk.family == "bpe" && (cp == 0xAC || cp == 0xAE))) {
			cp = 'é'
		}
		return kit.Pick(r, []string{"", "a", " ", "1", "\n", "é"}) + string(cp) + kit.Pick(r, []string{"", "a", " ", "1", "\n", "é"}), "rune-sweep"
	case c < 19: // long repeats
		unit, _ := g.frag(kit.Pick(r, []int{2, 3, 5, 6, 8, 11, 12}))
		if ur := []rune(unit); len(ur) > 3 {
			unit = string(ur[:r.Range(1, 3)])
		}
		n := r.Range(2, 200)
		if r.Chance(1, 8) {
			n = r.Range(200, 2000)
			if thorough && r.Chance(1, 8) {
				n = r.Range(2000, 20000)
			}
		}
		return kit.Pick(r, []string{"", "x", " "}) + strings.Repeat(unit, n) + kit.Pick(r, []string{"", "y", " "}), "long-repeat"
	case c < 20: // tiny strings incl. the empty one
		if r.Chance(1, 8) {
			return "", "tiny"
		}
		f, _ := g.frag(-1)
		fr := []rune(f)
		return string(fr[:min(len(fr), r.Range(1, 3))]), "tiny"
	case c < 21 && g.corpus != "":
		n := r.Range(200, 3000)
		if thorough && r.Chance(1, 10) {
			n = r.Range(3000, 40000)
		}
		return c20CorpusSlice(r, g.corpus, n), "corpus"
	default:
		if g.tk.family == "spm" {
			var sb strings.Builder
			n := r.Range(1, 6)
			for i := 0; i < n; i++ {
				var f string
				if g.hot > 0 && r.Chance(1, g.hot) {
					f, _ = g.hotFrag()
				} else if r.Chance(1, 8) {
					f, _ = g.frag(18)
				} else {
					f, _ = g.spmFrag()
				}
				sb.WriteString(f)
				if r.Chance(1, 4) {
					sb.WriteByte(' ')
				}
			}
			return sb.String(), "spm-vocab"
		}
		return mix(2, 12), "mix"
	}
}

// ------------------------------------------------------------------------------------------------
// oracle

type c20Case struct {
	Index      int         `json:"index"`
	Family     string      `json:"family"`
	Class      string      `json:"class"`
	Text       string      `json:"text"`
	TextQ      string      `json:"text_go_quoted"`
	AddBOS     bool        `json:"add_bos"`
	AddEOS     bool        `json:"add_eos"`
	Specials   []string    `json:"special_literals_in_text,omitempty"`
	Constructs []string    `json:"known_constructs_in_text,omitempty"`
	SPM        *c20SPMDesc `json:"spm_vocab,omitempty"`
	BPELayout  string      `json:"bpe_id_layout,omitempty"`
}

type c20Viol struct {
	sig, what string
	witness   map[string]any
}

func c20PanicSite() string {
	pcs := make([]uintptr, 64)
	n := runtime.Callers(3, pcs)
	fr := runtime.CallersFrames(pcs[:n])
	for {
		f, more := fr.Next()
		if strings.Contains(f.Function, "ollama/ollama/") && !strings.Contains(f.File, "zz_verif_") && !strings.Contains(f.Function, "c20") && !strings.Contains(f.Function, "C20") {
			fn := f.Function[strings.LastIndex(f.Function, "/")+1:]
			return fn
		}
		if !more {
			return "?"
		}
	}
}

// c20Enc / c20Dec call the code under test and turn panics and errors into a failure description.
func c20Enc(tk *c20Tok, s string, addSpecial bool) (ids []int32, fail, sig string) {
	defer func() {
		if p := recover(); p != nil {
			site := c20PanicSite()
			fail, sig = fmt.Sprintf("Encode panicked in %s: %v", site, p), "encode-panic:"+site
		}
	}()
	ids, err := tk.tp.Encode(s, addSpecial)
	if err != nil {
		return nil, "Encode returned an error: " + err.Error(), "encode-error"
	}
	return ids, "", ""
}

func c20Dec(tk *c20Tok, ids []int32) (got, fail, sig string) {
	defer func() {
		if p := recover(); p != nil {
			site := c20PanicSite()
			fail, sig = fmt.Sprintf("Decode panicked in %s: %v", site, p), "decode-panic:"+site
		}
	}()
	got, err := tk.tp.Decode(ids)
	if err != nil {
		return "", "Decode returned an error: " + err.Error(), "decode-error"
	}
	return got, "", ""
}

func c20InRange(tk *c20Tok, ids []int32) (int32, bool) {
	n := int32(len(tk.vocab.Values))
	for _, id := range ids {
		if id < 0 || id >= n {
			return id, false
		}
	}
	return 0, true
}

type c20Seg struct {
	text    string
	special bool
}

// c20Segments cuts s at every occurrence of a control-token literal (independent left-to-right scan;
// the literals used are delimiter-shaped so that occurrences can neither nest nor overlap).
func c20Segments(tk *c20Tok, s string) (segs []c20Seg, nspecial int) {
	start := 0
	for i := 0; i < len(s); {
		matched := ""
		if s[i] == '<' || s[i] == '[' {
			for _, sp := range tk.specials {
				if strings.HasPrefix(s[i:], sp) {
					matched = sp
					break
				}
			}
		}
		if matched == "" {
			i++
			continue
		}
		if i > start {
			segs = append(segs, c20Seg{text: s[start:i]})
		}
		segs = append(segs, c20Seg{text: matched, special: true})
		nspecial++
		i += len(matched)
		start = i
	}
	if start < len(s) {
		segs = append(segs, c20Seg{text: s[start:]})
	}
	return segs, nspecial
}

func c20EqIDs(a, b []int32) bool {
	if len(a) != len(b) {
		return false
	}
	for i := range a {
		if a[i] != b[i] {
			return false
		}
	}
	return true
}

// ---- known-construct classification (sound: a specific signature is only given when the text contains
// the construct AND the output is exactly what the construct predicts, everything else being preserved)

const (
	c20KTilde = "tilde-0x7e"
	c20KHack  = "hardcoded-special-105-106"
	c20KSep   = "literal-U+2581"
	c20KByte  = "literal-byte-token-spelling"
)

func c20BPEConstructs(tk *c20Tok, s string) []string {
	var k []string
	if strings.Contains(s, "~") {
		k = append(k, c20KTilde)
	}
	for _, h := range tk.hack {
		if strings.Contains(s, h) {
			k = append(k, c20KHack)
			break
		}
	}
	return k
}

// c20BPEHackBytes is what Decode makes of the token Values[id] (id 105/106) under the GPT-2 byte alphabet.
func c20BPEHackBytes(lit string) string {
	var sb strings.Builder
	for _, r := range lit {
		switch {
		case r == 0x0100:
			continue
		case r == 0x0143:
			r = 0xad
		case r > 0x0100 && r <= 0x0120:
			r -= 0x100
		case r > 0x0120 && r <= 0x0142:
			r -= 0xa2
		}
		sb.WriteByte(byte(r))
	}
	return sb.String()
}

// c20BPEPredict returns, per construct present in s, the exact output that construct alone explains.
func c20BPEPredict(tk *c20Tok, s string, ks []string) string {
	p := s
	for _, k := range ks {
		switch k {
		case c20KTilde:
			p = strings.ReplaceAll(p, "~", " ")
		case c20KHack:
			for _, h := range tk.hack {
				p = strings.ReplaceAll(p, h, c20BPEHackBytes(h))
			}
		}
	}
	return p
}

func c20BPENeutral(tk *c20Tok, s string) string {
	s = strings.ReplaceAll(s, "~", "-")
	for _, h := range tk.hack {
		s = strings.ReplaceAll(s, h, "!")
	}
	return s
}

func c20SPMSpellAt(tk *c20Tok, s string, i int) (byte, bool) {
	if i+6 <= len(s) && s[i] == '<' && s[i+1] == '0' && s[i+2] == 'x' && s[i+5] == '>' {
		b, ok := tk.byteSpell[s[i:i+6]]
		return b, ok
	}
	return 0, false
}

func c20SPMConstructs(tk *c20Tok, s string) []string {
	var k []string
	if strings.Contains(s, spmWhitespaceSep) {
		k = append(k, c20KSep)
	}
	hack, spell := false, false
	for i := 0; i < len(s); i++ {
		if _, ok := c20SPMSpellAt(tk, s, i); ok {
			isHack := false
			for _, h := range tk.hack {
				if s[i:i+6] == h {
					isHack = true
				}
			}
			if isHack {
				hack = true
			} else {
				spell = true
			}
		}
	}
	if spell {
		k = append(k, c20KByte)
	}
	if hack {
		k = append(k, c20KHack)
	}
	return k
}

// c20SPMAlign decides whether got can be obtained from s by (only) turning literal U+2581 into a space and
// byte-token spellings "<0xNN>" (tokens of this vocabulary) into the byte NN; it reports which kinds were used.
func c20SPMAlign(tk *c20Tok, s, got string) (used map[string]bool, ok bool) {
	type st struct{ i, j int }
	dead := map[st]bool{}
	used = map[string]bool{}
	var path []string
	var rec func(i, j int) bool
	rec = func(i, j int) bool {
		for i < len(s) && j < len(got) && s[i] == got[j] && s[i] != '<' && s[i] != 0xE2 {
			i++
			j++
		}
		if i == len(s) {
			return j == len(got)
		}
		k := st{i, j}
		if dead[k] {
			return false
		}
		if j < len(got) && s[i] == got[j] && rec(i+1, j+1) {
			return true
		}
		if strings.HasPrefix(s[i:], spmWhitespaceSep) && j < len(got) && got[j] == ' ' {
			path = append(path, c20KSep)
			if rec(i+len(spmWhitespaceSep), j+1) {
				return true
			}
			path = path[:len(path)-1]
		}
		if b, isSpell := c20SPMSpellAt(tk, s, i); isSpell && j < len(got) && got[j] == b {
			kind := c20KByte
			for _, h := range tk.hack {
				if s[i:i+6] == h {
					kind = c20KHack
				}
			}
			path = append(path, kind)
			if rec(i+6, j+1) {
				return true
			}
			path = path[:len(path)-1]
		}
		dead[k] = true
		return false
	}
	if !rec(0, 0) {
		return nil, false
	}
	for _, p := range path {
		used[p] = true
	}
	return used, true
}

func c20SPMNeutral(tk *c20Tok, s string) string {
	s = strings.ReplaceAll(s, spmWhitespaceSep, "_")
	b := []byte(s)
	for i := 0; i+6 <= len(b); i++ {
		if _, ok := c20SPMSpellAt(tk, string(b[i:i+6]), 0); ok {
			b[i] = '('
		}
	}
	return string(b)
}

func c20FirstDiff(a, b string) int {
	n := min(len(a), len(b))
	for i := 0; i < n; i++ {
		if a[i] != b[i] {
			return i
		}
	}
	return n
}

func c20Clip(s string, around int) string {
	lo, hi := max(0, around-40), min(len(s), around+40)
	return strconv.QuoteToASCII(s[lo:hi])
}

func c20ClipIDs(ids []int32) []int32 {
	if len(ids) > 200 {
		return ids[:200]
	}
	return ids
}

// c20RoundTrip checks Decode(Encode(s,false)) == s and classifies a failure.
// It returns the ids and decoded text of s for the later clauses.
func c20RoundTrip(tk *c20Tok, s string, generic bool) (ids []int32, got string, viols []c20Viol, dead bool) {
	fam := tk.family
	ids, fail, sig := c20Enc(tk, s, false)
	if fail != "" {
		return nil, "", []c20Viol{{"c20:" + fam + "-" + sig, fail, nil}}, true
	}
	if id, ok := c20InRange(tk, ids); !ok {
		return ids, "", []c20Viol{{"c20:" + fam + "-id-out-of-range", fmt.Sprintf("Encode produced id %d outside [0,%d)", id, len(tk.vocab.Values)), map[string]any{"ids": c20ClipIDs(ids)}}}, true
	}
	got, fail, sig = c20Dec(tk, ids)
	if fail != "" {
		return ids, "", []c20Viol{{"c20:" + fam + "-" + sig, fail, map[string]any{"ids": c20ClipIDs(ids)}}}, true
	}
	if got == s {
		return ids, got, nil, false
	}
	d := c20FirstDiff(s, got)
	wit := map[string]any{"decoded_go_quoted_around_first_difference": c20Clip(got, d), "text_go_quoted_around_first_difference": c20Clip(s, d),
		"first_difference_at_byte": d, "len_text": len(s), "len_decoded": len(got), "ids": c20ClipIDs(ids)}
	what := fmt.Sprintf("Decode(Encode(s)) != s: first difference at byte %d: text %s, decoded %s", d, c20Clip(s, d), c20Clip(got, d))
	if generic {
		return ids, got, []c20Viol{{"c20:" + fam + "-roundtrip", what, wit}}, false
	}
	var manifested []string
	if fam == "bpe" {
		// the constructs are independent of each other: some non-empty subset of those present must explain the output exactly
		ks := c20BPEConstructs(tk, s)
		for mask := 1; mask < 1<<len(ks) && manifested == nil; mask++ {
			var sub []string
			for b, k := range ks {
				if mask&(1<<b) != 0 {
					sub = append(sub, k)
				}
			}
			if c20BPEPredict(tk, s, sub) == got {
				manifested = sub
			}
		}
	} else {
		if ks := c20SPMConstructs(tk, s); len(ks) > 0 {
			if used, ok := c20SPMAlign(tk, s, got); ok {
				for _, k := range []string{c20KSep, c20KByte, c20KHack} {
					if used[k] {
						manifested = append(manifested, k)
					}
				}
			}
		}
	}
	if len(manifested) == 0 {
		return ids, got, []c20Viol{{"c20:" + fam + "-roundtrip", what, wit}}, false
	}
	// the construct must also be necessary: with it neutralised the text has to round-trip
	neutral := s
	if fam == "bpe" {
		neutral = c20BPENeutral(tk, s)
	} else {
		neutral = c20SPMNeutral(tk, s)
	}
	_, _, nv, _ := c20RoundTrip(tk, neutral, true)
	if len(nv) > 0 {
		for i := range nv {
			nv[i].what = "with the known constructs " + fmt.Sprint(manifested) + " neutralised (text " + c20Clip(neutral, c20FirstDiff(s, neutral)) + " ...) the round trip still fails: " + nv[i].what
			if nv[i].witness == nil {
				nv[i].witness = map[string]any{}
			}
			nv[i].witness["neutralised_text"] = neutral
			nv[i].witness["neutralised_text_go_quoted"] = strconv.QuoteToASCII(neutral)
		}
		viols = append(viols, nv...)
		viols = append(viols, c20Viol{"c20:" + fam + "-roundtrip", what, wit})
		return ids, got, viols, false
	}
	for _, k := range manifested {
		w := map[string]any{}
		for kk, vv := range wit {
			w[kk] = vv
		}
		w["neutralised_text_round_trips"] = true
		if k == c20KSep {
			// evidence that this one is inherent: the encoder maps two different texts to the same ids
			alt := strings.ReplaceAll(s, spmWhitespaceSep, " ")
			if aids, f, _ := c20Enc(tk, alt, false); f == "" {
				w["encode_collides_with_text_where_U+2581_is_a_space"] = c20EqIDs(aids, ids)
				c20Diag["u2581_failures"]++
				if c20EqIDs(aids, ids) {
					c20Diag["u2581_failures_where_encode_equals_encode_of_text_with_space"]++
				}
			}
		}
		viols = append(viols, c20Viol{"c20:" + fam + "-roundtrip:" + k, "[" + k + "] " + what, w})
	}
	return ids, got, viols, false
}

// c20Diag: diagnostic counters filled in by the classifier (single goroutine)
var c20Diag = map[string]int{}

type c20Stats struct {
	specialOcc, specialOK, framingExact, framingChecked int
	fallbackTokens, multiRuneTokens, tokens, bytes      int
	refChecked, refMismatch                             int
	refExample                                          string
	refExampleLen                                       int
}

// c20Check evaluates one case.
func c20Check(tk *c20Tok, c *c20Case, fx *c20BPEFixture, st *c20Stats) (viols []c20Viol, plain []int32) {
	s := c.Text
	fam := tk.family
	ids, got, v, dead := c20RoundTrip(tk, s, false)
	viols = append(viols, v...)
	if dead {
		return viols, nil
	}
	plain = ids
	st.tokens += len(ids)
	st.bytes += len(s)
	for _, id := range ids {
		val := tk.vocab.Values[id]
		if tk.vocab.Types[id] == TOKEN_TYPE_BYTE {
			st.fallbackTokens++
		} else if utf8.RuneCountInString(val) > 1 && tk.vocab.Types[id] != TOKEN_TYPE_CONTROL {
			st.multiRuneTokens++
		}
	}

	// ---- special-token clause
	segs, nsp := c20Segments(tk, s)
	if nsp > 0 {
		st.specialOcc += nsp
		var want []int32
		segIDs := make([][]int32, len(segs))
		bad := false
		for i, sg := range segs {
			if sg.special {
				segIDs[i] = []int32{tk.specID[sg.text]}
			} else {
				e, fail, sig := c20Enc(tk, sg.text, false)
				if fail != "" {
					viols = append(viols, c20Viol{"c20:" + fam + "-" + sig, "on the fragment " + strconv.QuoteToASCII(sg.text) + ": " + fail, nil})
					bad = true
					break
				}
				segIDs[i] = e
			}
			want = append(want, segIDs[i]...)
		}
		if !bad {
			if c20EqIDs(want, ids) {
				st.specialOK += nsp
			} else if why := c20SpecialWeak(tk, segs, segIDs, ids); why != "" {
				viols = append(viols, c20Viol{"c20:" + fam + "-special-literal", "a control-token literal in the text was not encoded to that token's id: " + why,
					map[string]any{"ids": c20ClipIDs(ids), "ids_expected_from_fragments": c20ClipIDs(want), "segments": segs2json(segs)}})
			} else {
				st.specialOK += nsp
			}
		}
	}

	// ---- addSpecial=true: the same text, plus at most the BOS/EOS literals that were asked for
	v0 := tk.vocab
	v0.AddBOS, v0.AddEOS = c.AddBOS, c.AddEOS
	idsT, fail, sig := c20Enc(tk, s, true)
	v0.AddBOS, v0.AddEOS = false, false
	if fail != "" {
		viols = append(viols, c20Viol{"c20:" + fam + "-" + sig, "addSpecial=true: " + fail, nil})
		return viols, plain
	}
	if id, ok := c20InRange(tk, idsT); !ok {
		viols = append(viols, c20Viol{"c20:" + fam + "-id-out-of-range", fmt.Sprintf("addSpecial=true: Encode produced id %d outside [0,%d)", id, len(tk.vocab.Values)), map[string]any{"ids": c20ClipIDs(idsT)}})
		return viols, plain
	}
	gotT, fail, sig := c20Dec(tk, idsT)
	if fail != "" {
		viols = append(viols, c20Viol{"c20:" + fam + "-" + sig, "addSpecial=true: " + fail, nil})
		return viols, plain
	}
	st.framingChecked++
	bosL, eosL := "", ""
	if c.AddBOS {
		bosL, _, _ = c20Dec(tk, []int32{v0.BOS})
	}
	if c.AddEOS {
		eosL, _, _ = c20Dec(tk, []int32{v0.EOS})
	}
	okT := gotT == got || gotT == bosL+got || gotT == got+eosL || gotT == bosL+got+eosL
	if !okT {
		d := c20FirstDiff(bosL+got+eosL, gotT)
		viols = append(viols, c20Viol{"c20:" + fam + "-addspecial-roundtrip",
			fmt.Sprintf("Encode(s,true) does not decode to s plus at most the requested BOS/EOS literals (add_bos=%v add_eos=%v): decoded %s", c.AddBOS, c.AddEOS, c20Clip(gotT, d)),
			map[string]any{"ids_addspecial": c20ClipIDs(idsT), "ids_plain": c20ClipIDs(ids)}})
	}
	var frame []int32
	if len(ids) > 0 && c.AddBOS {
		frame = append(frame, v0.BOS)
	}
	frame = append(frame, ids...)
	if len(ids) > 0 && c.AddEOS {
		frame = append(frame, v0.EOS)
	}
	if c20EqIDs(frame, idsT) {
		st.framingExact++
	}

	// ---- diagnostic only (never a verdict): compare with a textbook BPE over an independent byte table
	if fam == "bpe" && fx != nil && len(s) <= 400 && len(viols) == 0 && nsp == 0 && len(c.Constructs) == 0 {
		ref := c20RefBPE(fx, s)
		st.refChecked++
		if !c20EqIDs(ref, ids) {
			st.refMismatch++
			if st.refExample == "" || len(s) < st.refExampleLen {
				st.refExampleLen = len(s)
				st.refExample = fmt.Sprintf("%s: ollama %v, textbook %v", strconv.QuoteToASCII(s), c20ClipIDs(ids), c20ClipIDs(ref))
			}
		}
	}
	return viols, plain
}

func segs2json(segs []c20Seg) []string {
	var o []string
	for _, s := range segs {
		if s.special {
			o = append(o, "SPECIAL "+s.text)
		} else {
			o = append(o, strconv.QuoteToASCII(s.text))
		}
	}
	if len(o) > 40 {
		o = o[:40]
	}
	return o
}

// c20SpecialWeak is the weakest reading of the special-token clause, used when the fragment-wise id equality
// does not hold: cutting the produced ids at control-token ids must give the same sequence of control tokens
// as the text has literals, and each plain run must be the encoding of, or decode to, its plain fragment.
func c20SpecialWeak(tk *c20Tok, segs []c20Seg, segIDs [][]int32, ids []int32) string {
	pos := 0
	for i, sg := range segs {
		if sg.special {
			if pos >= len(ids) || ids[pos] != segIDs[i][0] {
				return fmt.Sprintf("literal %s (occurrence in segment %d): expected id %d at position %d of the produced ids", sg.text, i, segIDs[i][0], pos)
			}
			pos++
			continue
		}
		end := pos
		for end < len(ids) && tk.vocab.Types[ids[end]] != TOKEN_TYPE_CONTROL {
			end++
		}
		run := ids[pos:end]
		if !c20EqIDs(run, segIDs[i]) {
			if d, fail, _ := c20Dec(tk, run); fail != "" || d != sg.text {
				return fmt.Sprintf("plain fragment %s (segment %d) is encoded differently inside the text and does not decode back", strconv.QuoteToASCII(sg.text), i)
			}
		}
		pos = end
	}
	if pos != len(ids) {
		return fmt.Sprintf("%d surplus ids after the last fragment", len(ids)-pos)
	}
	return ""
}

// ---- textbook BPE (diagnostic)

var c20ByteRune = func() [256]rune {
	var t [256]rune
	n := rune(0)
	for b := 0; b < 256; b++ {
		if (b >= '!' && b <= '~') || (b >= 0xa1 && b <= 0xac) || (b >= 0xae && b <= 0xff) {
			t[b] = rune(b)
		} else {
			t[b] = 256 + n
			n++
		}
	}
	return t
}()

func c20RefBPE(fx *c20BPEFixture, s string) []int32 {
	var ids []int32
	v := fx.tok.vocab
	for m, _ := fx.pre.FindStringMatch(s); m != nil; m, _ = fx.pre.FindNextMatch(m) {
		var parts []string
		for _, b := range []byte(m.String()) {
			parts = append(parts, string(c20ByteRune[b]))
		}
		for len(parts) > 1 {
			best, bi := -1, -1
			for i := 0; i+1 < len(parts); i++ {
				if rk, ok := fx.ranks[parts[i]+" "+parts[i+1]]; ok && (best < 0 || rk < best) {
					best, bi = rk, i
				}
			}
			if bi < 0 {
				break
			}
			parts[bi] += parts[bi+1]
			parts = append(parts[:bi+1], parts[bi+2:]...)
		}
		for _, p := range parts {
			ids = append(ids, v.Encode(p))
		}
	}
	return ids
}

// ------------------------------------------------------------------------------------------------

func c20Features(s string, ids []int32) string {
	var f []string
	multi, supp, comb, wsrun, digit, punct, ctl := false, false, false, false, false, false, false
	prevWS := false
	for _, r := range s {
		switch {
		case r >= 0x10000:
			supp = true
		case r >= 0x80:
			multi = true
		}
		if (r >= 0x300 && r <= 0x36f) || r == 0x200d || (r >= 0xfe00 && r <= 0xfe0f) {
			comb = true
		}
		ws := r == ' ' || r == '\t' || r == '\n' || r == '\r'
		if ws && prevWS {
			wsrun = true
		}
		prevWS = ws
		if r >= '0' && r <= '9' {
			digit = true
		}
		if r < 0x80 && strings.ContainsRune(c20Punct, r) {
			punct = true
		}
		if r < 0x20 && !ws || (r >= 0x7f && r <= 0x9f) {
			ctl = true
		}
	}
	for _, x := range []struct {
		b bool
		n string
	}{{multi, "bmp"}, {supp, "supp"}, {comb, "comb"}, {wsrun, "wsrun"}, {digit, "dig"}, {punct, "punct"}, {ctl, "ctl"}} {
		if x.b {
			f = append(f, x.n)
		}
	}
	nb := 0
	for n := len(ids); n > 0; n >>= 1 {
		nb++
	}
	ratio := "r1"
	if len(ids) > 0 {
		switch q := float64(len(s)) / float64(len(ids)); {
		case q >= 3:
			ratio = "r3"
		case q >= 1.5:
			ratio = "r2"
		}
	}
	return fmt.Sprint(f, " t", nb, " ", ratio)
}

func TestVerifC20(t *testing.T) {
	slog.SetDefault(slog.New(slog.NewTextHandler(io.Discard, nil)))
	rep := kit.NewReport("C20")
	cfg := rep.Cfg()
	defer rep.Flush()
	rep.Set("rule", "case i = PRNG(seed,'C20',i): family bpe (pinned llama-3.2 encoder.json/vocab.bpe + the llama pre-tokenizer expression, 256 control tokens) or spm (a PRNG-built SentencePiece vocabulary per case: 256 byte tokens, pieces built by concatenation so that score-ordered merges reach them, prefix-related pieces, U+2581 pieces, control tokens, gemma/llama2/shuffled id layouts) and a valid NUL-free UTF-8 text from 10 generator classes (fragment mixes over words, whitespace runs, digits, every ASCII punctuation byte, 67 script ranges, combining marks, emoji ZWJ sequences, C0/C1 controls, uniformly drawn code points, corpus slices, long repeats, all-ASCII and all-Latin-1 sweeps, control-token literals inserted at PRNG rune positions, whole or cut). Oracle on the real Encode/Decode: Decode(Encode(s,false))==s; ids in [0,len(vocab)); Encode(s) == fragment-wise encoding around every control-token literal (weak fallback: same control ids in order and every plain run decodes to its fragment); Encode(s,true) decodes to s plus at most the requested BOS/EOS literal. Non-trivial = text of >=2 bytes that produced >=1 token; distinct = (family, generator class, spm layout, feature set {BMP, supplementary, combining, whitespace run, digits, punctuation, controls}, log2 token count, bytes-per-token bucket, number of control literals (0,1,2+), byte-fallback used)")
	rep.Set("assumptions", []string{
		"special token = token typed CONTROL in the vocabulary; control-token literals are delimiter-shaped (<...>, [...]) so occurrences neither nest nor overlap (true of the llama-3 set and of the synthetic sets)",
		"SentencePiece vocabularies are synthetic (the pinned gemma2 tokenizer.model is empty): byte tokens are spelled <0xNN> upper-case and typed BYTE; ids 105/106, which Vocabulary.SpecialVocabulary hard-codes as special, are occupied by byte/control/unused/turn tokens as in real layouts, never by an ordinary piece",
		"every synthetic SentencePiece vocabulary contains the single piece U+2581 (as every trained model does); without it a space falls back to the bytes E2 96 81 and Decode, which maps U+2581 to a space per token, returns the literal U+2581 — noted in notes/C20.md, not explored",
		"BPE is observed with one vocabulary (in two id layouts: as pinned, and with a control token at id 0) and one pre-tokenizer expression (the pinned llama-3.2 fixture); the expression itself lives in model/models/* and is an input here",
		"Encode(s,true) is allowed to add the BOS/EOS literal it was configured to add; nothing else about BOS/EOS placement is demanded",
	})
	fx, err := c20LoadBPE()
	if err != nil {
		t.Fatalf("cannot load the llama3.2 fixture (cwd must be /repo/model): %v", err)
	}
	thorough := cfg.Tier == "thorough"
	n := cfg.N(80000, 3000000)
	replayIdx := -1
	if cfg.Replay != "" {
		var rc struct {
			Index int `json:"index"`
		}
		if err := kit.LoadReplay(cfg.Replay, &rc); err != nil {
			t.Fatal(err)
		}
		replayIdx = rc.Index
	}
	st := &c20Stats{}
	punctSeen := map[string]int{}
	classCount := map[string]int{}
	for i := 0; i < n; i++ {
		if replayIdx >= 0 && i != replayIdx {
			continue
		}
		if replayIdx < 0 && !cfg.Mine(i) {
			continue
		}
		r := kit.NewRand(cfg.Seed, "C20", i)
		c := &c20Case{Index: i}
		var tk *c20Tok
		g := &c20Gen{r: r}
		fxc := fx
		if r.Bool() {
			if r.Chance(1, 3) {
				fxc = c20bpeFix0
				c.BPELayout = "control token <|begin_of_text|> at id 0"
			}
			tk = fxc.tok
			g.corpus = fx.corpus
		} else {
			tk = c20GenSPM(r)
			c.SPM = tk.desc
			g.alpha = []rune(tk.desc.Alphabet)
			for id, val := range tk.vocab.Values {
				if tp := tk.vocab.Types[id]; tp == TOKEN_TYPE_NORMAL || tp == TOKEN_TYPE_USER_DEFINED {
					g.pieces = append(g.pieces, val)
				}
			}
			if r.Chance(1, 4) {
				g.corpus = fx.corpus
			}
		}
		g.tk = tk
		c.Family = tk.family
		// one case in five may contain the constructs that are known to break the round trip
		if r.Chance(1, 5) {
			g.hot = kit.Pick(r, []int{4, 8, 16})
		}
		c.Text, c.Class = g.text(thorough)
		c.TextQ = strconv.QuoteToASCII(c.Text)
		if len(c.TextQ) > 600 {
			c.TextQ = c.TextQ[:600] + "...(cut)"
		}
		c.AddBOS, c.AddEOS = r.Chance(2, 3), r.Chance(1, 3)
		if !utf8.ValidString(c.Text) || strings.ContainsRune(c.Text, 0) {
			t.Fatalf("generator produced an invalid text for case %d: %q", i, c.Text)
		}
		if tk.family == "bpe" {
			c.Constructs = c20BPEConstructs(tk, c.Text)
		} else {
			c.Constructs = c20SPMConstructs(tk, c.Text)
		}
		segs, nsp := c20Segments(tk, c.Text)
		for _, sg := range segs {
			if sg.special && len(c.Specials) < 8 {
				c.Specials = append(c.Specials, sg.text)
			}
		}
		rep.Journal([]byte(fmt.Sprintf(`{"index":%d,"family":%q,"class":%q}`, i, c.Family, c.Class)))
		rep.Eval(1)
		before := *st
		viols, ids := c20Check(tk, c, fxc, st)
		for _, v := range viols {
			if c.SPM != nil && c.SPM.Values == nil {
				d := *c.SPM
				d.Values, d.Types, d.Scores = tk.vocab.Values, tk.vocab.Types, tk.vocab.Scores
				c.SPM = &d
			}
			rep.Violate(v.sig, v.what, c, v.witness)
			if replayIdx >= 0 {
				t.Logf("replay: %s: %s", v.sig, v.what)
			}
		}
		if c.SPM != nil && c.SPM.Values != nil {
			c.SPM = tk.desc
		}
		// ---- coverage accounting
		classCount[c.Family+"/"+c.Class]++
		rep.Count("cases_"+c.Family, 1)
		if len(c.Constructs) > 0 {
			rep.Count("cases_with_known_constructs_"+c.Family, 1)
		}
		if nsp > 0 {
			rep.Count("cases_with_control_literals_"+c.Family, 1)
		}
		for _, b := range []byte(c.Text) {
			if b < 0x80 && strings.IndexByte(c20Punct, b) >= 0 {
				punctSeen[c.Family+" "+string(b)]++
			}
		}
		ntok := st.tokens - before.tokens
		if len(c.Text) >= 2 && ntok > 0 {
			layout := ""
			if c.SPM != nil {
				layout = c.SPM.Layout
			}
			rep.Distinct(fmt.Sprint(c.Family, c.Class, layout, c20Features(c.Text, ids), " sp", min(nsp, 2), " fb", st.fallbackTokens > before.fallbackTokens))
		}
		if rep.NeedSample() && len(c.Text) > 8 && len(c.Text) < 120 && (i/max(1, cfg.NShards))%97 == 3 {
			rep.Sample(c)
		}
	}
	rep.Count("tokens_produced", st.tokens)
	rep.Count("text_bytes", st.bytes)
	rep.Count("control_literal_occurrences", st.specialOcc)
	rep.Count("control_literal_occurrences_encoded_to_their_id", st.specialOK)
	rep.Count("addspecial_checked", st.framingChecked)
	rep.Count("addspecial_exact_bos_eos_framing", st.framingExact)
	rep.Count("byte_tokens_produced", st.fallbackTokens)
	rep.Count("multi_rune_tokens_produced", st.multiRuneTokens)
	for k, v := range c20Diag {
		rep.Count(k, v)
	}
	rep.Count("diag_textbook_bpe_compared", st.refChecked)
	rep.Count("diag_textbook_bpe_differs", st.refMismatch)
	if st.refExample != "" {
		rep.Set("diag_textbook_bpe_example", st.refExample)
	}
	rep.Set("cases_by_family_and_class", classCount)
	rep.Set("ascii_punctuation_byte_occurrences", punctSeen)
	if replayIdx >= 0 && rep.Violations() == 0 {
		t.Logf("replay: case %d holds", replayIdx)
	}
}
