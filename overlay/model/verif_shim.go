//go:build verif

package model

// Overlay-only export shim of the /verif runtime monitors (properties C07 and C14). It exists only in
// builds made with `-tags verif -overlay ...`; nothing in /repo refers to it.
//
// model.Model has a method returning the unexported type `config`, so a scripted model that is to be
// run through runner/ollamarunner.Server must embed model.Base, whose fields are unexported. This
// constructor is the only thing the monitors need from this package.

import (
	"github.com/ollama/ollama/kvcache"
	"github.com/ollama/ollama/ml"
)

// NewVerifBase returns a Base with the given backend and KV cache, exactly what model.New builds
// from a model file.
func NewVerifBase(backend ml.Backend, cache kvcache.Cache) Base {
	return Base{b: backend, config: config{Cache: cache}}
}
