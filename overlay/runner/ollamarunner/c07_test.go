//go:build verif

package ollamarunner

// C07: prompt caching, slot reuse and context shifting never change what the model sees.
//
// Runtime monitor over generated request histories; the world (real Server + InputCache + kvcache,
// scripted model) is in c07_common_test.go.  Oracles:
//   (0) processBatch never fails (Server.run would panic): in particular no ErrKvCacheFull, which can
//       only happen when the cache holds more than the inputs recorded for the slots;
//   (1) state: inside every Forward, every batch row of slot s at position p sees through the real
//       cache exactly [(0,x0)..(p,xp)] (restricted to the window for sliding-window layers) where
//       x = InputCacheSlot.Inputs ++ pendingInputs of the sequence owning the slot;
//   (2) exclusivity: no slot is owned by two live sequences, a live sequence's slot is marked InUse;
//   (3) differential: what each request's client receives (text, done_reason, eval and prompt
//       counts) equals (a) the reference semantics c07Reference (no cache, no slots, no batches:
//       truncation + discard-half window) and (b) what a FRESH one-slot Server with an empty cache
//       of the same configuration streams for the same request.

import (
	"encoding/json"
	"fmt"
	"io"
	"log/slog"
	"os"
	"runtime"
	"sort"
	"strings"
	"testing"

	kit "verifkit"
)

type c07Op struct {
	Op  string `json:"op"` // start | steps | drain
	Req int    `json:"req,omitempty"`
	N   int    `json:"n,omitempty"`
}

type c07Case struct {
	Index int    `json:"index"`
	Cfg   c07Cfg `json:"cfg"`
	// SWAShift: generations may overflow the context although the cache has a sliding window
	// (sub-workload "sliding window + context shift", only for case indices < c07SWAShiftCases)
	SWAShift bool      `json:"swa_shift_subworkload,omitempty"`
	Mode     string    `json:"mode"` // sync: requests are (1 history in 13 opens with 'fork, then overflow': a prompt sharing more than num_keep + the discarded half of the previous one, generating beyond the context under the multi-user policy, so that the shift meets shared cells and the slot is rebuilt by reprocessing) admitted at scripted points between batches; free: clients race the batch loop
	Reqs     []*c07Req `json:"requests"`
	Ops      []c07Op   `json:"ops"`
}

// Cases with a windowed cache whose generations may overflow the context: every 7th of the first indices.
const c07SWAShiftCases = 2048

func c07RandText(r *kit.Rand, letters, n int) string {
	b := make([]byte, n)
	for i := range b {
		b[i] = 'a' + byte(r.Intn(letters))
	}
	return string(b)
}

func c07Gen(r *kit.Rand, idx int) *c07Case {
	cs := &c07Case{Index: idx}
	cfg := &cs.Cfg
	cfg.Kind = kit.Pick(r, []string{"causal", "causal", "causal", "causal", "causal", "noshift", "noshift", "refuse", "refuse", "swa", "wrapper", "wrapper"})
	if k := os.Getenv("VERIF_C07_KIND"); k != "" {
		cfg.Kind = k // exploration aid (never set by ./check): force the cache kind of every case
	}
	cfg.Parallel = kit.Pick(r, []int{1, 1, 2, 2, 2, 3, 4})
	switch r.Intn(10) {
	case 0:
		cfg.NumCtx = r.Range(41, 64)
	case 1, 2, 3:
		cfg.NumCtx = r.Range(21, 40)
	default:
		cfg.NumCtx = r.Range(8, 20)
	}
	cfg.Batch = kit.Pick(r, []int{1, 2, 3, 4, 5, 8, 16})
	cfg.MultiUser = r.Chance(1, 2)
	cfg.Vocab = r.Range(3, 8)
	cfg.BOS = r.Chance(1, 4)
	cfg.EOSRate = kit.Pick(r, []int{0, 0, 2, 5})
	cfg.CachePad = kit.Pick(r, []int{1, 1, 1, 4})
	cfg.PermutedV = r.Chance(1, 4)
	cfg.Salt = r.Uint64()
	if cfg.Kind == "swa" || cfg.Kind == "wrapper" {
		cfg.Window = r.Range(2, 10)
	}
	cs.SWAShift = cfg.Window > 0 && idx < c07SWAShiftCases && idx%7 == 0
	// directed opening "fork, then overflow": request 0 leaves a long prompt in a slot; request 1 shares more than
	// num_keep + the discarded half of it and then diverges, so that under the multi-user policy the common prefix is
	// forked to another slot (the cells stay shared), and generates beyond the context: the shift must touch shared
	// cells, is refused, and the slot is rebuilt by reprocessing. On sliding-window kinds this belongs to the shift
	// sub-workload.
	forkOverflow := idx%13 == 5
	if forkOverflow {
		cfg.MultiUser = true
		cfg.Parallel = max(cfg.Parallel, kit.Pick(r, []int{2, 3, 3, 4}))
		if cfg.Window > 0 {
			cs.SWAShift = true
		}
	}
	letters := cfg.Vocab - 1
	n := r.Range(3, 10)
	if r.Chance(1, 7) {
		n = r.Range(11, 30)
	}
	type past struct {
		prompt string
		out    string
	}
	var hist []past
	for i := 0; i < n; i++ {
		q := &c07Req{Idx: i}
		k := r.Intn(10)
		if len(hist) == 0 {
			k = 0
		}
		switch {
		case k < 3:
			q.Kind = "fresh"
			switch r.Intn(10) {
			case 0, 1:
				q.Kind = "long"
				q.Prompt = c07RandText(r, letters, r.Range(cfg.NumCtx+1, 2*cfg.NumCtx+4))
			case 2, 3, 4:
				q.Prompt = c07RandText(r, letters, r.Range(cfg.NumCtx/2, cfg.NumCtx))
			default:
				q.Prompt = c07RandText(r, letters, r.Range(1, max(1, cfg.NumCtx/2)))
			}
		case k < 5:
			q.Kind = "repeat"
			q.Prompt = kit.Pick(r, hist).prompt
		case k < 8:
			q.Kind = "continue"
			h := kit.Pick(r, hist)
			out := h.out
			if r.Chance(1, 3) && len(out) > 0 {
				out = out[:r.Intn(len(out)+1)]
			}
			q.Prompt = h.prompt + out + c07RandText(r, letters, r.Range(0, 4))
		default:
			q.Kind = "diverge"
			h := kit.Pick(r, hist)
			q.Prompt = h.prompt[:r.Intn(len(h.prompt)+1)] + c07RandText(r, letters, r.Range(1, 6))
		}
		if q.Prompt == "" {
			q.Prompt = c07RandText(r, letters, 1)
		}
		switch p := r.Intn(20); {
		case p < 11:
			q.NumPredict = r.Range(1, 8)
		case p < 17:
			q.NumPredict = r.Range(9, cfg.NumCtx+8)
		default:
			if cfg.EOSRate > 0 {
				q.NumPredict = kit.Pick(r, []int{-1, 0})
			} else {
				q.NumPredict = r.Range(1, 8)
			}
		}
		switch p := r.Intn(10); {
		case p < 1:
			q.NumKeep = -1
		case p < 3:
			q.NumKeep = 0
		case p < 5:
			q.NumKeep = 4
		case p < 9:
			q.NumKeep = r.Range(0, cfg.NumCtx-1)
		default:
			q.NumKeep = r.Range(cfg.NumCtx, cfg.NumCtx+3)
		}
		if r.Chance(3, 10) {
			for j := r.Range(1, 2); j > 0; j-- {
				q.Stop = append(q.Stop, c07RandText(r, letters, r.Range(1, 3)))
			}
		}
		if forkOverflow && i < 2 {
			nk := r.Range(1, 4)
			need := nk + (cfg.NumCtx-nk)/2 + 1 // first index beyond num_keep + discard
			if i == 0 {
				q.Kind, q.Prompt = "fresh", c07RandText(r, letters, r.Range(max(need+1, 3*cfg.NumCtx/4), max(need+1, cfg.NumCtx-2)))
				q.NumPredict, q.NumKeep, q.Stop = r.Range(1, 2), 0, nil
			} else {
				p0 := hist[0].prompt
				m := r.Range(min(need, len(p0)-1), len(p0)-1)
				q.Kind, q.Prompt = "diverge", p0[:m]+c07RandText(r, letters, r.Range(1, 3))
				q.NumPredict, q.NumKeep, q.Stop = cfg.NumCtx+r.Range(1, 8), nk, nil
			}
		}
		if r.Chance(1, 20) {
			q.CancelAfter = r.Range(1, 3)
		}
		e := c07Reference(cfg, q)
		if e.Eval > 300 {
			// an unlimited generation that meets no EOS soon (a deterministic model can cycle for ever): bound it
			q.NumPredict = r.Range(1, cfg.NumCtx+8)
			e = c07Reference(cfg, q)
		}
		if (cfg.Kind == "swa" || cfg.Kind == "wrapper") && !cs.SWAShift {
			// Sliding window + context shift is the upstream TODO in Causal.Remove (the shifted window
			// reaches entries that were already evicted). It runs as its own bounded sub-workload
			// (SWAShift) so that it cannot use up the violation budget of everything else.
			if e.Shifts > 0 {
				q.NumPredict = max(1, cfg.NumCtx-e.PromptEval+1)
				e = c07Reference(cfg, q)
			}
			if e.Shifts > 0 {
				panic("c07 generator: could not avoid the context shift")
			}
		}
		hist = append(hist, past{q.Prompt, e.Text})
		cs.Reqs = append(cs.Reqs, q)
	}
	cs.Mode = "sync"
	if r.Chance(3, 20) {
		cs.Mode = "free"
	}
	overlap := kit.Pick(r, []int{0, 5, 9})
	if cfg.Parallel == 1 && overlap == 9 {
		overlap = 5
	}
	for i := range cs.Reqs {
		cs.Ops = append(cs.Ops, c07Op{Op: "start", Req: i})
		if r.Intn(10) < overlap {
			cs.Ops = append(cs.Ops, c07Op{Op: "steps", N: r.Range(0, 5)})
		} else {
			cs.Ops = append(cs.Ops, c07Op{Op: "drain"})
		}
	}
	cs.Ops = append(cs.Ops, c07Op{Op: "drain"})
	return cs
}

type c07Outcome struct {
	viol         *c07Viol
	inconclusive string
	flags        map[string]bool
	cnt          map[string]int
	results      []map[string]any
}

func (o *c07Outcome) absorb(w *c07World, prefix string) {
	w.mu.Lock()
	defer w.mu.Unlock()
	for k, v := range w.cnt {
		o.cnt[prefix+k] += v
	}
	if prefix == "" {
		for k := range w.flags {
			o.flags[k] = true
		}
	}
}

// c07Judge compares what a client received with the reference semantics; "" = agrees.
func c07Judge(q *c07Req, res c07Result, e c07Expect) (string, string) {
	if res.Status != 200 {
		return "request-failed", fmt.Sprintf("request %d answered HTTP %d %q; a fresh runner generates %q", q.Idx, res.Status, res.Err, e.Text)
	}
	if res.Err != "" {
		return "response-unparsable", res.Err
	}
	if q.CancelAfter > 0 {
		// the client went away: only what it did receive is judged
		if !strings.HasPrefix(e.Text, res.Text) {
			return "diff-reference:text", fmt.Sprintf("request %d (cancelled by the client) received %q, which is not a prefix of the reference generation %q", q.Idx, res.Text, e.Text)
		}
		return "", ""
	}
	if !res.Done {
		return "no-final-response", fmt.Sprintf("request %d: stream ended without a done response", q.Idx)
	}
	if e.StopHit {
		if !c07EndsBeforeStop(e.Text, res.Text, q.Stop) || c07ContainsStop(res.Text, q.Stop) != "" {
			return "diff-reference:text", fmt.Sprintf("request %d received %q; the reference generation is %q, which must be cut immediately before a stop string of %q", q.Idx, res.Text, e.Text, q.Stop)
		}
	} else if res.Text != e.Text {
		return "diff-reference:text", fmt.Sprintf("request %d received %q; the reference semantics (prompt truncation + discard-half window, no cache) generate %q", q.Idx, res.Text, e.Text)
	}
	if res.Reason != e.Reason || res.Eval != e.Eval || res.PromptEval != e.PromptEval {
		return "diff-reference:final", fmt.Sprintf("request %d final response (done_reason %d, eval_count %d, prompt_eval_count %d) differs from the reference (%d, %d, %d)", q.Idx, res.Reason, res.Eval, res.PromptEval, e.Reason, e.Eval, e.PromptEval)
	}
	return "", ""
}

// c07Fresh runs one request alone on a fresh one-slot Server of the same configuration.
func c07Fresh(cfg *c07Cfg, q *c07Req, out *c07Outcome) (c07Result, *c07Viol, string) {
	fc := *cfg
	fc.Parallel = 1
	w, err := c07NewWorld(&fc)
	if err != nil {
		return c07Result{}, &c07Viol{Sig: "harness", What: err.Error()}, ""
	}
	fq := &c07Req{Idx: q.Idx, Prompt: q.Prompt, NumPredict: q.NumPredict, NumKeep: q.NumKeep, Stop: q.Stop}
	w.start(fq)
	fe := c07Reference(cfg, q)
	ok := w.drain([]*c07Req{fq}, 2000+4*(fe.PromptEval+fe.Eval+fe.Shifts*cfg.NumCtx))
	out.absorb(w, "fresh_")
	if v := w.violation(); v != nil {
		w.abandon([]*c07Req{fq})
		v.What = "on a FRESH one-slot runner serving only this request: " + v.What
		return c07Result{}, v, ""
	}
	if !ok {
		w.abandon([]*c07Req{fq})
		return c07Result{}, nil, "fresh runner: " + w.inconclusive
	}
	return fq.result(), nil, ""
}

func c07RunCase(cs *c07Case) *c07Outcome {
	out := &c07Outcome{flags: map[string]bool{}, cnt: map[string]int{}}
	cfg := &cs.Cfg
	w, err := c07NewWorld(cfg)
	if err != nil {
		out.viol = &c07Viol{Sig: "harness", What: err.Error()}
		return out
	}
	exp := make([]c07Expect, len(cs.Reqs))
	for i, q := range cs.Reqs {
		exp[i] = c07Reference(cfg, q)
	}
	maxSteps := 2000
	for _, e := range exp {
		maxSteps += 4 * (e.PromptEval + e.Eval + 8 + e.Shifts*cfg.NumCtx) // a failed shift reprocesses the whole window
	}
	finish := func() *c07Outcome {
		out.absorb(w, "")
		out.viol = w.violation()
		out.inconclusive = w.inconclusive
		w.abandon(cs.Reqs)
		return out
	}
	if cs.Mode == "free" {
		launched := make(chan struct{})
		go func() {
			defer close(launched)
			for _, op := range cs.Ops {
				switch op.Op {
				case "start":
					w.start(cs.Reqs[op.Req])
				case "steps":
					for i := 0; i < op.N*3; i++ {
						runtime.Gosched()
					}
				}
			}
		}()
		// the batch loop races the clients, as Server.run does
		spins := 0
		for {
			if w.isDead() {
				<-launched
				return finish()
			}
			if w.step() {
				spins = 0
				if w.steps > maxSteps {
					w.inconclusive = fmt.Sprintf("step limit: %d batches without the history finishing", w.steps)
					<-launched
					return finish()
				}
				continue
			}
			done := false
			select {
			case <-launched:
				done = true
				for _, q := range cs.Reqs {
					if !q.isDone() {
						done = false
					}
				}
			default:
			}
			if done {
				break
			}
			c07Yield(&spins)
			if spins > 3_000_000 {
				w.inconclusive = "watchdog: free-running history did not finish"
				<-launched
				return finish()
			}
		}
	} else {
		for _, op := range cs.Ops {
			if w.isDead() || w.inconclusive != "" {
				break
			}
			switch op.Op {
			case "start":
				before := w.live()
				w.start(cs.Reqs[op.Req])
				w.waitAdmitted(cs.Reqs[op.Req], before)
			case "steps":
				for i := 0; i < op.N; i++ {
					if !w.step() {
						break
					}
				}
			case "drain":
				if !w.drain(cs.Reqs, maxSteps) {
					return finish()
				}
			}
		}
	}
	if w.isDead() || w.inconclusive != "" {
		return finish()
	}
	// ---- differential oracle over every request of the history
	judge := func(q *c07Req, e c07Expect) bool {
		res := q.result()
		tag := ""
		if e.Shifts > 0 {
			tag = ":after-shift"
		}
		if e.Truncated {
			out.flags["truncated-prompt"] = true
			out.cnt["requests_with_truncated_prompt"]++
		}
		if e.Shifts > 0 {
			out.flags["gen-overflow"] = true
			out.cnt["requests_with_context_shift"]++
			out.cnt["context_shifts_expected"] += e.Shifts
		}
		if e.StopHit {
			out.flags["stop-hit"] = true
			out.cnt["requests_ended_by_stop_string"]++
		}
		if q.CancelAfter > 0 {
			out.cnt["requests_cancelled_by_client"]++
		}
		out.cnt["requests"]++
		out.cnt["tokens_generated_expected"] += e.Eval
		if len(out.results) < 12 {
			out.results = append(out.results, map[string]any{"req": q.Idx, "received": res, "reference": e})
		}
		if sig, what := c07Judge(q, res, e); sig != "" {
			w.fail(sig+tag, what, map[string]any{"request": q, "received": res, "reference": e})
			return false
		}
		if q.CancelAfter > 0 {
			return true
		}
		fres, fv, finc := c07Fresh(cfg, q, out)
		if fv != nil {
			w.fail(fv.Sig, fv.What, map[string]any{"request": q, "fresh_witness": fv.Wit})
			return false
		}
		if finc != "" {
			w.inconclusive = finc
			return false
		}
		if fres.Status != res.Status || fres.Text != res.Text || fres.Reason != res.Reason || fres.Eval != res.Eval || fres.PromptEval != res.PromptEval || fres.Done != res.Done {
			w.fail("diff-fresh"+tag, fmt.Sprintf("request %d received (%q, done_reason %d, eval %d, prompt %d) from the runner with history, but (%q, %d, %d, %d) from a fresh one-slot runner with an empty cache", q.Idx, res.Text, res.Reason, res.Eval, res.PromptEval, fres.Text, fres.Reason, fres.Eval, fres.PromptEval),
				map[string]any{"request": q, "received": res, "fresh": fres, "reference": e})
			return false
		}
		return true
	}
	for i, q := range cs.Reqs {
		if !judge(q, exp[i]) {
			return finish()
		}
	}
	// ---- audit: every slot's record is used once more, so that a record that does not match the
	// cache is seen by the state oracle even if the history never came back to it
	type rec struct {
		slot int
		toks []int
	}
	var recs []rec
	w.s.mu.Lock()
	for i := range w.s.cache.slots {
		recs = append(recs, rec{i, c07Toks(w.s.cache.slots[i].Inputs)})
	}
	w.s.mu.Unlock()
	var audits []*c07Req
	for _, rc := range recs {
		t := rc.toks
		if cfg.BOS {
			if len(t) == 0 || t[0] != cfg.Vocab {
				continue
			}
			t = t[1:]
		}
		if len(t) == 0 || len(rc.toks) > cfg.NumCtx {
			continue
		}
		var sb strings.Builder
		ok := true
		for _, tk := range t {
			if tk < 1 || tk >= cfg.Vocab {
				ok = false
				break
			}
			sb.WriteByte('a' + byte(tk-1))
		}
		if !ok {
			continue
		}
		if len(rc.toks) < cfg.NumCtx {
			sb.WriteByte('a' + byte(len(t)%(cfg.Vocab-1))) // a full record is repeated exactly instead
		}
		q := &c07Req{Idx: len(cs.Reqs) + len(audits), Prompt: sb.String(), NumPredict: 2, NumKeep: 0, Kind: "audit"}
		audits = append(audits, q)
		w.start(q)
		if !w.drain([]*c07Req{q}, maxSteps) {
			return finish()
		}
		out.cnt["audit_requests"]++
		if !judge(q, c07Reference(cfg, q)) {
			return finish()
		}
	}
	return finish()
}

func c07Run(idx int, seed uint64) (cs *c07Case, out *c07Outcome) {
	r := kit.NewRand(seed, "C07", idx)
	cs = c07Gen(r, idx)
	return cs, c07RunCase(cs)
}

func TestVerifC07(t *testing.T) {
	slog.SetDefault(slog.New(slog.NewTextHandler(io.Discard, nil)))
	rep := kit.NewReport("C07")
	cfg := rep.Cfg()
	defer rep.Flush()
	rep.Set("rule", "case i = PRNG(seed,'C07',i): a runner configuration (cache kind causal / causal that cannot shift / cache refusing partial erase / sliding window / WrapperCache(SWA,causal); 1-4 slots, numCtx 8-64, batch 1-16, single- or multi-user slot policy, vocabulary 2-7 letters, BOS on/off, CachePadding, PermutedV) and a history of 3-30 completion requests (fresh, exact repeats, continuations of earlier prompt+output, diverging tails, prompts longer than the context, num_predict beyond the context, num_keep -1..numCtx+3, stop strings, client cancellations) admitted at scripted points between batches (or racing the batch loop), served by the real completion handler / LoadCacheSlot / processBatch / ShiftCacheSlot over the real kvcache with a scripted model whose output is an integer hash of exactly what the cache lets it see; plus one audit request per slot record at the end. Non-trivial & distinct = distinct (cache kind, slots, slot policy, numCtx bucket, batch bucket, set of mechanisms reached) among histories in which a cached prefix was reused AND at least one of these was reached: fork to another slot (CopyPrefix), context shift, failed shift with reprocessing, truncated prompt, stop string trimming the cache record, batch mixing sequences, refused partial erase")
	rep.Set("assumptions", []string{
		"the model is a pure integer function of the (position, token) entries the real cache makes visible to the output row (one-hot logits, greedy sampling through the real sampler); text is 1 byte = 1 token",
		"the fake backend is eager (copies run in issue order); the cache's shift function moves the position stored in the K payload exactly as RoPE re-rotation would",
		"requests enter through the real completion handler; the harness calls processBatch from its own loop instead of Server.run (which panics on any processBatch error); reserveWorstCaseGraph and model loading are not run",
		"reference semantics of a request: prompt truncated to numCtx keeping min(num_keep, numCtx-1) inputs, then whenever the window is full max((numCtx-keep)/2,1) inputs after the kept ones are discarded (ShiftCacheSlot's documented behaviour); generation ends at EOS, at the first stop string, or at num_predict",
		"text-only inputs: multimodal inputs (SameBatch) and embedding requests are not exercised; cache-less models (InputCache.enabled == false) are not exercised",
		"runner/llamarunner is not exercised (its cache operations are cgo calls on a *llama.Context and need a real llama.cpp model)",
	})
	n := cfg.N(12000, 200000)
	replayIdx := -1
	if cfg.Replay != "" {
		var rc struct {
			Index int `json:"index"`
		}
		if err := kit.LoadReplay(cfg.Replay, &rc); err != nil {
			t.Fatal(err)
		}
		replayIdx = rc.Index
	}
	for i := 0; i < n; i++ {
		if replayIdx >= 0 && i != replayIdx {
			continue
		}
		if replayIdx < 0 && !cfg.Mine(i) {
			continue
		}
		if replayIdx < 0 && (rep.Enough() || rep.OverBudget()) {
			break
		}
		jb, _ := json.Marshal(map[string]any{"index": i})
		rep.Journal(jb)
		rep.Eval(1)
		cs, out := c07Run(i, cfg.Seed)
		for k, v := range out.cnt {
			rep.Count(k, v)
		}
		rep.Count("kind_"+cs.Cfg.Kind, 1)
		rep.Count("mode_"+cs.Mode, 1)
		if cs.Cfg.MultiUser {
			rep.Count("multi_user_histories", 1)
		}
		if out.inconclusive != "" {
			rep.Inconclusive(fmt.Sprintf("case %d: %s", i, out.inconclusive))
		}
		if out.viol != nil {
			rep.Violate("c07:"+out.viol.Sig, out.viol.What, cs, out.viol.Wit)
			if replayIdx >= 0 {
				t.Logf("replay: %s: %s", out.viol.Sig, out.viol.What)
			}
		}
		fl := make([]string, 0, len(out.flags))
		for k := range out.flags {
			fl = append(fl, k)
			rep.Count("histories_reaching_"+k, 1)
		}
		sort.Strings(fl)
		f := out.flags
		if f["reuse"] && (f["fork"] || f["shift"] || f["failed-shift"] || f["truncated-prompt"] || f["stop-hit"] || f["multi-seq-batch"] || f["refused-partial"]) {
			rep.Distinct(fmt.Sprint(cs.Cfg.Kind, cs.Cfg.Parallel, cs.Cfg.MultiUser, cs.Cfg.NumCtx/16, cs.Cfg.Batch > 4, fl))
			if rep.NeedSample() && len(cs.Reqs) <= 5 && out.viol == nil && (f["shift"] || f["fork"]) {
				rep.Sample(map[string]any{"case": cs, "observed": out.results})
			}
		}
	}
	if replayIdx >= 0 && rep.Violations() == 0 {
		t.Logf("replay: case %d holds", replayIdx)
	}
}
