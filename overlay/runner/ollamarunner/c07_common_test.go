//go:build verif

package ollamarunner

// Shared world of the C07 and C14 runtime monitors.
//
// A real ollamarunner.Server value (real InputCache, real kvcache.Causal / sliding-window /
// WrapperCache, real `completion` HTTP handler, real processBatch) runs a SCRIPTED model:
//
//   * Forward stores (token, position) of every batch row into the real KV cache through Put, reads
//     the history and the mask back through Get and so learns, for every row, the exact list of
//     (position, token) entries the cache makes visible to that row.  The K payload is
//     [token+1, position]; the shift function handed to the cache adds the per-cell offset to the
//     position channel exactly as RoPE re-rotation would; V carries a unique id of the store.
//   * The logits of an output row are one-hot at a token that is an exact integer function of that
//     visible list (hash mode, C07) or of a per-request script (script mode, C14), so sampling
//     (greedy, the real sampler) is deterministic and float rounding cannot matter.
//   * Text processing is a fake TextProcessor: 1 byte = 1 token in hash mode, arbitrary byte pieces
//     per token id in script mode.
//
// The harness drives processBatch from its own loop instead of Server.run, because run() turns any
// processBatch error into a panic that would take the monitors down; the error is an observation.
//
// The eager fake ml.Backend below is a trimmed copy of the one written for C06
// (/verif/overlay/kvcache/c06_test.go): tensors are strided views over float64 stores, View / Copy /
// Permute follow ggml's semantics literally.

import (
	"bytes"
	"context"
	"encoding/json"
	"errors"
	"fmt"
	"math"
	"net/http"
	"net/http/httptest"
	"runtime"
	"runtime/debug"
	"sort"
	"strconv"
	"strings"
	"sync"
	"time"

	"golang.org/x/sync/semaphore"

	"github.com/ollama/ollama/api"
	"github.com/ollama/ollama/kvcache"
	"github.com/ollama/ollama/llm"
	"github.com/ollama/ollama/ml"
	"github.com/ollama/ollama/model"
	"github.com/ollama/ollama/model/input"
)

// ------------------------------------------------------------------------------------------------
// fake backend

type c07Store struct{ data []float64 }

type c07Backend struct {
	ml.Backend // Config/Get: not implemented (nil interface)
	maxNodes   int
}

func (b *c07Backend) NewContext() ml.Context          { return &c07Context{b: b, limit: b.maxNodes} }
func (b *c07Backend) NewContextSize(n int) ml.Context { return &c07Context{b: b, limit: n} }

// c07BackendCC additionally implements ml.BackendCacheConfig
type c07BackendCC struct {
	*c07Backend
	cc ml.CacheConfig
}

func (b *c07BackendCC) CacheConfig() ml.CacheConfig { return b.cc }

type c07Context struct {
	ml.Context // Arange etc.: not implemented
	b          *c07Backend
	limit      int
}

func (c *c07Context) Input() ml.Context    { return c }
func (c *c07Context) Layer(int) ml.Context { return c }

func (c *c07Context) Empty(dtype ml.DType, shape ...int) ml.Tensor {
	return c.b.newTensor(dtype, shape)
}

func (c *c07Context) Zeros(dtype ml.DType, shape ...int) ml.Tensor { return c.Empty(dtype, shape...) }

func (c *c07Context) FromFloatSlice(s []float32, shape ...int) (ml.Tensor, error) {
	n := 1
	for _, v := range shape {
		n *= v
	}
	if len(shape) == 0 || n != len(s) {
		return nil, fmt.Errorf("invalid shape %v for %d elements", shape, len(s))
	}
	t := c.b.newTensor(ml.DTypeF32, shape)
	for i, v := range s {
		t.st.data[i] = float64(v)
	}
	return t, nil
}

func (c *c07Context) FromIntSlice(s []int32, shape ...int) (ml.Tensor, error) {
	n := 1
	for _, v := range shape {
		n *= v
	}
	if len(shape) == 0 || n != len(s) {
		return nil, fmt.Errorf("invalid shape %v for %d elements", shape, len(s))
	}
	t := c.b.newTensor(ml.DTypeI32, shape)
	for i, v := range s {
		t.st.data[i] = float64(v)
	}
	return t, nil
}

func (c *c07Context) Forward(...ml.Tensor) ml.Context { return c } // eager: ops already ran
func (c *c07Context) Compute(...ml.Tensor)            {}
func (c *c07Context) Reserve() error                  { return nil }
func (c *c07Context) MaxGraphNodes() int              { return c.limit }
func (c *c07Context) Close()                          {}

type c07Tensor struct {
	ml.Tensor // everything not defined below: not implemented
	b         *c07Backend
	st        *c07Store
	off       int // element offset into st.data
	ne        [4]int
	nb        [4]int // byte strides
	es        int    // bytes per element of dtype (storage is float64 whatever the dtype)
	dtype     ml.DType
}

func c07ElemSize(d ml.DType) int {
	switch d {
	case ml.DTypeF32, ml.DTypeI32:
		return 4
	case ml.DTypeF16:
		return 2
	}
	panic(fmt.Sprintf("c07 fake backend: dtype %v not implemented", d))
}

func (b *c07Backend) newTensor(dtype ml.DType, shape []int) *c07Tensor {
	es := c07ElemSize(dtype)
	t := &c07Tensor{b: b, es: es, dtype: dtype, ne: [4]int{1, 1, 1, 1}}
	if len(shape) < 1 || shape[0] == 0 {
		t.ne[0] = 0
	} else if len(shape) > 4 {
		panic("unsupported number of dimensions")
	} else {
		for i, d := range shape {
			if d < 1 {
				panic("invalid shape")
			}
			t.ne[i] = d
		}
	}
	t.nb[0] = es
	for i := 1; i < 4; i++ {
		t.nb[i] = t.nb[i-1] * t.ne[i-1]
	}
	t.st = &c07Store{data: make([]float64, t.nelem())}
	return t
}

func (t *c07Tensor) nelem() int { return t.ne[0] * t.ne[1] * t.ne[2] * t.ne[3] }

func (t *c07Tensor) Dim(n int) int    { return t.ne[n] }
func (t *c07Tensor) Stride(n int) int { return t.nb[n] }
func (t *c07Tensor) DType() ml.DType  { return t.dtype }

// Shape follows ggml_n_dims: trailing dimensions of extent 1 are dropped (at least one is kept).
func (t *c07Tensor) Shape() []int {
	n := 1
	for i := 3; i >= 1; i-- {
		if t.ne[i] > 1 {
			n = i + 1
			break
		}
	}
	return append([]int(nil), t.ne[:n]...)
}

func (t *c07Tensor) idx(i0, i1, i2, i3 int) int {
	bo := i0*t.nb[0] + i1*t.nb[1] + i2*t.nb[2] + i3*t.nb[3]
	if bo%t.es != 0 {
		panic(fmt.Sprintf("c07 fake backend: misaligned access (byte offset %d, element size %d)", bo, t.es))
	}
	return t.off + bo/t.es
}

func (t *c07Tensor) at(i0, i1, i2, i3 int) float64 { return t.st.data[t.idx(i0, i1, i2, i3)] }

func (t *c07Tensor) readAll() []float64 {
	out := make([]float64, 0, t.nelem())
	for i3 := 0; i3 < t.ne[3]; i3++ {
		for i2 := 0; i2 < t.ne[2]; i2++ {
			for i1 := 0; i1 < t.ne[1]; i1++ {
				for i0 := 0; i0 < t.ne[0]; i0++ {
					out = append(out, t.st.data[t.idx(i0, i1, i2, i3)])
				}
			}
		}
	}
	return out
}

func (t *c07Tensor) writeAll(v []float64) {
	k := 0
	for i3 := 0; i3 < t.ne[3]; i3++ {
		for i2 := 0; i2 < t.ne[2]; i2++ {
			for i1 := 0; i1 < t.ne[1]; i1++ {
				for i0 := 0; i0 < t.ne[0]; i0++ {
					t.st.data[t.idx(i0, i1, i2, i3)] = v[k]
					k++
				}
			}
		}
	}
}

func (t *c07Tensor) Floats() []float32 {
	v := t.readAll()
	out := make([]float32, len(v))
	for i := range v {
		out[i] = float32(v[i])
	}
	return out
}

// View follows ml/backend/ggml (*Tensor).View: 1, 3, 5 or 7 arguments = ggml_view_1d..4d; offset and
// strides are in bytes.
func (t *c07Tensor) View(ctx ml.Context, offset int, shape ...int) ml.Tensor {
	v := &c07Tensor{b: t.b, st: t.st, es: t.es, dtype: t.dtype, ne: [4]int{1, 1, 1, 1}}
	if offset%t.es != 0 || offset < 0 {
		panic(fmt.Sprintf("c07 fake backend: view offset %d not a multiple of the element size %d", offset, t.es))
	}
	v.off = t.off + offset/t.es
	switch len(shape) {
	case 1:
		v.ne[0] = shape[0]
		v.nb = [4]int{t.es, t.es * shape[0], t.es * shape[0], t.es * shape[0]}
	case 3:
		v.ne[0], v.ne[1] = shape[0], shape[2]
		v.nb = [4]int{t.es, shape[1], shape[1] * shape[2], shape[1] * shape[2]}
	case 5:
		v.ne[0], v.ne[1], v.ne[2] = shape[0], shape[2], shape[4]
		v.nb = [4]int{t.es, shape[1], shape[3], shape[3] * shape[4]}
	case 7:
		v.ne[0], v.ne[1], v.ne[2], v.ne[3] = shape[0], shape[2], shape[4], shape[6]
		v.nb = [4]int{t.es, shape[1], shape[3], shape[5]}
	default:
		panic("unsupported number of dimensions")
	}
	for _, d := range v.ne {
		if d < 0 {
			panic(fmt.Sprintf("c07 fake backend: negative view extent %v", v.ne))
		}
	}
	// ggml_new_tensor_impl: GGML_ASSERT(data_size + view_offs <= ggml_nbytes(view_src))
	if v.off+v.nelem() > len(t.st.data) {
		panic(fmt.Sprintf("c07 fake backend: view of %d elements at element offset %d exceeds the %d elements of the viewed tensor", v.nelem(), v.off, len(t.st.data)))
	}
	return v
}

// Permute follows ggml_permute: source dimension i becomes dimension axes[i] of the result.
func (t *c07Tensor) Permute(ctx ml.Context, axes ...int) ml.Tensor {
	if len(axes) != 4 {
		panic("expected 4 dimensions")
	}
	v := &c07Tensor{b: t.b, st: t.st, off: t.off, es: t.es, dtype: t.dtype}
	seen := [4]bool{}
	for i, a := range axes {
		if a < 0 || a > 3 || seen[a] {
			panic("c07 fake backend: invalid permutation")
		}
		seen[a] = true
		v.ne[a] = t.ne[i]
		v.nb[a] = t.nb[i]
	}
	return v
}

// Copy follows ggml_cpy: same number of elements, copied in logical (dim 0 fastest) order; returns the destination.
func (t *c07Tensor) Copy(ctx ml.Context, t2 ml.Tensor) ml.Tensor {
	d := t2.(*c07Tensor)
	if t.nelem() != d.nelem() {
		panic(fmt.Sprintf("c07 fake backend: ggml_cpy between %v and %v elements", t.ne, d.ne))
	}
	d.writeAll(t.readAll())
	return d
}

// ------------------------------------------------------------------------------------------------
// case description

// c07Cfg describes one runner ("world").
type c07Cfg struct {
	Kind      string `json:"kind"`             // causal | noshift | refuse | swa | wrapper
	Window    int    `json:"window,omitempty"` // sliding window of the swa / wrapper kinds
	Parallel  int    `json:"parallel"`
	NumCtx    int    `json:"num_ctx"` // per slot
	Batch     int    `json:"batch"`
	MultiUser bool   `json:"multi_user"`
	Vocab     int    `json:"vocab"`    // token 0 = EOS, tokens 1..Vocab-1 = letters 'a'.. ; token Vocab = BOS
	BOS       bool   `json:"bos"`      // Encode(.., addSpecial) prepends BOS
	EOSRate   int    `json:"eos_rate"` // hash mode: the model emits EOS with probability EOSRate/64
	CachePad  int    `json:"cache_padding"`
	PermutedV bool   `json:"permuted_v"`
	Salt      uint64 `json:"salt"`

	// script mode (C14)
	Script  bool      `json:"script,omitempty"`
	Pieces  []string  `json:"-"`                 // piece of token id i+1 (arbitrary bytes)
	PiecesQ []string  `json:"pieces,omitempty"`  // the same, Go-quoted, for evidence
	Scripts [][]int32 `json:"scripts,omitempty"` // Scripts[r] = token ids generated for the request whose first prompt token is r+1 (then EOS)
	PLen    []int     `json:"prompt_len,omitempty"`
}

// c07Req is one completion request.
type c07Req struct {
	Idx         int      `json:"idx"`
	Prompt      string   `json:"prompt"`
	NumPredict  int      `json:"num_predict"`
	NumKeep     int      `json:"num_keep"`
	Stop        []string `json:"stop,omitempty"`
	CancelAfter int      `json:"cancel_after,omitempty"` // cancel the client after this many streamed lines (0 = never)
	Kind        string   `json:"kind,omitempty"`         // generator's label (fresh / repeat / continue / diverge / long / audit)

	started bool
	cancel  context.CancelFunc
	wr      *c07Writer
	done    chan struct{}
}

func (r *c07Req) isDone() bool {
	select {
	case <-r.done:
		return true
	default:
		return false
	}
}

// c07Result is what the HTTP client of POST /completion received.
type c07Result struct {
	Status     int      `json:"status"`
	Pieces     []string `json:"pieces"`
	Text       string   `json:"text"`
	Done       bool     `json:"done"`
	Reason     int      `json:"done_reason"`
	Eval       int      `json:"eval_count"`
	PromptEval int      `json:"prompt_eval_count"`
	Invalid    int      `json:"invalid_utf8_pieces"` // streamed pieces that were not valid UTF-8 (encoding/json wrote �)
	Err        string   `json:"err,omitempty"`
}

type c07Viol struct {
	Sig  string
	What string
	Wit  any
}

type c07PT struct {
	Pos int `json:"p"`
	Tok int `json:"t"`
	uid int
}

type c07Row struct {
	Seq int   `json:"seq"`
	Pos int32 `json:"pos"`
	Tok int32 `json:"tok"`
	uid int
}

// ------------------------------------------------------------------------------------------------
// recording cache wrapper (also implements the "refuses partial erase" variant)

type c07Cache struct {
	kvcache.Cache
	w      *c07World
	refuse bool
}

func (c *c07Cache) Remove(seq int, b, e int32) error {
	w := c.w
	var err error
	if c.refuse && !(b == 0 && e == math.MaxInt32) {
		err = kvcache.ErrNotSupported
	} else {
		err = c.Cache.Remove(seq, b, e)
	}
	es := "MaxInt32"
	if e != math.MaxInt32 {
		es = strconv.Itoa(int(e))
	}
	w.event("cache.Remove(seq=%d, %d, %s) -> %v", seq, b, es, err)
	tag := func(t string) {
		if seq >= 0 && seq < len(w.slotTag) {
			w.slotTag[seq] = t
		}
	}
	switch {
	case e == math.MaxInt32 && b == 0:
		w.count("cache_remove_all", 1)
		if err == nil {
			tag("")
		}
	case e == math.MaxInt32:
		if err == nil {
			w.count("cache_remove_tail_keeping_prefix", 1)
			w.flag("reuse")
		} else {
			w.count("cache_remove_tail_refused", 1)
			w.flag("refused-partial")
		}
	default:
		// finite end: a context shift (or the call with a negative end of the failed-shift path)
		if e < b {
			w.count("cache_remove_end_before_begin", 1)
		}
		if err == nil {
			w.count("cache_shift_ok", 1)
			w.flag("shift")
			if w.cfg.Kind == "swa" || w.cfg.Kind == "wrapper" {
				tag("swa-after-shift")
			}
		} else {
			w.count("cache_shift_failed", 1)
			w.flag("failed-shift")
			tag("after-failed-shift")
		}
		// D10 reachability: how many inputs were queued on the sequence that is being shifted?
		for _, q := range w.s.seqs {
			if q != nil && q.cache != nil && q.cache.Id == seq && e >= b {
				if len(q.inputs) > 1 {
					w.count("shift_with_more_than_one_queued_input", 1)
					w.flag("shift-multi-queued")
				} else {
					w.count("shift_with_one_queued_input", 1)
				}
			}
		}
	}
	return err
}

func (c *c07Cache) CopyPrefix(src, dst int, n int32) {
	c.w.event("cache.CopyPrefix(src=%d, dst=%d, len=%d)", src, dst, n)
	c.w.count("cache_copy_prefix", 1)
	c.w.flag("fork")
	c.Cache.CopyPrefix(src, dst, n)
	if dst >= 0 && dst < len(c.w.slotTag) {
		// the destination now holds a copy of the source's entries
		c.w.slotTag[dst] = c.w.slotTag[src]
	}
}

func (c *c07Cache) CanResume(seq int, pos int32) bool {
	ok := c.Cache.CanResume(seq, pos)
	if !ok {
		c.w.count("cache_canresume_no", 1)
		c.w.event("cache.CanResume(seq=%d, pos=%d) -> false", seq, pos)
	}
	return ok
}

func (c *c07Cache) StartForward(ctx ml.Context, batch input.Batch, reserve bool) error {
	err := c.Cache.StartForward(ctx, batch, reserve)
	if err != nil {
		c.w.event("cache.StartForward(%d rows) -> %v", len(batch.Positions), err)
	}
	return err
}

// ------------------------------------------------------------------------------------------------
// scripted model + fake text processor

type c07Model struct {
	model.Base
	w *c07World
}

func (m *c07Model) Encode(s string, addSpecial bool) ([]int32, error) {
	cfg := m.w.cfg
	var out []int32
	if addSpecial && cfg.BOS {
		out = append(out, int32(cfg.Vocab))
	}
	for i := 0; i < len(s); i++ {
		b := s[i]
		if cfg.Script {
			// script mode: letter 'a'+k is token id k (prompt tokens are never decoded)
			if b < 'a' || b > 'z' {
				return nil, fmt.Errorf("c07 text processor: byte %q outside the alphabet", b)
			}
			out = append(out, int32(b-'a'))
			continue
		}
		if b < 'a' || int(b-'a') >= cfg.Vocab-1 {
			return nil, fmt.Errorf("c07 text processor: byte %q outside the alphabet", b)
		}
		out = append(out, 1+int32(b-'a'))
	}
	return out, nil
}

func (m *c07Model) Decode(ids []int32) (string, error) {
	cfg := m.w.cfg
	var sb strings.Builder
	for _, id := range ids {
		switch {
		case cfg.Script:
			if id < 1 || int(id) > len(cfg.Pieces) {
				return "", fmt.Errorf("c07 text processor: token %d has no piece", id)
			}
			sb.WriteString(cfg.Pieces[id-1])
		case id >= 1 && int(id) < cfg.Vocab:
			sb.WriteByte('a' + byte(id-1))
		case int(id) == cfg.Vocab: // BOS
		default:
			return "", fmt.Errorf("c07 text processor: token %d outside the vocabulary", id)
		}
	}
	return sb.String(), nil
}

func (m *c07Model) Is(id int32, sp model.Special) bool {
	switch sp {
	case model.SpecialEOS:
		return id == 0
	case model.SpecialBOS:
		return m.w.cfg.BOS && int(id) == m.w.cfg.Vocab
	}
	return false
}

func (cfg *c07Cfg) logitWidth() int {
	if cfg.Script {
		return len(cfg.Pieces) + 1
	}
	return cfg.Vocab + 1
}

// c07Hash is the model function of hash mode: an exact integer function of the visible lists.
func c07Hash(salt uint64, lists [][]c07PT) uint64 {
	h := salt ^ 0xcbf29ce484222325
	mix := func(v uint64) {
		h ^= v
		h *= 0x100000001b3
		h ^= h >> 29
	}
	for l, lst := range lists {
		mix(uint64(1000 + l))
		for _, e := range lst {
			mix(uint64(int64(e.Pos)) + 1)
			mix(uint64(int64(e.Tok)) + 7)
		}
	}
	mix(0x5bd1e995)
	return h
}

func (cfg *c07Cfg) pick(h uint64) int32 {
	if int(h%64) < cfg.EOSRate {
		return 0
	}
	return 1 + int32((h>>8)%uint64(cfg.Vocab-1))
}

// next is the scripted model: the token whose logit is 1 for an output row.
func (cfg *c07Cfg) next(pos int, lists [][]c07PT) int32 {
	if !cfg.Script {
		return cfg.pick(c07Hash(cfg.Salt, lists))
	}
	// script mode: the first visible token names the script, the position tells how far we are
	last := lists[len(lists)-1]
	if len(last) == 0 || last[0].Pos != 0 {
		return 0
	}
	r := last[0].Tok - 1
	if r < 0 || r >= len(cfg.Scripts) {
		return 0
	}
	g := pos + 1 - cfg.PLen[r]
	if g < 0 || g >= len(cfg.Scripts[r]) {
		return 0
	}
	return cfg.Scripts[r][g]
}

func (m *c07Model) Forward(ctx ml.Context, batch input.Batch) (ml.Tensor, error) {
	w := m.w
	n := len(batch.Positions)
	in, ok := batch.Inputs.(*c07Tensor)
	if !ok || in.nelem() != n || len(batch.Sequences) != n {
		return nil, fmt.Errorf("c07 model: malformed batch (%d positions, %d sequences)", n, len(batch.Sequences))
	}
	rows := make([]c07Row, n)
	for i := range rows {
		w.nextUID++
		rows[i] = c07Row{Seq: batch.Sequences[i], Pos: batch.Positions[i], Tok: int32(in.st.data[in.off+i]), uid: w.nextUID}
		w.uidTok = append(w.uidTok, rows[i].Tok)
	}
	cache := m.Config().Cache
	vis := make([][][]c07PT, w.layers)
	for l := 0; l < w.layers; l++ {
		cache.SetLayer(l)
		if w.wrap != nil {
			w.wrap.SetLayerType(l)
		}
		kt := w.be.newTensor(ml.DTypeF32, []int{2, 1, n})
		vt := w.be.newTensor(ml.DTypeF32, []int{1, 1, n})
		for i, r := range rows {
			kt.st.data[kt.idx(0, 0, i, 0)] = float64(r.Tok) + 1
			kt.st.data[kt.idx(1, 0, i, 0)] = float64(r.Pos)
			vt.st.data[vt.idx(0, 0, i, 0)] = float64(r.uid)
		}
		cache.Put(ctx, kt, vt)
		k, v, mask := cache.Get(ctx)
		vis[l] = w.decode(l, rows, k, v, mask)
	}
	w.onForward(batch, rows, vis)
	width := w.cfg.logitWidth()
	out := w.be.newTensor(ml.DTypeF32, []int{width, max(1, len(batch.Outputs))})
	for o, idx := range batch.Outputs {
		lists := make([][]c07PT, w.layers)
		for l := range lists {
			lists[l] = vis[l][idx]
		}
		tok := w.cfg.next(int(rows[idx].Pos), lists)
		out.st.data[o*width+int(tok)] = 1
	}
	return out, nil
}

// ------------------------------------------------------------------------------------------------
// world

type c07World struct {
	cfg    *c07Cfg
	be     *c07Backend
	wrap   *kvcache.WrapperCache
	cache  *c07Cache
	m      *c07Model
	s      *Server
	layers int
	window []int // per layer, math.MaxInt32 = causal

	// written only while Server.mu is held (Forward, cache calls)
	nextUID int
	uidTok  []int32 // uidTok[uid-1] = token of the store
	slotTag []string
	lastSeq []*Sequence
	steps   int

	lastForwards, idleSteps int

	mu           sync.Mutex
	viol         *c07Viol
	dead         bool
	inconclusive string
	events       []string
	cnt          map[string]int
	flags        map[string]bool
}

func c07NewWorld(cfg *c07Cfg) (*c07World, error) {
	w := &c07World{cfg: cfg, cnt: map[string]int{}, flags: map[string]bool{}}
	w.be = &c07Backend{maxNodes: 8192}
	shift := w.shiftFn
	if cfg.Kind == "noshift" {
		shift = nil
	}
	var inner kvcache.Cache
	switch cfg.Kind {
	case "causal", "refuse":
		inner = kvcache.NewCausalCache(shift)
		w.layers, w.window = 1, []int{math.MaxInt32}
	case "noshift":
		inner = kvcache.NewCausalCache(nil)
		w.layers, w.window = 1, []int{math.MaxInt32}
	case "swa":
		inner = kvcache.NewSWACache(int32(cfg.Window), shift)
		w.layers, w.window = 1, []int{cfg.Window}
	case "wrapper":
		w.wrap = kvcache.NewWrapperCache(kvcache.NewSWACache(int32(cfg.Window), shift), kvcache.NewCausalCache(shift))
		inner = w.wrap
		w.layers, w.window = 2, []int{cfg.Window, math.MaxInt32}
	default:
		return nil, fmt.Errorf("c07: unknown cache kind %q", cfg.Kind)
	}
	w.cache = &c07Cache{Cache: inner, w: w, refuse: cfg.Kind == "refuse"}
	var be ml.Backend = w.be
	if cfg.CachePad > 1 || cfg.PermutedV {
		be = &c07BackendCC{c07Backend: w.be, cc: ml.CacheConfig{CachePadding: cfg.CachePad, PermutedV: cfg.PermutedV}}
	}
	w.m = &c07Model{Base: model.NewVerifBase(be, w.cache), w: w}
	s := &Server{batchSize: cfg.Batch, parallel: cfg.Parallel, status: llm.ServerStatusReady}
	s.cond = sync.NewCond(&s.mu)
	s.model = w.m
	var err error
	s.cache, err = NewInputCache(w.m, "", int32(cfg.NumCtx*cfg.Parallel), cfg.Parallel, cfg.Batch, cfg.MultiUser)
	if err != nil {
		return nil, err
	}
	s.seqs = make([]*Sequence, cfg.Parallel)
	s.seqsSem = semaphore.NewWeighted(int64(cfg.Parallel))
	w.s = s
	w.slotTag = make([]string, cfg.Parallel)
	w.lastSeq = make([]*Sequence, cfg.Parallel)
	return w, nil
}

// shiftFn does to the payload what RoPE re-rotation does to a key: it moves the encoded position.
func (w *c07World) shiftFn(ctx ml.Context, layer int, key, shift ml.Tensor) (ml.Tensor, error) {
	k, s := key.(*c07Tensor), shift.(*c07Tensor)
	if s.ne[0] != k.ne[2] || s.nelem() != s.ne[0] {
		panic(fmt.Sprintf("c07 shift: %d offsets for %d cells (RoPE asserts a->ne[2] == b->ne[0])", s.ne[0], k.ne[2]))
	}
	if k.ne[0] != 2 || k.ne[1] != 1 {
		panic(fmt.Sprintf("c07 shift: key view has shape %v, want [2 1 n]", k.ne))
	}
	out := w.be.newTensor(k.dtype, []int{k.ne[0], k.ne[1], k.ne[2]})
	for j := 0; j < k.ne[2]; j++ {
		out.st.data[out.idx(0, 0, j, 0)] = k.at(0, 0, j, 0)
		out.st.data[out.idx(1, 0, j, 0)] = k.at(1, 0, j, 0) + s.at(j, 0, 0, 0)
	}
	return out, nil
}

func (w *c07World) count(k string, n int) {
	w.mu.Lock()
	w.cnt[k] += n
	w.mu.Unlock()
}

func (w *c07World) flag(k string) {
	w.mu.Lock()
	w.flags[k] = true
	w.mu.Unlock()
}

func (w *c07World) event(f string, a ...any) {
	w.mu.Lock()
	if len(w.events) >= 120 {
		w.events = append(w.events[:0], w.events[40:]...)
	}
	w.events = append(w.events, fmt.Sprintf(f, a...))
	w.mu.Unlock()
}

// fail records the first violation of the world; the rest of the history is abandoned.
func (w *c07World) fail(sig, what string, wit map[string]any) {
	w.mu.Lock()
	defer w.mu.Unlock()
	w.dead = true
	if w.viol != nil {
		return
	}
	if wit == nil {
		wit = map[string]any{}
	}
	wit["last_events"] = append([]string(nil), w.events...)
	w.viol = &c07Viol{Sig: sig, What: what, Wit: wit}
}

func (w *c07World) forwards() int {
	w.mu.Lock()
	defer w.mu.Unlock()
	return w.cnt["forward_calls"]
}

func (w *c07World) isDead() bool {
	w.mu.Lock()
	defer w.mu.Unlock()
	return w.dead
}

func (w *c07World) violation() *c07Viol {
	w.mu.Lock()
	defer w.mu.Unlock()
	return w.viol
}

func c07Sanitize(s string) string {
	var sb strings.Builder
	for _, c := range s {
		switch {
		case c >= 'a' && c <= 'z', c >= 'A' && c <= 'Z', c == '.', c == '_':
			sb.WriteRune(c)
		case c >= '0' && c <= '9':
			if !strings.HasSuffix(sb.String(), "N") {
				sb.WriteRune('N')
			}
		case c == ' ' || c == '-' || c == ':':
			if !strings.HasSuffix(sb.String(), "-") {
				sb.WriteRune('-')
			}
		}
	}
	out := sb.String()
	if len(out) > 70 {
		out = out[:70]
	}
	return strings.Trim(out, "-")
}

// c07PanicSite names the innermost function of the code under test on a panic stack.
func c07PanicSite(stack string) string {
	lines := strings.Split(stack, "\n")
	seen := false
	for i := 0; i+1 < len(lines); i++ {
		fn := lines[i]
		if strings.HasPrefix(fn, "panic(") {
			seen = true
			continue
		}
		if !seen || !strings.HasPrefix(fn, "github.com/ollama/ollama/") {
			continue
		}
		file := lines[i+1]
		name := strings.TrimPrefix(fn, "github.com/ollama/ollama/")
		if k := strings.LastIndex(name, "("); k > 0 {
			name = name[:k]
		}
		if strings.Contains(file, "zz_verif_") || strings.Contains(name, "c07") || strings.Contains(name, "c14") || strings.Contains(name, "Verif") {
			continue
		}
		name = strings.NewReplacer("(*", "", ")", "", "/", ".").Replace(name)
		return c07Sanitize(name)
	}
	return "harness"
}

func (w *c07World) failPanic(where string, p any, stack string) {
	site := c07PanicSite(stack)
	msg := fmt.Sprint(p)
	w.fail("panic:"+site+":"+c07Sanitize(msg), fmt.Sprintf("panic in %s (%s): %s", site, where, msg), map[string]any{"stack": stack})
}

// decode turns what Get returned for one layer into the visible (position, token) list of every row.
func (w *c07World) decode(l int, rows []c07Row, kT, vT, mT ml.Tensor) [][]c07PT {
	k, v, m := kT.(*c07Tensor), vT.(*c07Tensor), mT.(*c07Tensor)
	hist := m.ne[0]
	out := make([][]c07PT, len(rows))
	if k.ne[0] != 2 || k.ne[2] != hist || m.ne[1] < len(rows) {
		w.fail("get-shape", fmt.Sprintf("Get returned K %v, mask %v for a batch of %d rows", k.ne, m.ne, len(rows)), nil)
		return out
	}
	for i := range rows {
		var lst []c07PT
		for j := 0; j < hist; j++ {
			mv := m.at(j, i, 0, 0)
			if mv != 0 {
				if !math.IsInf(mv, -1) {
					w.fail("mask-value", fmt.Sprintf("mask value %v (neither 0 nor -Inf) at history cell %d, row %d", mv, j, i), nil)
				}
				continue
			}
			var uid float64
			if w.cfg.PermutedV {
				uid = v.at(j, 0, 0, 0)
			} else {
				uid = v.at(0, 0, j, 0)
			}
			lst = append(lst, c07PT{Pos: int(k.at(1, 0, j, 0)), Tok: int(k.at(0, 0, j, 0)) - 1, uid: int(uid)})
		}
		sort.SliceStable(lst, func(a, b int) bool { return lst[a].Pos < lst[b].Pos })
		out[i] = lst
	}
	return out
}

func c07Toks(in []input.Input) []int {
	out := make([]int, len(in))
	for i, x := range in {
		out[i] = int(x.Token)
	}
	return out
}

// onForward holds the state oracle (1) and the exclusivity oracle (2). It runs inside the model's
// Forward, i.e. inside processBatch with Server.mu held by this goroutine.
func (w *c07World) onForward(batch input.Batch, rows []c07Row, vis [][][]c07PT) {
	s := w.s
	owners := map[int][]*Sequence{}
	liveSeqs := 0
	for _, q := range s.seqs {
		if q == nil || q.cache == nil {
			continue
		}
		liveSeqs++
		owners[q.cache.Id] = append(owners[q.cache.Id], q)
		if !q.cache.InUse {
			w.fail("live-slot-not-inuse", fmt.Sprintf("a live sequence owns slot %d whose InUse flag is false (the slot can be handed to another request)", q.cache.Id), nil)
			return
		}
	}
	for id, qs := range owners {
		if len(qs) > 1 {
			w.fail("slot-shared", fmt.Sprintf("slot %d is owned by %d live sequences at the same time", id, len(qs)), map[string]any{"batch": rows})
			return
		}
		if id >= 0 && id < len(w.lastSeq) && w.lastSeq[id] != qs[0] {
			w.lastSeq[id] = qs[0]
			w.event("slot %d: new sequence, %d inputs reused from the cache record, %d to process", id, len(qs[0].cache.Inputs), len(qs[0].pendingInputs)+len(qs[0].inputs))
		}
	}
	w.event("Forward rows=%s outputs=%v", c07RowsString(rows), batch.Outputs)
	w.count("forward_calls", 1)
	w.count("forward_rows", len(rows))
	seen := map[int]int{}
	for i, r := range rows {
		qs := owners[r.Seq]
		if len(qs) == 0 {
			w.fail("row-without-owner", fmt.Sprintf("batch row %d belongs to cache sequence %d which no live request owns", i, r.Seq), map[string]any{"batch": rows})
			return
		}
		q := qs[0]
		j := seen[r.Seq]
		seen[r.Seq]++
		x := make([]int, 0, len(q.cache.Inputs)+len(q.pendingInputs))
		x = append(x, c07Toks(q.cache.Inputs)...)
		x = append(x, c07Toks(q.pendingInputs)...)
		p := len(q.cache.Inputs) + j
		if p >= len(x) {
			w.fail("state:row-beyond-record", fmt.Sprintf("slot %d: batch has more rows for the sequence than pending inputs (row %d of the sequence, %d pending)", r.Seq, j, len(q.pendingInputs)), map[string]any{"batch": rows})
			return
		}
		for l := 0; l < w.layers; l++ {
			lo := 0
			if w.window[l] != math.MaxInt32 {
				lo = max(0, p-w.window[l])
			}
			exp := make([]c07PT, 0, p-lo+1)
			for qp := lo; qp <= p; qp++ {
				exp = append(exp, c07PT{Pos: qp, Tok: x[qp]})
			}
			got := vis[l][i]
			kind := c07CompareLists(exp, got)
			if kind == "" {
				// K and V of a visible cell must come from the same store
				for _, e := range got {
					if e.uid < 1 || e.uid > len(w.uidTok) || int(w.uidTok[e.uid-1]) != e.Tok {
						kind = "kv-payload-mismatch"
					}
				}
			}
			if kind != "" {
				tag := ""
				if r.Seq >= 0 && r.Seq < len(w.slotTag) && w.slotTag[r.Seq] != "" {
					tag = ":" + w.slotTag[r.Seq]
				}
				w.fail("state:"+kind+tag,
					fmt.Sprintf("slot %d, row at position %d (batch position %d), layer %d: the cache shows the model %s, but the inputs recorded for the slot (InputCacheSlot.Inputs ++ pendingInputs) say it must see exactly positions %d..%d = %v", r.Seq, p, r.Pos, l, c07ListString(got), lo, p, c07ListString(exp)),
					map[string]any{"slot": r.Seq, "row_position": p, "batch_position": r.Pos, "layer": l, "visible": got, "recorded": exp, "batch": rows, "slot_inputs": len(q.cache.Inputs), "pending_inputs": len(q.pendingInputs)})
				return
			}
		}
	}
	if len(seen) > 1 {
		w.flag("multi-seq-batch")
		w.count("forward_batches_mixing_sequences", 1)
	}
	for _, c := range seen {
		if c > 1 {
			w.count("forward_batches_with_multi_row_sequence", 1)
			break
		}
	}
	_ = liveSeqs
}

func c07CompareLists(exp, got []c07PT) string {
	same := len(exp) == len(got)
	if same {
		for i := range exp {
			if exp[i].Pos != got[i].Pos || exp[i].Tok != got[i].Tok {
				same = false
				break
			}
		}
	}
	if same {
		return ""
	}
	key := func(e c07PT) [2]int { return [2]int{e.Pos, e.Tok} }
	em, gm := map[[2]int]int{}, map[[2]int]int{}
	for _, e := range exp {
		em[key(e)]++
	}
	for _, e := range got {
		gm[key(e)]++
	}
	extra, missing := 0, 0
	for k, c := range gm {
		if c > em[k] {
			extra += c - em[k]
		}
	}
	for k, c := range em {
		if c > gm[k] {
			missing += c - gm[k]
		}
	}
	switch {
	case extra > 0 && missing == 0:
		return "extra-visible"
	case missing > 0 && extra == 0:
		return "missing"
	default:
		return "mismatch"
	}
}

func c07ListString(l []c07PT) string {
	var sb strings.Builder
	sb.WriteString("[")
	for i, e := range l {
		if i > 0 {
			sb.WriteString(" ")
		}
		if i >= 40 {
			fmt.Fprintf(&sb, "... %d more", len(l)-i)
			break
		}
		fmt.Fprintf(&sb, "%d:%d", e.Pos, e.Tok)
	}
	sb.WriteString("]")
	return sb.String()
}

func c07RowsString(rows []c07Row) string {
	var sb strings.Builder
	for i, r := range rows {
		if i > 0 {
			sb.WriteString(" ")
		}
		fmt.Fprintf(&sb, "s%d@%d=%d", r.Seq, r.Pos, r.Tok)
	}
	return sb.String()
}

// ------------------------------------------------------------------------------------------------
// HTTP client side

type c07Writer struct {
	mu     sync.Mutex
	hdr    http.Header
	code   int
	buf    bytes.Buffer
	lines  int
	onLine func(n int)
}

func (w *c07Writer) Header() http.Header { return w.hdr }
func (w *c07Writer) WriteHeader(c int) {
	w.mu.Lock()
	if w.code == 0 {
		w.code = c
	}
	w.mu.Unlock()
}

func (w *c07Writer) Write(p []byte) (int, error) {
	w.mu.Lock()
	if w.code == 0 {
		w.code = 200
	}
	w.buf.Write(p)
	w.lines += bytes.Count(p, []byte{'\n'})
	n := w.lines
	w.mu.Unlock()
	if w.onLine != nil {
		w.onLine(n)
	}
	return len(p), nil
}
func (w *c07Writer) Flush() {}

// c07RawInvalid reports whether the JSON string value of "content" in a raw response line contains
// the escape �, which is how encoding/json writes bytes that are not valid UTF-8 (a genuine
// U+FFFD rune is written as its three raw bytes).
func c07RawInvalid(line []byte) bool {
	const pre = `{"content":"`
	if !bytes.HasPrefix(line, []byte(pre)) {
		return false
	}
	for i := len(pre); i < len(line); {
		switch line[i] {
		case '\\':
			if i+5 < len(line) && line[i+1] == 'u' {
				if strings.EqualFold(string(line[i+2:i+6]), "fffd") {
					return true
				}
				i += 6
			} else {
				i += 2
			}
		case '"':
			return false
		default:
			i++
		}
	}
	return false
}

func (r *c07Req) result() c07Result {
	wr := r.wr
	wr.mu.Lock()
	body := append([]byte(nil), wr.buf.Bytes()...)
	res := c07Result{Status: wr.code}
	wr.mu.Unlock()
	if res.Status != 200 {
		res.Err = strings.TrimSpace(string(body))
		return res
	}
	for _, line := range bytes.Split(body, []byte{'\n'}) {
		if len(bytes.TrimSpace(line)) == 0 {
			continue
		}
		var cr llm.CompletionResponse
		if err := json.Unmarshal(line, &cr); err != nil {
			res.Err = "unparsable response line: " + string(line)
			return res
		}
		if cr.Done {
			res.Done = true
			res.Reason = int(cr.DoneReason)
			res.Eval = cr.EvalCount
			res.PromptEval = cr.PromptEvalCount
			continue
		}
		if c07RawInvalid(line) {
			res.Invalid++
		}
		res.Pieces = append(res.Pieces, cr.Content)
		res.Text += cr.Content
	}
	return res
}

// ------------------------------------------------------------------------------------------------
// driver

func (w *c07World) live() int {
	s := w.s
	s.mu.Lock()
	defer s.mu.Unlock()
	n := 0
	for _, q := range s.seqs {
		if q != nil {
			n++
		}
	}
	return n
}

// start launches the request through the real completion handler in its own goroutine.
func (w *c07World) start(r *c07Req) {
	opts := api.DefaultOptions()
	opts.Temperature = 0
	opts.NumPredict = r.NumPredict
	opts.NumKeep = r.NumKeep
	opts.Stop = r.Stop
	body, err := json.Marshal(llm.CompletionRequest{Prompt: r.Prompt, Options: &opts})
	if err != nil {
		panic(err)
	}
	ctx, cancel := context.WithCancel(context.Background())
	r.cancel = cancel
	r.started = true
	r.done = make(chan struct{})
	r.wr = &c07Writer{hdr: http.Header{}}
	if r.CancelAfter > 0 {
		k := r.CancelAfter
		r.wr.onLine = func(n int) {
			if n >= k {
				cancel()
			}
		}
	}
	hr := httptest.NewRequest(http.MethodPost, "/completion", bytes.NewReader(body)).WithContext(ctx)
	w.event("client: start request %d (prompt %d bytes, num_predict %d, num_keep %d, stop %q)", r.Idx, len(r.Prompt), r.NumPredict, r.NumKeep, r.Stop)
	go func() {
		defer close(r.done)
		defer func() {
			if p := recover(); p != nil {
				w.failPanic("completion handler", p, string(debug.Stack()))
			}
		}()
		w.s.completion(r.wr, hr)
	}()
}

func c07Yield(spins *int) {
	*spins++
	if *spins < 200 {
		runtime.Gosched()
	} else {
		time.Sleep(20 * time.Microsecond)
	}
}

// waitAdmitted waits until the request launched last was admitted into Server.seqs, finished, or cannot be
// admitted right now because all slots are taken. Only the watchdog depends on wall-clock time.
func (w *c07World) waitAdmitted(r *c07Req, liveBefore int) {
	if liveBefore >= w.cfg.Parallel {
		return
	}
	deadline := time.Now().Add(20 * time.Second)
	spins := 0
	for !r.isDone() && w.live() <= liveBefore && !w.isDead() {
		c07Yield(&spins)
		if spins%512 == 0 && time.Now().After(deadline) {
			w.mu.Lock()
			w.inconclusive = "watchdog: request not admitted within 20 s"
			w.mu.Unlock()
			return
		}
	}
}

// step runs one processBatch if there is a live sequence; false when the server is idle.
func (w *c07World) step() bool {
	s := w.s
	s.mu.Lock()
	idle := s.allNil()
	s.mu.Unlock()
	if idle {
		return false
	}
	var err error
	func() {
		defer func() {
			if p := recover(); p != nil {
				w.failPanic("processBatch", p, string(debug.Stack()))
			}
		}()
		err = s.processBatch()
	}()
	w.steps++
	// A batch loop iteration that ran no Forward while a live sequence has nothing queued can
	// never make progress again (only processBatch changes a sequence): the request hangs.
	if err == nil && !w.isDead() {
		fw := w.forwards()
		if fw != w.lastForwards {
			w.lastForwards, w.idleSteps = fw, 0
		} else if w.idleSteps++; w.idleSteps >= 3 {
			s.mu.Lock()
			for i, q := range s.seqs {
				if q != nil && len(q.inputs) == 0 && len(q.pendingInputs) == 0 {
					slot := -1
					if q.cache != nil {
						slot = q.cache.Id
					}
					s.mu.Unlock()
					w.fail("stuck-sequence", fmt.Sprintf("sequence %d (slot %d) is live but has no input queued and nothing pending: processBatch ran %d times without calling the model; the request can never finish", i, slot, w.idleSteps), nil)
					return true
				}
			}
			s.mu.Unlock()
		}
	}
	if err != nil {
		w.count("processbatch_errors", 1)
		kind := c07Sanitize(err.Error())
		if errors.Is(err, kvcache.ErrKvCacheFull) {
			kind = "kv-cache-full"
		}
		tag := ""
		if w.cfg.Kind == "swa" || w.cfg.Kind == "wrapper" {
			tag = ":swa"
			if w.cfg.Parallel > 1 {
				tag = ":swa-parallel"
			}
		}
		rec := []int{}
		s.mu.Lock() // slot tags and records are written by client goroutines under Server.mu
		for _, t := range w.slotTag {
			if t == "after-failed-shift" {
				tag = ":after-failed-shift"
			}
		}
		for i := range s.cache.slots {
			rec = append(rec, len(s.cache.slots[i].Inputs))
		}
		s.mu.Unlock()
		w.fail("processbatch-error:"+kind+tag,
			fmt.Sprintf("processBatch returned %q (Server.run panics on it: the runner process dies); inputs recorded per slot %v, %d cells per slot", err.Error(), rec, w.cfg.NumCtx),
			map[string]any{"recorded_inputs_per_slot": rec})
	}
	return true
}

// drain runs batches until every started request has finished and the server is idle.
func (w *c07World) drain(reqs []*c07Req, maxSteps int) bool {
	deadline := time.Now().Add(60 * time.Second)
	spins := 0
	for {
		if w.isDead() {
			return false
		}
		if w.step() {
			spins = 0
			if w.steps > maxSteps {
				w.mu.Lock()
				w.inconclusive = fmt.Sprintf("step limit: %d batches without the history finishing", w.steps)
				w.mu.Unlock()
				return false
			}
			continue
		}
		all := true
		for _, r := range reqs {
			if r.started && !r.isDone() {
				all = false
				break
			}
		}
		if all {
			return true
		}
		c07Yield(&spins)
		if spins%512 == 0 && time.Now().After(deadline) {
			w.mu.Lock()
			w.inconclusive = "watchdog: history did not finish within 60 s"
			w.mu.Unlock()
			return false
		}
	}
}

// abandon cancels every client so that no handler goroutine stays blocked.
func (w *c07World) abandon(reqs []*c07Req) {
	for _, r := range reqs {
		if r.started && r.cancel != nil {
			r.cancel()
		}
	}
	// give cancelled sequences the chance to be removed; nothing is judged any more
	for i := 0; i < 50 && !w.isDead(); i++ {
		if !w.step() {
			break
		}
	}
}

// ------------------------------------------------------------------------------------------------
// stop rule shared by C07 and C14 (the property statement of C14, nothing more)

// c07FirstStop returns the first k such that pieces[0..k] joined contain a stop string, and that text.
func c07FirstStop(pieces []string, stops []string) (int, string) {
	var sb strings.Builder
	for k, p := range pieces {
		sb.WriteString(p)
		t := sb.String()
		for _, s := range stops {
			if s != "" && strings.Contains(t, s) {
				return k, t
			}
		}
	}
	return -1, sb.String()
}

func c07ContainsStop(t string, stops []string) string {
	for _, s := range stops {
		if s != "" && strings.Contains(t, s) {
			return s
		}
	}
	return ""
}

// c07EndsBeforeStop: out == g[:i] for an index i at which some stop string occurs in g.
func c07EndsBeforeStop(g, out string, stops []string) bool {
	if !strings.HasPrefix(g, out) {
		return false
	}
	rest := g[len(out):]
	for _, s := range stops {
		if s != "" && strings.HasPrefix(rest, s) {
			return true
		}
	}
	return false
}

// ------------------------------------------------------------------------------------------------
// reference semantics of one request (hash mode): what a runner must generate, computed without any
// cache, slot or batch: prompt truncation, then one token at a time over a window that discards
// max((numCtx-keep)/2, 1) inputs after the first `keep` whenever it is full.

type c07Expect struct {
	Tokens     []int32 `json:"tokens"` // sampled tokens incl. a final EOS
	Text       string  `json:"text"`   // generated text (before stop truncation)
	StopHit    bool    `json:"stop_hit"`
	Reason     int     `json:"done_reason"`
	Eval       int     `json:"eval_count"`
	PromptEval int     `json:"prompt_eval_count"`
	Truncated  bool    `json:"prompt_truncated"`
	Shifts     int     `json:"shifts"`
}

func (cfg *c07Cfg) encode(prompt string) []int {
	var toks []int
	if cfg.BOS {
		toks = append(toks, cfg.Vocab)
	}
	for i := 0; i < len(prompt); i++ {
		toks = append(toks, 1+int(prompt[i]-'a'))
	}
	return toks
}

func (cfg *c07Cfg) windows() []int {
	switch cfg.Kind {
	case "swa":
		return []int{cfg.Window}
	case "wrapper":
		return []int{cfg.Window, math.MaxInt32}
	}
	return []int{math.MaxInt32}
}

func c07Reference(cfg *c07Cfg, r *c07Req) c07Expect {
	var e c07Expect
	toks := cfg.encode(r.Prompt)
	keep := r.NumKeep
	if keep < 0 {
		keep = len(toks)
	}
	keep = min(keep, cfg.NumCtx-1)
	if len(toks) > cfg.NumCtx {
		discard := len(toks) - cfg.NumCtx
		nt := append([]int(nil), toks[:keep]...)
		toks = append(nt, toks[keep+discard:]...)
		e.Truncated = true
	}
	e.PromptEval = len(toks)
	win := append([]int(nil), toks...)
	wins := cfg.windows()
	var pieces []string
	for {
		p := len(win) - 1
		lists := make([][]c07PT, len(wins))
		for l, ws := range wins {
			lo := 0
			if ws != math.MaxInt32 {
				lo = max(0, p-ws)
			}
			for q := lo; q <= p; q++ {
				lists[l] = append(lists[l], c07PT{Pos: q, Tok: win[q]})
			}
		}
		t := cfg.pick(c07Hash(cfg.Salt, lists))
		e.Eval++
		e.Tokens = append(e.Tokens, t)
		if t == 0 {
			e.Reason = int(llm.DoneReasonStop)
			break
		}
		pieces = append(pieces, string(rune('a'+t-1)))
		e.Text += pieces[len(pieces)-1]
		if c07ContainsStop(e.Text, r.Stop) != "" {
			e.StopHit = true
			e.Reason = int(llm.DoneReasonStop)
			break
		}
		if r.NumPredict > 0 && e.Eval >= r.NumPredict {
			// the limit is checked before the sampled token is fed back (no shift for it)
			e.Reason = int(llm.DoneReasonLength)
			break
		}
		if len(win)+1 > cfg.NumCtx {
			discard := max((cfg.NumCtx-keep)/2, 1) - (cfg.NumCtx - len(win))
			if discard > 0 {
				nw := append([]int(nil), win[:keep]...)
				win = append(nw, win[keep+discard:]...)
				e.Shifts++
			}
		}
		win = append(win, int(t))
		if e.Eval > 1000 {
			e.Reason = -1 // not terminating (the generator never issues such a request)
			break
		}
	}
	return e
}
