//go:build verif

package ollamarunner

// C14: streamed text stops before stop sequences and is always whole UTF-8.
//
// Same world as C07 (c07_common_test.go: real Server, real completion handler, real processBatch,
// real kvcache), different script: the fake TextProcessor maps token ids to arbitrary byte pieces
// chosen per case (multi-byte characters split across tokens, stop strings split across or
// overlapping piece boundaries, several stop strings completed by one piece, empty pieces, invalid
// bytes in a minority of cases) and the model emits a scripted token sequence followed by EOS.
//
// Oracle on what the HTTP client of POST /completion receives. With p_0..p_{m-1} the scripted pieces,
// N the prediction limit, L = min(N, m) (m if unlimited) and k the first index < L such that
// p_0..p_k joined contain a stop string:
//   * k exists: generation ends at that step (eval_count k+1, done_reason stop); the output is
//     G[:i] for an index i at which a stop string occurs in G = p_0..p_k, and contains no stop string;
//   * otherwise G = p_0..p_{L-1}; the output is G (minus an incomplete UTF-8 sequence at its very
//     end); done_reason is length (eval_count N) if N <= m, else stop (EOS, eval_count m+1);
//   * G valid UTF-8 (up to an incomplete tail): every streamed piece is valid UTF-8;
//   * G containing invalid bytes (reading of DESIGN.md): every streamed piece is valid UTF-8, the
//     output is a subsequence of G, termination (eval_count, done_reason) as above; nothing else.
// The state / exclusivity oracles of the shared world stay armed (c14:world:...), and every slot
// record left behind (in particular after a stop string trimmed it) is used once more by a
// follow-up request, so that a record that disagrees with the cache is seen by the state oracle.

import (
	"encoding/json"
	"fmt"
	"io"
	"log/slog"
	"sort"
	"strconv"
	"strings"
	"testing"
	"unicode/utf8"

	kit "verifkit"

	"github.com/ollama/ollama/llm"
)

type c14Req struct {
	c07Req
	Script   int      `json:"script"`
	Offset   int      `json:"script_offset,omitempty"` // follow-ups continue the script here
	PiecesQ  []string `json:"scripted_pieces"`         // Go-quoted
	TextQ    string   `json:"scripted_text"`           // Go-quoted
	SplitMod string   `json:"split,omitempty"`
	pieces   []string
}

type c14Case struct {
	Index      int       `json:"index"`
	Cfg        c07Cfg    `json:"cfg"`
	Invalid    bool      `json:"invalid_bytes_allowed"`
	Concurrent bool      `json:"concurrent"`
	Reqs       []*c14Req `json:"requests"`
}

var (
	c14Letters = []string{"a", "b", "c", "d"}
	c14Multi   = []string{"é", "ß", "€", "한", "😀", "🙂"}
	c14Bad     = []string{"\xff", "\x80", "\xc3", "\xe2\x82", "\xf0\x9f", "\xc0\xaf"}
)

func c14Quote(ss []string) []string {
	out := make([]string, len(ss))
	for i, s := range ss {
		out[i] = strconv.Quote(s)
	}
	return out
}

func c14Gen(r *kit.Rand, idx int) *c14Case {
	cs := &c14Case{Index: idx}
	cfg := &cs.Cfg
	cfg.Kind = "causal"
	cfg.Script = true
	cfg.Parallel = kit.Pick(r, []int{1, 1, 2})
	cfg.NumCtx = r.Range(96, 128)
	cfg.Batch = kit.Pick(r, []int{1, 2, 4, 8})
	cfg.MultiUser = r.Bool()
	cfg.CachePad = 1
	cfg.Vocab = 2
	cs.Invalid = r.Chance(1, 8)
	cs.Concurrent = cfg.Parallel > 1 && r.Bool()
	ids := map[string]int32{}
	pieceID := func(p string) (int32, bool) {
		if id, ok := ids[p]; ok {
			return id, true
		}
		if len(cfg.Pieces) >= 25 {
			return 0, false
		}
		cfg.Pieces = append(cfg.Pieces, p)
		ids[p] = int32(len(cfg.Pieces))
		return ids[p], true
	}
	word := func(n int) string {
		var sb strings.Builder
		for i := 0; i < n; i++ {
			if r.Chance(1, 3) {
				sb.WriteString(kit.Pick(r, c14Multi))
			} else {
				sb.WriteString(kit.Pick(r, c14Letters))
			}
		}
		return sb.String()
	}
	nreq := r.Range(1, 3)
	for q := 0; q < nreq; q++ {
		rq := &c14Req{Script: q}
		rq.Idx = q
		// ---- stop strings (valid UTF-8, non-empty), often related to each other
		var stops []string
		nstop := kit.Pick(r, []int{0, 1, 1, 2, 2, 2, 3})
		for len(stops) < nstop {
			var s string
			if len(stops) == 0 || r.Chance(1, 3) {
				s = word(r.Range(1, 3))
			} else {
				base := []rune(kit.Pick(r, stops))
				switch r.Intn(5) {
				case 0: // proper suffix
					s = string(base[r.Intn(len(base)):])
				case 1: // proper prefix
					s = string(base[:1+r.Intn(len(base))])
				case 2: // superstring
					s = word(r.Range(0, 1)) + string(base) + word(r.Range(0, 1))
				case 3: // overlap: tail of base + something new
					s = string(base[len(base)-1:]) + word(1)
				default: // head overlap
					s = word(1) + string(base[:1])
				}
			}
			dup := s == ""
			for _, t := range stops {
				if t == s {
					dup = true
				}
			}
			if !dup {
				stops = append(stops, s)
			} else if r.Chance(1, 4) {
				nstop--
			}
		}
		rq.Stop = stops
		// ---- generated text
		var text strings.Builder
		natoms := r.Range(1, 12)
		for a := 0; a < natoms; a++ {
			switch p := r.Intn(100); {
			case p < 14 && len(stops) > 0:
				text.WriteString(kit.Pick(r, stops))
			case p < 22 && len(stops) > 1:
				// two stop strings back to back: a coarse split lets one piece complete both
				i := r.Intn(len(stops))
				j := (i + 1 + r.Intn(len(stops)-1)) % len(stops)
				text.WriteString(stops[i] + stops[j])
			case p < 34 && len(stops) > 0:
				s := []rune(kit.Pick(r, stops))
				text.WriteString(string(s[:r.Intn(len(s))])) // proper prefix of a stop (may be empty)
			case p < 42 && cs.Invalid:
				text.WriteString(kit.Pick(r, c14Bad))
			case p < 65:
				text.WriteString(kit.Pick(r, c14Multi))
			default:
				text.WriteString(kit.Pick(r, c14Letters))
			}
		}
		g := text.String()
		// ---- split into pieces
		mode := kit.Pick(r, []string{"fine", "fine", "coarse", "coarse", "bytes", "whole", "runes"})
		rq.SplitMod = mode
		var pieces []string
		start := 0
		for i := 1; i <= len(g); i++ {
			cut := i == len(g)
			if !cut {
				switch mode {
				case "fine":
					cut = r.Chance(1, 2)
				case "coarse":
					cut = r.Chance(3, 20)
				case "bytes":
					cut = true
				case "runes":
					cut = utf8.RuneStart(g[i]) && r.Chance(1, 2)
				}
			}
			if cut {
				pieces = append(pieces, g[start:i])
				start = i
				if r.Chance(1, 16) {
					pieces = append(pieces, "")
				}
			}
		}
		if len(pieces) == 0 {
			pieces = []string{""}
		}
		var toks []int32
		for i, p := range pieces {
			id, ok := pieceID(p)
			if !ok {
				pieces = pieces[:i]
				break
			}
			toks = append(toks, id)
		}
		rq.pieces = pieces
		cfg.Scripts = append(cfg.Scripts, toks)
		m := len(pieces)
		if r.Chance(7, 20) {
			rq.NumPredict = kit.Pick(r, []int{-1, 0})
		} else {
			rq.NumPredict = r.Range(1, m+2)
		}
		rq.NumKeep = kit.Pick(r, []int{0, 4, -1})
		var pb strings.Builder
		pb.WriteByte('a' + byte(q+1))
		for i := r.Range(0, 5); i > 0; i-- {
			pb.WriteByte('a' + byte(r.Intn(9)))
		}
		rq.Prompt = pb.String()
		cfg.PLen = append(cfg.PLen, len(rq.Prompt))
		rq.PiecesQ = c14Quote(pieces)
		rq.TextQ = strconv.Quote(strings.Join(pieces, ""))
		cs.Reqs = append(cs.Reqs, rq)
	}
	cfg.PiecesQ = c14Quote(cfg.Pieces)
	return cs
}

// c14IncompleteTail returns the length of an incomplete (but so far well-formed) UTF-8 sequence at the end of g.
func c14IncompleteTail(g string) int {
	for i := 1; i <= 3 && i <= len(g); i++ {
		if utf8.RuneStart(g[len(g)-i]) {
			if !utf8.FullRune([]byte(g[len(g)-i:])) {
				return i
			}
			return 0
		}
	}
	return 0
}

func c14Subsequence(sub, s string) bool {
	j := 0
	for i := 0; i < len(s) && j < len(sub); i++ {
		if s[i] == sub[j] {
			j++
		}
	}
	return j == len(sub)
}

type c14Expect struct {
	G        string `json:"-"`
	GQ       string `json:"generated_text"`
	StopStep int    `json:"stop_step"` // -1: no stop string
	Reason   int    `json:"done_reason"`
	Eval     int    `json:"eval_count"`
	Valid    bool   `json:"valid_utf8"`
	feats    []string
}

func c14Expected(pieces []string, stops []string, numPredict int) c14Expect {
	m := len(pieces)
	L, limited := m, false
	if numPredict > 0 && numPredict <= m {
		L, limited = numPredict, true
	}
	var e c14Expect
	k, gk := c07FirstStop(pieces[:L], stops)
	e.StopStep = k
	if k >= 0 {
		e.G, e.Reason, e.Eval = gk, int(llm.DoneReasonStop), k+1
		e.feats = append(e.feats, "stop-hit")
		// which stops does the step complete, and where does the earliest occurrence start?
		n := 0
		first := len(gk)
		for _, s := range stops {
			if i := strings.Index(gk, s); i >= 0 {
				n++
				first = min(first, i)
			}
		}
		if n > 1 {
			e.feats = append(e.feats, "several-stops-completed-by-one-piece")
		}
		before := len(gk) - len(pieces[k])
		if first < before {
			e.feats = append(e.feats, "stop-spans-pieces")
		}
		if first > before {
			e.feats = append(e.feats, "stop-inside-piece")
		}
	} else {
		e.G = strings.Join(pieces[:L], "")
		if limited {
			e.Reason, e.Eval = int(llm.DoneReasonLength), numPredict
			e.feats = append(e.feats, "limit")
		} else {
			e.Reason, e.Eval = int(llm.DoneReasonStop), m+1
			e.feats = append(e.feats, "eos")
		}
	}
	t := c14IncompleteTail(e.G)
	e.Valid = utf8.ValidString(e.G[:len(e.G)-t])
	if !e.Valid {
		e.feats = append(e.feats, "invalid-bytes")
	}
	if t > 0 {
		e.feats = append(e.feats, "incomplete-tail")
	}
	// a multi-byte character split across pieces?
	off := 0
	for _, p := range pieces[:min(L, e.Eval)] {
		off += len(p)
		if off < len(e.G) && off > 0 && !utf8.RuneStart(e.G[off]) && e.Valid {
			e.feats = append(e.feats, "char-split-across-pieces")
			break
		}
	}
	for _, p := range pieces[:min(L, e.Eval)] {
		if p == "" {
			e.feats = append(e.feats, "empty-piece")
			break
		}
	}
	e.GQ = strconv.Quote(e.G)
	return e
}

// c14Judge is the oracle; "" = held.
func c14Judge(q *c14Req, stops []string, res c07Result, e c14Expect, promptLen int) (sig, what string) {
	qq := func(s string) string { return strconv.Quote(s) }
	if res.Status != 200 {
		return "request-failed", fmt.Sprintf("request %d answered HTTP %d %q", q.Idx, res.Status, res.Err)
	}
	if res.Err != "" {
		return "response-unparsable", res.Err
	}
	if !res.Done {
		return "no-final-response", fmt.Sprintf("request %d: stream ended without a done response", q.Idx)
	}
	o := res.Text
	if res.Invalid > 0 {
		return "invalid-utf8-streamed", fmt.Sprintf("request %d: %d streamed piece(s) were not valid UTF-8 (the JSON encoder replaced bytes by U+FFFD); generated text %s", q.Idx, res.Invalid, e.GQ)
	}
	for _, p := range res.Pieces {
		if !utf8.ValidString(p) {
			return "invalid-utf8-streamed", fmt.Sprintf("request %d: streamed piece %s is not valid UTF-8", q.Idx, qq(p))
		}
	}
	if e.Valid {
		if e.StopStep >= 0 {
			if s := c07ContainsStop(o, stops); s != "" {
				return "stop-leak", fmt.Sprintf("request %d: the output %s contains the stop string %s (stop strings %q, generated text %s)", q.Idx, qq(o), qq(s), stops, e.GQ)
			}
			if !c07EndsBeforeStop(e.G, o, stops) {
				return "stop-cut-wrong", fmt.Sprintf("request %d: the output %s does not end immediately before a stop string of %q in the generated text %s", q.Idx, qq(o), stops, e.GQ)
			}
		} else {
			want := e.G[:len(e.G)-c14IncompleteTail(e.G)]
			if o != want {
				k := "text-differs"
				if strings.HasPrefix(want, o) {
					k = "text-lost"
				}
				return k, fmt.Sprintf("request %d: the output %s differs from the generated text %s (no stop string of %q occurs in it)", q.Idx, qq(o), qq(want), stops)
			}
		}
	} else if !c14Subsequence(o, e.G) {
		return "invalid-input:not-a-subsequence", fmt.Sprintf("request %d: the output %s is not a subsequence of the generated text %s", q.Idx, qq(o), e.GQ)
	}
	if res.Reason != e.Reason {
		return "wrong-done-reason", fmt.Sprintf("request %d: done_reason %d, want %d (0 stop/EOS, 1 length); generated text %s, stops %q, num_predict %d", q.Idx, res.Reason, e.Reason, e.GQ, stops, q.NumPredict)
	}
	if res.Eval != e.Eval {
		return "wrong-eval-count", fmt.Sprintf("request %d: generation ended after %d sampled tokens, want %d (first stop at step %d, num_predict %d, script of %d pieces)", q.Idx, res.Eval, e.Eval, e.StopStep, q.NumPredict, len(q.pieces))
	}
	if res.PromptEval != promptLen {
		return "wrong-prompt-count", fmt.Sprintf("request %d: prompt_eval_count %d, prompt has %d tokens", q.Idx, res.PromptEval, promptLen)
	}
	return "", ""
}

type c14Outcome struct {
	viol         *c07Viol
	inconclusive string
	cnt          map[string]int
	feats        map[string]bool
	nontrivial   []string
	observed     []map[string]any
}

func c14RunCase(cs *c14Case) *c14Outcome {
	out := &c14Outcome{cnt: map[string]int{}, feats: map[string]bool{}}
	cfg := &cs.Cfg
	w, err := c07NewWorld(cfg)
	if err != nil {
		out.viol = &c07Viol{Sig: "harness", What: err.Error()}
		return out
	}
	all := make([]*c07Req, 0, len(cs.Reqs))
	for _, q := range cs.Reqs {
		all = append(all, &q.c07Req)
	}
	finish := func() *c14Outcome {
		w.mu.Lock()
		for k, v := range w.cnt {
			out.cnt[k] += v
		}
		w.mu.Unlock()
		if v := w.violation(); v != nil && out.viol == nil {
			if !strings.HasPrefix(v.Sig, "c14:") {
				v.Sig = "world:" + v.Sig
			} else {
				v.Sig = strings.TrimPrefix(v.Sig, "c14:")
			}
			out.viol = v
		}
		out.inconclusive = w.inconclusive
		w.abandon(all)
		return out
	}
	const maxSteps = 20000
	if cs.Concurrent {
		for _, q := range cs.Reqs {
			before := w.live()
			w.start(&q.c07Req)
			w.waitAdmitted(&q.c07Req, before)
		}
		if !w.drain(all, maxSteps) {
			return finish()
		}
	} else {
		for _, q := range cs.Reqs {
			w.start(&q.c07Req)
			if !w.drain(all, maxSteps) {
				return finish()
			}
		}
	}
	judge := func(q *c14Req, pieces []string, promptLen int) bool {
		res := q.result()
		e := c14Expected(pieces, q.Stop, q.NumPredict)
		out.cnt["requests"]++
		nonEmpty := 0
		for _, p := range pieces[:min(len(pieces), e.Eval)] {
			if p != "" {
				nonEmpty++
			}
		}
		if len(res.Pieces) < nonEmpty && e.StopStep < 0 {
			e.feats = append(e.feats, "pieces-withheld-and-merged")
		}
		if !e.Valid && c07ContainsStop(res.Text, q.Stop) != "" {
			// observed, not judged: dropping invalid bytes can glue a stop string together
			out.cnt["invalid_generation_output_contains_stop_after_dropping_bytes"]++
		}
		for _, f := range e.feats {
			out.feats[f] = true
			out.cnt["requests_with_"+f]++
		}
		if e.StopStep >= 0 || c14Has(e.feats, "char-split-across-pieces") || c14Has(e.feats, "pieces-withheld-and-merged") || c14Has(e.feats, "incomplete-tail") {
			sort.Strings(e.feats)
			out.nontrivial = append(out.nontrivial, fmt.Sprint(e.feats, len(q.Stop), q.Kind))
		}
		if len(out.observed) < 6 {
			out.observed = append(out.observed, map[string]any{"req": q.Idx, "received_pieces": c14Quote(res.Pieces), "done_reason": res.Reason, "eval_count": res.Eval, "expected": e})
		}
		if sig, what := c14Judge(q, q.Stop, res, e, promptLen); sig != "" {
			w.fail("c14:"+sig, what, map[string]any{"request": q, "received_pieces": c14Quote(res.Pieces), "received": res, "expected": e})
			return false
		}
		return true
	}
	for _, q := range cs.Reqs {
		if !judge(q, q.pieces, len(q.Prompt)) {
			return finish()
		}
	}
	// ---- follow-ups: every slot record is used once more (state oracle of the shared world)
	var recs [][]int
	w.s.mu.Lock()
	for i := range w.s.cache.slots {
		recs = append(recs, c07Toks(w.s.cache.slots[i].Inputs))
	}
	w.s.mu.Unlock()
	for _, rc := range recs {
		if len(rc) == 0 || len(rc)+8 >= cfg.NumCtx {
			continue
		}
		r := rc[0] - 1
		if r < 0 || r >= len(cfg.Scripts) {
			continue
		}
		var sb strings.Builder
		ok := true
		for _, tk := range rc {
			if tk < 0 || tk > 25 {
				ok = false
				break
			}
			sb.WriteByte('a' + byte(tk))
		}
		if !ok {
			continue
		}
		sb.WriteByte('a' + byte(len(rc)%7))
		fq := &c14Req{Script: r, Offset: sb.Len() - cfg.PLen[r]}
		fq.Idx = len(all)
		fq.Prompt = sb.String()
		fq.NumPredict = 1 + len(rc)%3
		fq.Kind = "follow-up"
		rest := []string{}
		if fq.Offset >= 0 && fq.Offset < len(cs.Reqs[r].pieces) {
			rest = cs.Reqs[r].pieces[fq.Offset:]
		}
		fq.pieces = rest
		fq.PiecesQ = c14Quote(rest)
		all = append(all, &fq.c07Req)
		w.start(&fq.c07Req)
		if !w.drain(all, maxSteps) {
			return finish()
		}
		out.cnt["follow_up_requests"]++
		if !judge(fq, rest, len(fq.Prompt)) {
			return finish()
		}
	}
	return finish()
}

func c14Has(ss []string, s string) bool {
	for _, x := range ss {
		if x == s {
			return true
		}
	}
	return false
}

func c14Run(idx int, seed uint64) (*c14Case, *c14Outcome) {
	r := kit.NewRand(seed, "C14", idx)
	cs := c14Gen(r, idx)
	return cs, c14RunCase(cs)
}

func TestVerifC14(t *testing.T) {
	slog.SetDefault(slog.New(slog.NewTextHandler(io.Discard, nil)))
	rep := kit.NewReport("C14")
	cfg := rep.Cfg()
	defer rep.Flush()
	rep.Set("rule", "case i = PRNG(seed,'C14',i): 1-3 scripted generations per runner: a text built from letters, 2-4 byte characters, the request's stop strings, proper prefixes of them, two stop strings back to back and (1 case in 8) invalid bytes, split into token pieces at random byte offsets (every byte / fine / coarse / rune boundaries / one piece, plus empty pieces), 0-3 stop strings that are often prefixes, suffixes, superstrings or overlaps of each other, num_predict unlimited or 1..pieces+2; requests go through the real completion handler and processBatch (sequentially or two at a time), then every slot record is continued by a follow-up request. Non-trivial & distinct = distinct (set of features observed for the request, number of stop strings, request kind) among requests in which a stop string ended the generation, a multi-byte character was split across pieces, pieces were withheld and merged, or an incomplete character was dropped at the end")
	rep.Set("assumptions", []string{
		"stop strings are non-empty valid UTF-8 (they arrive as JSON)",
		"the output of a generation is judged against the property statement: it must end immediately before SOME stop string occurrence of the text generated up to the step that first completes a stop string, and contain none; which occurrence is not prescribed",
		"generations containing invalid bytes: only 'every streamed piece is valid UTF-8', 'output is a subsequence of the generated text' and the termination step / done_reason are judged; an output in which dropped invalid bytes glue a stop string together is counted, not judged",
		"done_reason cannot distinguish EOS from a stop string (both 'stop'); eval_count is used to check the step at which generation ended",
		"the scripted model needs no context shift (numCtx 96-128 is larger than any prompt + script); the llamarunner copy of this loop (cgo, needs a real model) is not exercised, only the shared runner/common functions are",
	})
	n := cfg.N(200000, 8000000)
	replayIdx := -1
	if cfg.Replay != "" {
		var rc struct {
			Index int `json:"index"`
		}
		if err := kit.LoadReplay(cfg.Replay, &rc); err != nil {
			t.Fatal(err)
		}
		replayIdx = rc.Index
	}
	ran := 0
	for i := 0; i < n; i++ {
		if replayIdx >= 0 && i != replayIdx {
			continue
		}
		if replayIdx < 0 && !cfg.Mine(i) {
			continue
		}
		if ran++; replayIdx < 0 && ran%16 == 0 && (rep.Enough() || rep.OverBudget()) {
			break
		}
		jb, _ := json.Marshal(map[string]any{"index": i})
		rep.Journal(jb)
		rep.Eval(1)
		cs, out := c14Run(i, cfg.Seed)
		for k, v := range out.cnt {
			rep.Count(k, v)
		}
		if cs.Invalid {
			rep.Count("cases_with_invalid_bytes_allowed", 1)
		}
		if cs.Concurrent {
			rep.Count("cases_concurrent", 1)
		}
		if out.inconclusive != "" {
			rep.Inconclusive(fmt.Sprintf("case %d: %s", i, out.inconclusive))
		}
		if out.viol != nil {
			rep.Violate("c14:"+out.viol.Sig, out.viol.What, cs, out.viol.Wit)
			if replayIdx >= 0 {
				t.Logf("replay: %s: %s", out.viol.Sig, out.viol.What)
			}
		}
		for _, s := range out.nontrivial {
			rep.Distinct(s)
		}
		if rep.NeedSample() && out.viol == nil && len(out.nontrivial) > 0 && len(cs.Reqs) == 1 && out.feats["stop-spans-pieces"] {
			rep.Sample(map[string]any{"case": cs, "observed": out.observed})
		}
	}
	if replayIdx >= 0 && rep.Violations() == 0 {
		t.Logf("replay: case %d holds", replayIdx)
	}
}
