//go:build verif

package llm

// C16: the memory estimator never plans more on a GPU than it has free.
//
// Runtime monitor over generated (model, projector, GPU list, options, overhead) configurations:
// the model files are produced by the kit's independent GGUF writer, decoded by the real
// ggml.Decode and handed to the real EstimateGPULayers / PredictServerFit. The oracle is the list
// of inequalities of the property statement, evaluated on the returned MemoryEstimate against the
// *inputs* (it never re-implements the placement algorithm). Numbers taken from a "probe" run of
// the estimator on one unlimited GPU are used only to aim the generated free-memory figures at the
// interesting thresholds; they never enter a verdict.

import (
	"bytes"
	"fmt"
	"io"
	"log/slog"
	"math/bits"
	"os"
	"path/filepath"
	"runtime"
	"strconv"
	"strings"
	"testing"

	"github.com/ollama/ollama/api"
	"github.com/ollama/ollama/discover"
	"github.com/ollama/ollama/fs/ggml"

	kit "verifkit"
)

// ------------------------------------------------------------------------------------------------
// case description (everything here is derived from PRNG(seed,"C16",index) and the tree under test)

type c16Tensor struct {
	Name string   `json:"name"`
	Kind uint32   `json:"kind"`
	Dims []uint64 `json:"dims"`
}

type c16Model struct {
	Branch    string         `json:"branch"` // GraphSize branch aimed at
	Arch      string         `json:"arch"`   // general.architecture ("" = key absent)
	Blocks    int            `json:"block_count"`
	Profile   string         `json:"layer_profile"`
	Scale     string         `json:"size_scale"`
	Vocab     int            `json:"vocab"`
	VocabElem string         `json:"vocab_elem"` // "string" or "uint8" (large vocabularies, only the count matters)
	KV        map[string]any `json:"kv"`
	Tensors   []c16Tensor    `json:"tensors"`
}

type c16Proj struct {
	Kind    string            `json:"kind"` // clip | mllama | empty | missing | garbage
	KV      map[string]uint32 `json:"kv,omitempty"`
	Tensors []c16Tensor       `json:"tensors,omitempty"`
}

type c16GPU struct {
	Library string `json:"library"`
	Variant string `json:"variant,omitempty"`
	Free    uint64 `json:"free"`
	Min     uint64 `json:"minimum"`
	Total   uint64 `json:"total"`
	How     string `json:"how"` // how the generator picked Free
}

type c16Probe struct {
	GraphFull    uint64 `json:"graph_full"`
	GraphPartial uint64 `json:"graph_partial"`
	Weights      uint64 `json:"weights"`
	KV           uint64 `json:"kv"`
	Output       uint64 `json:"output"`
	ProjW        uint64 `json:"projector_weights"`
	ProjG        uint64 `json:"projector_graph"`
	Total        uint64 `json:"total"` // TotalSize with everything on one unlimited GPU (minimum 0, overhead 0)
	Layers       int    `json:"layers"`
}

type c16Case struct {
	Index       int       `json:"index"`
	Model       c16Model  `json:"model"`
	Projectors  []c16Proj `json:"projectors"`
	GPUs        []c16GPU  `json:"gpus"`        // one library: argument of EstimateGPULayers
	Extra       []c16GPU  `json:"extra_gpus"`  // second library group, only for PredictServerFit
	ExtraFirst  bool      `json:"extra_first"` // extra group precedes the main group in the list
	NumCtx      int       `json:"num_ctx"`
	NumBatch    int       `json:"num_batch"`
	NumGPU      int       `json:"num_gpu"`
	NumParallel int       `json:"num_parallel"`
	OverheadEnv *string   `json:"overhead_env"` // nil = OLLAMA_GPU_OVERHEAD unset
	Overhead    uint64    `json:"overhead"`     // the configured overhead that string means
	FreeMode    string    `json:"free_mode"`
	MaxArray    int       `json:"max_array"`
	Probe       *c16Probe `json:"probe,omitempty"`
}

type c16Est struct {
	Layers       int      `json:"layers"`
	Graph        uint64   `json:"graph"`
	VRAMSize     uint64   `json:"vram_size"`
	TotalSize    uint64   `json:"total_size"`
	TensorSplit  string   `json:"tensor_split"`
	GPUSizes     []uint64 `json:"gpu_sizes"`
	GraphFull    uint64   `json:"graph_full"`
	GraphPartial uint64   `json:"graph_partial"`
	Weights      uint64   `json:"weights"`
	Output       uint64   `json:"output"`
	KV           uint64   `json:"kv"`
	ProjW        uint64   `json:"projector_weights"`
	ProjG        uint64   `json:"projector_graph"`
}

func c16EstOf(e MemoryEstimate) c16Est {
	return c16Est{Layers: e.Layers, Graph: e.Graph, VRAMSize: e.VRAMSize, TotalSize: e.TotalSize, TensorSplit: e.TensorSplit,
		GPUSizes: e.GPUSizes, GraphFull: e.graphFullOffload, GraphPartial: e.graphPartialOffload, Weights: e.memoryWeights,
		Output: e.memoryLayerOutput, KV: e.kv, ProjW: e.projectorWeights, ProjG: e.projectorGraph}
}

// ------------------------------------------------------------------------------------------------
// generator

type c16Branch struct{ name, arch string }

var c16Branches = []c16Branch{
	{"llama", "llama"}, {"llama", "llama"}, {"llama-8x22b", "llama"}, {"llama-8x7b", "llama"},
	{"mllama", "mllama"}, {"gemma", "gemma"}, {"gemma2", "gemma2"}, {"gemma3", "gemma3"},
	{"command-r", "command-r"}, {"qwen2", "qwen2"}, {"phi2", "phi2"}, {"stablelm", "stablelm"},
	{"deepseek2", "deepseek2"}, {"chatglm", "chatglm"}, {"chatglm-bias", "chatglm"},
	{"mistral3", "mistral3"}, {"default", "verifarch"}, {"default-noarch", ""},
}

// tensor kinds with their (block size, bytes per block) as the GGUF format defines them
var c16Kinds = []uint32{0, 1, 2, 8, 12, 14, 30, 0, 1}

func c16BlockSize(kind uint32) uint64 {
	switch kind {
	case 0, 1, 30:
		return 1
	case 2, 8:
		return 32
	}
	return 256
}

func c16Sat(a, b uint64) uint64 {
	s, c := bits.Add64(a, b, 0)
	if c != 0 {
		return ^uint64(0)
	}
	return s
}

func c16Frac(r *kit.Rand, x uint64, lo, hi float64) uint64 {
	f := lo + (hi-lo)*r.Float64()
	v := float64(x) * f
	if v >= 1<<62 {
		return 1 << 62
	}
	return uint64(v)
}

// c16Dims picks a 2-d shape of the given kind in the given size class.
func c16Dims(r *kit.Rand, kind uint32, scale string, mult int) []uint64 {
	bs := c16BlockSize(kind)
	var a, b uint64
	switch scale {
	case "tiny":
		a, b = bs*uint64(r.Range(1, 3)), uint64(r.Range(1, 4))
	case "small":
		a, b = bs*uint64(r.Range(1, 64)), uint64(r.Range(1, 64))
	case "medium":
		a, b = kit.Pick(r, []uint64{512, 1024, 2048, 4096}), uint64(r.Range(64, 4096))
	default: // large
		a, b = kit.Pick(r, []uint64{4096, 5120, 8192, 16384}), uint64(r.Range(4096, 32768))
	}
	return []uint64{a, b * uint64(mult)}
}

var c16U8Cache = map[int][]any{}

func c16U8Vals(n int) []any {
	if v, ok := c16U8Cache[n]; ok {
		return v
	}
	v := make([]any, n)
	for i := range v {
		v[i] = uint8(i)
	}
	c16U8Cache[n] = v
	return v
}

var c16BlkNames = []string{"attn_q.weight", "attn_k.weight", "attn_v.weight", "attn_output.weight", "ffn_up.weight", "ffn_down.weight", "ffn_gate.weight", "attn_norm.weight"}

func c16GenModel(r *kit.Rand) c16Model {
	br := kit.Pick(r, c16Branches)
	m := c16Model{Branch: br.name, Arch: br.arch, KV: map[string]any{}}
	switch r.Intn(10) {
	case 0:
		m.Blocks = r.Range(0, 1)
	case 1, 2, 3, 4, 5, 6:
		m.Blocks = r.Range(1, 12)
	case 7, 8:
		m.Blocks = r.Range(13, 48)
	default:
		m.Blocks = r.Range(49, 80)
	}
	m.Scale = kit.Pick(r, []string{"tiny", "tiny", "small", "medium", "medium", "large"})
	m.Profile = kit.Pick(r, []string{"even", "even", "uneven", "uneven", "ramp-up", "first-big", "holes", "extra"})

	heads := kit.Pick(r, []int{1, 2, 4, 8, 16, 32, 40, 64})
	if r.Chance(1, 25) && br.name != "llama-8x7b" { // the 8x7b formula divides by head_count: a zero there is a malformed file (C10)
		heads = 0
	}
	emb := heads * kit.Pick(r, []int{1, 16, 64, 128, 256})
	if r.Chance(1, 12) {
		emb = kit.Pick(r, []int{0, 7, 100, 5000})
	}
	if m.Scale == "tiny" && r.Chance(1, 2) {
		emb = heads * r.Range(0, 2)
	}
	m.KV["block_count"] = uint32(m.Blocks)
	m.KV["embedding_length"] = uint32(emb)
	m.KV["attention.head_count"] = uint32(heads)
	if !r.Chance(1, 4) {
		hkv := 1
		switch r.Intn(4) {
		case 0:
			hkv = max(heads, 1)
		case 1:
			hkv = max(heads/kit.Pick(r, []int{2, 4, 8}), 1)
		case 2:
			hkv = kit.Pick(r, []int{1, 2, 8})
		default:
			hkv = max(heads, 1) * kit.Pick(r, []int{1, 2}) // more kv heads than heads: GQA rounds to 0
		}
		m.KV["attention.head_count_kv"] = uint32(hkv)
	}
	if r.Chance(1, 6) {
		m.KV["attention.key_length"] = uint32(kit.Pick(r, []int{0, 32, 64, 128, 192, 256}))
	}
	if r.Chance(1, 6) {
		m.KV["attention.value_length"] = uint32(kit.Pick(r, []int{0, 32, 64, 128, 256}))
	}
	if r.Chance(1, 2) {
		m.KV["context_length"] = uint32(kit.Pick(r, []int{32, 2048, 8192, 131072}))
	}

	// decoding an array costs ~100 ns per element, so real-sized vocabularies are kept to a minority
	switch v := r.Intn(100); {
	case v < 35:
		m.Vocab, m.VocabElem = r.Range(0, 8), "string"
	case v < 90:
		m.Vocab, m.VocabElem = r.Range(9, 2000), "string"
	case v < 98:
		m.Vocab, m.VocabElem = kit.Pick(r, []int{32000, 50257, 65536}), "uint8"
	default:
		m.Vocab, m.VocabElem = kit.Pick(r, []int{128256, 151936, 262144}), "uint8"
	}

	// repeating layers
	type tspec struct {
		name string
		kind uint32
	}
	nper := r.Range(1, 4)
	perm := r.Perm(len(c16BlkNames))
	base := make([]tspec, nper)
	baseDims := make([][]uint64, nper)
	for i := range base {
		base[i] = tspec{c16BlkNames[perm[i]], kit.Pick(r, c16Kinds)}
		if r.Chance(1, 40) {
			base[i].kind = 99 // unknown kind: the code sizes it as 0 bytes
		}
		baseDims[i] = c16Dims(r, base[i].kind, m.Scale, 1)
	}
	nblk := m.Blocks
	if m.Profile == "extra" {
		nblk += r.Range(1, 3)
	}
	for l := 0; l < nblk; l++ {
		mult := 1
		specs := base
		switch m.Profile {
		case "uneven":
			mult = r.Range(1, 8)
			specs = base[:r.Range(1, nper)]
		case "ramp-up":
			mult = 1 + l
		case "first-big":
			if l == 0 {
				mult = 8
			}
		case "holes":
			if r.Chance(1, 4) && (l > 0 || r.Chance(1, 4)) {
				continue
			}
		}
		for i, s := range specs {
			d := []uint64{baseDims[i][0], baseDims[i][1] * uint64(mult)}
			m.Tensors = append(m.Tensors, c16Tensor{fmt.Sprintf("blk.%d.%s", l, s.name), s.kind, d})
		}
		if l == 0 {
			switch m.Branch {
			case "llama-8x22b":
				m.Tensors = append(m.Tensors, c16Tensor{"blk.0.ffn_gate_exps.weight", 1, c16Dims(r, 1, m.Scale, 1)})
			case "llama-8x7b":
				m.Tensors = append(m.Tensors, c16Tensor{"blk.0.ffn_gate.0.weight", 1, c16Dims(r, 1, m.Scale, 1)})
			case "chatglm-bias":
				m.Tensors = append(m.Tensors, c16Tensor{"blk.0.attn_qkv.bias", 0, []uint64{uint64(r.Range(1, 8192))}})
			}
		}
	}
	if m.Branch == "llama-8x22b" {
		m.KV["feed_forward_length"] = uint32(kit.Pick(r, []int{0, 64, 14336, 16384}))
	}
	// non-repeating tensors
	if r.Chance(2, 3) {
		m.Tensors = append(m.Tensors, c16Tensor{"output.weight", kit.Pick(r, c16Kinds), c16Dims(r, 1, m.Scale, r.Range(1, 4))})
	}
	if r.Chance(2, 3) {
		m.Tensors = append(m.Tensors, c16Tensor{"token_embd.weight", kit.Pick(r, c16Kinds), c16Dims(r, 1, m.Scale, r.Range(1, 4))})
	}
	if r.Chance(2, 3) {
		m.Tensors = append(m.Tensors, c16Tensor{"output_norm.weight", 0, []uint64{uint64(max(emb, 1))}})
	}
	if r.Chance(1, 4) {
		m.Tensors = append(m.Tensors, c16Tensor{"rope_freqs.weight", 0, []uint64{uint64(r.Range(1, 128))}})
	}
	switch m.Branch {
	case "mllama":
		if m.Blocks > 0 && r.Chance(3, 4) {
			var ls []any
			for l := 0; l < m.Blocks; l++ {
				if r.Chance(1, 5) {
					ls = append(ls, int32(l))
				}
			}
			m.KV["attention.cross_attention_layers"] = ls
		}
		if r.Chance(1, 2) {
			m.Tensors = append(m.Tensors, c16Tensor{"rope_freqs.weights", 0, []uint64{uint64(r.Range(1, 128))}})
		}
	case "gemma3":
		if r.Chance(3, 4) {
			m.KV["attention.sliding_window"] = uint32(kit.Pick(r, []int{0, 512, 1024, 4096}))
		}
	}
	// vision tower inside the model file (VisionGraphSize)
	vp := 1
	switch m.Branch {
	case "mllama", "gemma3", "mistral3":
		vp = 6
	}
	if r.Chance(vp, 12) {
		m.KV["vision.block_count"] = uint32(r.Range(0, 3))
		m.KV["vision.image_size"] = uint32(kit.Pick(r, []int{0, 28, 224, 336, 560, 896}))
		m.KV["vision.patch_size"] = uint32(kit.Pick(r, []int{0, 14, 14, 16, 7}))
		m.KV["vision.num_channels"] = uint32(3)
		m.KV["vision.attention.head_count"] = uint32(kit.Pick(r, []int{1, 16}))
		m.KV["vision.embedding_length"] = uint32(kit.Pick(r, []int{64, 1024, 1280}))
		m.KV["vision.max_num_tiles"] = uint32(kit.Pick(r, []int{1, 4}))
		m.Tensors = append(m.Tensors, c16Tensor{"v.blk.0.attn_q.weight", 1, c16Dims(r, 1, m.Scale, 1)})
		m.Tensors = append(m.Tensors, c16Tensor{"v.patch_embd.weight", 1, c16Dims(r, 1, m.Scale, 1)})
		if r.Bool() {
			m.Tensors = append(m.Tensors, c16Tensor{"v.class_embd", 0, []uint64{uint64(r.Range(1, 1280))}})
		}
		if r.Bool() {
			m.Tensors = append(m.Tensors, c16Tensor{"mm.0.weight", 1, c16Dims(r, 1, m.Scale, 1)})
		}
	}
	return m
}

func c16ModelBytes(m c16Model) []byte {
	g := kit.GFile{}
	prefix := m.Arch
	if m.Arch == "" {
		prefix = "unknown" // KV.Architecture() default
	} else {
		g.KVs = append(g.KVs, kit.StrKV("general.architecture", m.Arch))
	}
	// deterministic order
	for _, k := range []string{"block_count", "embedding_length", "attention.head_count", "attention.head_count_kv", "attention.key_length",
		"attention.value_length", "context_length", "feed_forward_length", "attention.sliding_window", "vision.block_count", "vision.image_size",
		"vision.patch_size", "vision.num_channels", "vision.attention.head_count", "vision.embedding_length", "vision.max_num_tiles"} {
		if v, ok := m.KV[k]; ok {
			g.KVs = append(g.KVs, kit.U32KV(prefix+"."+k, v.(uint32)))
		}
	}
	if v, ok := m.KV["attention.cross_attention_layers"]; ok {
		g.KVs = append(g.KVs, kit.ArrKV(prefix+".attention.cross_attention_layers", kit.GI32, v.([]any)...))
	}
	if m.VocabElem == "uint8" {
		g.KVs = append(g.KVs, kit.ArrKV("tokenizer.ggml.tokens", kit.GU8, c16U8Vals(m.Vocab)...))
	} else {
		toks := make([]string, m.Vocab)
		for i := range toks {
			toks[i] = "t"
		}
		g.KVs = append(g.KVs, kit.StrArrKV("tokenizer.ggml.tokens", toks...))
	}
	for _, t := range m.Tensors {
		g.Tensors = append(g.Tensors, kit.GTensor{Name: t.Name, Dims: t.Dims, Kind: t.Kind}) // sizes are declared, no data needed
	}
	return g.Bytes()
}

func c16GenProj(r *kit.Rand) c16Proj {
	p := c16Proj{Kind: kit.Pick(r, []string{"clip", "clip", "mllama", "mllama", "empty", "missing", "garbage"})}
	scale := kit.Pick(r, []string{"tiny", "small", "medium"})
	switch p.Kind {
	case "clip", "mllama":
		p.Tensors = append(p.Tensors, c16Tensor{"v.blk.0.attn_q.weight", 1, c16Dims(r, 1, scale, 1)})
		p.Tensors = append(p.Tensors, c16Tensor{"v.patch_embd.weight", 1, c16Dims(r, 1, scale, 1)})
		if r.Bool() {
			p.Tensors = append(p.Tensors, c16Tensor{"mm.0.weight", 1, c16Dims(r, 1, scale, 1)})
		}
		if r.Bool() {
			p.Tensors = append(p.Tensors, c16Tensor{"v.class_embd", 0, []uint64{uint64(r.Range(1, 1280))}})
		}
	}
	if p.Kind == "mllama" {
		p.KV = map[string]uint32{
			"image_size":           uint32(kit.Pick(r, []int{0, 28, 224, 560})),
			"patch_size":           uint32(kit.Pick(r, []int{14, 14, 7, 16})), // 0 divides by zero in the code: hostile files are C10's
			"num_channels":         3,
			"max_num_tiles":        uint32(kit.Pick(r, []int{1, 4})),
			"embedding_length":     uint32(kit.Pick(r, []int{64, 1280})),
			"attention.head_count": uint32(kit.Pick(r, []int{1, 16})),
		}
	}
	return p
}

func c16ProjBytes(r *kit.Rand, p c16Proj) []byte {
	if p.Kind == "garbage" {
		return r.Bytes(64)
	}
	g := kit.GFile{}
	arch := "clip"
	if p.Kind == "mllama" {
		arch = "mllama"
	}
	g.KVs = append(g.KVs, kit.StrKV("general.architecture", arch))
	for _, k := range []string{"image_size", "patch_size", "num_channels", "max_num_tiles", "embedding_length", "attention.head_count"} {
		if v, ok := p.KV[k]; ok {
			g.KVs = append(g.KVs, kit.U32KV(arch+".vision."+k, v))
		}
	}
	for _, t := range p.Tensors {
		g.Tensors = append(g.Tensors, kit.GTensor{Name: t.Name, Dims: t.Dims, Kind: t.Kind})
	}
	return g.Bytes()
}

const c16Huge = uint64(1) << 59 // upper bound of generated minimum/overhead: no uint64 sum in the estimator can wrap

func c16GenOverhead(r *kit.Rand, body uint64) (*string, uint64) {
	s := func(x string) *string { return &x }
	dec := func(v uint64) string { return strconv.FormatUint(v, 10) }
	switch r.Intn(20) {
	case 0, 1, 2, 3, 4, 5, 6:
		return nil, 0
	case 7:
		return s("0"), 0
	case 8, 9, 10, 11, 12, 13, 14:
		v := c16Frac(r, body, 0.01, 0.6)
		return s(dec(v)), v
	case 15, 16:
		v := uint64(r.Range(1, 100))
		return s(dec(v)), v
	case 17:
		v := uint64(1) << uint(r.Range(30, 59))
		return s(dec(v)), v
	case 18:
		return s(kit.Pick(r, []string{"abc", "-5", "1.5e9", "", " ", "0x10"})), 0 // unparsable: envconfig falls back to the default 0
	default:
		v := c16Frac(r, body, 0.01, 0.3)
		return s(kit.Pick(r, []string{" %d ", "\"%d\"", "'%d'"})), v
	}
}

func c16Pathological(r *kit.Rand, overhead, min uint64) (uint64, string) {
	switch r.Intn(10) {
	case 0:
		return 0, "zero"
	case 1:
		return 1, "one"
	case 2:
		return overhead, "=overhead"
	case 3:
		return overhead - min1(overhead), "overhead-1"
	case 4:
		return c16Sat(overhead, 1), "overhead+1"
	case 5:
		return c16Sat(overhead, min), "overhead+minimum"
	case 6:
		return ^uint64(0), "max-uint64"
	case 7:
		return 1 << 63, "2^63"
	case 8:
		return uint64(r.Range(2, 4096)), "tiny"
	default:
		return min, "=minimum"
	}
}

func min1(x uint64) uint64 {
	if x > 0 {
		return 1
	}
	return 0
}

// c16GenGPUs fills Free for a group of GPUs, aiming at the thresholds suggested by the probe.
func c16GenGPUs(r *kit.Rand, lib string, n int, pr c16Probe, blocks int, overhead uint64, modes []string) ([]c16GPU, string) {
	G := max(pr.GraphFull, pr.GraphPartial)
	body := pr.Total - min(pr.Total, pr.GraphFull) // buffer layer + projector + layers(+kv) + output
	P := c16Sat(pr.ProjW, pr.ProjG)
	layersAll := c16Sat(pr.Weights, pr.KV)
	avg := layersAll / uint64(max(blocks, 1))
	if avg == 0 {
		avg = 1
	}
	variant := ""
	if lib == "cuda" && r.Bool() {
		variant = kit.Pick(r, []string{"v11", "v12"})
	}
	gpus := make([]c16GPU, n)
	minMode := r.Intn(20)
	sameMin := r.Bool()
	var firstMin uint64
	for i := range gpus {
		g := &gpus[i]
		g.Library, g.Variant = lib, variant
		switch {
		case minMode < 4:
			g.Min = 0
		case minMode < 9:
			g.Min = kit.Pick(r, []uint64{457 << 20, 512 << 20, 256 << 20})
		case minMode < 16:
			g.Min = c16Frac(r, body/uint64(n)+1, 0, 0.5)
		case minMode < 18:
			g.Min = uint64(r.Range(1, 64))
		default:
			g.Min = uint64(1) << uint(r.Range(34, 59))
		}
		if i == 0 {
			firstMin = g.Min
		} else if sameMin {
			g.Min = firstMin
		}
	}
	mode := kit.Pick(r, modes)
	if mode == "exact1" && n != 1 {
		mode = "proportional"
	}
	phi := kit.Pick(r, []float64{0.05, 0.2, 0.4, 0.6, 0.8, 0.95, 1.0, 1.05, 1.3, 2.0})
	shares := make([]float64, n)
	tot := 0.0
	for i := range shares {
		shares[i] = 0.05 + r.Float64()
		if r.Chance(1, 6) {
			shares[i] *= 4
		}
		tot += shares[i]
	}
	k := r.Range(0, blocks/n+3)
	for i := range gpus {
		g := &gpus[i]
		fixed := c16Sat(c16Sat(overhead, g.Min), G)
		switch mode {
		case "exact1":
			// single GPU, everything placed needs Free > overhead + minimum + body + max(graph): walk the boundary
			d := r.Range(-2, 3)
			g.Free = c16Sat(fixed, body)
			if d < 0 {
				g.Free -= min(g.Free, uint64(-d))
			} else {
				g.Free = c16Sat(g.Free, uint64(d))
			}
			g.How = fmt.Sprintf("exact full-fit boundary %+d", d)
		case "proportional":
			want := uint64(float64(body-min(body, P)) * phi * shares[i] / tot)
			g.Free = c16Sat(fixed, want)
			if i == 0 {
				g.Free = c16Sat(g.Free, P)
			}
			g.Free = c16Sat(g.Free, uint64(r.Intn(int(min(avg, 1<<40))+1)))
			g.How = fmt.Sprintf("proportional phi=%.2f", phi)
		case "uniform":
			kk := k
			if r.Chance(1, 4) {
				kk = r.Range(0, blocks/n+3)
			}
			g.Free = c16Sat(fixed, c16Sat(uint64(kk)*avg, 2*avg))
			if r.Bool() {
				g.Free = c16Sat(g.Free, pr.Output)
			}
			if i == 0 {
				g.Free = c16Sat(g.Free, P)
			}
			switch r.Intn(4) {
			case 0:
				g.Free = c16Sat(g.Free, 1)
			case 1:
				g.Free -= min(g.Free, 1)
			case 2:
				g.Free = c16Sat(g.Free, uint64(r.Intn(int(min(avg, 1<<40))+1)))
			}
			g.How = fmt.Sprintf("uniform k=%d", kk)
		case "pathological":
			g.Free, g.How = c16Pathological(r, overhead, g.Min)
		case "plenty":
			g.Free = c16Sat(c16Sat(fixed, body), c16Sat(body, uint64(r.Range(1, 1<<30))))
			g.How = "plenty"
		default: // "starved": around the admission threshold (overhead + projector + graph + minimum + 2 layers)
			g.Free = c16Sat(fixed, c16Frac(r, c16Sat(2*avg, P), 0, 1.5))
			g.How = "starved"
		}
		if mode != "pathological" && r.Chance(1, 10) {
			g.Free, g.How = c16Pathological(r, overhead, g.Min)
		}
		g.Total = c16Sat(g.Free, uint64(r.Intn(1<<30)))
	}
	return gpus, mode
}

func c16Infos(gs []c16GPU) []discover.GpuInfo {
	out := make([]discover.GpuInfo, len(gs))
	for i, g := range gs {
		out[i].Library, out[i].Variant = g.Library, g.Variant
		out[i].FreeMemory, out[i].TotalMemory, out[i].MinimumMemory = g.Free, g.Total, g.Min
		out[i].ID = strconv.Itoa(i)
		out[i].Name = "verif-gpu"
		out[i].DriverMajor = 12
	}
	return out
}

// ------------------------------------------------------------------------------------------------
// calls into the code under test, with panic attribution

func c16PanicSite() string {
	pcs := make([]uintptr, 64)
	n := runtime.Callers(3, pcs)
	fr := runtime.CallersFrames(pcs[:n])
	for {
		f, more := fr.Next()
		if strings.HasPrefix(f.Function, "github.com/ollama/ollama/") && !strings.Contains(f.File, "zz_verif") {
			return strings.TrimPrefix(f.Function, "github.com/ollama/ollama/")
		}
		if !more {
			return "unknown"
		}
	}
}

func c16Estimate(gpus []discover.GpuInfo, f *ggml.GGML, projectors []string, opts api.Options, np int) (e MemoryEstimate, panicSite, panicMsg string) {
	defer func() {
		if p := recover(); p != nil {
			panicSite, panicMsg = c16PanicSite(), fmt.Sprint(p)
		}
	}()
	e = EstimateGPULayers(gpus, f, projectors, opts, np)
	return
}

func c16Fit(all discover.GpuInfoList, f *ggml.GGML, projectors []string, opts api.Options, np int) (ok bool, vram uint64, panicSite, panicMsg string) {
	defer func() {
		if p := recover(); p != nil {
			panicSite, panicMsg = c16PanicSite(), fmt.Sprint(p)
		}
	}()
	ok, vram = PredictServerFit(all, f, nil, projectors, opts, np)
	return
}

// ------------------------------------------------------------------------------------------------
// oracle: the inequalities of the property statement, on outputs versus inputs only

// c16Judge returns "" or (signature, description) for one estimate of one single-library GPU list.
func c16Judge(gpus []c16GPU, overhead uint64, blocks, numGPU int, e MemoryEstimate) (string, string) {
	if e.Layers < 0 {
		return "layers-negative", fmt.Sprintf("Layers=%d", e.Layers)
	}
	if e.Layers > blocks+1 {
		return "layers-over-model", fmt.Sprintf("Layers=%d but the model has %d blocks (+1 output)", e.Layers, blocks)
	}
	if numGPU >= 0 && e.Layers > numGPU {
		return "layers-over-num-gpu", fmt.Sprintf("Layers=%d exceeds the user's num_gpu=%d", e.Layers, numGPU)
	}
	if len(e.GPUSizes) != 0 && len(e.GPUSizes) != len(gpus) {
		return "gpusizes-length", fmt.Sprintf("%d GPU sizes reported for %d GPUs", len(e.GPUSizes), len(gpus))
	}
	var sum uint64
	sumWrapped := false
	for i, sz := range e.GPUSizes {
		if sz == 0 {
			continue // nothing assigned to this GPU
		}
		need, c := bits.Add64(sz, overhead, 0)
		if c != 0 || need > gpus[i].Free {
			return "gpu-over-free", fmt.Sprintf("GPU %d of %d (%s): assigned %d bytes + overhead %d > free %d (excess %d)", i, len(gpus), gpus[i].Library, sz, overhead, gpus[i].Free, need-gpus[i].Free)
		}
		s, c2 := bits.Add64(sum, sz, 0)
		sum = s
		if c2 != 0 {
			sumWrapped = true
		}
	}
	if e.TensorSplit != "" {
		parts := strings.Split(e.TensorSplit, ",")
		if len(parts) != len(gpus) {
			return "split-length", fmt.Sprintf("tensor split %q has %d entries for %d GPUs", e.TensorSplit, len(parts), len(gpus))
		}
		total := 0
		for _, p := range parts {
			n, err := strconv.Atoi(p)
			if err != nil || n < 0 {
				return "split-malformed", fmt.Sprintf("tensor split %q", e.TensorSplit)
			}
			total += n
		}
		if total != e.Layers {
			return "split-sum", fmt.Sprintf("tensor split %q sums to %d, Layers=%d", e.TensorSplit, total, e.Layers)
		}
	} else if len(gpus) > 1 && e.Layers > 0 {
		return "split-missing", fmt.Sprintf("%d layers on %d GPUs but no per-GPU split", e.Layers, len(gpus))
	}
	if e.TotalSize < e.VRAMSize {
		return "total-below-vram", fmt.Sprintf("TotalSize=%d < VRAMSize=%d", e.TotalSize, e.VRAMSize)
	}
	if sumWrapped || e.TotalSize < sum {
		return "total-below-gpu-sum", fmt.Sprintf("TotalSize=%d < sum of GPU sizes %d", e.TotalSize, sum)
	}
	return "", ""
}

func c16GroupKey(g c16GPU) string {
	if g.Variant != "" {
		return g.Library + "_" + g.Variant
	}
	return g.Library
}

// ------------------------------------------------------------------------------------------------

type c16Violation struct {
	sig, what string
	witness   any
}

type c16Obs struct {
	est     MemoryEstimate
	fit     bool
	fitVRAM uint64
	groups  int
}

// c16Run generates and evaluates case idx. It returns the case, what was observed and the violations.
func c16Run(seed uint64, idx int, dir string) (c c16Case, obs c16Obs, viols []c16Violation) {
	r := kit.NewRand(seed, "C16", idx)
	c.Index = idx
	c.Model = c16GenModel(r)
	c.MaxArray = kit.Pick(r, []int{0, 0, 0, -1})
	c.NumCtx = kit.Pick(r, []int{4, 64, 512, 2048, 2048, 4096, 8192, 32768, 131072})
	if r.Chance(1, 4) {
		c.NumCtx = r.Range(4, 131072)
	}
	c.NumBatch = kit.Pick(r, []int{1, 8, 32, 512, 512, 512, 2048})
	if r.Chance(1, 40) {
		c.NumBatch = 0
	}
	c.NumParallel = r.Range(1, 8)
	switch r.Intn(10) {
	case 0, 1, 2, 3, 4:
		c.NumGPU = -1
	case 5:
		c.NumGPU = 0
	case 6, 7, 8:
		c.NumGPU = r.Range(1, c.Model.Blocks+2)
	default:
		c.NumGPU = 999
	}
	np := 0
	switch r.Intn(20) {
	case 0, 1, 2, 3:
		np = 1
	case 4:
		np = 2
	}
	var projPaths []string
	for i := 0; i < np; i++ {
		p := c16GenProj(r)
		c.Projectors = append(c.Projectors, p)
		path := filepath.Join(dir, fmt.Sprintf("proj%d.gguf", i))
		if p.Kind == "missing" {
			path = filepath.Join(dir, "does-not-exist.gguf")
		} else if err := os.WriteFile(path, c16ProjBytes(r, p), 0o644); err != nil {
			panic("c16 harness: " + err.Error())
		}
		projPaths = append(projPaths, path)
	}

	f, _, err := ggml.Decode(bytes.NewReader(c16ModelBytes(c.Model)), c.MaxArray)
	if err != nil {
		panic("c16 harness: generated model does not decode: " + err.Error())
	}
	opts := api.DefaultOptions()
	opts.NumCtx, opts.NumBatch, opts.NumGPU = c.NumCtx, c.NumBatch, c.NumGPU

	fail := func(sig, what string, w any) { viols = append(viols, c16Violation{sig, what, w}) }

	// ---- probe (steers the generator only): everything on one unlimited GPU, no overhead
	os.Unsetenv("OLLAMA_GPU_OVERHEAD")
	popts := opts
	popts.NumGPU = -1
	pg := discover.GpuInfo{Library: "cuda"}
	pg.FreeMemory = 1 << 62
	pe, site, msg := c16Estimate([]discover.GpuInfo{pg}, f, projPaths, popts, c.NumParallel)
	if site != "" {
		fail("panic:"+site, "estimator panicked on the probe configuration: "+msg, nil)
		return
	}
	pr := c16Probe{GraphFull: pe.graphFullOffload, GraphPartial: pe.graphPartialOffload, Weights: pe.memoryWeights, KV: pe.kv,
		Output: pe.memoryLayerOutput, ProjW: pe.projectorWeights, ProjG: pe.projectorGraph, Total: pe.TotalSize, Layers: pe.Layers}
	c.Probe = &pr
	body := pr.Total - min(pr.Total, pr.GraphFull)

	// ---- overhead and GPUs
	c.OverheadEnv, c.Overhead = c16GenOverhead(r, body)
	if c.OverheadEnv != nil && strings.Contains(*c.OverheadEnv, "%d") {
		s := fmt.Sprintf(*c.OverheadEnv, c.Overhead)
		c.OverheadEnv = &s
	}
	lib := kit.Pick(r, []string{"cuda", "cuda", "cuda", "cuda", "cuda", "cuda", "cuda", "cuda", "rocm", "rocm", "rocm", "rocm", "metal", "metal", "metal", "oneapi", "vulkan", "cpu"})
	n := 1
	switch r.Intn(20) {
	case 0, 1, 2, 3, 4, 5, 6:
		n = 1
	case 7, 8, 9, 10, 11:
		n = 2
	case 12, 13, 14, 15, 16:
		n = r.Range(3, 4)
	default:
		n = r.Range(5, 8)
	}
	if lib == "cpu" {
		n = 1
	}
	modes := []string{"exact1", "exact1", "exact1", "proportional", "proportional", "proportional", "proportional", "proportional", "proportional",
		"uniform", "uniform", "uniform", "uniform", "pathological", "pathological", "plenty", "starved", "starved"}
	c.GPUs, c.FreeMode = c16GenGPUs(r, lib, n, pr, c.Model.Blocks, c.Overhead, modes)
	if r.Chance(1, 4) {
		lib2 := kit.Pick(r, []string{"cuda", "rocm", "oneapi", "cpu"})
		for lib2 == lib {
			lib2 = kit.Pick(r, []string{"cuda", "rocm", "oneapi", "cpu"})
		}
		c.Extra, _ = c16GenGPUs(r, lib2, r.Range(1, 3), pr, c.Model.Blocks, c.Overhead, []string{"proportional", "uniform", "plenty", "starved"})
		for i := range c.Extra {
			c.Extra[i].Variant = "" // keep the two groups distinct under ByLibrary's library_variant key
		}
		c.ExtraFirst = r.Bool()
	}

	if c.OverheadEnv == nil {
		os.Unsetenv("OLLAMA_GPU_OVERHEAD")
	} else {
		os.Setenv("OLLAMA_GPU_OVERHEAD", *c.OverheadEnv)
	}
	defer os.Unsetenv("OLLAMA_GPU_OVERHEAD")

	// ---- the estimate for the single-library list
	e, site, msg := c16Estimate(c16Infos(c.GPUs), f, projPaths, opts, c.NumParallel)
	if site != "" {
		fail("panic:"+site, "EstimateGPULayers panicked: "+msg, nil)
		return
	}
	obs.est = e
	if sig, what := c16Judge(c.GPUs, c.Overhead, c.Model.Blocks, c.NumGPU, e); sig != "" {
		fail(sig, what, c16EstOf(e))
	}

	// ---- the full-fit decision over the (possibly two-library) list
	var all []c16GPU
	if c.ExtraFirst {
		all = append(append(all, c.Extra...), c.GPUs...)
	} else {
		all = append(append(all, c.GPUs...), c.Extra...)
	}
	if len(c.Extra) > 0 && r.Chance(1, 3) {
		kit.Shuffle(r, all) // interleaved libraries
	}
	fit, vram, site, msg := c16Fit(c16Infos(all), f, projPaths, opts, c.NumParallel)
	if site != "" {
		fail("panic:"+site, "PredictServerFit panicked: "+msg, nil)
		return
	}
	obs.fit, obs.fitVRAM = fit, vram
	// what the estimator says for each library group of that list (own grouping, list order kept)
	var keys []string
	groups := map[string][]c16GPU{}
	for _, g := range all {
		k := c16GroupKey(g)
		if _, ok := groups[k]; !ok {
			keys = append(keys, k)
		}
		groups[k] = append(groups[k], g)
	}
	obs.groups = len(keys)
	type gres struct {
		Group  string `json:"group"`
		GPUs   int    `json:"gpus"`
		Layers int    `json:"layers"`
	}
	var gr []gres
	placedAll, placedAsked := false, false
	for _, k := range keys {
		ge, site, msg := c16Estimate(c16Infos(groups[k]), f, projPaths, opts, c.NumParallel)
		if site != "" {
			fail("panic:"+site, "EstimateGPULayers panicked: "+msg, nil)
			return
		}
		if sig, what := c16Judge(groups[k], c.Overhead, c.Model.Blocks, c.NumGPU, ge); sig != "" && len(viols) == 0 {
			fail(sig, "group "+k+": "+what, c16EstOf(ge))
		}
		gr = append(gr, gres{k, len(groups[k]), ge.Layers})
		if ge.Layers == c.Model.Blocks+1 {
			placedAll = true
		}
		if ge.Layers > 0 && ge.Layers >= c.NumGPU {
			placedAsked = true
		}
	}
	if fit {
		w := map[string]any{"fit": fit, "vram": vram, "groups": gr, "block_count": c.Model.Blocks, "num_gpu": c.NumGPU}
		if c.NumGPU < 0 && !placedAll {
			fail("fit-without-all-layers", fmt.Sprintf("declared a complete fit but no library group had all %d+1 layers placed", c.Model.Blocks), w)
		}
		if c.NumGPU > 0 && !placedAsked {
			fail("fit-below-num-gpu", fmt.Sprintf("declared a fit for num_gpu=%d but no library group placed that many layers", c.NumGPU), w)
		}
	}
	return
}

func c16Bucket(x uint64) string {
	switch {
	case x == 0:
		return "0"
	case x == 1:
		return "1"
	case x <= 16:
		return "<=16"
	case x <= 1<<10:
		return "<=1KiB"
	case x <= 1<<20:
		return "<=1MiB"
	case x <= 1<<30:
		return "<=1GiB"
	}
	return ">1GiB"
}

func TestVerifC16(t *testing.T) {
	slog.SetDefault(slog.New(slog.NewTextHandler(io.Discard, &slog.HandlerOptions{Level: slog.Level(100)})))
	for _, k := range []string{"OLLAMA_FLASH_ATTENTION", "OLLAMA_KV_CACHE_TYPE", "OLLAMA_GPU_OVERHEAD", "OLLAMA_CONTEXT_LENGTH"} {
		os.Unsetenv(k)
	}
	rep := kit.NewReport("C16")
	cfg := rep.Cfg()
	defer rep.Flush()
	rep.Set("rule", "case i = PRNG(seed,'C16',i): one synthetic GGUF model (kit writer -> real ggml.Decode; 18 GraphSize/VisionGraphSize branches, 0-80 blocks, even/uneven/ramp/holes/extra layer profiles, byte- to GiB-sized tensors, vocab 0-262144), 0-2 projector files, options (num_ctx 4-131072, num_batch, num_gpu in {-1,0,1..blocks+2,999}, parallel 1-8), OLLAMA_GPU_OVERHEAD (unset, 0, relative, tiny, huge, unparsable, quoted), 1-8 GPUs of one library with free memory aimed at the placement thresholds (exact full-fit boundary +-2 bytes, proportional, uniform k layers, pathological 0/1/overhead+-1/2^63/2^64-1, plenty, starved) plus, in 1/4 of the cases, a second library group for PredictServerFit. Every returned MemoryEstimate is judged by the statement's inequalities against the inputs. Non-trivial & distinct = distinct (GraphSize branch, library, #GPUs, outcome none/partial/blocks-only/all, num_gpu class, overhead class, projector class, full-vs-partial graph relation, some-GPU-left-empty) among cases in which the estimator assigned at least one layer to a GPU")
	rep.Set("assumptions", []string{
		"model metadata is well-formed: tokenizer.ggml.tokens present, attention.head_count_kv >= 1 when present, uint32 scalar keys, mllama projector patch_size >= 1 (malformed files are C10's subject)",
		"MinimumMemory and OLLAMA_GPU_OVERHEAD <= 2^59 and model/graph sizes < 2^50 bytes, so that no uint64 sum inside the estimator can wrap; FreeMemory is unrestricted (0 .. 2^64-1)",
		"with an explicit num_gpu > 0, 'fits' is read as 'as many layers as the user asked for were placed' (DESIGN.md C16); num_gpu = 0 is not judged for the fit decision",
		"flash attention / quantised KV cache types are not exercised (the code consults the real GPU discovery, which reports CPU only on this machine)",
	})
	dir := t.TempDir()
	n := cfg.N(40000, 6000000)
	replayIdx := -1
	if cfg.Replay != "" {
		var rc struct {
			Index int `json:"index"`
		}
		if err := kit.LoadReplay(cfg.Replay, &rc); err != nil {
			t.Fatal(err)
		}
		replayIdx = rc.Index
	}
	for i := 0; i < n; i++ {
		if replayIdx >= 0 && i != replayIdx {
			continue
		}
		if replayIdx < 0 && !cfg.Mine(i) {
			continue
		}
		c, obs, viols := c16Run(cfg.Seed, i, dir)
		rep.Eval(1)
		for _, v := range viols {
			rep.Violate("c16:"+v.sig, v.what, c, v.witness)
			if replayIdx >= 0 {
				t.Logf("replay: %s: %s", v.sig, v.what)
			}
		}
		// ---- coverage accounting
		e := obs.est
		blocks := c.Model.Blocks
		rep.Count("branch:"+c.Model.Branch, 1)
		rep.Count(fmt.Sprintf("gpus:%d", len(c.GPUs)), 1)
		rep.Count("library:"+c.GPUs0Lib(), 1)
		rep.Count("free_mode:"+c.FreeMode, 1)
		outcome := "none"
		switch {
		case e.Layers == blocks+1:
			outcome = "all"
		case e.Layers == blocks && blocks > 0:
			outcome = "blocks-only"
		case e.Layers > 0:
			outcome = "partial"
		}
		rep.Count("outcome:"+outcome, 1)
		if obs.fit {
			rep.Count("fit:true", 1)
		} else {
			rep.Count("fit:false", 1)
		}
		if obs.groups > 1 {
			rep.Count("fit_two_libraries", 1)
		}
		if len(c.Projectors) > 0 {
			rep.Count("with_projector_files", 1)
		}
		if e.projectorWeights+e.projectorGraph > 0 {
			rep.Count("projector_bytes_nonzero", 1)
		}
		if e.Layers == 0 {
			continue
		}
		// e.Layers > 0: the estimator assigned something
		rel := "full=partial"
		if e.graphFullOffload > e.graphPartialOffload {
			rel = "full>partial"
		} else if e.graphFullOffload < e.graphPartialOffload {
			rel = "full<partial"
		}
		rep.Count("graph:"+rel, 1)
		if e.Graph == e.graphFullOffload && e.graphFullOffload != e.graphPartialOffload {
			rep.Count("graph_full_applied", 1)
		}
		var sum uint64
		minSlack := ^uint64(0)
		empty := false
		for j, sz := range e.GPUSizes {
			sum += sz
			if sz == 0 {
				rep.Count("gpu_not_admitted", 1)
				continue
			}
			if s := c.GPUs[j].Free - c.Overhead - sz; s < minSlack && len(viols) == 0 {
				minSlack = s
			}
		}
		if e.TensorSplit != "" {
			for _, p := range strings.Split(e.TensorSplit, ",") {
				if p == "0" {
					empty = true
				}
			}
		}
		if empty {
			rep.Count("some_gpu_left_empty", 1)
		}
		if sum != e.VRAMSize {
			rep.Count("vram_size_ne_sum_of_gpu_sizes", 1) // consistency only, not part of the statement
		}
		if len(viols) == 0 {
			rep.Count("min_slack:"+c16Bucket(minSlack), 1)
		}
		if c.NumGPU >= 0 && e.Layers == c.NumGPU {
			rep.Count("num_gpu_cap_reached", 1)
		}
		ngc := "auto"
		switch {
		case c.NumGPU == 999:
			ngc = "999"
		case c.NumGPU > blocks:
			ngc = ">blocks"
		case c.NumGPU == blocks:
			ngc = "=blocks"
		case c.NumGPU >= 0:
			ngc = "<blocks"
		}
		oc := "0"
		if c.Overhead > 0 {
			oc = ">0"
		}
		pc := "none"
		if len(c.Projectors) > 0 {
			pc = "files"
		} else if e.projectorWeights+e.projectorGraph > 0 {
			pc = "in-model"
		}
		rep.Distinct(fmt.Sprint(c.Model.Branch, c.GPUs0Lib(), len(c.GPUs), outcome, ngc, oc, pc, rel, empty))
		if rep.NeedSample() && len(c.Model.Tensors) <= 8 && len(c.GPUs) >= 2 && outcome == "partial" {
			rep.Sample(map[string]any{"case": c, "estimate": c16EstOf(e), "fit": obs.fit})
		}
	}
	if replayIdx >= 0 && rep.Violations() == 0 {
		t.Logf("replay: case %d holds", replayIdx)
	}
}

func (c c16Case) GPUs0Lib() string {
	if len(c.GPUs) == 0 {
		return "?"
	}
	return c.GPUs[0].Library
}
