//go:build verif

package kvcache

// C06: the KV cache exposes exactly the causal history of each sequence.
//
// Runtime monitor.  The real Causal / SWA / WrapperCache code runs on an eager fake ml.Backend whose
// tensors are strided views over float64 stores (View / Copy / Permute implemented literally after
// ggml's semantics).  Every stored token ("entry") has a unique id; its K payload encodes
// (id, position, layer, head, dim) and its V payload (id, layer, head, dim) in every element.  The
// shift function given to the cache re-encodes the position the way RoPE re-rotation would (adds the
// offset to the encoded position, with a per-layer factor).  A reference model keeps, per sequence,
// the dense list position -> entry id; CopyPrefix / Remove(+shift) are slice operations on it.
//
// Oracle at every Get (every layer of every forward pass), for batch row i = (seq s, pos p):
//   the set of history cells with mask 0, decoded through their K and V payloads, must be exactly
//   { (model[s][q], q) : max(0, p-w) <= q <= p }          (w = window, infinite for a causal cache)
// i.e. nothing foreign / removed / later / outside the window, nothing missing, no duplicates, K's
// encoded position == the model's (shifted) position, V's id == K's id, every other mask value -Inf,
// padding rows all -Inf, history length a multiple of CachePadding, mask rows a multiple of
// MaskBatchPadding.
//
// Window convention (fixed by buildMask and the pinned TestSWA): with NewSWACache(w) a token at
// position p sees positions q with  p-w <= q <= p  (w+1 entries including itself); eviction may drop
// q < P-w where P is the lowest position of that sequence in the batch being started.

import (
	"encoding/json"
	"errors"
	"fmt"
	"io"
	"log/slog"
	"math"
	"os"
	"runtime/debug"
	"sort"
	"strings"
	"testing"

	kit "verifkit"

	"github.com/ollama/ollama/ml"
	"github.com/ollama/ollama/model/input"
)

// ------------------------------------------------------------------------------------------------
// fake backend

type c06Store struct{ data []float64 }

type c06Stats struct {
	ownedCtxs     int    // contexts the code under test created (defrag, shift, storage)
	maxOwnedNodes int    // most tensors created in one such context
	overflow      string // a context created more tensors than its size permits (ggml would abort)
	afterClose    string // an operation used a closed context
	sfCopies      int    // Copy ops executed in cache-owned contexts during StartForward (= defrag moves, K and V)
	sfCopyMaxElem int
	sfComputes    int // Compute calls on cache-owned contexts during StartForward (= defrag flushes)
	sfCtxs        int
}

type c06Backend struct {
	ml.Backend // Config/Get: not implemented (nil interface)
	maxNodes   int
	phase      string
	st         c06Stats
}

func (b *c06Backend) NewContext() ml.Context { return b.NewContextSize(b.maxNodes) }

func (b *c06Backend) NewContextSize(n int) ml.Context {
	if n > b.maxNodes {
		panic(fmt.Errorf("requested number of graph nodes (%v) for new context exceeds maximum (%v)", n, b.maxNodes))
	}
	b.st.ownedCtxs++
	if b.phase == "startforward" {
		b.st.sfCtxs++
	}
	return &c06Context{b: b, limit: n, owned: true}
}

// harness-side context (not counted against the graph limit)
func (b *c06Backend) harnessCtx(noExec bool) *c06Context {
	return &c06Context{b: b, limit: math.MaxInt32, noExec: noExec}
}

// c06BackendCC additionally implements ml.BackendCacheConfig
type c06BackendCC struct {
	*c06Backend
	cc ml.CacheConfig
}

func (b *c06BackendCC) CacheConfig() ml.CacheConfig { return b.cc }

type c06Context struct {
	ml.Context // Arange etc.: not implemented
	b          *c06Backend
	limit      int
	owned      bool
	nodes      int
	closed     bool
	noExec     bool // reserve pass: the graph is never computed
}

func (c *c06Context) node() {
	if c.closed && c.b.st.afterClose == "" {
		c.b.st.afterClose = "tensor created in a context after Close()"
	}
	c.nodes++
	if c.owned {
		if c.nodes > c.b.st.maxOwnedNodes {
			c.b.st.maxOwnedNodes = c.nodes
		}
		if c.nodes > c.limit && c.b.st.overflow == "" {
			c.b.st.overflow = fmt.Sprintf("context of size %d holds %d tensors (phase %s)", c.limit, c.nodes, c.b.phase)
		}
	}
}

func (c *c06Context) Input() ml.Context    { return c }
func (c *c06Context) Layer(int) ml.Context { return c }

func (c *c06Context) Empty(dtype ml.DType, shape ...int) ml.Tensor {
	c.node()
	return c.b.newTensor(dtype, shape)
}

func (c *c06Context) Zeros(dtype ml.DType, shape ...int) ml.Tensor { return c.Empty(dtype, shape...) }

func (c *c06Context) FromFloatSlice(s []float32, shape ...int) (ml.Tensor, error) {
	n := 1
	for _, v := range shape {
		n *= v
	}
	if len(shape) == 0 || n != len(s) {
		return nil, fmt.Errorf("invalid shape %v for %d elements", shape, len(s))
	}
	t := c.Empty(ml.DTypeF32, shape...).(*c06Tensor)
	for i, v := range s {
		t.st.data[i] = float64(v)
	}
	return t, nil
}

func (c *c06Context) FromIntSlice(s []int32, shape ...int) (ml.Tensor, error) {
	n := 1
	for _, v := range shape {
		n *= v
	}
	if len(shape) == 0 || n != len(s) {
		return nil, fmt.Errorf("invalid shape %v for %d elements", shape, len(s))
	}
	t := c.Empty(ml.DTypeI32, shape...).(*c06Tensor)
	for i, v := range s {
		t.st.data[i] = float64(v)
	}
	return t, nil
}

func (c *c06Context) Forward(...ml.Tensor) ml.Context { return c } // eager: ops already ran
func (c *c06Context) Compute(...ml.Tensor) {
	if c.closed && c.b.st.afterClose == "" {
		c.b.st.afterClose = "Compute on a context after Close()"
	}
	if c.owned && c.b.phase == "startforward" {
		c.b.st.sfComputes++
	}
}
func (c *c06Context) Reserve() error     { return nil }
func (c *c06Context) MaxGraphNodes() int { return c.limit }
func (c *c06Context) Close()             { c.closed = true }

type c06Tensor struct {
	ml.Tensor // everything not defined below: not implemented
	b         *c06Backend
	st        *c06Store
	off       int // element offset into st.data
	ne        [4]int
	nb        [4]int // byte strides
	es        int    // bytes per element of dtype (storage is float64 whatever the dtype)
	dtype     ml.DType
}

func c06ElemSize(d ml.DType) int {
	switch d {
	case ml.DTypeF32, ml.DTypeI32:
		return 4
	case ml.DTypeF16:
		return 2
	}
	panic(fmt.Sprintf("c06 fake backend: dtype %v not implemented", d))
}

func (b *c06Backend) newTensor(dtype ml.DType, shape []int) *c06Tensor {
	es := c06ElemSize(dtype)
	t := &c06Tensor{b: b, es: es, dtype: dtype, ne: [4]int{1, 1, 1, 1}}
	if len(shape) < 1 || shape[0] == 0 {
		t.ne[0] = 0
	} else if len(shape) > 4 {
		panic("unsupported number of dimensions")
	} else {
		for i, d := range shape {
			if d < 1 {
				panic("invalid shape")
			}
			t.ne[i] = d
		}
	}
	t.nb[0] = es
	for i := 1; i < 4; i++ {
		t.nb[i] = t.nb[i-1] * t.ne[i-1]
	}
	t.st = &c06Store{data: make([]float64, t.nelem())}
	return t
}

func (t *c06Tensor) nelem() int { return t.ne[0] * t.ne[1] * t.ne[2] * t.ne[3] }

func (t *c06Tensor) Dim(n int) int    { return t.ne[n] }
func (t *c06Tensor) Stride(n int) int { return t.nb[n] }
func (t *c06Tensor) DType() ml.DType  { return t.dtype }

// Shape follows ggml_n_dims: trailing dimensions of extent 1 are dropped (at least one is kept).
func (t *c06Tensor) Shape() []int {
	n := 1
	for i := 3; i >= 1; i-- {
		if t.ne[i] > 1 {
			n = i + 1
			break
		}
	}
	return append([]int(nil), t.ne[:n]...)
}

func (t *c06Tensor) idx(i0, i1, i2, i3 int) int {
	bo := i0*t.nb[0] + i1*t.nb[1] + i2*t.nb[2] + i3*t.nb[3]
	if bo%t.es != 0 {
		panic(fmt.Sprintf("c06 fake backend: misaligned access (byte offset %d, element size %d)", bo, t.es))
	}
	return t.off + bo/t.es
}

func (t *c06Tensor) at(i0, i1, i2, i3 int) float64 { return t.st.data[t.idx(i0, i1, i2, i3)] }

func (t *c06Tensor) readAll() []float64 {
	out := make([]float64, 0, t.nelem())
	for i3 := 0; i3 < t.ne[3]; i3++ {
		for i2 := 0; i2 < t.ne[2]; i2++ {
			for i1 := 0; i1 < t.ne[1]; i1++ {
				for i0 := 0; i0 < t.ne[0]; i0++ {
					out = append(out, t.st.data[t.idx(i0, i1, i2, i3)])
				}
			}
		}
	}
	return out
}

func (t *c06Tensor) writeAll(v []float64) {
	k := 0
	for i3 := 0; i3 < t.ne[3]; i3++ {
		for i2 := 0; i2 < t.ne[2]; i2++ {
			for i1 := 0; i1 < t.ne[1]; i1++ {
				for i0 := 0; i0 < t.ne[0]; i0++ {
					t.st.data[t.idx(i0, i1, i2, i3)] = v[k]
					k++
				}
			}
		}
	}
}

func (t *c06Tensor) Floats() []float32 {
	v := t.readAll()
	out := make([]float32, len(v))
	for i := range v {
		out[i] = float32(v[i])
	}
	return out
}

// View follows ml/backend/ggml (*Tensor).View: 1, 3, 5 or 7 arguments = ggml_view_1d..4d; offset and
// strides are in bytes.
func (t *c06Tensor) View(ctx ml.Context, offset int, shape ...int) ml.Tensor {
	ctx.(*c06Context).node()
	v := &c06Tensor{b: t.b, st: t.st, es: t.es, dtype: t.dtype, ne: [4]int{1, 1, 1, 1}}
	if offset%t.es != 0 || offset < 0 {
		panic(fmt.Sprintf("c06 fake backend: view offset %d not a multiple of the element size %d", offset, t.es))
	}
	v.off = t.off + offset/t.es
	switch len(shape) {
	case 1:
		v.ne[0] = shape[0]
		v.nb = [4]int{t.es, t.es * shape[0], t.es * shape[0], t.es * shape[0]}
	case 3:
		v.ne[0], v.ne[1] = shape[0], shape[2]
		v.nb = [4]int{t.es, shape[1], shape[1] * shape[2], shape[1] * shape[2]}
	case 5:
		v.ne[0], v.ne[1], v.ne[2] = shape[0], shape[2], shape[4]
		v.nb = [4]int{t.es, shape[1], shape[3], shape[3] * shape[4]}
	case 7:
		v.ne[0], v.ne[1], v.ne[2], v.ne[3] = shape[0], shape[2], shape[4], shape[6]
		v.nb = [4]int{t.es, shape[1], shape[3], shape[5]}
	default:
		panic("unsupported number of dimensions")
	}
	for _, d := range v.ne {
		if d < 0 {
			panic(fmt.Sprintf("c06 fake backend: negative view extent %v", v.ne))
		}
	}
	// ggml_new_tensor_impl: GGML_ASSERT(data_size + view_offs <= ggml_nbytes(view_src))
	if v.off+v.nelem() > len(t.st.data) {
		panic(fmt.Sprintf("c06 fake backend: view of %d elements at element offset %d exceeds the %d elements of the viewed tensor", v.nelem(), v.off, len(t.st.data)))
	}
	return v
}

// Permute follows ggml_permute: source dimension i becomes dimension axes[i] of the result.
func (t *c06Tensor) Permute(ctx ml.Context, axes ...int) ml.Tensor {
	if len(axes) != 4 {
		panic("expected 4 dimensions")
	}
	ctx.(*c06Context).node()
	v := &c06Tensor{b: t.b, st: t.st, off: t.off, es: t.es, dtype: t.dtype}
	seen := [4]bool{}
	for i, a := range axes {
		if a < 0 || a > 3 || seen[a] {
			panic("c06 fake backend: invalid permutation")
		}
		seen[a] = true
		v.ne[a] = t.ne[i]
		v.nb[a] = t.nb[i]
	}
	return v
}

// Copy follows ggml_cpy: same number of elements, copied in logical (dim 0 fastest) order; returns the destination.
func (t *c06Tensor) Copy(ctx ml.Context, t2 ml.Tensor) ml.Tensor {
	c := ctx.(*c06Context)
	c.node()
	d := t2.(*c06Tensor)
	if t.nelem() != d.nelem() {
		panic(fmt.Sprintf("c06 fake backend: ggml_cpy between %v and %v elements", t.ne, d.ne))
	}
	if c.owned && t.b.phase == "startforward" {
		t.b.st.sfCopies++
		if t.nelem() > t.b.st.sfCopyMaxElem {
			t.b.st.sfCopyMaxElem = t.nelem()
		}
	}
	if !c.noExec {
		d.writeAll(t.readAll())
	}
	return d
}

func (t *c06Tensor) isContiguous() bool {
	s := t.es
	for i := 0; i < 4; i++ {
		if t.ne[i] != 1 && t.nb[i] != s {
			return false
		}
		s *= t.ne[i]
	}
	return true
}

func (t *c06Tensor) Contiguous(ctx ml.Context) ml.Tensor {
	out := ctx.Empty(t.dtype, t.ne[0], t.ne[1], t.ne[2], t.ne[3]).(*c06Tensor)
	out.writeAll(t.readAll())
	return out
}

func (t *c06Tensor) Reshape(ctx ml.Context, shape ...int) ml.Tensor {
	ctx.(*c06Context).node()
	if !t.isContiguous() {
		panic("c06 fake backend: reshape of a non-contiguous tensor")
	}
	v := &c06Tensor{b: t.b, st: t.st, off: t.off, es: t.es, dtype: t.dtype, ne: [4]int{1, 1, 1, 1}}
	if len(shape) < 1 || len(shape) > 4 {
		panic("unsupported number of dimensions")
	}
	copy(v.ne[:], shape)
	if v.nelem() != t.nelem() {
		panic("c06 fake backend: reshape changes the number of elements")
	}
	v.nb[0] = t.es
	for i := 1; i < 4; i++ {
		v.nb[i] = v.nb[i-1] * v.ne[i-1]
	}
	return v
}

func (t *c06Tensor) Add(ctx ml.Context, t2 ml.Tensor) ml.Tensor {
	o := t2.(*c06Tensor)
	out := ctx.Empty(t.dtype, t.ne[0], t.ne[1], t.ne[2], t.ne[3]).(*c06Tensor)
	a := t.readAll()
	k := 0
	for i3 := 0; i3 < t.ne[3]; i3++ {
		for i2 := 0; i2 < t.ne[2]; i2++ {
			for i1 := 0; i1 < t.ne[1]; i1++ {
				for i0 := 0; i0 < t.ne[0]; i0++ {
					a[k] += o.at(i0%o.ne[0], i1%o.ne[1], i2%o.ne[2], i3%o.ne[3])
					k++
				}
			}
		}
	}
	out.writeAll(a)
	return out
}

// ------------------------------------------------------------------------------------------------
// payload encoding

const (
	c06IDMul   = float64(1 << 24)
	c06PosMul  = float64(1 << 8)
	c06PosBias = 1 << 15 // keeps a wrongly shifted (negative) position inside the position field
)

func c06LayerMult(layer int) int { return 1 + 2*layer } // per-layer "rope base": layer 0 -> 1, layer 1 -> 3

func c06Chan(layer, h, d int, isV bool) int {
	c := ((layer*4+h)*8 + d) << 1
	if isV {
		c |= 1
	}
	return c + 1
}

func c06KVal(id int, pos int32, layer, h, d int) float64 {
	return float64(id)*c06IDMul + float64(int(pos)*c06LayerMult(layer)+c06PosBias)*c06PosMul + float64(c06Chan(layer, h, d, false))
}

func c06VVal(id, layer, h, d int) float64 {
	return float64(id)*c06IDMul + float64(c06Chan(layer, h, d, true))
}

// c06Decode splits a payload value; ok=false when it is not a payload of the expected channel.
func c06Decode(v float64, layer, h, d int, isV bool) (id int, pos int64, ok bool) {
	if v != math.Floor(v) || v <= 0 || math.IsInf(v, 0) || math.IsNaN(v) {
		return 0, 0, false
	}
	fid := math.Floor(v / c06IDMul)
	rem := v - fid*c06IDMul
	pf := math.Floor(rem / c06PosMul)
	ch := rem - pf*c06PosMul
	if int(ch) != c06Chan(layer, h, d, isV) || fid < 1 {
		return 0, 0, false
	}
	if isV {
		return int(fid), 0, pf == 0
	}
	m := int64(c06LayerMult(layer))
	if (int64(pf)-c06PosBias)%m != 0 {
		return 0, 0, false
	}
	return int(fid), (int64(pf) - c06PosBias) / m, true
}

// ------------------------------------------------------------------------------------------------
// case description

type c06Cfg struct {
	Kind       string `json:"kind"`   // causal | swa | wrapper (SWA + causal, as gemma2/3)
	Window     int32  `json:"window"` // 0 = none
	Capacity   int    `json:"capacity"`
	MaxSeq     int    `json:"max_sequences"`
	MaxBatch   int    `json:"max_batch"`
	CachePad   int    `json:"cache_padding"`      // 0 = unset
	BatchPad   int    `json:"mask_batch_padding"` // 0 = unset
	PermutedV  bool   `json:"permuted_v"`
	MaskF16    bool   `json:"mask_f16"`
	F32        bool   `json:"cache_dtype_f32"`
	Layers     int    `json:"layers"`
	KDim       int    `json:"k_head_dim"`
	VDim       int    `json:"v_head_dim"`
	Heads      int    `json:"kv_heads"`
	MaxNodes   int    `json:"max_graph_nodes"`
	NilShift   bool   `json:"nil_shift"`  // model without a shift function: Remove with shift must fail cleanly
	ShiftErr   bool   `json:"shift_err"`  // the shift function fails now and then
	ConfigVia  string `json:"config_via"` // none | backend | setconfig
	Reserve    bool   `json:"reserve"`    // worst-case reserve pass first, as the runner does
	Overfill   bool   `json:"overfill"`   // sequences may outgrow Capacity so that the cache really fills up
	SWAMiddle  bool   `json:"swa_middle"` // sub-workload: windowed cache + Remove of a non-prefix finite range (upstream TODO in Remove)
	Interleave bool   `json:"interleave"` // rows of different sequences interleaved inside a batch
	Oversize   bool   `json:"oversize"`   // first batch larger than the whole cache
	NOps       int    `json:"n_ops"`
	Cells      []int  `json:"cells,omitempty"` // observed: len(cells) of every underlying Causal
}

type c06Op struct {
	Op   string  `json:"op"`
	Seq  int     `json:"seq,omitempty"`
	Src  int     `json:"src,omitempty"`
	B    int32   `json:"b,omitempty"`
	E    int32   `json:"e,omitempty"`
	Seqs []int   `json:"seqs,omitempty"`
	Pos  []int32 `json:"pos,omitempty"`
	Res  string  `json:"res,omitempty"`
}

type c06Case struct {
	Index int     `json:"index"`
	Cfg   c06Cfg  `json:"cfg"`
	Ops   []c06Op `json:"ops"`
}

type c06Viol struct {
	Sig  string
	What string
	Wit  any
}

func c06GenCfg(r *kit.Rand) c06Cfg {
	c := c06Cfg{}
	switch k := r.Intn(10); {
	case k < 5:
		c.Kind = "causal"
	case k < 8:
		c.Kind = "swa"
	default:
		c.Kind = "wrapper"
	}
	c.Capacity = kit.Pick(r, []int{4, 4, 5, 6, 8, 8, 12, 16, 16, 24, 32, 64})
	c.MaxSeq = kit.Pick(r, []int{1, 2, 2, 3, 3, 4})
	c.MaxBatch = kit.Pick(r, []int{1, 2, 3, 4, 4, 8, 8, 16})
	if c.Kind != "causal" {
		c.Window = int32(r.Range(1, 8))
		if r.Chance(1, 8) {
			c.Window = int32(r.Range(c.Capacity, c.Capacity+4)) // the "capacity <= window" sizing branch
		}
	}
	c.CachePad = kit.Pick(r, []int{0, 1, 1, 4, 4, 32})
	c.BatchPad = kit.Pick(r, []int{0, 1, 1, 4, 32})
	c.PermutedV = r.Bool()
	c.MaskF16 = r.Chance(1, 4)
	c.F32 = r.Chance(1, 3)
	c.Layers = r.Range(1, 2)
	if c.Kind == "wrapper" {
		c.Layers = 2
	}
	c.KDim, c.VDim, c.Heads = r.Range(1, 4), r.Range(1, 4), r.Range(1, 3)
	m := kit.Pick(r, []int{1, 1, 2, 3, 1000})
	c.MaxNodes = 2*c.Layers + 6*c.Layers*m + r.Intn(6*c.Layers)
	c.NilShift = r.Chance(1, 12)
	c.ShiftErr = !c.NilShift && r.Chance(1, 15)
	c.ConfigVia = kit.Pick(r, []string{"backend", "backend", "setconfig", "none"})
	if c.ConfigVia == "none" {
		c.CachePad, c.BatchPad, c.PermutedV, c.MaskF16 = 0, 0, false, false
	}
	c.Reserve = r.Chance(1, 4)
	c.Overfill = r.Chance(1, 3)
	c.SWAMiddle = c.Kind != "causal" && r.Chance(1, 4)
	c.Interleave = r.Chance(1, 4)
	c.Oversize = r.Chance(1, 40)
	switch k := r.Intn(20); {
	case k < 13:
		c.NOps = r.Range(5, 40)
	case k < 18:
		c.NOps = r.Range(40, 120)
	default:
		c.NOps = r.Range(120, 200)
	}
	return c
}

// ------------------------------------------------------------------------------------------------
// reference model

type c06Sub struct {
	c      *Causal
	window int64 // math.MaxInt32 = none
	cells  int
}

type c06Seq struct {
	ids       []int    // position -> entry id (positions are dense, as the runner produces them)
	present   [][]bool // [sub][position]: still physically retained under the window rule
	evictable [][]bool // [sub][position]: at some time q < (last position of the sequence) - w held, so any correct cache may have dropped it (only used to classify)
	taintMid  bool     // windowed cache + Remove of a non-prefix finite range happened (upstream TODO)
	taintCopy bool     // prefix copied from a sequence whose copied range had evicted positions (informational)
	taintRes  bool     // CanResume agreed to a position whose window reaches positions the window rule had evicted
}

type c06Row struct {
	seq int
	pos int32
	id  int
}

type c06Hist struct {
	cs           *c06Case
	cfg          *c06Cfg
	r            *kit.Rand
	be           *c06Backend
	cache        Cache
	wrap         *WrapperCache
	subs         []*c06Sub
	layerSub     []int
	seqs         []*c06Seq
	nextID       int
	viol         *c06Viol
	audit        bool // an ErrKvCacheFull happened: look at every sequence next
	first        bool
	mergedDefrag bool
	cnt          map[string]int
	flags        map[string]bool
}

func (h *c06Hist) count(k string, n int) { h.cnt[k] += n }

func (h *c06Hist) fail(sig, what string, wit any) {
	if h.viol == nil {
		if h.mergedDefrag && !strings.HasPrefix(sig, "swa-middle-remove:") && !strings.HasPrefix(sig, "panic:") {
			sig += ":after-merged-defrag-move"
		}
		h.viol = &c06Viol{Sig: sig, What: what, Wit: wit}
	}
}

// trace (VERIF_C06_TRACE=1, replay only): dump the cache metadata and the entry ids found in K and V of layer 0
func (h *c06Hist) trace() {
	for si, s := range h.subs {
		var sb strings.Builder
		for j, c := range s.c.cells {
			kid, vid := 0, 0
			if kt, ok := s.c.keys[si].(*c06Tensor); ok && kt != nil {
				kid, _, _ = c06Decode(kt.at(0, 0, j, 0), si, 0, 0, false)
				vt := s.c.values[si].(*c06Tensor)
				if h.cfg.PermutedV {
					vid, _, _ = c06Decode(vt.at(j, 0, 0, 0), si, 0, 0, true)
				} else {
					vid, _, _ = c06Decode(vt.at(0, 0, j, 0), si, 0, 0, true)
				}
			}
			fmt.Fprintf(&sb, " %d:[p%d s%v k%d v%d]", j, c.pos, c.sequences, kid, vid)
		}
		fmt.Printf("    sub%d ranges=%v%s\n", si, s.c.cellRanges, sb.String())
	}
}

func (h *c06Hist) op(o c06Op) *c06Op {
	if c06Trace {
		if len(h.cs.Ops) > 0 {
			h.trace()
		}
		b, _ := json.Marshal(o)
		fmt.Printf("op %d %s\n", len(h.cs.Ops), b)
	}
	h.cs.Ops = append(h.cs.Ops, o)
	h.count("op_"+o.Op, 1)
	return &h.cs.Ops[len(h.cs.Ops)-1]
}

func (h *c06Hist) shiftFn(ctx ml.Context, layer int, key, shift ml.Tensor) (ml.Tensor, error) {
	if h.cfg.ShiftErr && h.r.Chance(1, 4) {
		h.count("shift_fn_injected_errors", 1)
		return nil, errors.New("c06: injected shift failure")
	}
	k, s := key.(*c06Tensor), shift.(*c06Tensor)
	if s.ne[0] != k.ne[2] || s.nelem() != s.ne[0] {
		panic(fmt.Sprintf("c06 shift: %d offsets for %d cells (RoPE asserts a->ne[2] == b->ne[0])", s.ne[0], k.ne[2]))
	}
	if k.ne[0] != h.cfg.KDim || k.ne[1] != h.cfg.Heads {
		panic(fmt.Sprintf("c06 shift: key view has shape %v, want [%d %d n]", k.ne, h.cfg.KDim, h.cfg.Heads))
	}
	out := ctx.Empty(k.dtype, k.ne[0], k.ne[1], k.ne[2]).(*c06Tensor)
	mult := float64(c06LayerMult(layer))
	for j := 0; j < k.ne[2]; j++ {
		off := s.at(j, 0, 0, 0) * mult * c06PosMul
		if off != 0 {
			h.count("shifted_cells", 1)
		}
		for hh := 0; hh < k.ne[1]; hh++ {
			for d := 0; d < k.ne[0]; d++ {
				out.st.data[out.idx(d, hh, j, 0)] = k.at(d, hh, j, 0) + off
			}
		}
	}
	h.count("shift_fn_calls", 1)
	return out, nil
}

func (h *c06Hist) setup() {
	cfg := h.cfg
	h.be = &c06Backend{maxNodes: cfg.MaxNodes}
	var sf shiftFn
	if !cfg.NilShift {
		sf = h.shiftFn
	}
	switch cfg.Kind {
	case "causal":
		c := NewCausalCache(sf)
		h.cache = c
		h.subs = []*c06Sub{{c: c, window: math.MaxInt32}}
	case "swa":
		c := NewSWACache(cfg.Window, sf)
		h.cache = c
		h.subs = []*c06Sub{{c: c, window: int64(cfg.Window)}}
	case "wrapper":
		s := NewSWACache(cfg.Window, sf)
		c := NewCausalCache(sf)
		h.wrap = NewWrapperCache(s, c)
		h.cache = h.wrap
		h.subs = []*c06Sub{{c: s, window: int64(cfg.Window)}, {c: c, window: math.MaxInt32}}
	}
	h.layerSub = make([]int, cfg.Layers)
	for l := range h.layerSub {
		h.layerSub[l] = l % len(h.subs)
	}
	cc := ml.CacheConfig{CachePadding: cfg.CachePad, MaskBatchPadding: cfg.BatchPad, PermutedV: cfg.PermutedV}
	if cfg.MaskF16 {
		cc.MaskDType = ml.DTypeF16
	}
	var bk ml.Backend = h.be
	switch cfg.ConfigVia {
	case "backend":
		bk = &c06BackendCC{c06Backend: h.be, cc: cc}
	case "setconfig":
		h.cache.SetConfig(cc)
	}
	dt := ml.DTypeF16
	if cfg.F32 {
		dt = ml.DTypeF32
	}
	h.cache.Init(bk, dt, cfg.MaxSeq, cfg.Capacity, cfg.MaxBatch)
	cfg.Cells = nil
	for _, s := range h.subs {
		s.cells = len(s.c.cells)
		cfg.Cells = append(cfg.Cells, s.cells)
	}
	h.seqs = make([]*c06Seq, cfg.MaxSeq)
	for i := range h.seqs {
		h.seqs[i] = h.newSeq()
	}
	h.nextID = 1
	h.first = true
}

func (h *c06Hist) newSeq() *c06Seq {
	return &c06Seq{present: make([][]bool, len(h.subs)), evictable: make([][]bool, len(h.subs))}
}

func (h *c06Hist) windowed() bool { return h.cfg.Kind != "causal" }

// live entries of sub k under the model (entries referenced by at least one sequence and not evicted there)
func (h *c06Hist) live(k int) int {
	set := map[int]struct{}{}
	for _, s := range h.seqs {
		for q, id := range s.ids {
			if s.present[k][q] {
				set[id] = struct{}{}
			}
		}
	}
	return len(set)
}

// mustHold: lower bound of what any correct cache has to retain in sub k right now: for every sequence
// the last `window` entries (a causal cache: everything) unless the window rule had already evicted them.
func (h *c06Hist) mustHold(k int) int {
	set := map[int]struct{}{}
	w := h.subs[k].window
	for _, s := range h.seqs {
		n := int64(len(s.ids))
		for q := max(0, n-w); q < n; q++ {
			if s.present[k][q] { // (only false inside the window after the upstream-TODO middle removal)
				set[s.ids[q]] = struct{}{}
			}
		}
	}
	return len(set)
}

func (h *c06Hist) evict(k int, rows []c06Row) {
	w := h.subs[k].window
	if w == math.MaxInt32 {
		return
	}
	lowest := map[int]int64{}
	for _, r := range rows {
		if p, ok := lowest[r.seq]; !ok || int64(r.pos) < p {
			lowest[r.seq] = int64(r.pos)
		}
	}
	for s, p := range lowest {
		sq := h.seqs[s]
		for q := int64(0); q < p-w && q < int64(len(sq.ids)); q++ {
			if sq.present[k][q] {
				sq.present[k][q] = false
				h.count("model_evictions", 1)
				h.flags["evicted"] = true
			}
		}
	}
}

// ------------------------------------------------------------------------------------------------
// operations

func (h *c06Hist) reservePass() {
	cfg := h.cfg
	for _, s := range h.subs {
		if cfg.MaxBatch > s.cells {
			return
		}
	}
	ctx := h.be.harnessCtx(true)
	b := input.Batch{Positions: make([]int32, cfg.MaxBatch), Sequences: make([]int, cfg.MaxBatch)}
	for i := range b.Positions {
		b.Positions[i] = int32(i)
	}
	h.op(c06Op{Op: "reserve"})
	h.be.phase = "reserve"
	if err := h.cache.StartForward(ctx, b, true); err != nil {
		h.fail("reserve-error", "StartForward(reserve=true) failed: "+err.Error(), nil)
		return
	}
	for l := 0; l < cfg.Layers; l++ {
		h.cache.SetLayer(l)
		if h.wrap != nil {
			h.wrap.SetLayerType(h.layerSub[l])
		}
		k := h.be.newTensor(ml.DTypeF32, []int{cfg.KDim, cfg.Heads, cfg.MaxBatch})
		v := h.be.newTensor(ml.DTypeF32, []int{cfg.VDim, cfg.Heads, cfg.MaxBatch})
		h.cache.Put(ctx, k, v)
		h.cache.Get(ctx)
	}
	ctx.Close()
}

// forward runs one batch through StartForward, Put and Get of every layer and checks every Get.
func (h *c06Hist) forward(rows []c06Row, what string) {
	cfg := h.cfg
	o := h.op(c06Op{Op: what})
	for _, r := range rows {
		o.Seqs = append(o.Seqs, r.seq)
		o.Pos = append(o.Pos, r.pos)
	}
	n := len(rows)
	// model: eviction happens before placement, sub by sub; the first sub without room fails the batch
	expectFull := -1
	for k := range h.subs {
		h.evict(k, rows)
		if h.subs[k].cells-h.live(k) < n {
			expectFull = k
			break
		}
	}
	b := input.Batch{Positions: make([]int32, n), Sequences: make([]int, n)}
	for i, r := range rows {
		b.Positions[i], b.Sequences[i] = r.pos, r.seq
	}
	ctx := h.be.harnessCtx(false)
	defer ctx.Close()
	h.be.st.sfCopyMaxElem = 0
	before := h.be.st
	h.be.phase = "startforward"
	err := h.cache.StartForward(ctx, b, false)
	h.be.phase = ""
	st := h.be.st
	if d := st.sfCtxs - before.sfCtxs; d > 0 {
		h.count("defrags", 1)
		moves := st.sfCopies - before.sfCopies
		if moves > 0 {
			h.flags["defrag-moved"] = true
			h.count("defrag_copy_ops", moves)
			h.count("defrags_with_moves", 1)
		}
		if st.sfComputes-before.sfComputes > 1 {
			h.flags["mid-defrag-flush"] = true
			h.count("defrags_with_mid_flush", 1)
		}
		if st.sfCopyMaxElem > max(cfg.KDim, cfg.VDim)*cfg.Heads {
			// some move carried more than one cell (its larger copy, K or V, exceeds one cell's elements)
			if !h.mergedDefrag {
				h.count("histories_with_merged_defrag_move", 1)
			}
			h.mergedDefrag = true
			h.flags["merged-move"] = true
		}
	}
	if st.overflow != "" {
		h.fail("graph-nodes-exceeded", "a context the cache created holds more tensors than its size (the ggml backend aborts): "+st.overflow, nil)
		return
	}
	if st.afterClose != "" {
		h.fail("ctx-use-after-close", st.afterClose, nil)
		return
	}
	if err != nil {
		o.Res = err.Error()
		if !errors.Is(err, ErrKvCacheFull) {
			h.fail("startforward-error", "StartForward returned an error other than ErrKvCacheFull: "+err.Error(), nil)
			return
		}
		h.count("kv_cache_full", 1)
		h.flags["full"] = true
		if expectFull < 0 {
			free := []int{}
			for k := range h.subs {
				free = append(free, h.subs[k].cells-h.live(k))
			}
			h.fail("full-unjustified", fmt.Sprintf("StartForward of %d rows returned ErrKvCacheFull although the model has %v free cells (per underlying cache, after window eviction) - defragmentation must make them usable", n, free), nil)
			return
		}
		within := n <= cfg.MaxBatch
		for _, s := range h.seqs {
			if len(s.ids) > cfg.Capacity {
				within = false
			}
		}
		cnt := map[int]int{}
		for _, r := range rows {
			cnt[r.seq]++
		}
		for s, c := range cnt {
			if len(h.seqs[s].ids)+c > cfg.Capacity {
				within = false
			}
		}
		if within {
			h.count("kv_cache_full_within_declared_limits", 1)
		}
		h.audit = true
		return
	}
	for k := range h.subs {
		if h.subs[k].cells-h.mustHold(k) < n {
			h.fail("full-not-reported", fmt.Sprintf("StartForward of %d rows succeeded although underlying cache %d (%d cells) must still hold %d entries: a live entry was overwritten", n, k, h.subs[k].cells, h.mustHold(k)), nil)
			return
		}
	}
	if expectFull >= 0 {
		// the cache evicted more eagerly than the window rule of the batch's sequences; legal, the Get oracle decides
		h.count("success_where_model_expected_full", 1)
	}
	for k := range h.subs {
		h.evict(k, rows) // idempotent; covers the underlying caches after a sub the model expected to be full
	}
	// model: store
	for i := range rows {
		rows[i].id = h.nextID
		h.nextID++
		s := h.seqs[rows[i].seq]
		if int(rows[i].pos) != len(s.ids) {
			panic("c06 harness: non-contiguous position generated")
		}
		s.ids = append(s.ids, rows[i].id)
		for k := range h.subs {
			s.present[k] = append(s.present[k], true)
			s.evictable[k] = append(s.evictable[k], false)
		}
	}
	defer func() { // after the Gets of this batch: what lies before the window of a sequence's last position may be dropped by any correct cache
		for _, s := range h.seqs {
			for k, sub := range h.subs {
				for q := int64(0); q < int64(len(s.ids))-1-sub.window; q++ {
					s.evictable[k][q] = true
				}
			}
		}
	}()
	h.count("rows_stored", n)
	shared := map[int]int{}
	for _, s := range h.seqs {
		for _, id := range s.ids {
			shared[id]++
		}
	}
	for _, r := range rows {
		for _, id := range h.seqs[r.seq].ids {
			if shared[id] > 1 {
				h.flags["fork-diverged"] = true
			}
		}
	}
	for l := 0; l < cfg.Layers && h.viol == nil; l++ {
		h.cache.SetLayer(l)
		if h.wrap != nil {
			h.wrap.SetLayerType(h.layerSub[l])
		}
		kt := h.be.newTensor(ml.DTypeF32, []int{cfg.KDim, cfg.Heads, n})
		vt := h.be.newTensor(ml.DTypeF32, []int{cfg.VDim, cfg.Heads, n})
		for i, r := range rows {
			for hh := 0; hh < cfg.Heads; hh++ {
				for d := 0; d < cfg.KDim; d++ {
					kt.st.data[kt.idx(d, hh, i, 0)] = c06KVal(r.id, r.pos, l, hh, d)
				}
				for d := 0; d < cfg.VDim; d++ {
					vt.st.data[vt.idx(d, hh, i, 0)] = c06VVal(r.id, l, hh, d)
				}
			}
		}
		h.be.phase = "put"
		h.cache.Put(ctx, kt, vt)
		h.be.phase = "get"
		k, v, m := h.cache.Get(ctx)
		h.be.phase = ""
		ctx.Forward(k, v, m).Compute(k, v, m)
		h.checkGet(l, rows, k, v, m)
	}
}

type c06Vis struct {
	Cell int   `json:"cell"`
	ID   int   `json:"id"`
	KPos int64 `json:"k_pos"`
}

// checkGet is the oracle.
func (h *c06Hist) checkGet(layer int, rows []c06Row, kT, vT, mT ml.Tensor) {
	cfg := h.cfg
	sub := h.subs[h.layerSub[layer]]
	subIdx := h.layerSub[layer]
	k, ok1 := kT.(*c06Tensor)
	v, ok2 := vT.(*c06Tensor)
	m, ok3 := mT.(*c06Tensor)
	if !ok1 || !ok2 || !ok3 || k == nil || v == nil || m == nil {
		h.fail("get-nil", fmt.Sprintf("Get returned %T %T %T", kT, vT, mT), nil)
		return
	}
	n := len(rows)
	length := m.ne[0]
	vCells, vDim, vHeads := v.ne[2], v.ne[0], v.ne[1]
	if cfg.PermutedV {
		vCells, vDim, vHeads = v.ne[0], v.ne[1], v.ne[2]
	}
	if k.ne[0] != cfg.KDim || k.ne[1] != cfg.Heads || vDim != cfg.VDim || vHeads != cfg.Heads || k.ne[2] != length || vCells != length || k.ne[3] != 1 || v.ne[3] != 1 || m.ne[2] != 1 || m.ne[3] != 1 {
		h.fail("get-shape", fmt.Sprintf("Get shapes inconsistent: K %v V %v (permuted=%v) mask %v; want K [%d %d L], V over the same L cells, mask [L B]", k.ne, v.ne, cfg.PermutedV, m.ne, cfg.KDim, cfg.Heads), nil)
		return
	}
	cpad, bpad := max(1, cfg.CachePad), max(1, cfg.BatchPad)
	if length%cpad != 0 || length < 1 {
		h.fail("get-cache-padding", fmt.Sprintf("history length %d is not a positive multiple of CachePadding %d", length, cpad), nil)
		return
	}
	if m.ne[1] < n || m.ne[1]%bpad != 0 {
		h.fail("get-batch-padding", fmt.Sprintf("mask has %d rows for a batch of %d with MaskBatchPadding %d", m.ne[1], n, bpad), nil)
		return
	}
	wantDT := ml.DTypeF32
	if cfg.MaskF16 {
		wantDT = ml.DTypeF16
	}
	if m.dtype != wantDT {
		h.fail("get-mask-dtype", fmt.Sprintf("mask dtype %v, configured %v", m.dtype, wantDT), nil)
		return
	}
	h.count("gets_checked", 1)
	// decode cells lazily
	type cellDec struct {
		done bool
		bad  string
		id   int
		kpos int64
	}
	dec := make([]cellDec, length)
	decode := func(j int) *cellDec {
		c := &dec[j]
		if c.done {
			return c
		}
		c.done = true
		first := true
		for hh := 0; hh < cfg.Heads; hh++ {
			for d := 0; d < cfg.KDim; d++ {
				val := k.at(d, hh, j, 0)
				id, pos, ok := c06Decode(val, layer, hh, d, false)
				if !ok {
					c.bad = fmt.Sprintf("K[d=%d,h=%d,cell=%d]=%v is not a key payload of layer %d", d, hh, j, val, layer)
					return c
				}
				if first {
					c.id, c.kpos, first = id, pos, false
				} else if id != c.id || pos != c.kpos {
					c.bad = fmt.Sprintf("K of cell %d mixes entries: (id %d,pos %d) and (id %d,pos %d)", j, c.id, c.kpos, id, pos)
					return c
				}
			}
			for d := 0; d < cfg.VDim; d++ {
				var val float64
				if cfg.PermutedV {
					val = v.at(j, d, hh, 0)
				} else {
					val = v.at(d, hh, j, 0)
				}
				id, _, ok := c06Decode(val, layer, hh, d, true)
				if !ok {
					c.bad = fmt.Sprintf("V[d=%d,h=%d,cell=%d]=%v is not a value payload of layer %d", d, hh, j, val, layer)
					return c
				}
				if id != c.id {
					c.bad = fmt.Sprintf("cell %d: K holds entry %d but V holds entry %d", j, c.id, id)
					return c
				}
			}
		}
		return c
	}
	owner := map[int][]int{} // id -> sequences that logically hold it
	for si, s := range h.seqs {
		for _, id := range s.ids {
			owner[id] = append(owner[id], si)
		}
	}
	for i := 0; i < m.ne[1]; i++ {
		if i >= n { // padding row
			for j := 0; j < length; j++ {
				if x := m.at(j, i, 0, 0); !math.IsInf(x, -1) {
					h.fail("pad-row-not-masked", fmt.Sprintf("layer %d: padding row %d (batch %d) has mask %v at cell %d", layer, i, n, x, j), nil)
					return
				}
			}
			continue
		}
		r := rows[i]
		sq := h.seqs[r.seq]
		p := int64(r.pos)
		lo := max(0, p-sub.window)
		want := map[int]int64{} // id -> position
		for q := lo; q <= p; q++ {
			want[sq.ids[q]] = q
		}
		posOf := map[int]int64{}
		for q, id := range sq.ids {
			posOf[id] = int64(q)
		}
		seen := map[int]int{}
		var vis []c06Vis
		kind, detail := "", ""
		note := func(kd, dt string) {
			if kind == "" {
				kind, detail = kd, dt
			}
		}
		for j := 0; j < length; j++ {
			x := m.at(j, i, 0, 0)
			if math.IsInf(x, -1) {
				continue
			}
			if x != 0 {
				note("mask-value", fmt.Sprintf("mask[cell %d,row %d]=%v is neither 0 nor -Inf", j, i, x))
				continue
			}
			h.count("visible_cells_checked", 1)
			c := decode(j)
			if c.bad != "" {
				if strings.Contains(c.bad, "but V holds") {
					note("kv-mismatch", c.bad)
				} else {
					note("payload-corrupt", c.bad)
				}
				vis = append(vis, c06Vis{Cell: j, ID: -1})
				continue
			}
			vis = append(vis, c06Vis{Cell: j, ID: c.id, KPos: c.kpos})
			seen[c.id]++
			if seen[c.id] > 1 {
				note("duplicate", fmt.Sprintf("entry %d is visible through more than one cell", c.id))
				continue
			}
			if q, ok := want[c.id]; ok {
				if q != c.kpos {
					note("kpos-mismatch", fmt.Sprintf("entry %d sits at position %d of sequence %d but its key carries position %d (shift applied to the wrong cells?)", c.id, q, r.seq, c.kpos))
				}
				continue
			}
			if q, ok := posOf[c.id]; ok {
				if q > p {
					note("visible-future", fmt.Sprintf("entry %d at position %d of sequence %d is visible to the token at position %d", c.id, q, r.seq, p))
				} else {
					note("visible-outside-window", fmt.Sprintf("entry %d at position %d of sequence %d is visible to the token at position %d with window %d", c.id, q, r.seq, p, sub.window))
				}
				continue
			}
			if o := owner[c.id]; len(o) > 0 {
				note("visible-foreign", fmt.Sprintf("entry %d (key position %d) belongs to sequence(s) %v only but is visible to sequence %d", c.id, c.kpos, o, r.seq))
			} else {
				note("visible-removed", fmt.Sprintf("entry %d (key position %d) was removed from every sequence but is visible to sequence %d", c.id, c.kpos, r.seq))
			}
		}
		var missing []int64
		missEvicted := true
		for id, q := range want {
			if seen[id] == 0 {
				missing = append(missing, q)
				if sq.present[subIdx][q] && !sq.evictable[subIdx][q] {
					missEvicted = false
				}
			}
		}
		sort.Slice(missing, func(a, b int) bool { return missing[a] < missing[b] })
		h.count("rows_checked", 1)
		if kind == "" && len(missing) == 0 {
			continue
		}
		sig := kind
		if kind == "" {
			sig = "missing"
			detail = fmt.Sprintf("positions %v of sequence %d are not visible to the token at position %d (window %d)", missing, r.seq, p, sub.window)
			if missEvicted && sub.window != math.MaxInt32 {
				// every missing entry had legitimately left the window before; the history shape says why it is wanted again
				switch {
				case sq.taintMid:
					sig = "swa-middle-remove:missing-evicted"
				case sq.taintRes:
					sig = "swa-canresume:missing-evicted"
				default:
					sig = "missing-evicted"
				}
				detail += "; all of them were evicted earlier under the window rule"
			}
		}
		wl := make([]c06Vis, 0, len(want))
		for id, q := range want {
			wl = append(wl, c06Vis{Cell: -1, ID: id, KPos: q})
		}
		sort.Slice(wl, func(a, b int) bool { return wl[a].KPos < wl[b].KPos })
		h.fail(sig, fmt.Sprintf("layer %d (underlying cache %d, window %d), batch row %d = (seq %d, pos %d): %s", layer, subIdx, sub.window, i, r.seq, p, detail),
			map[string]any{"layer": layer, "row": i, "seq": r.seq, "pos": p, "expected": wl, "visible": vis, "missing_positions": missing,
				"history_cells": length, "taint_middle_remove": sq.taintMid, "taint_copy_evicted": sq.taintCopy, "taint_canresume_yes_on_evicted_window": sq.taintRes})
		return
	}
}

// remove calls Remove and keeps the API contract: after an error the whole sequence is removed.
func (h *c06Hist) remove(seq int, b, e int32, what string) {
	sq := h.seqs[seq]
	n := int32(len(sq.ids))
	if h.windowed() && e != math.MaxInt32 && e >= n && b > 0 && !h.canResume(seq, b) {
		// a truncation written with a finite end is still a resumption at an earlier position
		b = 0
	}
	if strings.HasPrefix(what, "remove-") {
		switch {
		case b == 0:
			what = "remove-prefix"
		case e >= n:
			what = "remove-suffix-finite"
		default:
			what = "remove-middle"
		}
	}
	o := h.op(c06Op{Op: what, Seq: seq, B: b, E: e})
	h.be.phase = "remove"
	before := h.cnt["shifted_cells"]
	err := h.cache.Remove(seq, b, e)
	h.be.phase = ""
	if h.be.st.overflow != "" {
		h.fail("graph-nodes-exceeded", h.be.st.overflow, nil)
		return
	}
	if err != nil {
		o.Res = err.Error()
		h.count("remove_errors", 1)
		h.flags["remove-error"] = true
		if e == math.MaxInt32 {
			h.fail("remove-to-end-failed", fmt.Sprintf("Remove(%d, %d, MaxInt32) returned an error (%v); the API promises this form cannot fail", seq, b, err), nil)
			return
		}
		h.op(c06Op{Op: "remove-all-after-error", Seq: seq, E: math.MaxInt32})
		if err2 := h.cache.Remove(seq, 0, math.MaxInt32); err2 != nil {
			h.fail("remove-to-end-failed", fmt.Sprintf("Remove(%d, 0, MaxInt32) after a failed Remove returned %v", seq, err2), nil)
			return
		}
		h.seqs[seq] = h.newSeq()
		return
	}
	if h.cnt["shifted_cells"] > before {
		h.flags["shift-applied"] = true
		h.count("removes_with_shift_applied", 1)
	}
	if e == math.MaxInt32 || e > n {
		e = n
	}
	if b > e {
		b = e
	}
	if h.windowed() && o.E != math.MaxInt32 && b > 0 && e > b && e < n {
		sq.taintMid = true // positions behind the removed middle move down: the upstream TODO in Remove
	}
	sq.ids = append(sq.ids[:b:b], sq.ids[e:]...)
	for k := range sq.present {
		sq.present[k] = append(sq.present[k][:b:b], sq.present[k][e:]...)
		sq.evictable[k] = append(sq.evictable[k][:b:b], sq.evictable[k][e:]...)
	}
	if len(sq.ids) == 0 {
		h.seqs[seq] = h.newSeq()
	}
}

// load mimics InputCache.LoadCacheSlot: continue sequence seq at position k only if CanResume agrees.
func (h *c06Hist) load(seq int, k int32, what string) {
	if k > 0 && !h.canResume(seq, k) {
		k = 0
	}
	h.remove(seq, k, math.MaxInt32, what)
}

// canResume asks the cache; when it agrees although the model knows that the window of position k reaches
// positions the window rule had already evicted, the sequence is marked so that the resulting violation names it.
func (h *c06Hist) canResume(seq int, k int32) bool {
	if !h.cache.CanResume(seq, k) {
		h.count("canresume_no", 1)
		return false
	}
	h.count("canresume_yes", 1)
	sq := h.seqs[seq]
	for si, sub := range h.subs {
		for q := max(0, int64(k)-sub.window); q < int64(k) && q < int64(len(sq.ids)); q++ {
			if !sq.present[si][q] && !sq.taintRes {
				sq.taintRes = true
				h.count("canresume_yes_on_evicted_window", 1)
			}
		}
	}
	return true
}

func (h *c06Hist) copyPrefix(src, dst int, ln int32) {
	h.op(c06Op{Op: "copyprefix", Src: src, Seq: dst, E: ln})
	h.cache.CopyPrefix(src, dst, ln)
	s := h.seqs[src]
	d := h.newSeq()
	d.ids = append([]int(nil), s.ids[:ln]...)
	d.taintMid = s.taintMid
	d.taintCopy = s.taintCopy
	for k := range s.present {
		d.present[k] = append([]bool(nil), s.present[k][:ln]...)
		d.evictable[k] = append([]bool(nil), s.evictable[k][:ln]...)
		for _, p := range d.present[k] {
			if !p {
				d.taintCopy = true
			}
		}
	}
	h.seqs[dst] = d
}

// makeRoom frees space in a sequence that reached Capacity, the way the runner's ShiftCacheSlot does
// (Remove(numKeep, numKeep+discard)); on windowed caches outside the swa-middle sub-workload only forms
// that do not need the upstream TODO are used (prefix removal, full removal).
func (h *c06Hist) makeRoom(seq int) {
	n := int32(len(h.seqs[seq].ids))
	if n == 0 {
		return
	}
	if h.windowed() && !h.cfg.SWAMiddle {
		if h.r.Chance(1, 3) || n < 2 {
			h.remove(seq, 0, math.MaxInt32, "clear")
		} else {
			h.remove(seq, 0, int32(h.r.Range(1, int(n)-1)), "remove-prefix")
		}
		return
	}
	keep := int32(h.r.Range(0, min(int(n)-1, 4)))
	discard := max(1, (n-keep)/2)
	if h.r.Chance(1, 3) {
		discard = int32(h.r.Range(1, int(n-keep)))
	}
	h.remove(seq, keep, keep+discard, "shift")
}

func (h *c06Hist) nonEmpty() []int {
	var out []int
	for i, s := range h.seqs {
		if len(s.ids) > 0 {
			out = append(out, i)
		}
	}
	return out
}

func (h *c06Hist) genForward(fill bool) {
	cfg := h.cfg
	r := h.r
	if h.first && cfg.Oversize {
		h.first = false
		tot := 0
		for _, s := range h.subs {
			tot = max(tot, s.cells)
		}
		rows := make([]c06Row, tot+r.Range(1, 3))
		for i := range rows {
			rows[i] = c06Row{seq: 0, pos: int32(i)}
		}
		h.count("oversize_first_batches", 1)
		h.forward(rows, "forward-oversize")
		return
	}
	h.first = false
	budget := r.Range(1, cfg.MaxBatch)
	if fill || r.Chance(1, 4) {
		budget = cfg.MaxBatch
	}
	order := r.Perm(cfg.MaxSeq)
	nseq := 1
	for nseq < cfg.MaxSeq && r.Chance(1, 2) {
		nseq++
	}
	var groups [][]c06Row
	for _, s := range order[:nseq] {
		if budget <= 0 || h.viol != nil {
			break
		}
		want := 1
		if fill || r.Chance(1, 2) {
			want = r.Range(1, budget)
		}
		n := len(h.seqs[s].ids)
		if cfg.Overfill {
			if n >= 3*cfg.Capacity+8 {
				h.makeRoom(s)
			}
		} else {
			if n >= cfg.Capacity {
				h.makeRoom(s)
				if h.viol != nil {
					return
				}
			}
			want = min(want, cfg.Capacity-len(h.seqs[s].ids))
		}
		if want <= 0 {
			continue
		}
		n = len(h.seqs[s].ids)
		g := make([]c06Row, want)
		for i := range g {
			g[i] = c06Row{seq: s, pos: int32(n + i)}
		}
		groups = append(groups, g)
		budget -= want
	}
	if h.viol != nil {
		return
	}
	var rows []c06Row
	if cfg.Interleave && len(groups) > 1 && r.Chance(1, 2) {
		for {
			var live []int
			for gi, g := range groups {
				if len(g) > 0 {
					live = append(live, gi)
				}
			}
			if len(live) == 0 {
				break
			}
			gi := kit.Pick(r, live)
			rows = append(rows, groups[gi][0])
			groups[gi] = groups[gi][1:]
		}
		h.count("interleaved_batches", 1)
	} else {
		for _, g := range groups {
			rows = append(rows, g...)
		}
	}
	if len(rows) == 0 {
		return
	}
	h.forward(rows, "forward")
}

// auditAll looks at every non-empty sequence through one more token each (after ErrKvCacheFull and at the end).
func (h *c06Hist) auditAll(what string) {
	cfg := h.cfg
	for tries := 0; tries < 8 && h.viol == nil; tries++ {
		var rows []c06Row
		for _, s := range h.nonEmpty() {
			if len(rows) >= cfg.MaxBatch {
				break
			}
			if !cfg.Overfill && len(h.seqs[s].ids) >= cfg.Capacity {
				continue
			}
			rows = append(rows, c06Row{seq: s, pos: int32(len(h.seqs[s].ids))})
		}
		if len(rows) == 0 {
			return
		}
		room := true
		for k := range h.subs {
			if h.subs[k].cells-h.live(k) < len(rows) {
				room = false
			}
		}
		if room {
			h.forward(rows, what)
			return
		}
		// make room by dropping the sequence that holds most
		best, bn := -1, -1
		for i, s := range h.seqs {
			if len(s.ids) > bn {
				best, bn = i, len(s.ids)
			}
		}
		h.remove(best, 0, math.MaxInt32, "clear")
	}
}

func (h *c06Hist) step() {
	cfg := h.cfg
	r := h.r
	if h.audit {
		h.audit = false
		h.auditAll("forward-audit-after-full")
		return
	}
	ne := h.nonEmpty()
	k := r.Intn(100)
	switch {
	case k < 58 || len(ne) == 0:
		h.genForward(false)
	case k < 64:
		h.genForward(true)
	case k < 73: // resume at an earlier (or the same) position, as LoadCacheSlot does
		s := kit.Pick(r, ne)
		n := len(h.seqs[s].ids)
		at := n
		switch r.Intn(4) {
		case 0:
			at = n - 1
		case 1:
			at = r.Range(0, n)
		case 2:
			at = max(0, n-r.Range(1, 4))
		}
		h.load(s, int32(at), "truncate")
	case k < 82: // fork: CopyPrefix into another slot, then load it
		if cfg.MaxSeq < 2 {
			h.genForward(false)
			return
		}
		src := kit.Pick(r, ne)
		dst := r.Intn(cfg.MaxSeq - 1)
		if dst >= src {
			dst++
		}
		n := len(h.seqs[src].ids)
		ln := r.Range(1, n)
		if r.Chance(1, 3) {
			ln = n
		}
		h.copyPrefix(src, dst, int32(ln))
		at := ln
		if r.Chance(1, 3) {
			at = ln - 1
		}
		if !h.windowed() && r.Chance(1, 4) {
			return // a causal cache may continue right after the copy
		}
		h.load(dst, int32(at), "load-after-copy")
	case k < 96: // remove a finite range (with shift of what follows)
		s := kit.Pick(r, ne)
		n := len(h.seqs[s].ids)
		var b, e int
		switch r.Intn(4) {
		case 0: // prefix
			b, e = 0, r.Range(1, n)
		case 1: // runner-style shift
			b = r.Range(0, min(n-1, 4))
			e = b + max(1, (n-b)/2)
		case 2: // middle
			b = r.Range(0, n-1)
			e = r.Range(b+1, n)
		default: // finite suffix
			b, e = r.Range(0, n-1), n
		}
		if h.windowed() && !cfg.SWAMiddle && b > 0 {
			b = 0 // outside the swa-middle sub-workload only prefix removal is used on windowed caches
		}
		name := "remove-middle"
		if b == 0 {
			name = "remove-prefix"
		} else if e == n {
			name = "remove-suffix-finite"
		}
		h.remove(s, int32(b), int32(e), name)
	default:
		h.remove(kit.Pick(r, ne), 0, math.MaxInt32, "clear")
	}
}

var c06Trace = os.Getenv("VERIF_C06_TRACE") != ""

func c06Sanitize(s string) string {
	var sb strings.Builder
	for _, c := range s {
		switch {
		case c >= 'a' && c <= 'z', c >= 'A' && c <= 'Z', c == '.', c == '_':
			sb.WriteRune(c)
		case c >= '0' && c <= '9':
			if !strings.HasSuffix(sb.String(), "N") {
				sb.WriteRune('N')
			}
		case c == ' ' || c == '-' || c == ':':
			if !strings.HasSuffix(sb.String(), "-") {
				sb.WriteRune('-')
			}
		}
	}
	out := sb.String()
	if len(out) > 70 {
		out = out[:70]
	}
	return strings.Trim(out, "-")
}

// c06PanicSite names the innermost function of the code under test on a panic stack.
func c06PanicSite(stack string) string {
	lines := strings.Split(stack, "\n")
	seen := false
	for i := 0; i+1 < len(lines); i++ {
		fn := lines[i]
		if strings.HasPrefix(fn, "panic(") {
			seen = true
			continue
		}
		if !seen || !strings.HasPrefix(fn, "github.com/ollama/ollama/kvcache.") {
			continue
		}
		file := lines[i+1]
		name := strings.TrimPrefix(fn, "github.com/ollama/ollama/kvcache.")
		if k := strings.LastIndex(name, "("); k > 0 {
			name = name[:k] // drop the argument list (its pointers may spell anything)
		}
		if strings.Contains(file, "zz_verif_") || strings.Contains(file, "c06_test.go") || strings.Contains(name, "c06") {
			continue
		}
		name = strings.NewReplacer("(*", "", ")", "").Replace(name)
		return c06Sanitize(name)
	}
	return "harness"
}

func c06Run(idx int, seed uint64) (cs *c06Case, h *c06Hist) {
	r := kit.NewRand(seed, "C06", idx)
	cs = &c06Case{Index: idx, Cfg: c06GenCfg(r)}
	h = &c06Hist{cs: cs, cfg: &cs.Cfg, r: r, cnt: map[string]int{}, flags: map[string]bool{}}
	defer func() {
		if p := recover(); p != nil {
			st := string(debug.Stack())
			site := c06PanicSite(st)
			msg := fmt.Sprint(p)
			h.viol = nil
			h.fail("panic:"+site+":"+c06Sanitize(msg), "panic in "+site+": "+msg, map[string]any{"stack": st})
		}
	}()
	h.setup()
	if cs.Cfg.Reserve {
		h.reservePass()
	}
	for len(cs.Ops) < cs.Cfg.NOps && h.viol == nil {
		h.step()
	}
	if h.viol == nil {
		h.auditAll("forward-final-audit")
	}
	if h.cache != nil {
		h.cache.Close()
	}
	return cs, h
}

func TestVerifC06(t *testing.T) {
	slog.SetDefault(slog.New(slog.NewTextHandler(io.Discard, nil)))
	rep := kit.NewReport("C06")
	cfg := rep.Cfg()
	defer rep.Flush()
	rep.Set("rule", "case i = PRNG(seed,'C06',i): a cache configuration (causal / sliding-window / WrapperCache(SWA,causal); capacity 4-64, 1-4 sequences, batch 1-16, CachePadding and MaskBatchPadding in {unset,1,4,32}, PermutedV, F16 mask, 1-2 layers, MaxGraphNodes giving 1,2,3 or unlimited moves per defrag graph) and an adaptive history of 5-200 cache operations (batches mixing sequences, CopyPrefix+load, truncation after CanResume, Remove of prefixes/middles/finite suffixes with shift, clears, fills, audits after ErrKvCacheFull and at the end) on the real cache over an eager fake backend; every Get of every layer is compared with the reference model. Non-trivial & distinct = distinct (kind, window bucket, paddings, PermutedV, layers, sequences, set of events reached) among histories in which at least one of these was reached and then observed through a later Get: defrag that moved data, Remove whose shift re-encoded cells, forked sequences that diverged, window eviction")
	rep.Set("assumptions", []string{
		"the fake backend executes copies eagerly in issue order (ggml executes the same copies in graph order at Compute); quantised cache dtypes are not modelled (storage is float64 whatever the dtype, element sizes 2 and 4 are honoured for strides/offsets)",
		"callers keep the Cache API contract the runner keeps: positions of a sequence are dense and continue from its last position; after a Remove error the sequence is removed with Remove(seq,0,MaxInt32); a sequence is continued at an earlier position or after CopyPrefix only when CanResume agrees; CopyPrefix source != destination",
		"window convention p-w <= q <= p (buildMask / pinned TestSWA)",
		"ErrKvCacheFull is judged against a model that evicts exactly what the window rule permits for the sequences of the batch being started (q < lowest batch position - w)",
		"SetCausal(Except) is never used; EncoderCache is not exercised",
	})
	n := cfg.N(20000, 1500000)
	replayIdx := -1
	if cfg.Replay != "" {
		var rc struct {
			Index int `json:"index"`
		}
		if err := kit.LoadReplay(cfg.Replay, &rc); err != nil {
			t.Fatal(err)
		}
		replayIdx = rc.Index
	}
	for i := 0; i < n; i++ {
		if replayIdx >= 0 && i != replayIdx {
			continue
		}
		if replayIdx < 0 && !cfg.Mine(i) {
			continue
		}
		jb, _ := json.Marshal(map[string]any{"index": i})
		rep.Journal(jb)
		rep.Eval(1)
		cs, h := c06Run(i, cfg.Seed)
		for k, v := range h.cnt {
			rep.Count(k, v)
		}
		rep.Count("ops_total", len(cs.Ops))
		rep.Count("kind_"+cs.Cfg.Kind, 1)
		if cs.Cfg.SWAMiddle {
			rep.Count("subworkload_swa_middle_remove", 1)
		}
		if h.viol != nil {
			rep.Violate("c06:"+h.viol.Sig, h.viol.What, cs, h.viol.Wit)
			if replayIdx >= 0 {
				t.Logf("replay: %s: %s", h.viol.Sig, h.viol.What)
			}
		}
		if h.flags["defrag-moved"] || h.flags["shift-applied"] || h.flags["fork-diverged"] || h.flags["evicted"] {
			fl := make([]string, 0, len(h.flags))
			for k := range h.flags {
				fl = append(fl, k)
			}
			sort.Strings(fl)
			wb := 0
			if cs.Cfg.Window > 0 {
				wb = 1 + int(cs.Cfg.Window)/3
			}
			rep.Distinct(fmt.Sprint(cs.Cfg.Kind, wb, cs.Cfg.CachePad, cs.Cfg.BatchPad, cs.Cfg.PermutedV, cs.Cfg.Layers, cs.Cfg.MaxSeq, fl))
			for _, f := range fl {
				rep.Count("histories_reaching_"+f, 1)
			}
			if rep.NeedSample() && len(cs.Ops) <= 14 && h.viol == nil {
				rep.Sample(cs)
			}
		}
	}
	if replayIdx >= 0 && rep.Violations() == 0 {
		t.Logf("replay: case %d holds", replayIdx)
	}
}
