package verifkit

import (
	"regexp"
	"runtime"
	"strconv"
	"strings"
)

// G is one goroutine of a runtime.Stack(all) dump.
type G struct {
	ID     int
	State  string   // "chan receive", "select", "sync.Mutex.Lock", "running", "sleep", ...
	Frames []string // function names, innermost first
	Raw    string
}

var gHeader = regexp.MustCompile(`^goroutine (\d+)(?: gp=\S+ m=\S+(?: mp=\S+)?)? \[([^\]]*)\]:`)

// Goroutines returns every goroutine except the caller.
func Goroutines() []G {
	buf := make([]byte, 1<<20)
	for {
		n := runtime.Stack(buf, true)
		if n < len(buf) {
			buf = buf[:n]
			break
		}
		buf = make([]byte, 2*len(buf))
	}
	var out []G
	for _, blk := range strings.Split(string(buf), "\n\n") {
		m := gHeader.FindStringSubmatch(blk)
		if m == nil {
			continue
		}
		id, _ := strconv.Atoi(m[1])
		st := m[2]
		if i := strings.IndexByte(st, ','); i >= 0 {
			st = st[:i]
		}
		g := G{ID: id, State: st, Raw: blk}
		self := false
		for _, ln := range strings.Split(blk, "\n")[1:] {
			if strings.HasPrefix(ln, "\t") || ln == "" {
				continue
			}
			if strings.HasPrefix(ln, "created by ") {
				f := strings.TrimPrefix(ln, "created by ")
				if i := strings.Index(f, " in goroutine"); i >= 0 {
					f = f[:i]
				}
				g.Frames = append(g.Frames, "created-by:"+f)
				continue
			}
			if i := strings.LastIndexByte(ln, '('); i > 0 {
				ln = ln[:i]
			}
			if strings.HasSuffix(ln, "verifkit.Goroutines") {
				self = true
			}
			g.Frames = append(g.Frames, ln)
		}
		if !self {
			out = append(out, g)
		}
	}
	return out
}

// Active says whether the goroutine can make progress without an external event.
func (g G) Active() bool {
	switch g.State {
	case "running", "runnable", "sleep", "syscall", "IO wait", "copystack", "preempted":
		return true
	}
	return false
}

// Has reports whether any frame contains sub.
func (g G) Has(sub string) bool {
	for _, f := range g.Frames {
		if strings.Contains(f, sub) {
			return true
		}
	}
	return false
}

// Top returns the innermost frame containing sub ("" if none).
func (g G) Top(sub string) string {
	for _, f := range g.Frames {
		if strings.Contains(f, sub) && !strings.HasPrefix(f, "created-by:") {
			return f
		}
	}
	return ""
}
