module verifkit

go 1.24.0
