// Package verifkit is the shared support code of the /verif runtime monitors:
// a deterministic PRNG, a report/evidence collector, an event log with one
// global logical clock, goroutine-dump helpers and an independent GGUF codec.
package verifkit

import (
	"hash/fnv"
	"math"
)

// Rand is xoshiro256** seeded through splitmix64. It is deliberately not
// math/rand so that the sequence is fixed by (seed, labels) on every Go version.
type Rand struct{ s [4]uint64 }

func splitmix(x *uint64) uint64 {
	*x += 0x9e3779b97f4a7c15
	z := *x
	z = (z ^ (z >> 30)) * 0xbf58476d1ce4e5b9
	z = (z ^ (z >> 27)) * 0x94d049bb133111eb
	return z ^ (z >> 31)
}

// NewRand derives a generator from a seed and any number of labels (property id, case index ...).
func NewRand(seed uint64, labels ...any) *Rand {
	h := fnv.New64a()
	for _, l := range labels {
		switch v := l.(type) {
		case string:
			h.Write([]byte(v))
		case int:
			var b [8]byte
			for i := range b {
				b[i] = byte(uint64(v) >> (8 * i))
			}
			h.Write(b[:])
		case uint64:
			var b [8]byte
			for i := range b {
				b[i] = byte(v >> (8 * i))
			}
			h.Write(b[:])
		default:
			panic("verifkit.NewRand: unsupported label type")
		}
		h.Write([]byte{0xff})
	}
	x := seed ^ h.Sum64()
	r := &Rand{}
	for i := range r.s {
		r.s[i] = splitmix(&x)
	}
	return r
}

func rotl(x uint64, k uint) uint64 { return (x << k) | (x >> (64 - k)) }

func (r *Rand) Uint64() uint64 {
	res := rotl(r.s[1]*5, 7) * 9
	t := r.s[1] << 17
	r.s[2] ^= r.s[0]
	r.s[3] ^= r.s[1]
	r.s[1] ^= r.s[2]
	r.s[0] ^= r.s[3]
	r.s[2] ^= t
	r.s[3] = rotl(r.s[3], 45)
	return res
}

// Intn returns a value in [0,n). n<=0 returns 0.
func (r *Rand) Intn(n int) int {
	if n <= 0 {
		return 0
	}
	return int(r.Uint64() % uint64(n))
}

// Range returns a value in [lo,hi] inclusive.
func (r *Rand) Range(lo, hi int) int {
	if hi <= lo {
		return lo
	}
	return lo + r.Intn(hi-lo+1)
}

func (r *Rand) Bool() bool { return r.Uint64()&1 == 1 }

// Chance is true with probability num/den.
func (r *Rand) Chance(num, den int) bool { return r.Intn(den) < num }

func (r *Rand) Float64() float64 { return float64(r.Uint64()>>11) / (1 << 53) }

func (r *Rand) Float32() float32 { return float32(r.Float64()) }

// NormFloat64 is a cheap approximately normal variate (sum of 4 uniforms).
func (r *Rand) NormFloat64() float64 {
	s := 0.0
	for i := 0; i < 4; i++ {
		s += r.Float64()
	}
	return (s - 2) * math.Sqrt(3)
}

func (r *Rand) Bytes(n int) []byte {
	b := make([]byte, n)
	for i := 0; i < n; i += 8 {
		v := r.Uint64()
		for j := 0; j < 8 && i+j < n; j++ {
			b[i+j] = byte(v >> (8 * j))
		}
	}
	return b
}

// Pick returns one element of xs.
func Pick[T any](r *Rand, xs []T) T { return xs[r.Intn(len(xs))] }

// Shuffle permutes xs in place.
func Shuffle[T any](r *Rand, xs []T) {
	for i := len(xs) - 1; i > 0; i-- {
		j := r.Intn(i + 1)
		xs[i], xs[j] = xs[j], xs[i]
	}
}

// Perm returns a permutation of 0..n-1.
func (r *Rand) Perm(n int) []int {
	p := make([]int, n)
	for i := range p {
		p[i] = i
	}
	Shuffle(r, p)
	return p
}
