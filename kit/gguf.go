package verifkit

import (
	"encoding/binary"
	"errors"
	"fmt"
	"math"
)

// Independent minimal GGUF codec. It shares no code with fs/ggml: the writer is used to
// build model files for the scheduler / server / estimator harnesses and as the seed for
// hostile-file mutation (C10); the reader is the second opinion of the C05 oracle.

const (
	GU8 uint32 = iota
	GI8
	GU16
	GI16
	GU32
	GI32
	GF32
	GBool
	GStr
	GArr
	GU64
	GI64
	GF64
)

type GArray struct {
	Elem uint32
	Vals []any
}

type GKV struct {
	Key  string
	Type uint32
	Val  any // uint8..float64, bool, string or GArray
}

type GTensor struct {
	Name   string
	Dims   []uint64 // in file order (ggml order, innermost first)
	Kind   uint32
	Offset uint64 // filled by Bytes (relative to data start) / by the parser
	Data   []byte
}

type GFile struct {
	Version   uint32 // 1, 2 or 3 (0 = 3)
	BigEndian bool
	KVs       []GKV
	Tensors   []GTensor
	Alignment uint64 // 0 = 32; NOT written as a KV automatically
}

// Field is the position of one length/count/type field inside the bytes produced by Build.
type Field struct {
	What string // magic version ntensors nkv keylen kvtype strlen arrtype arrcount scalar tname ndims dim tkind toffset
	Pos  int
	Size int
	Key  string // kv key or tensor name the field belongs to
}

func U32KV(k string, v uint32) GKV   { return GKV{k, GU32, v} }
func F32KV(k string, v float32) GKV  { return GKV{k, GF32, v} }
func StrKV(k string, v string) GKV   { return GKV{k, GStr, v} }
func BoolKV(k string, v bool) GKV    { return GKV{k, GBool, v} }
func U64KV(k string, v uint64) GKV   { return GKV{k, GU64, v} }
func ArrKV(k string, elem uint32, vals ...any) GKV {
	return GKV{k, GArr, GArray{Elem: elem, Vals: vals}}
}
func StrArrKV(k string, vals ...string) GKV {
	a := make([]any, len(vals))
	for i, v := range vals {
		a[i] = v
	}
	return GKV{k, GArr, GArray{Elem: GStr, Vals: a}}
}

type gw struct {
	b      []byte
	bo     binary.AppendByteOrder
	v      uint32
	fields []Field
}

func (w *gw) mark(what, key string, size int) { w.fields = append(w.fields, Field{what, len(w.b), size, key}) }
func (w *gw) u32(x uint32)                   { w.b = w.bo.AppendUint32(w.b, x) }
func (w *gw) u64(x uint64)                   { w.b = w.bo.AppendUint64(w.b, x) }
func (w *gw) count(x uint64) {
	if w.v == 1 {
		w.u32(uint32(x))
	} else {
		w.u64(x)
	}
}
func (w *gw) str(what, key, s string) {
	w.mark(what, key, 8)
	if w.v == 1 {
		w.u64(uint64(len(s) + 1))
		w.b = append(w.b, s...)
		w.b = append(w.b, 0)
		return
	}
	w.u64(uint64(len(s)))
	w.b = append(w.b, s...)
}
func (w *gw) scalar(t uint32, v any) error {
	switch t {
	case GU8:
		w.b = append(w.b, v.(uint8))
	case GI8:
		w.b = append(w.b, byte(v.(int8)))
	case GU16:
		w.b = w.bo.AppendUint16(w.b, v.(uint16))
	case GI16:
		w.b = w.bo.AppendUint16(w.b, uint16(v.(int16)))
	case GU32:
		w.u32(v.(uint32))
	case GI32:
		w.u32(uint32(v.(int32)))
	case GF32:
		w.u32(math.Float32bits(v.(float32)))
	case GBool:
		if v.(bool) {
			w.b = append(w.b, 1)
		} else {
			w.b = append(w.b, 0)
		}
	case GU64:
		w.u64(v.(uint64))
	case GI64:
		w.u64(uint64(v.(int64)))
	case GF64:
		w.u64(math.Float64bits(v.(float64)))
	default:
		return fmt.Errorf("verifkit: bad scalar type %d", t)
	}
	return nil
}

// Build serialises f and returns the bytes, the field map and the data-section start.
func (f *GFile) Build() ([]byte, []Field, int, error) {
	w := &gw{bo: binary.AppendByteOrder(binary.LittleEndian), v: f.Version}
	if w.v == 0 {
		w.v = 3
	}
	if f.BigEndian {
		w.bo = binary.BigEndian
	}
	align := f.Alignment
	if align == 0 {
		align = 32
	}
	w.mark("magic", "", 4)
	if f.BigEndian {
		w.b = append(w.b, 'F', 'U', 'G', 'G') // read as LE uint32 gives 0x47475546
	} else {
		w.b = append(w.b, 'G', 'G', 'U', 'F')
	}
	w.mark("version", "", 4)
	w.u32(w.v)
	csz := 8
	if w.v == 1 {
		csz = 4
	}
	w.mark("ntensors", "", csz)
	w.count(uint64(len(f.Tensors)))
	w.mark("nkv", "", csz)
	w.count(uint64(len(f.KVs)))
	for _, kv := range f.KVs {
		w.str("keylen", kv.Key, kv.Key)
		w.mark("kvtype", kv.Key, 4)
		w.u32(kv.Type)
		switch kv.Type {
		case GStr:
			w.str("strlen", kv.Key, kv.Val.(string))
		case GArr:
			a := kv.Val.(GArray)
			w.mark("arrtype", kv.Key, 4)
			w.u32(a.Elem)
			w.mark("arrcount", kv.Key, csz)
			w.count(uint64(len(a.Vals)))
			for i, e := range a.Vals {
				if a.Elem == GStr {
					if i < 4 {
						w.str("strlen", kv.Key, e.(string))
					} else {
						w.str("strlen-deep", kv.Key, e.(string))
					}
				} else if err := w.scalar(a.Elem, e); err != nil {
					return nil, nil, 0, err
				}
			}
		default:
			w.mark("scalar", kv.Key, 0)
			if err := w.scalar(kv.Type, kv.Val); err != nil {
				return nil, nil, 0, err
			}
		}
	}
	var off uint64
	for i := range f.Tensors {
		t := &f.Tensors[i]
		w.str("tname", t.Name, t.Name)
		w.mark("ndims", t.Name, 4)
		w.u32(uint32(len(t.Dims)))
		for _, d := range t.Dims {
			w.mark("dim", t.Name, 8)
			w.u64(d)
		}
		w.mark("tkind", t.Name, 4)
		w.u32(t.Kind)
		off += (align - off%align) % align
		t.Offset = off
		w.mark("toffset", t.Name, 8)
		w.u64(off)
		off += uint64(len(t.Data))
	}
	pad := func() {
		for uint64(len(w.b))%align != 0 {
			w.b = append(w.b, 0)
		}
	}
	dataStart := len(w.b)
	if len(f.Tensors) > 0 {
		pad()
		dataStart = len(w.b)
		for _, t := range f.Tensors {
			pad()
			w.b = append(w.b, t.Data...)
		}
	}
	return w.b, w.fields, dataStart, nil
}

// Bytes is Build without the field map; it panics on a malformed description.
func (f *GFile) Bytes() []byte {
	b, _, _, err := f.Build()
	if err != nil {
		panic(err)
	}
	return b
}

// GParsed is what the independent reader extracts from a (little-endian, v2/v3) file.
type GParsed struct {
	Version   uint32
	KVs       []GKV
	Tensors   []GTensor // Data nil; Offset relative
	HeaderEnd int       // first byte after the last tensor info
	Alignment uint64
	DataStart int // HeaderEnd rounded up to Alignment
}

type gr struct {
	b   []byte
	p   int
	err error
}

func (r *gr) need(n int) bool {
	if r.err != nil {
		return false
	}
	if n < 0 || r.p+n > len(r.b) {
		r.err = errors.New("verifkit: short gguf")
		return false
	}
	return true
}
func (r *gr) u8() uint8 {
	if !r.need(1) {
		return 0
	}
	r.p++
	return r.b[r.p-1]
}
func (r *gr) u16() uint16 {
	if !r.need(2) {
		return 0
	}
	r.p += 2
	return binary.LittleEndian.Uint16(r.b[r.p-2:])
}
func (r *gr) u32() uint32 {
	if !r.need(4) {
		return 0
	}
	r.p += 4
	return binary.LittleEndian.Uint32(r.b[r.p-4:])
}
func (r *gr) u64() uint64 {
	if !r.need(8) {
		return 0
	}
	r.p += 8
	return binary.LittleEndian.Uint64(r.b[r.p-8:])
}
func (r *gr) str() string {
	n := r.u64()
	if n > uint64(len(r.b)) || !r.need(int(n)) {
		if r.err == nil {
			r.err = errors.New("verifkit: bad string length")
		}
		return ""
	}
	r.p += int(n)
	return string(r.b[r.p-int(n) : r.p])
}
func (r *gr) scalar(t uint32) any {
	switch t {
	case GU8:
		return r.u8()
	case GI8:
		return int8(r.u8())
	case GU16:
		return r.u16()
	case GI16:
		return int16(r.u16())
	case GU32:
		return r.u32()
	case GI32:
		return int32(r.u32())
	case GF32:
		return math.Float32frombits(r.u32())
	case GBool:
		return r.u8() != 0
	case GStr:
		return r.str()
	case GU64:
		return r.u64()
	case GI64:
		return int64(r.u64())
	case GF64:
		return math.Float64frombits(r.u64())
	}
	r.err = fmt.Errorf("verifkit: bad type %d", t)
	return nil
}

// ParseGGUF reads the header of a little-endian v2/v3 GGUF file.
func ParseGGUF(b []byte) (*GParsed, error) {
	r := &gr{b: b}
	if !r.need(4) || string(b[:4]) != "GGUF" {
		return nil, errors.New("verifkit: bad magic")
	}
	r.p = 4
	p := &GParsed{Version: r.u32(), Alignment: 32}
	nt, nkv := r.u64(), r.u64()
	if nt > uint64(len(b)) || nkv > uint64(len(b)) {
		return nil, errors.New("verifkit: counts too large")
	}
	for i := uint64(0); i < nkv && r.err == nil; i++ {
		kv := GKV{Key: r.str()}
		kv.Type = r.u32()
		if kv.Type == GArr {
			a := GArray{Elem: r.u32()}
			n := r.u64()
			if n > uint64(len(b)) {
				return nil, errors.New("verifkit: array too large")
			}
			for j := uint64(0); j < n && r.err == nil; j++ {
				a.Vals = append(a.Vals, r.scalar(a.Elem))
			}
			kv.Val = a
		} else {
			kv.Val = r.scalar(kv.Type)
		}
		if kv.Key == "general.alignment" {
			if v, ok := kv.Val.(uint32); ok {
				p.Alignment = uint64(v)
			}
		}
		p.KVs = append(p.KVs, kv)
	}
	for i := uint64(0); i < nt && r.err == nil; i++ {
		t := GTensor{Name: r.str()}
		nd := r.u32()
		if nd > 16 {
			return nil, errors.New("verifkit: too many dims")
		}
		for j := uint32(0); j < nd; j++ {
			t.Dims = append(t.Dims, r.u64())
		}
		t.Kind = r.u32()
		t.Offset = r.u64()
		p.Tensors = append(p.Tensors, t)
	}
	if r.err != nil {
		return nil, r.err
	}
	p.HeaderEnd = r.p
	p.DataStart = r.p
	if p.Alignment > 0 {
		p.DataStart = r.p + int((p.Alignment-uint64(r.p)%p.Alignment)%p.Alignment)
	}
	return p, nil
}

// WrapPair rewrites, in the built file b, the single dimension of two one-dimensional F32 tensors (index i, and
// the last tensor) so that each byte size on its own fits an int64 while the position reached after skipping all
// tensor data, computed as the decoder does (data start, each tensor preceded by alignment padding), comes to
// 2^64 + target: a decoder that adds the sizes up instead of seeking step by step ends at `target`. It returns
// a description, or "" when the file does not allow it (GGUF v1, tensors of another shape, target too large).
func (f *GFile) WrapPair(b []byte, fields []Field, dataStart int, i int, target uint64) string {
	align := f.Alignment
	if align == 0 {
		align = 32
	}
	j := len(f.Tensors) - 1
	if f.Version == 1 || i < 0 || i >= j || target%4 != 0 {
		return ""
	}
	for _, k := range []int{i, j} {
		if len(f.Tensors[k].Dims) != 1 || f.Tensors[k].Kind != 0 {
			return ""
		}
	}
	up := func(x uint64) uint64 { return x + (align-x%align)%align }
	var rest uint64 // what the other tensors and the padding in front of the last one contribute
	for k := 0; k < j; k++ {
		if k != i {
			rest += up(uint64(len(f.Tensors[k].Data)))
		}
	}
	si := uint64(1)<<63 - align
	sj := target - uint64(dataStart) - rest - si // mod 2^64
	if sj >= 1<<63 || sj%4 != 0 {
		return ""
	}
	put := func(name string, v uint64) bool {
		for _, fl := range fields {
			if fl.What == "dim" && fl.Key == name && fl.Size == 8 && fl.Pos+8 <= len(b) {
				if f.BigEndian {
					binary.BigEndian.PutUint64(b[fl.Pos:], v)
				} else {
					binary.LittleEndian.PutUint64(b[fl.Pos:], v)
				}
				return true
			}
		}
		return false
	}
	if !put(f.Tensors[i].Name, si/4) || !put(f.Tensors[j].Name, sj/4) {
		return ""
	}
	return fmt.Sprintf("dim[%s]=%d;dim[%s]=%d (sizes %d + %d: the end of the tensor data wraps around 2^64 to %d)", f.Tensors[i].Name, si/4, f.Tensors[j].Name, sj/4, si, sj, target)
}
