package verifkit

import (
	"crypto/sha256"
	"encoding/hex"
	"encoding/json"
	"fmt"
	"os"
	"regexp"
	"sort"
	"strconv"
	"strings"
	"sync"
	"time"
)

// Config is what the ./check driver passes to a harness process through the environment.
type Config struct {
	Seed    uint64
	Tier    string // quick | thorough
	Out     string // where the shard report goes
	Shard   int
	NShards int
	Replay  string // replay file, "" when not replaying
}

func Env() Config {
	c := Config{Seed: 1, Tier: "quick", NShards: 1}
	if v := os.Getenv("VERIF_SEED"); v != "" {
		if n, err := strconv.ParseUint(v, 10, 64); err == nil {
			c.Seed = n
		} else if n, err := strconv.ParseInt(v, 10, 64); err == nil {
			c.Seed = uint64(n)
		}
	}
	if v := os.Getenv("VERIF_TIER"); v == "thorough" {
		c.Tier = v
	}
	c.Out = os.Getenv("VERIF_OUT")
	if v := os.Getenv("VERIF_SHARD"); v != "" {
		if a, b, ok := strings.Cut(v, "/"); ok {
			c.Shard, _ = strconv.Atoi(a)
			c.NShards, _ = strconv.Atoi(b)
			if c.NShards < 1 {
				c.NShards = 1
			}
		}
	}
	c.Replay = os.Getenv("VERIF_REPLAY")
	return c
}

// N picks the case count of the current tier. VERIF_SCALE (float) multiplies it (used by drills only).
func (c Config) N(quick, thorough int) int {
	n := quick
	if c.Tier == "thorough" {
		n = thorough
	}
	if v := os.Getenv("VERIF_SCALE"); v != "" {
		if f, err := strconv.ParseFloat(v, 64); err == nil && f > 0 {
			n = int(float64(n) * f)
			if n < 1 {
				n = 1
			}
		}
	}
	return n
}

// Mine says whether case index i belongs to this shard.
func (c Config) Mine(i int) bool { return c.NShards <= 1 || i%c.NShards == c.Shard }

type Violation struct {
	Sig     string `json:"sig"`
	What    string `json:"what"`
	Case    any    `json:"case,omitempty"`
	Witness any    `json:"witness,omitempty"`
}

// Report accumulates what one harness process observed. It is safe for concurrent use.
type Report struct {
	mu           sync.Mutex
	cfg          Config
	start        time.Time
	property     string
	evaluations  int64
	distinct     map[string]struct{}
	samples      []any
	maxSamples   int
	violations   []Violation
	violBySig    map[string]int
	inconclusive []string
	counters     map[string]int64
	extra        map[string]any
	journal      *os.File
	lastCheckpoint time.Time
	budget       float64
	known        []*regexp.Regexp
}

func NewReport(property string) *Report {
	return &Report{
		cfg: Env(), start: time.Now(), lastCheckpoint: time.Now(), property: property,
		distinct: map[string]struct{}{}, violBySig: map[string]int{},
		counters: map[string]int64{}, extra: map[string]any{}, maxSamples: 4,
	}
}

func (r *Report) Cfg() Config { return r.cfg }

func (r *Report) Eval(n int) {
	r.mu.Lock()
	r.evaluations += int64(n)
	due := time.Since(r.lastCheckpoint) > 5*time.Second
	if due {
		r.lastCheckpoint = time.Now()
	}
	r.mu.Unlock()
	if due {
		r.write(false) // partial report: a child that is killed later still leaves what it saw
	}
}

// Enough reports that so many violations were already recorded that exploring further adds nothing
// to the verdict (a violated run need not finish its case list; evidence shows the real counts).
func (r *Report) Enough() bool {
	r.mu.Lock()
	defer r.mu.Unlock()
	if r.known == nil {
		r.known = []*regexp.Regexp{}
		var pats []string
		if json.Unmarshal([]byte(os.Getenv("VERIF_KNOWN_SIGS")), &pats) == nil {
			for _, p := range pats {
				if re, err := regexp.Compile("^(?:" + p + ")$"); err == nil {
					r.known = append(r.known, re)
				}
			}
		}
	}
	n := 0
sigs:
	for sig, c := range r.violBySig {
		for _, re := range r.known {
			if re.MatchString(sig) {
				continue sigs // a listed known finding must not cut the exploration short
			}
		}
		n += c
	}
	return n >= 25
}

// OverBudget is a safety valve for overloaded machines: after VERIF_BUDGET_S seconds (set by the
// driver well below its kill timeout) a harness stops generating further cases. It never influences a
// verdict; the evidence counts only what actually ran and records the truncation.
func (r *Report) OverBudget() bool {
	if r.budget == 0 {
		r.budget = -1
		if v := os.Getenv("VERIF_BUDGET_S"); v != "" {
			if f, err := strconv.ParseFloat(v, 64); err == nil && f > 0 {
				r.budget = f
			}
		}
	}
	if r.budget > 0 && time.Since(r.start).Seconds() > r.budget {
		r.Set("truncated_by_time_budget", true)
		return true
	}
	return false
}

// Distinct records the signature of a non-trivial case; the evidence counts distinct signatures.
func (r *Report) Distinct(sig string) {
	h := sha256.Sum256([]byte(sig))
	k := hex.EncodeToString(h[:7])
	r.mu.Lock()
	r.distinct[k] = struct{}{}
	r.mu.Unlock()
}

// JSONSafe returns v if it marshals to JSON, otherwise its %+v rendering (NaN/Inf floats,
// channels and the like must not make the whole report unwritable).
func JSONSafe(v any) any {
	if v == nil {
		return nil
	}
	b, err := json.Marshal(v)
	if err != nil {
		return fmt.Sprintf("%+v", v)
	}
	return json.RawMessage(b)
}

func (r *Report) Sample(v any) {
	v = JSONSafe(v)
	r.mu.Lock()
	if len(r.samples) < r.maxSamples {
		r.samples = append(r.samples, v)
	}
	r.mu.Unlock()
}

func (r *Report) NeedSample() bool {
	r.mu.Lock()
	defer r.mu.Unlock()
	return len(r.samples) < r.maxSamples
}

func (r *Report) Violate(sig, what string, cas, witness any) {
	r.mu.Lock()
	r.violBySig[sig]++
	if r.violBySig[sig] <= 3 && len(r.violations) < 60 {
		r.violations = append(r.violations, Violation{Sig: sig, What: what, Case: JSONSafe(cas), Witness: JSONSafe(witness)})
	}
	r.mu.Unlock()
}

func (r *Report) Violations() int {
	r.mu.Lock()
	defer r.mu.Unlock()
	n := 0
	for _, c := range r.violBySig {
		n += c
	}
	return n
}

func (r *Report) Inconclusive(what string) {
	r.mu.Lock()
	if len(r.inconclusive) < 50 {
		r.inconclusive = append(r.inconclusive, what)
	}
	r.counters["inconclusive"]++
	r.mu.Unlock()
}

func (r *Report) Count(key string, n int) {
	r.mu.Lock()
	r.counters[key] += int64(n)
	r.mu.Unlock()
}

func (r *Report) Set(key string, v any) {
	r.mu.Lock()
	r.extra[key] = v
	r.mu.Unlock()
}

// Journal overwrites <out>.journal with the description of the case about to run, so that
// a process-fatal event (panic in a foreign goroutine, OOM kill, fatal error) can be attributed.
// A completed write(2) survives process death, so no fsync is needed for the crash model used.
func (r *Report) Journal(desc []byte) {
	if r.cfg.Out == "" {
		return
	}
	if r.journal == nil {
		f, err := os.OpenFile(r.cfg.Out+".journal", os.O_CREATE|os.O_RDWR|os.O_TRUNC, 0o644)
		if err != nil {
			return
		}
		r.journal = f
	}
	r.journal.Truncate(0)
	r.journal.WriteAt(desc, 0)
}

type shardReport struct {
	Property     string           `json:"property"`
	Seed         uint64           `json:"seed"`
	Tier         string           `json:"tier"`
	Shard        int              `json:"shard"`
	NShards      int              `json:"nshards"`
	Evaluations  int64            `json:"evaluations"`
	Distinct     []string         `json:"distinct"`
	Samples      []any            `json:"samples"`
	Violations   []Violation      `json:"violations"`
	ViolBySig    map[string]int   `json:"viol_by_sig"`
	Inconclusive []string         `json:"inconclusive"`
	Counters     map[string]int64 `json:"counters"`
	Extra        map[string]any   `json:"extra"`
	WallS        float64          `json:"wall_s"`
	Complete     bool             `json:"complete"`
}

// Flush writes the shard report. Call it exactly once at the very end of the harness: the driver
// treats a missing or incomplete report as a crashed child.
func (r *Report) Flush() error { return r.write(true) }

func (r *Report) write(complete bool) error {
	r.mu.Lock()
	defer r.mu.Unlock()
	d := make([]string, 0, len(r.distinct))
	for k := range r.distinct {
		d = append(d, k)
	}
	sort.Strings(d)
	sr := shardReport{
		Property: r.property, Seed: r.cfg.Seed, Tier: r.cfg.Tier, Shard: r.cfg.Shard, NShards: r.cfg.NShards,
		Evaluations: r.evaluations, Distinct: d, Samples: r.samples, Violations: r.violations,
		ViolBySig: r.violBySig, Inconclusive: r.inconclusive, Counters: r.counters, Extra: r.extra,
		WallS: time.Since(r.start).Seconds(), Complete: complete,
	}
	b, err := json.MarshalIndent(sr, "", " ")
	if err != nil {
		fmt.Fprintf(os.Stderr, "verifkit: cannot marshal report: %v\n", err)
		return err
	}
	if r.cfg.Out == "" {
		fmt.Fprintf(os.Stderr, "verifkit: VERIF_OUT unset; report:\n%s\n", b)
		return nil
	}
	tmp := r.cfg.Out + ".tmp"
	if err := os.WriteFile(tmp, b, 0o644); err != nil {
		return err
	}
	return os.Rename(tmp, r.cfg.Out)
}

// LoadReplay decodes the "case" member of a replay file into v.
func LoadReplay(path string, v any) error {
	b, err := os.ReadFile(path)
	if err != nil {
		return err
	}
	var w struct {
		Case json.RawMessage `json:"case"`
	}
	if err := json.Unmarshal(b, &w); err != nil {
		return err
	}
	return json.Unmarshal(w.Case, v)
}
